(* Model/Sched.v — the two execution loops of pydra.engine.submitter.Submitter and the per-node
   bookkeeping of NodeExecution, as total functions.  No proofs here.

   What is modelled (pydra/engine/submitter.py):
     NodeExecution.{blocked,queued,running,successful,errored,unrunnable}, .started, .done,
     .update_status, .start, .get_runnable_tasks (the `if True:` branch that is live code),
     Submitter.get_runnable_tasks (sorted scan, `not_started` break, tasks[:max_concurrent]),
     Submitter.expand_workflow (sequential loop, debug worker),
     Submitter.expand_workflow_async (futures set, `futured` de-duplication, the ten-poll stall
     detector, error collection).
   The environment (worker pool, file system, asyncio wake-ups) is an oracle: at each
   `fetch_finished` it says which pending futures complete (at least one) and which of the
   still pending jobs have their lock file present at the next poll.
   Job bodies are an uninterpreted function of (node, index, values read from the predecessors'
   results when the node was started); which jobs fail is a fixed predicate.

   Two switches select the code before/after the repairs F14 and F16 (see design/C14.md, C16.md):
     fix14 = the `job.done` probe in the running-jobs loop of update_status is wrapped in try/except
     fix16 = a job is only launched while fewer than max_concurrent futures are pending          *)
From Pydra Require Import Base.Prelude Base.SchedBase.
Local Open Scope nat_scope.

Record variant := mkVariant { fix14 : bool; fix16 : bool }.
Definition pinned : variant := mkVariant false false.    (* the tree as pinned *)
Definition repaired : variant := mkVariant true true.    (* after the fix: commits *)

Section Sched.
Variable V : Type.
(* value computed by job (node, index) from, per predecessor node, the outputs of its jobs *)
Variable body : nat -> nat -> list (list (option V)) -> V.
Variable fails : job -> bool.
Variable vr : variant.
Variable g : graph.
Variable kmax : option nat.                        (* max_concurrent; None = float("inf") *)

(* ---------------------------------------------------------------- the outside world *)
Record world := mkW {
  results : list (job * option V);   (* _result.pklz files: Some v = success, None = errored *)
  visible : list job                 (* lock files present (job seen as running) *)
}.
Fixpoint lookup (j : job) (r : list (job * option V)) : option (option V) :=
  match r with
  | [] => None
  | (j', v) :: r' => if job_eqb j j' then Some v else lookup j r'
  end.
Inductive probe := PNone | POk | PErr.
(* Job.done: True / raises ValueError / False *)
Definition probe_job (w : world) (j : job) : probe :=
  match lookup j (results w) with Some (Some _) => POk | Some None => PErr | None => PNone end.
Definition is_ok (w : world) (j : job) : bool := match probe_job w j with POk => true | _ => false end.
Definition is_err (w : world) (j : job) : bool := match probe_job w j with PErr => true | _ => false end.
Definition is_none (w : world) (j : job) : bool := match probe_job w j with PNone => true | _ => false end.
Definition value_of (w : world) (j : job) : option V :=
  match lookup j (results w) with Some (Some v) => Some v | _ => None end.

(* ---------------------------------------------------------------- NodeExecution *)
Record nstate := mkNS {
  started_flag : bool;               (* blocked is not None *)
  blocked : list nat; queued : list nat; running : list nat;
  successful : list nat; errored : list nat;
  unrunnable : bool;                 (* the unrunnable dict is non-empty *)
  ninputs : list (list (option V))   (* lazy inputs resolved by start() *)
}.
Definition ns0 : nstate := mkNS false [] [] [] [] [] false [].
Definition nstates := nat -> nstate.
Definition set_ns (st : nstates) (n : nat) (s : nstate) : nstates :=
  fun m => if m =? n then s else st m.

(* NodeExecution.started *)
Definition is_started (s : nstate) : bool :=
  negb (is_nil (successful s)) || negb (is_nil (errored s)) || unrunnable s
  || negb (is_nil (queued s)) || started_flag s.

(* NodeExecution.update_status; the bool is "an exception escaped" (only when fix14 = false) *)
Definition update_ns (w : world) (n : nat) (s : nstate) : nstate * bool :=
  if negb (is_started s) then (s, false) else
  let q := queued s in
  let vis i := is_none w (n, i) && mem_job (n, i) (visible w) in
  let succ1 := successful s ++ filter (fun i => is_ok w (n, i)) q in
  let err1 := errored s ++ filter (fun i => is_err w (n, i)) q in
  let run1 := running s ++ filter vis q in
  let q1 := filter (fun i => is_none w (n, i) && negb (mem_job (n, i) (visible w))) q in
  if fix14 vr then
    (mkNS (started_flag s) (blocked s) q1
          (filter (fun i => is_none w (n, i)) run1)
          (succ1 ++ filter (fun i => is_ok w (n, i)) run1)
          (err1 ++ filter (fun i => is_err w (n, i)) run1)
          (unrunnable s) (ninputs s), false)
  else
    (* `if job.done:` re-raises ValueError for a failed running job: everything after the first
       failed one is not processed; the caller aborts, so only the flag matters *)
    (mkNS (started_flag s) (blocked s) q1
          (filter (fun i => negb (is_ok w (n, i))) run1)
          (succ1 ++ filter (fun i => is_ok w (n, i)) run1)
          err1 (unrunnable s) (ninputs s),
     existsb (fun i => is_err w (n, i)) run1).

(* NodeExecution.done, evaluated on an updated state *)
Definition done_ns (s : nstate) : bool :=
  is_started s && is_nil (queued s) && is_nil (blocked s) && is_nil (running s).

(* what the harness records after each call of Submitter.get_runnable_tasks *)
Definition nsnap := (bool * list nat * list nat * list nat * list nat * list nat * bool)%type.
Definition snap_ns (s : nstate) : nsnap :=
  (started_flag s, blocked s, queued s, running s, successful s, errored s, unrunnable s).

Record sstate := mkSS {
  nst : nstates;
  raised : bool;
  polls : list (list job * list nsnap)   (* log only (never read by the algorithm), reversed *)
}.
Definition update (w : world) (ss : sstate) (n : nat) : sstate :=
  let '(s, r) := update_ns w n (nst ss n) in mkSS (set_ns (nst ss) n s) (raised ss || r) (polls ss).

(* all(p.done for p in predecessors): updates each probed predecessor, stops at the first not done *)
Fixpoint all_done (w : world) (ss : sstate) (ps : list nat) : sstate * bool :=
  match ps with
  | [] => (ss, true)
  | p :: r => let ss1 := update w ss p in
              if done_ns (nst ss1 p) then all_done w ss1 r else (ss1, false)
  end.

(* NodeExecution.start: one Job per state index, lazy inputs read from the predecessors' results *)
Definition start_ns (w : world) (nd : node) (s : nstate) : nstate :=
  mkNS true (seq 0 (njobs nd)) (queued s) (running s) (successful s) (errored s) (unrunnable s)
       (map (fun p => map (fun i => value_of w (p, i)) (seq 0 (njobs_of g p))) (npreds nd)).

(* NodeExecution.get_runnable_tasks: returns list(self.queued.values()) *)
Definition node_runnable (w : world) (ss : sstate) (nd : node) : sstate * list job :=
  let n := nid nd in
  if existsb (fun p => negb (is_nil (errored (nst ss p))) || unrunnable (nst ss p)) (npreds nd) then
    let s := nst ss n in
    let s1 := mkNS true [] (queued s) (running s) (successful s) (errored s) true (ninputs s) in
    let ss1 := update w (mkSS (set_ns (nst ss) n s1) (raised ss) (polls ss)) n in      (* assert self.done *)
    (ss1, map (fun i => (n, i)) (queued (nst ss1 n)))
  else
    let '(ss1, alld) := all_done w ss (npreds nd) in
    if alld then
      let s := nst ss1 n in
      let s1 := if is_started s then s else start_ns w nd s in
      let s2 := mkNS (started_flag s1) [] (queued s1 ++ blocked s1) (running s1) (successful s1)
                     (errored s1) (unrunnable s1) (ninputs s1) in
      (mkSS (set_ns (nst ss1) n s2) (raised ss1) (polls ss1), map (fun i => (n, i)) (queued s2))
    else (ss1, map (fun i => (n, i)) (queued (nst ss1 n))).

(* Submitter.get_runnable_tasks: scan of graph.sorted_nodes *)
Fixpoint scan (w : world) (nodes : list node) (ss : sstate) (not_started : list nat) (acc : list job)
  : sstate * list job :=
  match nodes with
  | [] => (ss, acc)
  | nd :: rest =>
      let ss1 := update w ss (nid nd) in
      if done_ns (nst ss1 (nid nd)) then scan w rest ss1 not_started acc
      else if existsb (fun p => mem_nat p not_started) (npreds nd) then (ss1, acc)      (* break *)
      else
        let ns' := if is_started (nst ss1 (nid nd)) then not_started else nid nd :: not_started in
        let '(ss2, tl) := node_runnable w ss1 nd in
        scan w rest ss2 ns' (acc ++ tl)
  end.
Definition truncate (l : list job) : list job :=
  match kmax with None => l | Some k => firstn k l end.
Definition poll (w : world) (ss : sstate) : sstate * list job :=
  let '(ss1, tasks) := scan w g ss [] [] in
  let t := truncate tasks in
  (mkSS (nst ss1) (raised ss1) ((t, map (fun nd => snap_ns (nst ss1 (nid nd))) g) :: polls ss1), t).

(* any(not n.done for n in exec_graph.nodes): evaluated on updated copies (update_status is idempotent
   for a frozen world and a no-op on nodes that are not started; Proofs/Sched.v, update_ns_idem) *)
Definition any_not_done (w : world) (ss : sstate) : bool :=
  existsb (fun nd => negb (done_ns (fst (update_ns w (nid nd) (nst ss (nid nd)))))) g.

(* ---------------------------------------------------------------- the asynchronous loop *)

Record oracle_step := mkStep { comps : list nat; visbits : list bool }.

Record lstate := mkLS {
  ls_ss : sstate;
  ls_w : world;
  ls_tasks : list job;               (* result of the last poll *)
  ls_futured : list job;             (* keys of `futured`, launch order *)
  ls_pending : list job;             (* task_futures, launch order *)
  ls_errors : list job;              (* jobs named in `errors` *)
  ls_trace : list event;             (* reversed *)
  ls_iters : list (list job * list job)  (* per loop iteration: (tasks polled, jobs launched), reversed *)
}.

Inductive status := Finished | Raised | Stalled | OutOfFuel.
Record outcome := mkOut { o_status : status; o_final : lstate }.

Definition below_limit (pending : list job) : bool :=
  if fix16 vr then match kmax with None => true | Some k => List.length pending <? k end else true.

(* for job in tasks: ... elif job.checksum not in futured: launch *)
Fixpoint launch (tasks : list job) (fut pend : list job) (tr : list event) (acc : list job)
  : list job * list job * list event * list job :=
  match tasks with
  | [] => (fut, pend, tr, acc)
  | j :: r =>
      if negb (mem_job j fut) && below_limit pend
      then launch r (fut ++ [j]) (pend ++ [j]) (ELaunch j :: tr) (acc ++ [j])
      else launch r fut pend tr acc
  end.

Definition job_result (ss : sstate) (j : job) : option V :=
  if fails j then None else Some (body (fst j) (snd j) (ninputs (nst ss (fst j)))).

(* completions chosen by the oracle among the pending futures (launch order), one after the other *)
Fixpoint complete (cs : list nat) (ss : sstate) (res : list (job * option V)) (pend errs : list job)
         (tr : list event) : list (job * option V) * list job * list job * list event :=
  match cs with
  | [] => (res, pend, errs, tr)
  | c :: r =>
      match pend with
      | [] => (res, pend, errs, tr)
      | j0 :: _ =>
          let i := c mod List.length pend in
          let j := nth i pend j0 in
          let v := job_result ss j in
          complete r ss (res ++ [(j, v)]) (remove_nth i pend)
                   (match v with None => errs ++ [j] | Some _ => errs end)
                   (EFinish j (match v with None => false | Some _ => true end) :: tr)
      end
  end.

Definition apply_step (o : oracle_step) (ss : sstate) (w : world) (pend errs : list job) (tr : list event)
  : world * list job * list job * list event :=
  let cs := match comps o with [] => [0] | l => l end in
  let '(res, pend1, errs1, tr1) := complete cs ss (results w) pend errs tr in
  (mkW res (map fst (filter snd (combine pend1 (visbits o)))), pend1, errs1, tr1).

(* the `if not tasks and not task_futures:` block: poll up to 11 times, then RuntimeError *)
Fixpoint stall_loop (n : nat) (w : world) (ss : sstate) (tasks : list job) : sstate * list job * bool :=
  match n with
  | 0 => (ss, tasks, true)
  | S n' =>
      if is_nil tasks && any_not_done w ss && negb (raised ss) then
        let '(ss1, t1) := poll w ss in
        match n' with
        | 0 => (ss1, t1, true)                           (* ii > 10: raise *)
        | _ => stall_loop n' w ss1 t1
        end
      else (ss, tasks, false)
  end.

Definition loop_cond (ls : lstate) : bool :=
  negb (is_nil (ls_tasks ls)) || negb (is_nil (ls_pending ls)) || any_not_done (ls_w ls) (ls_ss ls).

Inductive step_result := Continue (ls : lstate) | Stop (st : status) (ls : lstate).

Definition async_step (o : oracle_step) (ls : lstate) : step_result :=
  if raised (ls_ss ls) then Stop Raised ls else
  if negb (loop_cond ls) then Stop Finished ls else
  let '(ss1, tasks1, stalled) :=
    if is_nil (ls_tasks ls) && is_nil (ls_pending ls)
    then stall_loop 11 (ls_w ls) (ls_ss ls) (ls_tasks ls)
    else (ls_ss ls, ls_tasks ls, false) in
  let ls1 := mkLS ss1 (ls_w ls) tasks1 (ls_futured ls) (ls_pending ls) (ls_errors ls) (ls_trace ls) (ls_iters ls) in
  if raised ss1 then Stop Raised ls1 else
  if stalled then Stop Stalled ls1 else
  let '(fut, pend, tr, launched) := launch tasks1 (ls_futured ls) (ls_pending ls) (ls_trace ls) [] in
  let '(w2, pend2, errs2, tr2) :=
    match pend with
    | [] => (ls_w ls, pend, ls_errors ls, tr)            (* asyncio.wait(set()) -> nothing *)
    | _ => apply_step o ss1 (ls_w ls) pend (ls_errors ls) tr
    end in
  let '(ss3, tasks3) := poll w2 ss1 in
  Continue (mkLS ss3 w2 tasks3 fut pend2 errs2 tr2 ((tasks1, launched) :: ls_iters ls)).

Definition default_step : oracle_step := mkStep [0] [].

Fixpoint run_loop (fuel : nat) (orc : list oracle_step) (ls : lstate) : outcome :=
  match fuel with
  | 0 => mkOut OutOfFuel ls
  | S f =>
      let '(o, rest) := match orc with [] => (default_step, []) | o :: r => (o, r) end in
      match async_step o ls with
      | Stop st ls' => mkOut st ls'
      | Continue ls' => run_loop f rest ls'
      end
  end.

Definition ss_init : sstate := mkSS (fun _ => ns0) false [].
Definition w_init : world := mkW [] [].
Definition ls_init : lstate :=
  let '(ss, tasks) := poll w_init ss_init in mkLS ss w_init tasks [] [] [] [] [].
Definition run_async (orc : list oracle_step) (fuel : nat) : outcome := run_loop fuel orc ls_init.

(* The same loop started over a cache that already holds results (a second submission of the workflow with
   rerun=True: every launched job is re-executed, but until its re-execution has replaced it the old result
   is what Job.done sees).  w0 = the content of the cache.  Only the order of events is meaningful here:
   the re-computed value is appended behind the stale one. *)
Definition ls_init_warm (w0 : world) : lstate :=
  let '(ss, tasks) := poll w0 ss_init in mkLS ss w0 tasks [] [] [] [] [].
Definition run_async_warm (w0 : world) (orc : list oracle_step) (fuel : nat) : outcome :=
  run_loop fuel orc (ls_init_warm w0).

(* ---------------------------------------------------------------- the sequential loop (debug worker)
   for job in tasks: worker.run(job)  — runs to completion; a failing job raises out of the loop.  *)
Fixpoint run_tasks (tasks : list job) (ss : sstate) (w : world) (errs : list job) (tr : list event)
         (acc : list job) : world * list job * list event * list job * bool :=
  match tasks with
  | [] => (w, errs, tr, acc, false)
  | j :: r =>
      (* Job.run returns the cached result when one exists and is not errored *)
      if is_ok w j then run_tasks r ss w errs tr acc
      else
        let v := job_result ss j in
        let w1 := mkW (results w ++ [(j, v)]) [] in
        match v with
        | None => (w1, errs ++ [j], EFinish j false :: ELaunch j :: tr, acc ++ [j], true)
        | Some _ => run_tasks r ss w1 errs (EFinish j true :: ELaunch j :: tr) (acc ++ [j])
        end
  end.

(* ls_errors: the job whose exception propagates out of expand_workflow (there is no error list in
   the sequential loop; the field only records which job that was) *)
Definition sync_step (ls : lstate) : step_result :=
  if raised (ls_ss ls) then Stop Raised ls else
  if negb (negb (is_nil (ls_tasks ls)) || any_not_done (ls_w ls) (ls_ss ls)) then Stop Finished ls else
  let '(w1, errs1, tr1, launched, failed) :=
    run_tasks (ls_tasks ls) (ls_ss ls) (ls_w ls) (ls_errors ls) (ls_trace ls) [] in
  let ls1 := mkLS (ls_ss ls) w1 (ls_tasks ls) (ls_futured ls ++ launched) [] errs1 tr1
                  ((ls_tasks ls, launched) :: ls_iters ls) in
  if failed then Stop Raised ls1 else
  let '(ss2, tasks2) := poll w1 (ls_ss ls) in
  Continue (mkLS ss2 w1 tasks2 (ls_futured ls1) [] errs1 tr1 (ls_iters ls1)).

Fixpoint run_sync_loop (fuel : nat) (ls : lstate) : outcome :=
  match fuel with
  | 0 => mkOut OutOfFuel ls
  | S f => match sync_step ls with
           | Stop st ls' => mkOut st ls'
           | Continue ls' => run_sync_loop f ls'
           end
  end.
Definition run_sync (fuel : nat) : outcome := run_sync_loop fuel ls_init.

(* ---------------------------------------------------------------- observations *)
Definition launches (o : outcome) : list job :=
  flat_map (fun e => match e with ELaunch j => [j] | _ => [] end) (rev (ls_trace (o_final o))).
Definition event_log (o : outcome) : list event := rev (ls_trace (o_final o)).
Definition outputs (o : outcome) : list (job * option V) := results (ls_w (o_final o)).
Definition iterations (o : outcome) : list (list job * list job) := rev (ls_iters (o_final o)).
Definition poll_log (o : outcome) : list (list job * list nsnap) := rev (polls (ls_ss (o_final o))).
Definition finished (o : outcome) : list job :=
  flat_map (fun e => match e with EFinish j _ => [j] | _ => [] end) (rev (ls_trace (o_final o))).
Definition error_names (o : outcome) : list job := ls_errors (o_final o).
Definition node_outputs (o : outcome) : list (list (option V)) :=
  map (fun nd => map (fun i => value_of (ls_w (o_final o)) (nid nd, i)) (seq 0 (njobs nd))) g.

End Sched.

Arguments mkW {V}.
Arguments results {V}.
Arguments visible {V}.
Arguments lookup {V}.
Arguments probe_job {V}.
Arguments is_ok {V}.
Arguments is_err {V}.
Arguments is_none {V}.
Arguments value_of {V}.
Arguments mkNS {V}.
Arguments started_flag {V}.
Arguments blocked {V}.
Arguments queued {V}.
Arguments running {V}.
Arguments successful {V}.
Arguments errored {V}.
Arguments unrunnable {V}.
Arguments ninputs {V}.
Arguments set_ns {V}.
Arguments is_started {V}.
Arguments update_ns {V}.
Arguments done_ns {V}.
Arguments snap_ns {V}.
Arguments mkSS {V}.
Arguments nst {V}.
Arguments raised {V}.
Arguments polls {V}.
Arguments update {V}.
Arguments all_done {V}.
Arguments start_ns {V}.
Arguments node_runnable {V}.
Arguments scan {V}.
Arguments poll {V}.
Arguments any_not_done {V}.
Arguments mkLS {V}.
Arguments ls_ss {V}.
Arguments ls_w {V}.
Arguments ls_tasks {V}.
Arguments ls_futured {V}.
Arguments ls_pending {V}.
Arguments ls_errors {V}.
Arguments ls_trace {V}.
Arguments ls_iters {V}.
Arguments mkOut {V}.
Arguments o_status {V}.
Arguments o_final {V}.
Arguments job_result {V}.
Arguments complete {V}.
Arguments apply_step {V}.
Arguments stall_loop {V}.
Arguments loop_cond {V}.
Arguments Continue {V}.
Arguments Stop {V}.
Arguments async_step {V}.
Arguments run_loop {V}.
Arguments run_tasks {V}.
Arguments sync_step {V}.
Arguments run_sync_loop {V}.
Arguments launches {V}.
Arguments outputs {V}.
Arguments iterations {V}.
Arguments poll_log {V}.
Arguments finished {V}.
Arguments error_names {V}.
Arguments node_outputs {V}.
Arguments event_log {V}.
Arguments ls_init_warm {V}.

(* ---------------------------------------------------------------- concrete instance used by the
   correspondence run: the harness's task body returns the tree [nid, x, inputs...] *)
Inductive tv := T (n i : nat) (ins : list (list (option tv))).

Fixpoint tv_eqb (a b : tv) {struct a} : bool :=
  match a, b with
  | T n i ins, T n' i' ins' =>
      (n =? n') && (i =? i') &&
      (fix outer (x y : list (list (option tv))) {struct x} : bool :=
         match x, y with
         | [], [] => true
         | u :: x', v :: y' =>
             (fix inner (p q : list (option tv)) {struct p} : bool :=
                match p, q with
                | [], [] => true
                | Some s :: p', Some t :: q' => tv_eqb s t && inner p' q'
                | None :: p', None :: q' => inner p' q'
                | _, _ => false
                end) u v && outer x' y'
         | _, _ => false
         end) ins ins'
  end.

Definition fails_of (l : list job) : job -> bool := fun j => mem_job j l.
Definition status_code (s : status) : nat :=
  match s with Finished => 0 | Raised => 1 | Stalled => 2 | OutOfFuel => 3 end.

Definition sub_list {A} (eqb : A -> A -> bool) (a b : list A) : bool :=
  forallb (fun x => existsb (eqb x) b) a.
Definition same_set {A} (eqb : A -> A -> bool) (a b : list A) : bool :=
  (List.length a =? List.length b) && sub_list eqb a b && sub_list eqb b a.
Definition jobs_eqb := list_eqb job_eqb.
Definition nsnap_eqb (a b : nsnap) : bool :=
  let '(s, bl, q, r, su, e, u) := a in
  let '(s', bl', q', r', su', e', u') := b in
  Bool.eqb s s' && same_set Nat.eqb bl bl' && same_set Nat.eqb q q' && same_set Nat.eqb r r'
  && same_set Nat.eqb su su' && same_set Nat.eqb e e' && Bool.eqb u u'.
Definition poll_eqb (a b : list job * list nsnap) : bool :=
  jobs_eqb (fst a) (fst b) && list_eqb nsnap_eqb (snd a) (snd b).
Definition iter_eqb (a b : list job * list job) : bool :=
  jobs_eqb (fst a) (fst b) && jobs_eqb (snd a) (snd b).
Definition outs_eqb (a b : list (list (option tv))) : bool :=
  list_eqb (list_eqb (option_eqb tv_eqb)) a b.
