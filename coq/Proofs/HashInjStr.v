(* Proofs/HashInjStr.v — string-level facts behind C08_ser_injective: what each bytes_repr format allows one
   to read back.  Length-prefixed str/bytes/long, fixed-width int/float, fixed-width (16 byte) child digests,
   class-name prefixes without ':'. *)
From Coq Require Import DecimalNat DecimalZ DecimalString.
From Pydra Require Import Base.Prelude Model.Hash.
Local Open Scope list_scope.
Local Open Scope string_scope.

(* ------------------------------------------------------------------ generic *)
Lemma slen_app : forall a b, String.length (a ++ b) = String.length a + String.length b.
Proof. induction a as [|c a IH]; intros b; cbn; [reflexivity|now rewrite IH]. Qed.

Lemma sapp_assoc : forall a b c : string, (a ++ b) ++ c = a ++ (b ++ c).
Proof. induction a as [|x a IH]; intros; cbn; [reflexivity|now rewrite IH]. Qed.

Lemma sapp_nil_r : forall a : string, a ++ "" = a.
Proof. induction a as [|x a IH]; cbn; [reflexivity|now rewrite IH]. Qed.

Lemma sapp_len_inj : forall a a' b b', String.length a = String.length a' -> a ++ b = a' ++ b' -> a = a' /\ b = b'.
Proof.
  induction a as [|c a IH]; intros [|c' a'] b b' Hl E; cbn in *; try discriminate; [auto|].
  inversion E; subst. destruct (IH a' b b') as [-> ->]; auto.
Qed.

Lemma sapp_inv_head : forall a b b' : string, a ++ b = a ++ b' -> b = b'.
Proof. intros a b b' E. now destruct (sapp_len_inj a a b b' eq_refl E). Qed.

Fixpoint nocolon (s : string) : bool :=
  match s with EmptyString => true | String c r => negb (Ascii.eqb c ":") && nocolon r end.
Fixpoint has_dot (s : string) : bool :=
  match s with EmptyString => false | String c r => Ascii.eqb c "." || has_dot r end.
Fixpoint starts (p s : string) : bool :=
  match p with
  | EmptyString => true
  | String a p' => match s with EmptyString => false | String b s' => Ascii.eqb a b && starts p' s' end
  end.
(* the part before the first ':' (the whole string when there is none) and the part after it *)
Fixpoint tok (s : string) : string :=
  match s with EmptyString => "" | String c r => if Ascii.eqb c ":" then "" else String c (tok r) end.
Fixpoint after (s : string) : option string :=
  match s with EmptyString => None | String c r => if Ascii.eqb c ":" then Some r else after r end.

Lemma tok_app : forall a b, nocolon a = true -> tok (a ++ String ":" b) = a.
Proof.
  induction a as [|c a IH]; intros b Hn; cbn in *; [reflexivity|].
  apply andb_true_iff in Hn. destruct Hn as [Hc Hn]. apply negb_true_iff in Hc. rewrite Hc. now rewrite IH.
Qed.
Lemma after_app : forall a b, nocolon a = true -> after (a ++ String ":" b) = Some b.
Proof.
  induction a as [|c a IH]; intros b Hn; cbn in *; [reflexivity|].
  apply andb_true_iff in Hn. destruct Hn as [Hc Hn]. apply negb_true_iff in Hc. rewrite Hc. now rewrite IH.
Qed.
Lemma colon_split_inj : forall a a' b b', nocolon a = true -> nocolon a' = true ->
    a ++ String ":" b = a' ++ String ":" b' -> a = a' /\ b = b'.
Proof.
  intros a a' b b' Ha Ha' E. split.
  - rewrite <- (tok_app a b Ha), <- (tok_app a' b' Ha'). now rewrite E.
  - assert (Some b = Some b') by (rewrite <- (after_app a b Ha), <- (after_app a' b' Ha'); now rewrite E). congruence.
Qed.
Lemma after_nocolon : forall s, nocolon s = true -> after s = None.
Proof.
  induction s as [|c s IH]; cbn; intros Hn; [reflexivity|].
  apply andb_true_iff in Hn. destruct Hn as [Hc Hn]. apply negb_true_iff in Hc. rewrite Hc. auto.
Qed.

(* ------------------------------------------------------------------ decimal lengths *)
Lemma uint_nocolon : forall d, nocolon (NilEmpty.string_of_uint d) = true.
Proof. induction d; cbn; auto. Qed.
Lemma dec_nat_nocolon : forall n, nocolon (dec_nat n) = true.
Proof. intros n. apply uint_nocolon. Qed.
Lemma dec_nat_inj : forall n m, dec_nat n = dec_nat m -> n = m.
Proof.
  intros n m E. unfold dec_nat in E.
  assert (E2 : Some (Nat.to_uint n) = Some (Nat.to_uint m)) by (rewrite <- !NilEmpty.usu; now rewrite E).
  inversion E2 as [E3]. rewrite <- (DecimalNat.Unsigned.of_to n), <- (DecimalNat.Unsigned.of_to m). now rewrite E3.
Qed.
Lemma dec_Z_inj : forall a b, dec_Z a = dec_Z b -> a = b.
Proof.
  intros a b E. unfold dec_Z in E.
  assert (E2 : Some (Z.to_int a) = Some (Z.to_int b)) by (rewrite <- !NilEmpty.isi; now rewrite E).
  inversion E2 as [E3]. rewrite <- (DecimalZ.of_to a), <- (DecimalZ.of_to b). now rewrite E3.
Qed.

(* "<n>:<n bytes>" is self-delimiting *)
Lemma lenpref_inj : forall s s' x y,
    dec_nat (String.length s) ++ String ":" (s ++ x) = dec_nat (String.length s') ++ String ":" (s' ++ y) ->
    s = s' /\ x = y.
Proof.
  intros s s' x y E. apply colon_split_inj in E; try apply dec_nat_nocolon.
  destruct E as [En E]. apply dec_nat_inj in En. now apply sapp_len_inj.
Qed.

(* ------------------------------------------------------------------ struct.pack("<q") *)
Lemma le_bytes_len : forall n u, String.length (le_bytes n u) = n.
Proof. induction n; intros; cbn; auto. Qed.

Lemma ascii_of_N_inj : forall a b, (a < 256)%N -> (b < 256)%N -> ascii_of_N a = ascii_of_N b -> a = b.
Proof. intros a b Ha Hb E. rewrite <- (N_ascii_embedding a Ha), <- (N_ascii_embedding b Hb). now rewrite E. Qed.

Lemma le_bytes_inj : forall n u v, le_bytes n u = le_bytes n v -> (u mod 256 ^ Z.of_nat n = v mod 256 ^ Z.of_nat n)%Z.
Proof.
  induction n as [|n IH]; intros u v E.
  - cbn. now rewrite !Z.mod_1_r.
  - cbn [le_bytes] in E. inversion E as [[E1 E2]]. apply IH in E2.
    apply ascii_of_N_inj in E1.
    + assert (Hm : (u mod 256 = v mod 256)%Z).
      { rewrite <- (Z2N.id (u mod 256)), <- (Z2N.id (v mod 256)); [now rewrite E1| |];
          apply Z.mod_pos_bound; lia. }
      rewrite Nat2Z.inj_succ, Z.pow_succ_r by lia.
      assert (Hp : (0 < 256 ^ Z.of_nat n)%Z) by (apply Z.pow_pos_nonneg; lia).
      rewrite (Z.rem_mul_r u 256 (256 ^ Z.of_nat n)) by lia.
      rewrite (Z.rem_mul_r v 256 (256 ^ Z.of_nat n)) by lia.
      now rewrite Hm, E2.
    + assert (0 <= u mod 256 < 256)%Z by (apply Z.mod_pos_bound; lia). lia.
    + assert (0 <= v mod 256 < 256)%Z by (apply Z.mod_pos_bound; lia). lia.
Qed.

Lemma pack_q_len : forall z, String.length (pack_q z) = 8.
Proof. intros. apply le_bytes_len. Qed.

Lemma pack_q_inj : forall a b, fits_q a = true -> fits_q b = true -> pack_q a = pack_q b -> a = b.
Proof.
  intros a b Ha Hb E. unfold pack_q in E. apply le_bytes_inj in E.
  change (256 ^ Z.of_nat 8)%Z with 18446744073709551616%Z in E.
  rewrite !Z.mod_mod in E by lia.
  unfold fits_q in *. apply andb_true_iff in Ha, Hb. destruct Ha as [Ha1 Ha2], Hb as [Hb1 Hb2].
  apply Z.leb_le in Ha1, Hb1. apply Z.ltb_lt in Ha2, Hb2.
  pose proof (Z.div_mod a 18446744073709551616 ltac:(lia)) as Da.
  pose proof (Z.div_mod b 18446744073709551616 ltac:(lia)) as Db.
  pose proof (Z.mod_pos_bound a 18446744073709551616 ltac:(lia)).
  pose proof (Z.mod_pos_bound b 18446744073709551616 ltac:(lia)).
  lia.
Qed.

(* ------------------------------------------------------------------ digests are 16 bytes *)
Lemma take_len : forall n s, n <= String.length s -> String.length (take n s) = n.
Proof.
  induction n as [|n IH]; intros s Hl; [reflexivity|]. destruct s as [|c s]; cbn in *; [lia|]. rewrite IH; lia.
Qed.
Lemma zeros_len : forall n, String.length (zeros n) = n.
Proof. induction n; cbn; auto. Qed.
Lemma fix16_len : forall s, String.length (fix16 s) = 16.
Proof. intros s. unfold fix16. apply take_len. rewrite slen_app, zeros_len. lia. Qed.
Lemma D_len : forall H s, String.length (D H s) = 16.
Proof. intros. apply fix16_len. Qed.

(* a concatenation of 16-byte blocks followed by a 1-byte closing bracket *)
Lemma concat16_inj : forall (c : string) ds ds',
    String.length c = 1 ->
    Forall (fun d => String.length d = 16) ds -> Forall (fun d => String.length d = 16) ds' ->
    concat_str ds ++ c = concat_str ds' ++ c -> ds = ds'.
Proof.
  intros c ds. induction ds as [|d ds IH]; intros ds' Hc H1 H2 E.
  - destruct ds' as [|d' ds']; [reflexivity|]. exfalso. cbn in E.
    inversion H2; subst. apply (f_equal String.length) in E. rewrite !slen_app in E. lia.
  - destruct ds' as [|d' ds'].
    + exfalso. cbn in E. inversion H1; subst. apply (f_equal String.length) in E. rewrite !slen_app in E. lia.
    + inversion H1; subst. inversion H2; subst. cbn in E. rewrite !sapp_assoc in E.
      apply sapp_len_inj in E; [|congruence]. destruct E as [-> E]. f_equal. apply IH; auto.
Qed.

(* ------------------------------------------------------------------ repr of a shape tuple: "()", "(6,)", "(2, 3)" *)
Definition isdigit (c : ascii) : bool := let n := nat_of_ascii c in Nat.leb 48 n && Nat.leb n 57.
Fixpoint alldigit (s : string) : bool :=
  match s with EmptyString => true | String c r => isdigit c && alldigit r end.
Definition starts_nondigit (s : string) : bool :=
  match s with EmptyString => false | String c _ => negb (isdigit c) end.

Lemma uint_alldigit : forall d, alldigit (NilEmpty.string_of_uint d) = true.
Proof. induction d; cbn; auto. Qed.
Lemma dec_nat_alldigit : forall n, alldigit (dec_nat n) = true.
Proof. intros. apply uint_alldigit. Qed.

Lemma digits_then_inj : forall a b x y,
    alldigit a = true -> alldigit b = true -> starts_nondigit x = true -> starts_nondigit y = true ->
    a ++ x = b ++ y -> a = b /\ x = y.
Proof.
  induction a as [|c a IH]; intros [|d b] x y Ha Hb Hx Hy E; cbn in *.
  - auto.
  - exfalso. subst x. cbn in Hx. apply andb_true_iff in Hb. destruct Hb as [Hd _]. rewrite Hd in Hx. discriminate.
  - exfalso. subst y. cbn in Hy. apply andb_true_iff in Ha. destruct Ha as [Hc _]. rewrite Hc in Hy. discriminate.
  - injection E as -> E. apply andb_true_iff in Ha, Hb. destruct Ha as [_ Ha], Hb as [_ Hb].
    destruct (IH b x y Ha Hb Hx Hy E) as [-> ->]. auto.
Qed.

Lemma nocolon_app : forall a b, nocolon (a ++ b) = nocolon a && nocolon b.
Proof. induction a as [|c a IH]; intros b; cbn; [reflexivity|]. rewrite IH. now rewrite andb_assoc. Qed.

Lemma alldigit_nocolon : forall s, alldigit s = true -> nocolon s = true.
Proof.
  induction s as [|c s IH]; cbn; intros E; [reflexivity|]. apply andb_true_iff in E. destruct E as [Hc Hs].
  rewrite IH by auto. rewrite andb_true_r. apply negb_true_iff. destruct (Ascii.eqb_spec c ":") as [->|]; [discriminate Hc|reflexivity].
Qed.

Lemma shape_tail_nocolon : forall l, nocolon (shape_tail l) = true.
Proof.
  induction l as [|n l IH]; cbn; [reflexivity|]. rewrite nocolon_app, IH, (alldigit_nocolon _ (dec_nat_alldigit n)). reflexivity.
Qed.
Lemma shape_repr_nocolon : forall l, nocolon (shape_repr l) = true.
Proof.
  intros [|n [|m l]]; cbn; [reflexivity| |].
  - rewrite nocolon_app, (alldigit_nocolon _ (dec_nat_alldigit n)). reflexivity.
  - rewrite nocolon_app, (alldigit_nocolon _ (dec_nat_alldigit n)). cbn.
    rewrite nocolon_app, (alldigit_nocolon _ (dec_nat_alldigit m)), shape_tail_nocolon. reflexivity.
Qed.

Lemma shape_tail_inj : forall l l', shape_tail l = shape_tail l' -> l = l'.
Proof.
  induction l as [|n l IH]; intros [|m l'] E; cbn in E; try discriminate; [reflexivity|].
  injection E as E.
  assert (Hs : forall r, starts_nondigit (shape_tail r) = true) by (intros [|? ?]; reflexivity).
  destruct (digits_then_inj _ _ _ _ (dec_nat_alldigit n) (dec_nat_alldigit m) (Hs l) (Hs l') E) as [En El].
  apply dec_nat_inj in En. subst. f_equal. auto.
Qed.

Lemma dec_nat_head : forall n, exists c r, dec_nat n = String c r /\ isdigit c = true.
Proof.
  intros n. pose proof (dec_nat_alldigit n) as Ha. destruct (dec_nat n) as [|c r] eqn:E.
  - exfalso. unfold dec_nat in E.
    assert (E2 : Some (Nat.to_uint n) = Some Decimal.Nil) by (rewrite <- NilEmpty.usu, E; reflexivity).
    inversion E2 as [E3]. pose proof (DecimalNat.Unsigned.of_to n) as E4. rewrite E3 in E4. cbn in E4. subst n. discriminate E3.
  - cbn in Ha. apply andb_true_iff in Ha. destruct Ha as [Hc _]. eauto.
Qed.

Lemma shape_repr_inj : forall l l', shape_repr l = shape_repr l' -> l = l'.
Proof.
  assert (Hs : forall r, starts_nondigit (shape_tail r) = true) by (intros [|? ?]; reflexivity).
  intros [|n [|m l]] [|n' [|m' l']] E; cbn in E; try reflexivity; injection E as E.
  - exfalso. destruct (dec_nat_head n') as (c & r & Ed & Hc). rewrite Ed in E. cbn in E. injection E as Ec _. subst c. vm_compute in Hc. discriminate Hc.
  - exfalso. destruct (dec_nat_head n') as (c & r & Ed & Hc). rewrite Ed in E. cbn in E. injection E as Ec _. subst c. vm_compute in Hc. discriminate Hc.
  - exfalso. destruct (dec_nat_head n) as (c & r & Ed & Hc). rewrite Ed in E. cbn in E. injection E as Ec _. subst c. vm_compute in Hc. discriminate Hc.
  - destruct (digits_then_inj _ _ ",)" ",)" (dec_nat_alldigit n) (dec_nat_alldigit n') eq_refl eq_refl E) as [En _].
    apply dec_nat_inj in En. now subst.
  - exfalso.
    destruct (digits_then_inj _ _ ",)" (", " ++ dec_nat m' ++ shape_tail l') (dec_nat_alldigit n) (dec_nat_alldigit n') eq_refl eq_refl E)
      as [_ E2]. cbn in E2. discriminate E2.
  - exfalso. destruct (dec_nat_head n) as (c & r & Ed & Hc). rewrite Ed in E. cbn in E. injection E as Ec _. subst c. vm_compute in Hc. discriminate Hc.
  - exfalso.
    destruct (digits_then_inj _ _ (", " ++ dec_nat m ++ shape_tail l) ",)" (dec_nat_alldigit n) (dec_nat_alldigit n') eq_refl eq_refl E)
      as [_ E2]. cbn in E2. discriminate E2.
  - destruct (digits_then_inj _ _ _ _ (dec_nat_alldigit n) (dec_nat_alldigit n') (Hs (m :: l)) (Hs (m' :: l')) E) as [En El].
    apply dec_nat_inj in En. apply (shape_tail_inj (m :: l) (m' :: l')) in El. inversion El; subst; reflexivity.
Qed.
