"""C06 — a cache hit returns what executing the task now would return."""
import importlib
import json
import os
import shutil
import sys
import tempfile

from .lib import coqio, hashgen as hg, hashmodel as hm
from .lib.runner import Outcome, Failure
from . import c08

PROP = "C06"
PROPS_FILE = "Props/C06.v"
MANIFEST = dict(
    text="Coq theorems: C06_sound_if_identity_separates (for any history of submissions into one cache root, a cache "
         "keyed by the checksum returns run(task) for every submission whenever the checksum separates submitted tasks "
         "with different results; invariant over the store), C06_stale_if_identity_merges (the converse), "
         "C06_checksum_injective (Merkle argument carried through _compute_hashes + _checksum: equal checksums of tasks "
         "whose hashed field values lie in the domain of C08_ser_injective imply the same task type and, field by field, "
         "equal values up to set/dict order, or an explicit blake2b collision among the strings actually hashed, incl. "
         "the outer list of (name, hex digest) items), C06_history_sound_or_collision (over any history of such tasks "
         "whose run depends only on the hashed aspects, every submission returns run(task) or a collision is exhibited), "
         "C06_identity_of_digests / C06_separates_values, C06_array_shape_dtype_separated (after the repair of "
         "bytes_repr_numpy), and refutations C06_refuted_closure, C06_refuted_field_metadata with the general lemmas "
         "C06_identity_ignores_closure / _metadata (closure cells, globals, argstr/position/sep/formatter never reach "
         "Task._compute_hashes). Correspondence: pairs of real python and shell tasks differing in exactly one aspect, "
         "submitted in random histories into one cache root and compared with fresh runs; model checksum and model "
         "cache evaluated in Coq on the same histories. Partial: `run` is an uninterpreted function; shell execution, "
         "pickling of results and the lock protocol are not modelled here.",
    note="Trusted: Coq kernel + vm_compute; hand-written model of _compute_hashes/_checksum and of lookup-or-run; "
         "harness task factories and tree conversion.",
    technique="Coq proof (store invariant over histories; identity factorisation through value digests) + differential "
              "execution of one-aspect task pairs",
    design="§8 Group B / C06",
)
TIE_NAME = "Model.Hash.checksum + submit_all vs Task._checksum + task(cache_root=...) over a submission history"
TRUSTED = c08.TRUSTED + [
    "Model.Hash.submit/submit_all: Job.run's early return on a cached result modelled as lookup-or-run-and-store keyed "
    "by the checksum; `run` is an uninterpreted deterministic function of all aspects of a task",
    "Task._compute_hashes: which (name, value) pairs are hashed is read by the harness's mirror of its loop",
]
ASSUMPTIONS = ["tasks are deterministic; one process, debug worker, no concurrent writers (C10-C12 cover those)"]
RULE = ("pairs of tasks (python.define / shell.define) differing in exactly one aspect: function source, closure value, "
        "module global, decorator, default / keyword-only default argument, exactly one body statement (any kind, any "
        "position incl. first and return), argstr, position, sep, formatter, executable, input value / Python type / "
        "nesting / array shape / array dtype / one element of a large array (+ identical-twin controls); histories of 2-6 submissions over {A, B} into "
        "one cache_root, each compared with a fresh run in its own root; distinct = distinct (aspect, parameters, "
        "history); non-trivial = the history submits both tasks")
IMPORTS = ["Base.PySort", "Model.Hash", "Spec.Hash"]
EXTRA = """
Definition res_eqb (r : res string) (o : option string) : bool :=
  match r, o with Ok d, Some x => String.eqb d x | Err ETypeError, None => true | _, _ => false end.
Definition ck_t := (list (string * string) * string * list (string * pyval) * option string)%type.
Definition case_t := (list ck_t * (list string * list string * list nat * list string))%type.
Definition nths (l : list string) (i : nat) : string := nth i l ""%string.
Definition tie_ok (c : case_t) : bool :=
  let '(cks, (sums, fresh, hist, obs)) := c in
  forallb (fun k : ck_t => let '(tbl, ty, fields, cs) := k in res_eqb (checksum (table_H tbl) ty fields) cs) cks &&
  list_eqb String.eqb (fst (submit_all (nths sums) (nths fresh) [] hist)) obs.
Definition spec_ok (c : case_t) : bool :=
  let '(_, (sums, fresh, hist, obs)) := c in list_eqb String.eqb (map (nths fresh) hist) obs.
"""

F06A = ("closure", "global", "decorator")
F06B = ("argstr", "position", "sep", "formatter")


class Mods:
    """generated modules with real source files (so bytes_repr_function takes the AST path)"""

    def __init__(self):
        self.dir = tempfile.mkdtemp(prefix="c06mods-", dir="/tmp")
        sys.path.insert(0, self.dir)
        self.n = 0
        self.names = []

    def make(self, src):
        self.n += 1
        name = "c06m_%d_%d" % (os.getpid(), self.n)
        with open(os.path.join(self.dir, name + ".py"), "w") as f:
            f.write(src)
        importlib.invalidate_caches()
        self.names.append(name)
        return importlib.import_module(name)

    def close(self):
        if self.dir in sys.path:
            sys.path.remove(self.dir)
        for n in self.names:
            sys.modules.pop(n, None)
        shutil.rmtree(self.dir, ignore_errors=True)


DESCRIBE = '''
def f(x):
    import numpy

    def d(v):
        if isinstance(v, (numpy.ndarray, numpy.generic)):
            return (type(v).__name__, str(v.dtype), v.shape, v.tolist())
        if isinstance(v, (list, tuple)):
            return (type(v).__name__, [d(e) for e in v])
        if isinstance(v, (set, frozenset)):
            return (type(v).__name__, sorted(repr(d(e)) for e in v))
        if isinstance(v, dict):
            return ("dict", sorted((repr(d(k)), d(e)) for k, e in v.items()))
        if type(v).__module__ == "vmod":
            names = [n for n in dir(v) if not n.startswith("__") and not callable(getattr(v, n))]
            return (type(v).__name__, [(n, d(getattr(v, n))) for n in sorted(names)])
        return (type(v).__name__, repr(v))
    return d(x)
'''


STMT_KINDS = ["expr", "assign", "aug", "if", "for", "try", "nested", "with", "doc"]


def stmt(kind, c):
    """source lines of one statement of kind `kind` with constant c.  The input x is a tuple (inputs must not be
    mutated); `expr` is a bare call with a side effect (it seeds the generator the return statement draws from),
    every other kind rebinds x"""
    if kind == "expr":
        return ["random.seed(%d)" % c]
    if kind == "assign":
        return ["x = x + (%d,)" % c]
    if kind == "aug":
        return ["x += (%d,)" % c]
    if kind == "if":
        return ["if len(x) >= 0:", "    x = x + (%d,)" % c]
    if kind == "for":
        return ["for i in range(2):", "    x = x + (%d + i,)" % c]
    if kind == "try":
        return ["try:", "    x = x + (%d,)" % c, "finally:", "    pass"]
    if kind == "nested":
        return ["def g(z):", "    return z + %d" % c]            # called by the return statement
    if kind == "with":
        return ["with open('/dev/null') as fh:", "    x = x + (%d,)" % c]
    if kind == "doc":
        return ['"""documentation %d"""' % c]
    raise ValueError(kind)


def stmt_function(kinds, consts, ret_c):
    assert kinds.count("expr") == 1
    lines = ["import random", "", "", "def f(x):"]
    for k, c in zip(kinds, consts):
        lines += ["    " + ln for ln in stmt(k, c)]
    g = "g(0)" if "nested" in kinds else "0"
    lines.append("    return (x, %s, random.randint(0, 10 ** 6), %d)" % (g, ret_c))
    return "\n".join(lines) + "\n"


ASPECTS = ["array_tail", "stmt_first", "closure", "argstr", "value", "stmt_any", "decorator", "kwdefault", "source", "global", "position", "type", "default", "sep", "nesting",
           "formatter", "shape", "executable", "dtype", "twin", "shell_value"]


def gen_pair(rng, mods, aspect):
    """(aspect, params, makeA, makeB): factories returning a fresh task object each call"""
    from pydra.compose import python, shell
    k1 = rng.randrange(1, 50)
    k2 = k1 + rng.randrange(1, 50)
    x = rng.randrange(0, 9)
    if aspect == "source":
        a, b = mods.make("def f(x):\n    return x + %d\n" % k1), mods.make("def f(x):\n    return x + %d\n" % k2)
        return aspect, [k1, k2, x], lambda: python.define(a.f)(x=x), lambda: python.define(b.f)(x=x)
    if aspect == "twin":
        a, b = mods.make("def f(x):\n    return x + %d\n" % k1), mods.make("def f(x):\n    return x + %d\n" % k1)
        return aspect, [k1, x], lambda: python.define(a.f)(x=x), lambda: python.define(b.f)(x=x)
    if aspect == "closure":
        m = mods.make("def make(k):\n    def f(x):\n        return x + k\n    return f\n")
        return aspect, [k1, k2, x], lambda: python.define(m.make(k1))(x=x), lambda: python.define(m.make(k2))(x=x)
    if aspect == "global":
        a = mods.make("G = %d\ndef f(x):\n    return x + G\n" % k1)
        b = mods.make("G = %d\ndef f(x):\n    return x + G\n" % k2)
        return aspect, [k1, k2, x], lambda: python.define(a.f)(x=x), lambda: python.define(b.f)(x=x)
    if aspect == "default":
        a = mods.make("def f(x, y=%d):\n    return x + y\n" % k1)
        b = mods.make("def f(x, y=%d):\n    return x + y\n" % k2)
        return aspect, [k1, k2, x], lambda: python.define(a.f)(x=x), lambda: python.define(b.f)(x=x)
    if aspect in ("stmt_first", "stmt_any"):
        # two functions that differ in exactly one statement: any statement kind, any position (first / middle /
        # last / the return statement)
        others = [k for k in STMT_KINDS[:8] if k != "expr"]
        kinds = [rng.choice(others) for _ in range(rng.randrange(0, 4))]
        if "nested" in kinds:            # one nested def at most
            first = kinds.index("nested")
            kinds = [k for i, k in enumerate(kinds) if k != "nested" or i == first]
        kinds.insert(rng.randrange(len(kinds) + 1), "expr")      # exactly one seeding call, anywhere
        if aspect == "stmt_first":
            # every kind gets to be the first statement; the bare call half of the time
            if k1 % 2 == 0:
                kinds.remove("expr")
                kinds.insert(0, "expr")
            elif kinds[0] == "expr":
                kinds.insert(0, others[k1 % len(others)])
            else:
                kinds[0] = others[k1 % len(others)]
                if kinds.count("nested") > 1:
                    kinds = [kinds[0]] + [k for k in kinds[1:] if k != "nested"]
            pos = 0
        else:
            if rng.random() < 0.25:
                kinds = ["doc"] + kinds
            pos = rng.randrange(len(kinds) + 1)      # len(kinds) = the return statement
        consts = [rng.randrange(100) for _ in kinds]
        rc = rng.randrange(100)
        consts2, rc2 = list(consts), rc
        if pos == len(kinds):
            rc2 = rc + 1 + rng.randrange(50)
        else:
            consts2[pos] = consts[pos] + 1 + rng.randrange(50)
        a, b = mods.make(stmt_function(kinds, consts, rc)), mods.make(stmt_function(kinds, consts2, rc2))
        return aspect, [kinds, pos, consts, consts2, rc, rc2], \
            (lambda: python.define(a.f)(x=(x,))), (lambda: python.define(b.f)(x=(x,)))
    if aspect == "decorator":
        src = ("import functools\ndef scale(f):\n    @functools.wraps(f)\n    def w(*a, **k):\n"
               "        return %d * f(*a, **k)\n    return w\ndef same(f):\n    return f\n@%s\ndef f(x):\n    return x + 1\n")
        a, b = mods.make(src % (k1 + 1, "same")), mods.make(src % (k1 + 1, "scale"))
        return aspect, [k1 + 1, x], lambda: python.define(a.f)(x=x), lambda: python.define(b.f)(x=x)
    if aspect == "kwdefault":
        a = mods.make("def f(x, *, k=%d):\n    return x + k\n" % k1)
        b = mods.make("def f(x, *, k=%d):\n    return x + k\n" % k2)
        return aspect, [k1, k2, x], lambda: python.define(a.f)(x=x), lambda: python.define(b.f)(x=x)
    if aspect == "array_tail":
        # large arrays (byte size around multiples of 8192) that differ in one element only
        m = mods.make("def f(x):\n    return (str(x.dtype), x.shape, float(x.sum()), x.ravel()[-2:].tolist(), x.ravel()[:2].tolist())\n")
        where, t1, t2 = hg.nd_big_pair(rng, hg.Ids(), rng.randrange(1000) * 2)   # even k: bare arrays
        return aspect, [where, t1[3], t1[4]], (lambda: python.define(m.f)(x=hm.build(t1))), \
            (lambda: python.define(m.f)(x=hm.build(t2)))
    word = rng.choice(["x", "y", "zz", "w1"])
    if aspect == "argstr":
        f1, f2 = rng.sample(["-a", "-b", "--c", "-d"], 2)

        def mk(flag):
            return lambda: shell.define("echo", inputs={"a": shell.arg(type=str, argstr=flag, position=1)})(a=word)
        return aspect, [f1, f2, word], mk(f1), mk(f2)
    if aspect == "position":
        def mk(pa, pb):
            return lambda: shell.define("echo", inputs={"a": shell.arg(type=str, argstr="", position=pa),
                                                        "b": shell.arg(type=str, argstr="", position=pb)})(a=word, b="q")
        return aspect, [word], mk(1, 2), mk(2, 1)
    if aspect == "sep":
        s1, s2 = rng.sample([",", ":", "+", "_"], 2)

        def mk(sep):
            return lambda: shell.define("echo", inputs={"a": shell.arg(type=list[str], argstr="-a", sep=sep,
                                                                       position=1)})(a=[word, "q"])
        return aspect, [s1, s2, word], mk(s1), mk(s2)
    if aspect == "formatter":
        m = mods.make("def fm1(a):\n    return 'one' + a\ndef fm2(a):\n    return 'two' + a\n")

        def mk(fm):
            return lambda: shell.define("echo", inputs={"a": shell.arg(type=str, formatter=fm, position=1)})(a=word)
        return aspect, [word], mk(m.fm1), mk(m.fm2)
    if aspect == "executable":
        return aspect, [word], lambda: shell.define("echo <a:str>")(a=word), lambda: shell.define("printf <a:str>")(a=word)
    if aspect == "shell_value":
        return aspect, [word], lambda: shell.define("echo <a:str>")(a=word), lambda: shell.define("echo <a:str>")(a=word + "2")
    # input value aspects: one describing task, two inputs
    m = mods.make(DESCRIBE)
    ids = hg.Ids()
    for _ in range(50):
        if aspect in ("shape", "dtype"):
            t1 = hg.nd(rng, ids)
            if t1[2] != "numpyndarray":
                continue
            t2 = hg.fresh(t1, ids)
            n = 1
            for s in t1[4]:
                n *= s
            if aspect == "shape":
                alts = [s for s in ([n], [1, n], [n, 1]) if s != t1[4]]
                t2[4] = rng.choice(alts)
            else:
                t2[3] = {"float64": "int64", "int64": "float64", "int32": "float32", "float32": "int32",
                         "uint8": "int8"}[t1[3]]
            break
        t1 = hg.value(rng, ids, rng.choice([2, 3]), top=True)
        want = {"value": ("scalar_value", "drop"), "type": ("scalar_type", "retag"), "nesting": ("regroup",)}[aspect]
        mname, t2 = hg.mutate(rng, t1, ids, only=want)
        if mname in want and not c08.has_partial_order(hm.build(t1)):
            break
    else:
        return None
    return aspect, [t1, t2], lambda: python.define(m.f)(x=hm.build(t1)), lambda: python.define(m.f)(x=hm.build(t2))


def outputs_repr(outs):
    d = {}
    for k in ("out", "stdout", "return_code"):
        if hasattr(outs, k):
            d[k] = repr(getattr(outs, k))
    return json.dumps(d, sort_keys=True)


def checksum_case(task):
    """(table, task_type, fields trees, checksum) for the model, or None when a value is outside the model"""
    from pydra.utils.hash import hash_object
    from .lib.hashtasks import checksum_fields

    def opaque_pre(obj):
        with hm.Recorder() as r:
            d = hash_object(obj)
        return [p for p, dd in r.table if dd == d][-1]

    try:
        with hm.Recorder() as rec:
            cs = task._checksum
        conv = hm.Conv(opaque_pre=opaque_pre)
        fields = [(n, conv.to_model(v)) for n, v in checksum_fields(task)]
    except (hm.Unsupported, TypeError, IndexError):
        return None
    return rec.dedup(), task._task_type(), fields, cs


def run_history(mkA, mkB, hist):
    """returns (checksums [A,B], fresh outputs [A,B], observed outputs, directory names in the shared root)"""
    mk = [mkA, mkB]
    sums = [mkA()._checksum, mkB()._checksum]
    fresh = []
    for m in mk:
        d = tempfile.mkdtemp(prefix="c06f-", dir="/tmp")
        try:
            fresh.append(outputs_repr(m()(cache_root=d, worker="debug")))
        finally:
            shutil.rmtree(d, ignore_errors=True)
    root = tempfile.mkdtemp(prefix="c06r-", dir="/tmp")
    try:
        obs = [outputs_repr(mk[i]()(cache_root=root, worker="debug")) for i in hist]
        dirs = sorted(x for x in os.listdir(root) if not x.endswith(".lock"))
    finally:
        shutil.rmtree(root, ignore_errors=True)
    return sums, fresh, obs, dirs


def run(ctx):
    rng = ctx.rng
    import time
    t0 = time.time()
    n = ctx.budget(28, 160)   # quick: 7 corpus cases + each of the 21 aspects once
    mods = Mods()
    out = Outcome(rule=RULE)
    dist = {"aspect": {}, "history_len": {}, "checksum_cases": 0, "pairs_sharing_a_checksum": 0, "errors": 0}
    cases, meta = [], []
    seen = set()
    try:
        specs = []
        for c in ctx.corpus():
            specs.append(("corpus", c))
        while len(specs) < n:
            specs.append(("gen", None))
        for gi, (kind, c) in enumerate(specs):
            if kind == "corpus":
                r2 = __import__("random").Random(c["rng"])
                g = gen_pair(r2, mods, c["aspect"])
                hist = c["history"]
            else:
                sub = rng.randrange(10 ** 9)
                r2 = __import__("random").Random(sub)
                asp = ASPECTS[gi % len(ASPECTS)]
                g = gen_pair(r2, mods, asp)
                ln = rng.randrange(2, 7)
                hist = [rng.randrange(2) for _ in range(ln)]
                if len(set(hist)) == 1:
                    hist[-1] = 1 - hist[0]
                c = {"rng": sub, "history": hist, "aspect": asp}
            if g is None:
                continue
            aspect, params, mkA, mkB = g
            try:
                sums, fresh, obs, dirs = run_history(mkA, mkB, hist)
            except Exception as e:  # noqa
                dist["errors"] += 1
                dist.setdefault("error_examples", []).append("%s: %r" % (aspect, e)[:200])
                continue
            cks = [k for k in (checksum_case(mkA()), checksum_case(mkB())) if k is not None]
            dist["checksum_cases"] += len(cks)
            dist["aspect"][aspect] = dist["aspect"].get(aspect, 0) + 1
            dist["history_len"][str(len(hist))] = dist["history_len"].get(str(len(hist)), 0) + 1
            dist["pairs_sharing_a_checksum"] += sums[0] == sums[1]
            out.evaluations += len(hist) + 2
            key = json.dumps([aspect, params, hist], default=repr)
            if key not in seen:
                seen.add(key)
                out.distinct_nontrivial += len(set(hist)) == 2
            cases.append(coqio.pair(
                coqio.lst([coqio.pair(hm.table_term(tbl), coqio.string(ty),
                                      coqio.lst([coqio.pair(coqio.string(nm), hm.term(t)) for nm, t in fields]),
                                      coqio.option(coqio.string(cs))) for tbl, ty, fields, cs in cks]),
                coqio.pair(coqio.lst([coqio.string(s) for s in sums]), coqio.lst([coqio.string(s) for s in fresh]),
                           coqio.lst(["%d" % i for i in hist]), coqio.lst([coqio.string(s) for s in obs]))))
            meta.append({"aspect": aspect, "params": params, "case": c, "checksums": sums, "fresh": fresh,
                         "observed": obs, "history": hist, "dirs": dirs})
        res = coqio.run_cases(ctx.scratch, "c06", IMPORTS, "case_t", cases, {"tie": "tie_ok", "spec": "spec_ok"},
                              extra=EXTRA, shard=100, timeout=1500)
    finally:
        mods.close()
    out.traces_validated = len(meta)
    dist["wall_driver_s"] = round(time.time() - t0, 1)
    out.distribution = dist
    out.samples = [{"aspect": m["aspect"], "params": m["params"], "history": m["history"], "checksums": m["checksums"],
                    "fresh_outputs": m["fresh"], "observed_outputs": m["observed"]} for m in meta[:4]]
    for i in res["spec"]:
        m = meta[i]
        finding = "F06a" if m["aspect"] in F06A else "F06b" if m["aspect"] in F06B else None
        out.failures.append(Failure(
            case=dict(m["case"], params=m["params"]),
            observed={"outputs": m["observed"], "checksums[A,B]": m["checksums"], "cache_dirs": m["dirs"]},
            expected={"outputs": [m["fresh"][j] for j in m["history"]]},
            note="a submission was answered from the cache with another task's outputs (aspect: %s)" % m["aspect"],
            finding=finding, kind="spec"))
    for i in res["tie"][:10]:
        m = meta[i]
        out.failures.append(Failure(case=dict(m["case"], params=m["params"]),
                                    observed={"outputs": m["observed"], "checksums[A,B]": m["checksums"]},
                                    expected="model checksum = Task._checksum and lookup-or-run on it = observed outputs",
                                    note="model/impl", kind="tie"))
    return out


def replay(ctx, payload):
    c = payload["case"]
    mods = Mods()
    try:
        g = gen_pair(__import__("random").Random(c["rng"]), mods, c["aspect"])
        aspect, params, mkA, mkB = g
        sums, fresh, obs, dirs = run_history(mkA, mkB, c["history"])
        print("aspect:", aspect, "params:", json.dumps(params, default=repr)[:500])
        print("history (0 = A, 1 = B):", c["history"])
        print("implementation: checksums [A, B] =", sums)
        print("implementation: outputs of the submissions into one cache root =", obs)
        print("spec (fresh run of each submitted task)                       =", [fresh[i] for i in c["history"]])
        vals = coqio.eval_terms(ctx.scratch, "replay", IMPORTS,
                                ["fst (submit_all (nths %s) (nths %s) [] %s)" % (
                                    coqio.lst([coqio.string(s) for s in sums]), coqio.lst([coqio.string(s) for s in fresh]),
                                    coqio.lst(["%d" % i for i in c["history"]]))], extra=EXTRA)
        print("model (lookup-or-run keyed by the checksum)                   =", vals[0])
    finally:
        mods.close()
