"""C19 — task execution cannot silently alter its recorded inputs.

Generated cases: a python (or shell) task whose body mutates — or not — a list / nested list / dict / set /
attrs object / numpy array / file input in place, run under the debug and the cf worker with
raise_errors default / True / False, file inputs with and without copy mode.  For every case the driver
records, in a fresh interpreter: the identity (checksum) of the task as submitted, the directory the result was
stored under, whether the post-run hash check detected a change, whether the caller was told, and the state of
the caller's input objects / files afterwards.  Coq evaluates Model.CacheSeq.run_with_check and the reference
semantics on the same cases.
"""
import json
import os
import shutil
import subprocess
import sys
import tempfile

PROP = "C19"
PROPS_FILE = "Props/C19.v"
MANIFEST = dict(
    text="Coq theorems (closed under the global context), with the hash H a section variable without hypotheses: "
         "C19_detect_or_unchanged — for the model of Job.checksum / Task._hashes / Task._hash_changes / "
         "Job._check_for_hash_changes and every body replacing sub-values of its inputs in place, if the post-run "
         "check reports nothing then every field is equal to what was submitted or H collides on two different "
         "encodings (C19_encoding_injective: the tagged length-prefixed encoding of ints, strings, nested "
         "lists/dicts/sets/objects, arrays with shape and files is injective); C19_undetected_classified for a tree "
         "that does not hash the array shape (C19_refuted_shape_not_hashed; the driver probes the tree at run time); "
         "C19_reported_fields_differ (no false alarm); C19_identity_of_original (the directory name is computed from "
         "the inputs as submitted, whatever the body does); C19_copy_mode_independent (a staged copy is a different "
         "file); C19_reported_with_raise_errors. The full statement is refuted: C19_refuted_swallowed — without "
         "raise_errors (default of every worker but debug) the detected change is only logged and the stored "
         "successful result returned (known finding F19); python tasks ignore copy_mode (known finding F19b). "
         "Tied to the code by differential execution of mutating bodies under the debug and cf workers.",
    note="partial: the encoding abstracts bytes_repr (C08 proves its injectivity on the real serializer); H (blake2b) "
         "is arbitrary; file hashing is content+name (mtime-keyed caching is C09); fileformats' copy is trusted.",
    technique="Coq proof (prefix-free encoding => injective; detection up to collision) + model/impl correspondence via generated cases.v",
    design="§8 Group C / C19",
)
TIE_NAME = "Model.CacheSeq.run_with_check vs Job.run/_check_for_hash_changes + Submitter.__call__ (debug, cf)"
TRUSTED = [
    "Model/CacheSeq.v part 5: hand-written model of Task._compute_hashes/_hash_changes, Job.checksum memoisation, "
    "Job._check_for_hash_changes and Submitter.__call__'s raise_errors handling; `ser` abstracts bytes_repr",
    "Section variable H : list nat -> nat (blake2b) — no hypothesis; theorems are stated up to an explicit collision of H",
    "fileformats FileSet.copy (copy mode) — modelled as writing a different path (stage_copy)",
    "the harness's reference of each body's effect (the same function applied to a pristine copy of the value)",
]
ASSUMPTIONS = ["the body keeps the field names (it can only change the objects the fields refer to): same_shape",
               "values are ints, strings, lists/tuples/sets/dicts/attrs objects of such, integer ndarrays, files"]
RULE = ("cases = (value kind in list/nested/dict/set/attrs obj/plain-class obj/tuple holding list/nested tuple+dict/arr/pyfile/pyfile_copy/shfile/shfile_copy) x (mutation incl. "
        "none and a rewrite that changes nothing) x worker (debug, cf) x raise_errors (default, True, False) x small "
        "parameters; non-trivial = the body really changes the value or the input is a file; distinct by "
        "(kind, mutation, worker, raise_errors, parameter)")

SCRIPT_DIR = "/tmp/verif-c19-scripts"
SCRIPT = """if [ "$2" = append ]; then echo more >> $1; fi
if [ "$2" = rewrite_same ]; then c=$(cat $1; echo x); c=${c%x}; sleep 0.02; printf '%s' "$c" > $1; fi
"""

KINDS = {
    "list": ["none", "append", "setitem", "same"],
    "nested": ["none", "inner"],
    "dict": ["none", "add", "change", "del"],
    "set": ["none", "add", "discard"],
    "obj": ["none", "attr", "inner"],
    # hashable-yet-mutable values: an instance of an ordinary class (identity __hash__), tuples holding lists/dicts
    "plain": ["none", "attr", "inner"],
    "tup": ["none", "inner"],
    "tupnest": ["none", "deep", "dictin"],
    "arr": ["none", "elem", "reshape"],
    "pyfile": ["none", "append", "rewrite_same"],
    "pyfile_copy": ["none", "append"],
    "shfile": ["none", "append", "rewrite_same"],
    "shfile_copy": ["none", "append"],
}
FILE_KINDS = ("pyfile", "pyfile_copy", "shfile", "shfile_copy")


# ------------------------------------------------------------------------------------------------ runner
def _runner(inp, outp):
    import copy
    import logging
    import typing as ty
    import attrs
    import numpy as np
    from fileformats.generic import File
    from pydra.compose import python, shell
    from pydra.engine.submitter import Submitter
    from pydra.utils.hash import hash_function

    os.makedirs(SCRIPT_DIR, exist_ok=True)
    spath = os.path.join(SCRIPT_DIR, "mut.sh")
    if not os.path.exists(spath) or open(spath).read() != SCRIPT:
        tmp = spath + ".%d" % os.getpid()
        with open(tmp, "w") as f:
            f.write(SCRIPT)
        os.replace(tmp, spath)

    @attrs.define
    class Obj:
        u: int
        v: list

    class Plain:                      # not attrs / dataclass: hashable by identity, mutable
        def __init__(self, u, v):
            self.u, self.v = u, v

    def apply(x, mode):
        """the body's effect, in place"""
        if mode == "none":
            return
        if isinstance(x, tuple):
            if mode == "inner":
                x[0].append(5)
            elif mode == "deep":
                x[1][1].append(7)
            elif mode == "dictin":
                x[0]["zz"] = 1
        elif isinstance(x, list):
            if mode == "append":
                x.append(99)
            elif mode == "setitem":
                x[0] = 77
            elif mode == "same":
                x[0] = x[0]
            elif mode == "inner":
                x[1].append(5)
        elif isinstance(x, dict):
            if mode == "add":
                x["zz"] = 1
            elif mode == "change":
                x["p"] = x["p"] + 50
            elif mode == "del":
                del x["q"]
        elif isinstance(x, set):
            if mode == "add":
                x.add(99)
            elif mode == "discard":
                x.discard(max(x))
        elif isinstance(x, np.ndarray):
            if mode == "elem":
                x[0, 0] = 42
            elif mode == "reshape":
                import warnings
                with warnings.catch_warnings():
                    warnings.simplefilter("ignore")
                    x.shape = (3, 2)
        elif hasattr(x, "u"):
            if mode == "attr":
                x.u = x.u + 10
            elif mode == "inner":
                x.v.append(8)
        else:       # a file
            p = str(x)
            if mode == "append":
                with open(p, "a") as f:
                    f.write("more\n")
            elif mode == "rewrite_same":
                with open(p) as f:
                    c = f.read()
                import time
                time.sleep(0.02)
                with open(p, "w") as f:
                    f.write(c)

    @python.define
    def MutAny(x: ty.Any, mode: str, y: list) -> int:
        apply(x, mode)
        return 1

    @python.define
    def MutFile(x: File, mode: str) -> int:
        apply(x, mode)
        return 1

    @python.define(inputs={"x": python.arg(type=File, copy_mode=File.CopyMode.copy), "mode": python.arg(type=str)})
    def MutFileCopy(x, mode) -> int:
        apply(x, mode)
        return 1

    from pydra.compose import workflow

    @workflow.define
    def WMut(x: ty.Any, mode: str, tagn: int) -> int:
        node = workflow.add(MutAny(x=x, mode=mode, y=[1, 2]), name="node")
        return node.out

    ShFile = shell.define("sh <script:str> <x:generic/file> <mode:str>", name="ShFile")
    ShFileCopy = shell.define("sh <script:str> <x:generic/file> <mode:str>",
                              inputs={"x": shell.arg(type=File, copy_mode=File.CopyMode.copy)}, name="ShFileCopy")

    def make_value(kind, a, base):
        if kind == "list":
            return [a, a + 1]
        if kind == "nested":
            return [[a], [a + 1, a + 2]]
        if kind == "dict":
            return {"p": a, "q": a + 1}
        if kind == "set":
            return {a, a + 1}
        if kind == "obj":
            return Obj(u=a, v=[a + 1])
        if kind == "plain":
            return Plain(a, [a + 1])
        if kind == "tup":
            return ([a], a + 1)
        if kind == "tupnest":
            return ({"p": a}, (a, [a + 1]))
        if kind == "arr":
            return np.arange(6).reshape(2, 3) + a
        p = os.path.join(base, "input_%d.txt" % a)
        with open(p, "w") as f:
            f.write("hello %d\n" % a)
        return File(p)

    contents = {}

    def enc(v):
        if isinstance(v, bool):
            return {"int": int(v)}
        if isinstance(v, (int, np.integer)):
            return {"int": int(v)}
        if isinstance(v, str):
            return {"str": v}
        if isinstance(v, (list, tuple)):
            return {"list": [enc(x) for x in v]}
        if isinstance(v, (set, frozenset)):
            return {"list": [enc(x) for x in sorted(v)]}
        if isinstance(v, dict):
            return {"list": [{"list": [enc(k), enc(x)]} for k, x in sorted(v.items())]}
        if isinstance(v, np.ndarray):
            return {"arr": [list(v.shape), [int(x) for x in v.flatten()]]}
        if hasattr(v, "u") and hasattr(v, "v"):
            return {"list": [enc(v.u), enc(v.v)]}
        p = str(v)
        with open(p) as f:
            c = f.read()
        return {"file": [os.path.basename(p), c]}

    def build(kind, x, mode):
        if kind == "pyfile":
            return MutFile(x=x, mode=mode)
        if kind == "pyfile_copy":
            return MutFileCopy(x=x, mode=mode)
        if kind == "shfile":
            return ShFile(script=spath, x=x, mode=mode)
        if kind == "shfile_copy":
            return ShFileCopy(script=spath, x=x, mode=mode)
        return MutAny(x=x, mode=mode, y=[1, 2])

    class Catch(logging.Handler):
        def __init__(self):
            super().__init__(level=logging.ERROR)
            self.msgs = []

        def emit(self, record):
            self.msgs.append(record.getMessage())

    # does the tree under test hash the shape of an array?  (probed, not assumed)
    a0 = np.arange(6).reshape(2, 3)
    shape_hashed = hash_function(a0) != hash_function(a0.reshape(3, 2))

    with open(inp) as f:
        cases = json.load(f)
    results = []
    top = tempfile.mkdtemp(prefix="c19r-", dir="/tmp")
    try:
        for n, c in enumerate(cases):
            base = os.path.join(top, "case%d" % n)
            os.makedirs(base)
            cache = os.path.join(base, "cache")
            kind, mode, a = c["kind"], c["mode"], c["a"]
            ob = {"shape_hashed": shape_hashed}
            try:
                x = make_value(kind, a, base)
                before = enc(x)
                # the body's effect on a pristine copy (for files: on a copy of the file)
                if kind in FILE_KINDS:
                    p2 = os.path.join(base, "ref", os.path.basename(str(x)))
                    os.makedirs(os.path.dirname(p2))
                    shutil.copy(str(x), p2)
                    apply(File(p2), mode)
                    mutated = enc(File(p2))
                else:
                    x2 = copy.deepcopy(x)
                    apply(x2, mode)
                    mutated = enc(x2)
                via = c.get("via", "top")
                task = build(kind, x, mode)
                cs0 = task._checksum
                cs_pristine = build(kind, make_value(kind, a, base) if kind not in FILE_KINDS else x, mode)._checksum
                expected_dirs = [cs0]
                catch = Catch()
                lg = logging.getLogger("pydra.submitter")
                lg.addHandler(catch)
                ob["hash_error_text"] = False
                try:
                    wk = {"worker": "cf", "n_procs": 2} if c["worker"] == "cf" else {"worker": "debug"}
                    if via == "pickled":
                        # a job shipped by pickle after its checksum was computed (what every scheduler that looks
                        # at job.checksum / job.done before dispatching does), run from the copy
                        import cloudpickle as cp
                        from pydra.engine.job import Job
                        with Submitter(worker="debug", cache_root=cache) as sub:
                            job = Job(task, submitter=sub, name="main")
                            assert job.checksum == cs0
                            job2 = cp.loads(cp.dumps(job))
                            res = job2.run()
                    elif via == "wfnode":
                        # the mutating task as a node of a workflow (under cf the node job is pickled into a worker
                        # process after the scheduler has asked for its checksum)
                        wf = WMut(x=x, mode=mode, tagn=1000 * os.getpid() + n)   # tagn: never share a constructed workflow
                        expected_dirs = sorted([cs0, wf._checksum])
                        with Submitter(cache_root=cache, **wk) as sub:
                            res = sub(wf, raise_errors=c["re"])
                        if res.errored and res.errors:
                            ob["hash_error_text"] = "hashes have changed" in "".join(res.errors["error message"])
                    else:
                        with Submitter(cache_root=cache, **wk) as sub:
                            res = sub(task, raise_errors=c["re"])
                    ob["outcome"] = ["result", bool(res.errored)]
                except Exception as e:
                    import traceback
                    ob["outcome"] = ["exc", type(e).__name__, str(e).splitlines()[0][:100]]
                    ob["hash_error_text"] = "hashes have changed" in traceback.format_exc()
                finally:
                    lg.removeHandler(catch)
                ob["expected_dirs"] = expected_dirs
                ob["swallowed"] = any("Task execution failed" in m for m in catch.msgs)
                ob["dirs"] = sorted(d for d in os.listdir(cache) if os.path.isdir(os.path.join(cache, d)) and d != "pkl_files") \
                    if os.path.isdir(cache) else []
                ob["cs0"], ob["cs_pristine"] = cs0, cs_pristine
                ob["before"], ob["mutated"], ob["after"] = before, mutated, enc(task.x)
                from harness.c11 import _classify
                ob["stored"] = {}
                for d in ob["dirs"]:
                    st_ = _classify(os.path.join(cache, d))
                    ob["stored"][d] = st_ if isinstance(st_, str) else st_[0]
            except Exception:
                import traceback
                ob["driver_error"] = traceback.format_exc()[-1500:]
            results.append(ob)
    finally:
        shutil.rmtree(top, ignore_errors=True)
    with open(outp, "w") as f:
        json.dump(results, f)


if __name__ == "__main__":
    if len(sys.argv) == 4 and sys.argv[1] == "--run":
        _runner(sys.argv[2], sys.argv[3])
        sys.exit(0)
    sys.exit(2)

# ------------------------------------------------------------------------------------------------ check side
from .lib import coqio  # noqa: E402
from .lib.runner import Outcome, Failure  # noqa: E402

IMPORTS = ["Model.CacheSeq", "Spec.CacheSeq"]

EXTRA = r"""
Fixpoint index_of (l : list nat) (tab : list (list nat)) (n : nat) : nat :=
  match tab with [] => n | x :: r => if list_eqb Nat.eqb x l then n else index_of l r (S n) end.
(* a hash that is injective on the encodings occurring in the case: detection is then exactly
   "the encodings differ" — collisions of the real hash are not what the cases are about *)
Definition Htab (tab : list (list nat)) : list nat -> nat := fun l => index_of l tab 0.
Fixpoint inputs_eqb (a b : inputs) : bool :=
  match a, b with
  | [], [] => true
  | (k, x) :: a', (k', y) :: b' => String.eqb k k' && pyval_eqb x y && inputs_eqb a' b'
  | _, _ => false
  end.
Definition is_nil {A} (l : list A) : bool := match l with [] => true | _ => false end.
(* sh, raise_errors (effective), late identity (cf worker), copy mode declared, python task, parent shares the object with the
   body (debug worker, or a file on disk), inputs before, body's effect on them,
   observed: stored under the original identity, change detected, caller told, inputs afterwards *)
Definition case_t := (bool * bool * bool * bool * bool * bool * inputs * inputs * (bool * bool * bool * inputs))%type.
(* the code: python tasks hand the task's own attribute values to the function (copy mode is not
   applied), shell tasks with copy mode work on a staged copy *)
Definition effect (copy is_py : bool) (i i_mut : inputs) : inputs := if copy && negb is_py then i else i_mut.
(* collision-free on the encodings and on the digest lists of the case *)
Definition Hcase (sh : bool) (i i_mut : inputs) : list nat -> nat :=
  let tab := map (fun f => ser sh (snd f)) (i ++ i_mut) in
  let H0 := Htab tab in
  Htab (tab ++ [map (fun f => H0 (ser sh (snd f))) i; map (fun f => H0 (ser sh (snd f))) i_mut]).
Definition tie_ok (c : case_t) : bool :=
  let '(sh, re, late, copy, is_py, shared, i, i_mut, (name_ok, det, rep, after)) := c in
  let i' := effect copy is_py i i_mut in
  let '(_, mdet, mrep) := run_with_check sh (Hcase sh i i_mut) re late shared i (fun _ => i') in
  Bool.eqb mdet det && Bool.eqb mrep rep && name_ok && inputs_eqb after (if shared then i' else i).
(* the property: copy mode leaves the original untouched (and there is then nothing to report);
   otherwise the caller is told exactly when the body changed its input; whatever the caller's objects
   look like afterwards, a difference from what was submitted has been reported; the result sits under
   the identity of the inputs as submitted *)
Definition spec_ok (c : case_t) : bool :=
  let '(sh, re, late, copy, is_py, shared, i, i_mut, (name_ok, det, rep, after)) := c in
  let changed := negb (is_nil (really_changed i i_mut)) in
  name_ok &&
  (if copy then inputs_eqb after i && negb rep else Bool.eqb rep changed) &&
  (inputs_eqb after i || rep).
Definition not_F19b (c : case_t) : bool :=
  let '(sh, re, late, copy, is_py, shared, i, i_mut, (name_ok, det, rep, after)) := c in
  negb (copy && is_py && negb (is_nil (really_changed i i_mut))).
Definition not_F19 (c : case_t) : bool :=
  let '(sh, re, late, copy, is_py, shared, i, i_mut, (name_ok, det, rep, after)) := c in
  negb (negb re && det && negb rep).
"""


MEM_KINDS = [k for k in KINDS if k not in FILE_KINDS]


def gen_case(rng):
    via = rng.choice(["top", "top", "top", "wfnode", "wfnode", "pickled"])
    kind = rng.choice(list(KINDS) if via == "top" else MEM_KINDS)
    mode = rng.choice(KINDS[kind])
    worker = "cf" if rng.random() < (0.2 if via == "top" else 0.5) else "debug"
    if via == "pickled":
        worker = "debug"
    re = rng.choice([None, None, True, False])
    return {"kind": kind, "mode": mode, "worker": worker, "re": re, "a": rng.randrange(1, 4), "via": via}


class Intern:
    def __init__(self):
        self.t = {}

    def __call__(self, s):
        if s not in self.t:
            self.t[s] = len(self.t) + 1
        return self.t[s]


def pyval_term(e, intern):
    if "int" in e:
        return "(VInt %d)" % e["int"]
    if "str" in e:
        return "(VStr %s)" % coqio.string(e["str"])
    if "list" in e:
        return "(VList %s)" % coqio.lst([pyval_term(x, intern) for x in e["list"]])
    if "arr" in e:
        return "(VArr %s %s)" % (coqio.lst([str(x) for x in e["arr"][0]]), coqio.lst([str(x) for x in e["arr"][1]]))
    if "file" in e:
        return "(VFile %s %d)" % (coqio.string(e["file"][0]), intern(e["file"][1]))
    raise ValueError(e)


def inputs_term(x, c, intern):
    fields = [("x", pyval_term(x, intern)), ("mode", "(VStr %s)" % coqio.string(c["mode"]))]
    if c["kind"] not in FILE_KINDS:
        fields.append(("y", "(VList [VInt 1; VInt 2])"))
    return coqio.lst(["(%s, %s)" % (coqio.string(k), v) for k, v in fields])


def observe(c, o):
    """-> (name_ok, detected, reported)"""
    via = c.get("via", "top")
    name_ok = o["dirs"] == o["expected_dirs"] and o["cs0"] == o["cs_pristine"]
    reported = o["outcome"][0] == "exc" or o["outcome"] == ["result", True]
    if via == "top":
        exc_hash = o["outcome"][0] == "exc" and "hashes have changed" in o["outcome"][2]
        detected = exc_hash or (o["swallowed"] and o["outcome"] == ["result", False])
    else:
        # the check's RuntimeError surfaces directly (pickled job) or as the error of the enclosing workflow
        detected = bool(o["hash_error_text"])
    return name_ok, detected, reported


def run_cases_impl(cases):
    tmp = tempfile.mkdtemp(prefix="c19-", dir="/tmp")
    try:
        nb = min(6, max(1, len(cases) // 10))
        env = dict(os.environ, PYTHONPATH=coqio.VERIF + ":" + os.environ.get("VERIF_REPO", "/repo"), PYTHONHASHSEED="0",
                   NO_ET="1", PYTHONDONTWRITEBYTECODE="1", PYTHONWARNINGS="ignore")
        procs = []
        for b in range(nb):
            inp, outp = os.path.join(tmp, "i%d.json" % b), os.path.join(tmp, "o%d.json" % b)
            with open(inp, "w") as f:
                json.dump(cases[b::nb], f)
            procs.append((b, outp, subprocess.Popen(["timeout", "1500", "/venv/bin/python", "-m", "harness.c19", "--run", inp, outp],
                                                    env=env, cwd=tmp, stdout=subprocess.PIPE, stderr=subprocess.STDOUT, text=True)))
        obs = [None] * len(cases)
        for b, outp, pr in procs:
            so, _ = pr.communicate()
            if pr.returncode != 0 or not os.path.exists(outp):
                raise RuntimeError("c19 runner failed rc=%s: %s" % (pr.returncode, so[-1500:]))
            with open(outp) as f:
                for j, r in enumerate(json.load(f)):
                    obs[b + j * nb] = r
        return obs
    finally:
        shutil.rmtree(tmp, ignore_errors=True)


def to_terms(cases, obs):
    terms, problems = [], []
    for c, o in zip(cases, obs):
        if "driver_error" in o:
            problems.append((c, o["driver_error"]))
            terms.append(None)
            continue
        intern = Intern()
        name_ok, det, rep = observe(c, o)
        via = c.get("via", "top")
        re_eff = (c["worker"] == "debug") if c["re"] is None else c["re"]
        if via != "top":
            # a pickled job's check raises straight to its caller; a node's failure makes the enclosing workflow an
            # errored result, which is reported whatever raise_errors says
            re_eff = True
        copy = c["kind"].endswith("_copy")
        is_py = not c["kind"].startswith("shfile")
        shared = (c["worker"] == "debug" and via != "pickled") or c["kind"] in FILE_KINDS
        terms.append("(%s, %s, %s, %s, %s, %s, %s, %s, (%s, %s, %s, %s))" % (
            coqio.boolean(o["shape_hashed"]), coqio.boolean(re_eff), coqio.boolean(c["worker"] == "cf" and via == "top"), coqio.boolean(copy), coqio.boolean(is_py),
            coqio.boolean(shared), inputs_term(o["before"], c, intern), inputs_term(o["mutated"], c, intern),
            coqio.boolean(name_ok), coqio.boolean(det), coqio.boolean(rep), inputs_term(o["after"], c, intern)))
    return terms, problems


def run(ctx):
    os.makedirs(ctx.scratch.dir, exist_ok=True)
    rng = ctx.rng
    n = ctx.budget(90, 400)
    cases = [{k: c.get(k, "top") if k == "via" else c[k] for k in ("kind", "mode", "worker", "re", "a", "via")}
             for c in ctx.corpus() if "kind" in c]
    # every (kind, mode) once under the debug worker with raise_errors, then random
    for kind, modes in KINDS.items():
        for mode in modes:
            cases.append({"kind": kind, "mode": mode, "worker": "debug", "re": True, "a": 1, "via": "top"})
    while len(cases) < n:
        cases.append(gen_case(rng))
    obs = run_cases_impl(cases)
    terms, problems = to_terms(cases, obs)
    idx = [i for i, t in enumerate(terms) if t is not None]
    res = coqio.run_cases(ctx.scratch, "c19", IMPORTS, "case_t", [terms[i] for i in idx],
                          {"tie": "tie_ok", "spec": "spec_ok", "f19b": "not_F19b", "f19": "not_F19"}, extra=EXTRA, shard=300)
    res = {k: [idx[j] for j in v] for k, v in res.items()}
    out = Outcome(rule=RULE, evaluations=len(idx), traces_validated=len(idx))
    seen = set()
    dist = {"cases": len(cases), "worker_cf": 0, "raise_errors_false_effective": 0, "really_mutating": 0, "file_inputs": 0,
            "copy_mode": 0, "detected": 0, "reported": 0, "shape_hashed_on_tree": None}
    for c, o in zip(cases, obs):
        if "driver_error" in o:
            continue
        dist["worker_cf"] += c["worker"] == "cf"
        re_eff = (c["worker"] == "debug") if c["re"] is None else c["re"]
        dist["raise_errors_false_effective"] += not re_eff
        dist["via_" + c.get("via", "top")] = dist.get("via_" + c.get("via", "top"), 0) + 1
        mut = o["before"] != o["mutated"]
        dist["really_mutating"] += mut
        dist["file_inputs"] += c["kind"] in FILE_KINDS
        dist["copy_mode"] += c["kind"].endswith("_copy")
        _, det, rep = observe(c, o)
        dist["detected"] += det
        dist["reported"] += rep
        dist["shape_hashed_on_tree"] = o["shape_hashed"]
        if mut or c["kind"] in FILE_KINDS:
            seen.add(json.dumps(c, sort_keys=True))
    out.distinct_nontrivial = len(seen)
    out.distribution = dist
    out.samples = [{"case": c, "outcome": o.get("outcome"), "dirs_equal_original_identity": o.get("dirs") == o.get("expected_dirs"),
                    "before": o.get("before"), "after": o.get("after")} for c, o in list(zip(cases, obs))[:40:10]]
    for c, err in problems[:5]:
        out.failures.append(Failure(case=c, observed=err, note="the case could not be driven", kind="tie"))
    for i in res["spec"][:40]:
        c, o = cases[i], obs[i]
        fid = "F19b" if i in res["f19b"] else ("F19" if i in res["f19"] else None)
        what = {"F19b": "python task ignores copy_mode: the original file is modified",
                "F19": "detected in-place modification is only logged (raise_errors false): caller gets the successful result",
                None: "in-place modification of an input not handled as the property states"}[fid]
        out.failures.append(Failure(case=c, observed={"outcome": o["outcome"], "swallowed_error_logged": o["swallowed"],
                                                       "stored": o["stored"], "before": o["before"], "after": o["after"],
                                                       "stored_under_original_identity": o["dirs"] == o["expected_dirs"]},
                                    expected="reported iff the body changed the input; copy mode: original untouched, nothing reported; "
                                             "result under the original identity", kind="spec", finding=fid, note=what))
    for i in res["tie"][:10]:
        c, o = cases[i], obs[i]
        out.failures.append(Failure(case=c, observed={k: o.get(k) for k in ("outcome", "swallowed", "dirs", "cs0", "cs_pristine", "before", "mutated", "after")},
                                    expected=model_value(ctx, terms[i]), kind="tie", note="model/impl"))
    return out


def model_value(ctx, term):
    try:
        v = coqio.eval_terms(ctx.scratch, "m%d" % abs(hash(term)), IMPORTS, [
            """let '(sh, re, late, copy, is_py, shared, i, i_mut, (name_ok, det, rep, after)) := %s in
               let i' := effect copy is_py i i_mut in
               (run_with_check sh (Hcase sh i i_mut) re late shared i (fun _ => i'), really_changed i i_mut, inputs_eqb after (if shared then i' else i))""" % term],
            extra=EXTRA)
        return {"model (name, detected, reported), really changed fields, caller's inputs as the model expects": v[0]}
    except Exception as e:  # pragma: no cover
        return repr(e)


def replay(ctx, payload):
    c = payload["case"]
    obs = run_cases_impl([c])
    print("implementation:", json.dumps(obs[0], indent=1)[:3000])
    terms, problems = to_terms([c], obs)
    if terms[0]:
        print("observed (stored under original identity, detected, reported):", observe(c, obs[0]))
        print("model:", model_value(ctx, terms[0]))
        res = coqio.run_cases(ctx.scratch, "c19r", IMPORTS, "case_t", terms, {"tie": "tie_ok", "spec": "spec_ok"}, extra=EXTRA)
        print("tie ok:", 0 not in res["tie"], " spec ok:", 0 not in res["spec"])
