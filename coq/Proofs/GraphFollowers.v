From Pydra Require Import Base.Prelude Model.Graph Spec.Graph Proofs.GraphBase.
Local Open Scope nat_scope.

Lemma NoDup_app_single (l : list node) x : NoDup l -> ~ In x l -> NoDup (l ++ [x]).
Proof.
  intros N H. induction l as [|y l IH]; cbn; [constructor; [intros []|constructor]|].
  inversion N as [|? ? N1 N2]; subst. constructor.
  - intros I. apply in_app_or in I. destruct I as [I|[I|[]]]; [contradiction|subst; apply H; left; reflexivity].
  - apply IH; [exact N2|]. intros I. apply H. right. exact I.
Qed.

(* followers of remove_successors_nodes: distinct nodes of the graph, each met by the traversal, and every node of
   the graph met by the traversal is among them — so every follower meets remove_nodes' "distinct nodes of the
   graph" precondition, in whatever state the earlier removals leave *)
Lemma collect_followers_spec ns all : forall acc,
  NoDup acc -> (forall x, In x acc -> In x ns) ->
  NoDup (collect_followers ns all acc) /\
  (forall x, In x (collect_followers ns all acc) <-> In x acc \/ (In x all /\ In x ns)).
Proof.
  induction all as [|nd r IH]; intros acc ND SUB; cbn [collect_followers].
  - split; [exact ND|]. intros x. split; [auto|]. intros [H|[[] _]]. exact H.
  - destruct (memb nd ns && negb (memb nd acc)) eqn:E.
    + apply andb_true_iff in E. destruct E as [E1 E2]. apply memb_In in E1.
      apply negb_true_iff, memb_false in E2.
      destruct (IH (acc ++ [nd])) as [N S].
      * apply NoDup_app_single; assumption.
      * intros x Hx. apply in_app_or in Hx. destruct Hx as [Hx|[Hx|[]]]; [auto|subst; exact E1].
      * split; [exact N|]. intros x. rewrite S, in_app_iff. cbn [In]. split.
        -- intros [[H|[H|[]]]|[H1 H2]]; [auto|subst; auto|auto].
        -- intros [H|[[H|H] H2]]; [auto|subst; auto|auto].
    + destruct (IH acc ND SUB) as [N S]. split; [exact N|]. intros x. rewrite S. cbn [In]. split.
      * intros [H|[H1 H2]]; auto.
      * intros [H|[[H|H] H2]]; [auto| |auto]. subst x.
        apply andb_false_iff in E. destruct E as [E|E].
        -- apply memb_false in E. contradiction.
        -- apply negb_false_iff, memb_In in E. auto.
Qed.

Theorem followers_spec ns all :
  NoDup (collect_followers ns all []) /\
  (forall x, In x (collect_followers ns all []) <-> In x all /\ In x ns).
Proof.
  destruct (collect_followers_spec ns all [] (NoDup_nil _) (fun x H => match H with end)) as [N S].
  split; [exact N|]. intros x. rewrite S. cbn [In]. tauto.
Qed.
