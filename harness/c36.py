"""C36 — provenance records are complete and consistent (pydra/engine/audit.py, messenger.py, job.py).

Parent side: generates job trees, runs them through the real Submitter in fresh interpreters
(`python -m harness.c36 <jobs.json> <out.json>`), canonicalises the message files and lets Coq evaluate the
model (Model/Audit.v) and the executable specification (Spec/Audit.v) on the same cases.
"""
import json
import os
import shutil
import subprocess
import sys
import tempfile

PROP = "C36"
PROPS_FILE = "Props/C36.v"
MANIFEST = dict(
    text="Theorem C36_full (Coq, closed under the global context): for every forest of job executions nested to any "
         "depth (workflow jobs running their node jobs inside their own run; any job succeeding or failing), PROV "
         "or ALL, with or without message_dir, synchronous or asynchronous worker, the messages sent by "
         "Audit.start_audit/audit_task/monitor/finalize_audit contain exactly one start and one end record per "
         "activity id, the ended activities are exactly the started ones and lie in the same place, and the end "
         "records correspond one-to-one (same directory, same errored flag) to the results saved by the executed jobs "
         "— given every Job owns its Audit object (true since the F36 fix; the driver re-reads that fact from the "
         "live Job.__init__ on every run and the model takes it as case data). C36_any_state: the same from any "
         "interpreter state. C36_check_decides_spec: the boolean check run on observed logs is equivalent to the "
         "Prop. C36_sharing_breaks_nested: with a shared Audit object (pre-fix) a two-node workflow violates it. "
         "Correspondence: generated job trees (python/shell leaves, file inputs, commands that cannot be rendered, failures during output collection, nested workflows, splits, failures "
         "at any position, failing constructors) x {PROV, ALL, RESOURCE, NONE} x message_dir x {debug, cf} run "
         "through the real Submitter in fresh interpreters; the FileMessenger files, ordered by a second recording "
         "messenger, are compared message by message with the model's log and checked against the spec in Coq.",
    note="Trusted: Coq kernel + vm_compute; hand-written model of Audit/Job.run (uuid4 = fresh counter, cwd as a "
         "number, pickling of a live ResourceMonitor fails); asynchronous execution is modelled sequentially and "
         "is exercised only with chains (no concurrency inside one message log); correspondence is differential testing.",
    technique="Coq proof by induction over the job tree (heap of Audit objects, fresh-id ranges, permutation "
              "invariants) + model/impl correspondence via generated cases.v",
    design="§8 Group H / C36",
)
TIE_NAME = "Model.Audit.session vs Submitter/Job.run/Audit + FileMessenger message files"
TRUSTED = [
    "Model/Audit.v: hand-written model of Audit.start_audit/audit_task/monitor/finalize_audit, of the audit-relevant "
    "steps of Job.__init__/run/run_async (alloc of the Audit object, pickling at _populate_filesystem, chdir, "
    "try/finally order, save of the result) and of Submitter.expand_workflow stopping at the first failing node",
    "gen_uuid modelled as a fresh counter (uuid4 collisions ignored); timestamps, the `--version` subprocess output "
    "and the runtime figures are not modelled",
    "the recording messenger placed after FileMessenger in `messengers` (gives the order of the message files)",
]
ASSUMPTIONS = ["jobs of one message log execute one after another or properly nested (true for the debug worker and "
               "for chains under the cf worker); no cached results in the cache_root (fresh directory per case)"]
RULE = ("generated job trees run through Submitter with FileMessenger; a case is (tree, flags, message_dir?, worker); "
        "distinct = distinct (tree shape incl. failure positions, flags, md, worker); non-trivial = PROV on and "
        "(at least two executed jobs or a failing job)")


# ====================================================================================== child side
def _child_defs():
    import typing as ty
    from fileformats.generic import File
    from pydra.compose import python, shell, workflow

    @python.define(outputs={"out": int})
    def Py0(x: int, k: int, fail: bool = False, dep: int = 0) -> int:
        if fail:
            raise ValueError("boom")
        return x

    @python.define(outputs={"out": int})
    def Py1(x: int, k: int, f1: File, fail: bool = False) -> int:
        if fail:
            raise ValueError("boom")
        return x

    @python.define(outputs={"out": int})
    def Py2(x: int, k: int, f1: File, f2: File, fail: bool = False) -> int:
        if fail:
            raise ValueError("boom")
        return x

    @python.define(outputs={"out": int})
    def PyBadOut(x: int, k: int) -> int:
        return [x, "not an integer"]          # the body returns; storing it in the `int` output fails

    ShMiss = shell.define("true <x:int> <k:int> <out|missing:File>")     # the command succeeds; the output file is not there
    ShTrue = shell.define("true <x:int> <k:int>")
    ShFalse = shell.define("false <x:int> <k:int>")
    ShEcho = shell.define("echo <x:int> <k:int> <word:str>")

    def make_task(nd, x, files):
        kind = nd["kind"]
        if kind == "py":
            cls = [Py0, Py1, Py2][nd["files"]]
            kw = {"f%d" % (i + 1): File(files[i]) for i in range(nd["files"])}
            return cls(x=x, k=nd["k"], fail=nd["fails"], **kw)
        if kind == "split":   # `dep` makes the split node wait for the node before it, like every other node of the chain
            return Py0(k=nd["k"], dep=x).split(x=list(range(nd["n"]))) if nd["bad"] is None else \
                Py0(k=nd["k"], dep=x).split(("x", "fail"), x=list(range(nd["n"])), fail=[i == nd["bad"] for i in range(nd["n"])])
        if kind == "sh":
            return (ShFalse if nd["fails"] else ShTrue)(x=x, k=nd["k"])
        if kind == "pybadout":
            return PyBadOut(x=x, k=nd["k"])
        if kind == "shmiss":
            return ShMiss(x=x, k=nd["k"])
        if kind == "shbad":      # ShellTask.cmdline raises ValueError("No closing quotation") for this value (F23)
            return ShEcho(x=x, k=nd["k"], word="it's")
        if kind == "wf":
            return W(x=x, k=nd["k"], spec=json.dumps(nd["nodes"]), files=list(files), bad=nd["fails"])
        raise ValueError(kind)

    @workflow.define(outputs={"out": ty.Any})
    def W(x: int, k: int, spec: str, files: list, bad: bool = False) -> ty.Any:
        if bad:
            raise ValueError("constructor boom")
        cur = x
        for nd in json.loads(spec):
            n = workflow.add(make_task(nd, cur, files), name=nd["name"])
            if nd["kind"] != "split":    # a split node is a sink: its list output is not chained on
                cur = n.return_code if nd["kind"] in ("sh", "shbad", "shmiss") else n.out
        return cur

    return make_task


def _msg_key(m):
    m = dict(m)
    m.pop("@context", None)
    return json.dumps(m, sort_keys=True, default=repr)


def child_main(jobs_path, out_path):
    import glob
    import cloudpickle as cp
    from pydra.engine.submitter import Submitter
    from pydra.engine.job import Job
    from pydra.utils.messenger import AuditFlag, FileMessenger, Messenger

    class Recorder(Messenger):
        """second messenger: remembers the order in which messages were sent and the cwd at that moment"""

        def __init__(self, path):
            self.path = path

        def send(self, message, **kwargs):
            line = json.dumps({"cwd": os.getcwd(), "msg": message}, default=repr) + "\n"
            fd = os.open(self.path, os.O_WRONLY | os.O_APPEND | os.O_CREAT)
            try:
                os.write(fd, line.encode())
            finally:
                os.close(fd)

    make_task = _child_defs()
    with open(jobs_path) as f:
        jobs = json.load(f)
    FLAGS = {"prov": AuditFlag.PROV, "all": AuditFlag.ALL, "res": AuditFlag.RESOURCE, "none": AuditFlag.NONE}
    home = os.getcwd()
    for job in jobs:
        os.chdir(home)
        root = tempfile.mkdtemp(prefix="c36case-", dir=os.path.dirname(out_path))
        cache = os.path.join(root, "cache")
        md = os.path.join(root, "msgs")
        rec = os.path.join(root, "rec.jsonl")
        files = []
        for i in range(2):
            p = os.path.join(root, "in%d.txt" % i)
            with open(p, "w") as f:
                f.write("content %d" % i)
            files.append(p)
        obs = {"id": job["id"], "exception": None}
        try:
            kw = {"n_procs": 2} if job["worker"] == "cf" else {}
            margs = {"message_dir": md} if job["md"] else None
            with Submitter(cache_root=cache, worker=job["worker"], audit_flags=FLAGS[job["flags"]],
                           messengers=[FileMessenger(), Recorder(rec)], messenger_args=margs, **kw) as sub:
                probe = [Job(task=make_task({"kind": "py", "files": 0, "k": -1 - i, "fails": False}, 0, files),
                             submitter=sub, name="probe") for i in range(2)]
                obs["sharing"] = probe[0].audit is probe[1].audit or probe[0].audit is sub.audit
                for tree in job["trees"]:
                    try:
                        task = make_task(tree, 0, files)
                        sub(task, raise_errors=False)
                    except Exception as e:  # noqa
                        obs["exception"] = "%s: %s" % (type(e).__name__, str(e)[:200])
            os.chdir(home)
            # the message files, wherever they are
            found = {}
            files_seen = []
            for p in sorted(glob.glob(os.path.join(root, "**", "*.jsonld"), recursive=True)):
                with open(p) as f:
                    txt = f.read()
                try:
                    m = json.loads(txt)
                    m.pop("@context", None)
                    key = _msg_key(m)
                except Exception:
                    m = None
                    key = "unparsable:" + txt[:100]
                found.setdefault(key, []).append(os.path.dirname(p))
                files_seen.append({"dir": os.path.dirname(p), "msg": m})
            obs["files"] = files_seen
            log = []
            if os.path.exists(rec):
                with open(rec) as f:
                    for line in f:
                        e = json.loads(line)
                        m = e["msg"]
                        m.pop("@context", None)
                        log.append({"cwd": e["cwd"], "msg": m, "dirs": found.get(_msg_key(m), [])})
            obs["log"] = log
            obs["n_files"] = sum(len(v) for v in found.values())
            # results saved by executed jobs, named by the job that owns the directory
            results = []
            dirs = {}
            for d in sorted(glob.glob(os.path.join(cache, "*"))):
                if not os.path.isdir(d):
                    continue
                ident = {"name": None, "k": None, "x": None}
                jp = os.path.join(d, "_job.pklz")
                if os.path.exists(jp):
                    try:
                        with open(jp, "rb") as f:
                            j = cp.load(f)
                        ident = {"name": j.name, "k": getattr(j.task, "k", None), "x": getattr(j.task, "x", None)}
                    except Exception:   # a job file cut short because pickling the job failed
                        pass
                    if not isinstance(ident["x"], int):
                        ident["x"] = None
                dirs[d] = ident
                rp = os.path.join(d, "_result.pklz")
                if os.path.exists(rp):
                    with open(rp, "rb") as f:
                        r = cp.load(f)
                    results.append({"dir": d, "errored": bool(r.errored)})
            obs["results"] = results
            obs["dirs"] = dirs
            obs["md"] = md
        except Exception as e:  # harness-level problem: reported, never swallowed
            import traceback
            obs["harness_error"] = traceback.format_exc()[-2000:]
        finally:
            os.chdir(home)
            shutil.rmtree(root, ignore_errors=True)
        with open(out_path, "a") as f:
            f.write(json.dumps(obs, default=repr) + "\n")



# ====================================================================================== parent side
CWD0 = 4999          # the caller's working directory (never a legitimate place for a message)
UNKNOWN = 4998       # a directory the harness cannot attribute to a job
IMPORTS = ["Model.Audit", "Spec.Audit"]
EXTRA = """
Definition case_t := (cfg * list task * list lmsg * list res * list lmsg)%%type.
(* the messages in the order they were sent, and the saved results, are what the model predicts *)
Definition tie_ok (k : case_t) : bool :=
  let '(c, ts, log, rs, flog) := k in
  let '(m, r) := session c %d ts in list_eqb lmsg_eqb m log && permb nb_eqb r rs.
(* the message files satisfy the specification (which does not depend on their order) *)
Definition spec_ok (k : case_t) : bool :=
  let '(c, ts, log, rs, flog) := k in if c_prov c then audit_okb (c_md c) flog rs else true.
""" % CWD0


class Gen:
    def __init__(self, rng, allow_split):
        self.rng = rng
        self.n = 0
        self.allow_split = allow_split
        self.top_split_used = False

    def k(self):
        self.n += 1
        return self.n * 10

    def leaf(self, name):
        r = self.rng
        if r.random() < 0.07:
            return {"kind": "shbad", "k": self.k(), "name": name, "fails": True}
        if r.random() < 0.12:     # failure after the body returned: while the outputs are collected
            return {"kind": r.choice(["pybadout", "shmiss"]), "k": self.k(), "name": name, "fails": True}
        if r.random() < 0.3:
            return {"kind": "sh", "k": self.k(), "name": name, "fails": r.random() < 0.2}
        return {"kind": "py", "k": self.k(), "name": name, "files": r.choice([0, 0, 0, 1, 2]),
                "fails": r.random() < 0.2}

    def split(self, name):
        n = self.rng.choice([1, 2, 3])
        return {"kind": "split", "k": self.k(), "name": name, "n": n,
                "bad": self.rng.randrange(n) if self.rng.random() < 0.25 else None}

    def node(self, name, depth, last, top=False):
        r = self.rng
        x = r.random()
        if depth > 0 and x < (0.75 if top else 0.35):
            nd = {"kind": "wf", "k": self.k(), "name": name, "fails": r.random() < 0.07, "nodes": []}
            cnt = r.choice([1, 2, 2, 3])      # (a workflow without nodes fails in Workflow.construct: not an audit matter)
            for i in range(cnt):
                nd["nodes"].append(self.node("n%d" % (i + 1), depth - 1, i == cnt - 1 and cnt >= 2))
            return nd
        if self.allow_split and last and x > 0.85 and not (top and self.top_split_used):
            if top:
                self.top_split_used = True
            return self.split(name)
        return self.leaf(name)


def gen_case(rng, worker):
    g = Gen(rng, allow_split=(worker == "debug"))
    trees = [g.node("main", rng.choice([1, 2, 2, 3]), True, top=True) for _ in range(rng.choice([1, 1, 2]))]
    return {"worker": worker, "flags": rng.choice(["prov", "prov", "prov", "all", "all", "res", "none"]),
            "md": rng.random() < 0.5, "trees": trees}


# ---- the job tree of the model --------------------------------------------------------------------------
def model_nodes(nd, top):
    """list of model `task` terms (a split node stands for its state jobs)"""
    from .lib import coqio
    kind = nd["kind"]
    if kind == "py":
        return [coqio.app("Leaf", coqio.nat(nd["k"]), coqio.string(nd["name"]),
                          coqio.lst([coqio.string("f%d" % (i + 1)) for i in range(nd["files"])]), "false",
                          coqio.boolean(nd["fails"]), "false", "false")]
    if kind == "sh":
        return [coqio.app("Leaf", coqio.nat(nd["k"]), coqio.string(nd["name"]), "[]", "true", coqio.boolean(nd["fails"]), "false", "false")]
    if kind == "shbad":
        return [coqio.app("Leaf", coqio.nat(nd["k"]), coqio.string(nd["name"]), "[]", "true", "true", "true", "false")]
    if kind in ("pybadout", "shmiss"):     # body ok, Outputs._from_job raises
        return [coqio.app("Leaf", coqio.nat(nd["k"]), coqio.string(nd["name"]), "[]", coqio.boolean(kind == "shmiss"),
                          "false", "false", "true")]
    if kind == "split":
        name = "Py0" if top else nd["name"]
        leaves = [coqio.app("Leaf", coqio.nat(nd["k"] + 1 + i), coqio.string(name), "[]", "false",
                            coqio.boolean(nd["bad"] == i), "false", "false") for i in range(nd["n"])]
        if top:   # Submitter.__call__ wraps an outer split into an implicit workflow job called "main"
            return [coqio.app("Wf", coqio.nat(nd["k"]), coqio.string("main"), coqio.lst(leaves), "false")]
        return leaves
    if kind == "wf":
        kids = [] if nd["fails"] else [t for c in nd["nodes"] for t in model_nodes(c, False)]
        return [coqio.app("Wf", coqio.nat(nd["k"]), coqio.string(nd["name"]), coqio.lst(kids), coqio.boolean(nd["fails"]))]
    raise ValueError(kind)


def shape(nd):
    if nd["kind"] == "wf":
        return ("wf", nd["fails"], tuple(shape(c) for c in nd["nodes"]))
    if nd["kind"] == "split":
        return ("split", nd["n"], nd["bad"])
    return (nd["kind"], nd.get("files", 0), nd["fails"])


def count_jobs(nd):
    if nd["kind"] == "wf":
        return 1 + (0 if nd["fails"] else sum(count_jobs(c) for c in nd["nodes"]))
    if nd["kind"] == "split":
        return nd["n"] + 1
    return 1


def any_fail(nd):
    if nd["kind"] == "wf":
        return nd["fails"] or any(any_fail(c) for c in nd["nodes"])
    if nd["kind"] == "split":
        return nd["bad"] is not None
    return nd["fails"]


def split_ks(nd, top, out):
    if nd["kind"] == "split":
        out[nd["k"]] = top
    elif nd["kind"] == "wf":
        for c in nd["nodes"]:
            split_ks(c, False, out)
    return out


# ---- canonical form of what was observed ------------------------------------------------------------------
def classify(m, u):
    """one JSON-LD message -> (constructor, args) of Model.Audit.msg, or None"""
    if not isinstance(m, dict):
        return None
    ty = m.get("@type")
    try:
        if ty == "job" and "startedAtTime" in m:
            return ("MStart", [u(m["@id"]), u(m["executedBy"])])
        if ty == "job" and "StartedAtTime" in m:
            return ("MTask", [u(m["@id"]), str(m["Label"]), m["Command"] is not None])
        if ty == "input":
            return ("MInput", [u(m["@id"]), str(m["Label"])])
        if ty == "monitor":
            return ("MMonStart", [u(m["@id"]), u(m["wasStartedBy"])])
        if "wasEndedBy" in m:
            return ("MMonEnd", [u(m["@id"]), u(m["wasEndedBy"])])
        if ty == "runtime":
            return ("MRuntime", [u(m["@id"]), u(m["prov:wasGeneratedBy"])])
        if ty == "prov:Generation":
            return ("MGen", [u(m["entity_generated"]), u(m["hadActivity"])])
        if "endedAtTime" in m and isinstance(m.get("errored"), bool):
            return ("MEnd", [u(m["@id"]), m["errored"]])
    except (KeyError, ValueError):
        return None
    return None


def canon(case, obs):
    """-> (log, flog, results, problems)
    log     : the messages in the order they were sent (second messenger), each placed where its file was found
    flog    : the message files themselves (the observable of the property), in file-name order
    results : (directory, errored) of every _result.pklz under the cache_root
    uuids are numbered by first appearance in the sent order, directories are named by the job that owns them;
    problems: reasons why `log` cannot be compared with the model (each is a correspondence failure)"""
    sk = {}
    top_split_k = None
    for t in case["trees"]:
        split_ks(t, True, sk)
        if t["kind"] == "split":
            top_split_k = t["k"]
    dirnum = {}
    for d, ident in obs["dirs"].items():
        k, x = ident.get("k"), ident.get("x")
        if k is None:
            dirnum[d] = top_split_k if (ident.get("name") == "main" and top_split_k is not None) else UNKNOWN
        elif k in sk and ident.get("name") != "main" and x is not None:
            dirnum[d] = k + 1 + x
        else:
            dirnum[d] = k
    ids = {}
    problems = []

    def u(v):
        if not isinstance(v, str) or not v.startswith("uid:"):
            raise ValueError(v)
        return ids.setdefault(v, len(ids) + 1)

    def where(d):
        if os.path.normpath(d) == os.path.normpath(obs["md"]):
            return 0
        if os.path.basename(d) == "messages":
            return dirnum.get(os.path.dirname(d), UNKNOWN)
        return UNKNOWN

    log = []
    for e in obs["log"]:
        t = classify(e["msg"], u)
        if t is None:
            problems.append("sent message outside the model's vocabulary: keys %r" % (sorted(e["msg"]),))
            continue
        if len(e["dirs"]) != 1:
            problems.append("a sent %s message is in %d files" % (t[0], len(e["dirs"])))
        log.append((where(e["dirs"][0]) if e["dirs"] else UNKNOWN, t[0], t[1]))
    flog = []
    for f in obs["files"]:
        t = classify(f["msg"], u)
        if t is None:
            problems.append("a message file is unreadable or outside the model's vocabulary")
            continue
        flog.append((where(f["dir"]), t[0], t[1]))
    if len(obs["files"]) != len(obs["log"]):
        problems.append("%d message files for %d messages sent" % (len(obs["files"]), len(obs["log"])))
    results = [(dirnum.get(r["dir"], UNKNOWN), r["errored"]) for r in obs["results"]]
    return log, flog, results, problems


def enc_case(case, obs, log, results, flog):
    from .lib import coqio

    def arg(a):
        if isinstance(a, bool):
            return coqio.boolean(a)
        if isinstance(a, int):
            return coqio.nat(a)
        return coqio.string(a)

    cfg = coqio.app("mkCfg", coqio.boolean(case["flags"] in ("prov", "all")), coqio.boolean(case["flags"] in ("res", "all")),
                    "(Some 0%nat)" if case["md"] else "None", coqio.boolean(obs["sharing"]),
                    coqio.boolean(case["worker"] == "cf"))
    trees = coqio.lst([t for nd in case["trees"] for t in model_nodes(nd, True)])
    def enc_log(l):
        return coqio.lst([coqio.pair(coqio.nat(loc), coqio.app(c, *[arg(a) for a in args])) for loc, c, args in l])

    cres = coqio.lst([coqio.pair(coqio.nat(loc), coqio.boolean(e)) for loc, e in results])
    return coqio.pair(cfg, trees, enc_log(log), cres, enc_log(flog)), cfg, trees


def run_children(cases, scratch_root, timeout):
    """run the cases in fresh interpreters (batches); returns {id: observation}"""
    repo = os.environ.get("VERIF_REPO", "/repo")
    env = dict(os.environ, PYTHONPATH="/verif:" + repo, PYTHONHASHSEED="0", NO_ET="1", PYTHONDONTWRITEBYTECODE="1")
    batches = []
    deb = [c for c in cases if c["worker"] == "debug"]
    cf = [c for c in cases if c["worker"] != "debug"]
    for lst, size in ((deb, 10), (cf, 4)):
        for i in range(0, len(lst), size):
            batches.append(lst[i:i + size])
    procs, obs = [], {}
    pending = list(enumerate(batches))
    running = []
    while pending or running:
        while pending and len(running) < 4:
            bi, b = pending.pop(0)
            jp = os.path.join(scratch_root, "jobs%d.json" % bi)
            op = os.path.join(scratch_root, "out%d.jsonl" % bi)
            with open(jp, "w") as f:
                json.dump(b, f)
            pr = subprocess.Popen(["timeout", "-k", "5", str(timeout), "/venv/bin/python", "-m", "harness.c36", jp, op],
                                  cwd="/verif", env=env, stdout=subprocess.DEVNULL, stderr=subprocess.PIPE, text=True)
            running.append((pr, op, b))
        pr, op, b = running.pop(0)
        _, err = pr.communicate()
        if os.path.exists(op):
            with open(op) as f:
                for line in f:
                    o = json.loads(line)
                    obs[o["id"]] = o
        for c in b:
            if c["id"] not in obs:
                obs[c["id"]] = {"id": c["id"], "incomplete": "child rc=%s: %s" % (pr.returncode, (err or "")[-800:])}
    return obs


def run(ctx):
    from .lib import coqio
    from .lib.runner import Outcome, Failure
    rng = ctx.rng
    n_deb, n_cf = ctx.budget(20, 240), ctx.budget(3, 30)
    cases = [dict(c) for c in ctx.corpus()]
    while sum(c["worker"] == "debug" for c in cases) < n_deb:
        cases.append(gen_case(rng, "debug"))
    while sum(c["worker"] == "cf" for c in cases) < n_cf:
        cases.append(gen_case(rng, "cf"))
    for i, c in enumerate(cases):
        c["id"] = i
    tmp = tempfile.mkdtemp(prefix="c36-", dir="/tmp")
    try:
        obs = run_children(cases, tmp, timeout=ctx.budget(240, 600) if ctx.widen == 1 else 1500)
    finally:
        shutil.rmtree(tmp, ignore_errors=True)
    out = Outcome(rule=RULE)
    dist = {"worker_debug": 0, "worker_cf": 0, "flags_prov": 0, "flags_all": 0, "flags_res": 0, "flags_none": 0,
            "message_dir": 0, "cases_with_failing_job": 0, "cases_nested_depth_ge_2": 0, "jobs_in_trees": 0,
            "messages_observed": 0, "results_observed": 0, "audit_shared_between_jobs": 0, "incomplete_runs": 0}
    enc, meta, seen = [], [], set()
    for c in cases:
        o = obs[c["id"]]
        dist["worker_" + c["worker"]] += 1
        dist["flags_" + c["flags"]] += 1
        dist["message_dir"] += c["md"]
        dist["cases_with_failing_job"] += any(any_fail(t) for t in c["trees"])
        dist["cases_nested_depth_ge_2"] += any(t["kind"] == "wf" and any(k["kind"] == "wf" for k in t["nodes"]) for t in c["trees"])
        dist["jobs_in_trees"] += sum(count_jobs(t) for t in c["trees"])
        pub = {k: c[k] for k in ("worker", "flags", "md", "trees")}
        if "incomplete" in o or "harness_error" in o:
            dist["incomplete_runs"] += 1
            out.failures.append(Failure(case=pub, observed=o.get("incomplete") or o.get("harness_error"),
                                        expected="the run completes and the message files can be read",
                                        note="audited run did not complete", kind="spec" if "incomplete" in o else "tie"))
            continue
        log, flog, results, problems = canon(c, o)
        if problems:
            out.failures.append(Failure(case=pub, observed=sorted(set(problems)),
                                        expected="every sent message is one of the eight modelled kinds and lies in exactly one file",
                                        note="message files do not match the messages sent", kind="tie"))
        dist["messages_observed"] += len(flog)
        dist["results_observed"] += len(results)
        dist["audit_shared_between_jobs"] += bool(o["sharing"])
        term, cfg, trees = enc_case(c, o, log, results, flog)
        enc.append(term)
        meta.append({"case": pub, "cfg": cfg, "trees": trees, "log": log, "flog": flog, "results": results,
                     "sharing": o["sharing"], "exception": o.get("exception")})
        key = (c["worker"], c["flags"], c["md"], tuple(shape(t) for t in c["trees"]))
        if key not in seen:
            seen.add(key)
            if c["flags"] in ("prov", "all") and (sum(count_jobs(t) for t in c["trees"]) >= 2 or any(any_fail(t) for t in c["trees"])):
                out.distinct_nontrivial += 1
    res = coqio.run_cases(ctx.scratch, "c36", IMPORTS, "case_t", enc, {"tie": "tie_ok", "spec": "spec_ok"}, extra=EXTRA) \
        if enc else {"tie": [], "spec": []}
    out.evaluations = len(enc)
    out.traces_validated = len(enc)
    out.distribution = dist
    out.samples = [{"case": m["case"], "observed_log": m["log"][:12], "observed_results": m["results"]} for m in meta[:3]]
    for kind in ("spec", "tie"):
        for i in res[kind][:10]:
            m = meta[i]
            vals = coqio.eval_terms(ctx.scratch, "x%s%d" % (kind, i), IMPORTS,
                                    ["session %s %d %s" % (m["cfg"], CWD0, m["trees"])])
            out.failures.append(Failure(
                case=m["case"], observed={"message_files": m["flog"], "sent_in_order": m["log"], "results": m["results"],
                                          "audit_shared": m["sharing"]},
                expected=("one start and one end per activity id, ends one-to-one with the saved results (place, errored)"
                          if kind == "spec" else {"model (log, results)": vals[0]}),
                note="provenance records incomplete or inconsistent" if kind == "spec" else "model/impl",
                kind=kind))
    return out


def replay(ctx, payload):
    from .lib import coqio
    case = dict(payload["case"])
    case["id"] = 0
    tmp = tempfile.mkdtemp(prefix="c36-", dir="/tmp")
    try:
        o = run_children([case], tmp, timeout=600)[0]
    finally:
        shutil.rmtree(tmp, ignore_errors=True)
    if "incomplete" in o or "harness_error" in o:
        print("implementation: run did not complete:", o.get("incomplete") or o.get("harness_error"))
        return 1
    log, flog, results, problems = canon(case, o)
    print("implementation: audit shared between jobs =", o["sharing"], "| problems:", problems)
    print("  messages in the order sent:")
    for e in log:
        print("   ", e)
    print("  message files:", sorted(flog))
    print("  results:", results)
    term, cfg, trees = enc_case(case, o, log, results, flog)
    vals = coqio.eval_terms(ctx.scratch, "replay", IMPORTS,
                            ["session %s %d %s" % (cfg, CWD0, trees), "tie_ok %s" % term, "spec_ok %s" % term], extra=EXTRA)
    print("model (log, results):", vals[0])
    print("model = implementation:", vals[1])
    print("spec holds on the observed log:", vals[2])


if __name__ == "__main__":
    child_main(sys.argv[1], sys.argv[2])
    sys.exit(0)
