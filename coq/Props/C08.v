(* C08 — value hashing is deterministic, discriminating and context-free. *)
From Pydra Require Import Base.Prelude Base.PySort Model.Hash Spec.Hash Proofs.HashSort Proofs.HashRefuted.

(* context-free: hashing v after / alongside anything else (one shared Cache) gives the digest of v alone *)
Definition C08_context_free_statement : Prop :=
  forall H ctx v, hash_in H ctx v = hash_in H [] v.

Theorem C08_refuted_cycle : ~ C08_context_free_statement.
Proof. intros S. exact (cycle_context_dependent (S toyH [cyc_b] cyc_a)). Qed.
Print Assumptions C08_refuted_cycle.

(* deterministic: equal values (sets as sets, dicts as maps) have equal digests *)
Definition C08_order_statement : Prop :=
  forall H a b, veq a b -> digest H a = digest H b.

Theorem C08_refuted_partial_order : ~ C08_order_statement.
Proof. intros S. destruct partial_order_insertion_dependent as [E N]. exact (N (S toyH _ _ E)). Qed.
Print Assumptions C08_refuted_partial_order.

(* discriminating: the bytes of two different values differ.  Refuted: a PathLike dict key is not
   self-delimiting *)
Theorem C08_refuted_pathkey :
  exists a b, ~ veq a b /\ preimage toyH a = preimage toyH b.
Proof.
  exists (pk_d1 (VInt 10115) (VStr "x")), (pk_d2 toyH (VInt 10115) (VStr "x")).
  split; [vm_compute; discriminate|exact pathkey_same_bytes_example].
Qed.
Print Assumptions C08_refuted_pathkey.
