(* C15 — jobs start only after the jobs they consume have succeeded; every job exactly once.
   Asynchronous loop (Submitter.expand_workflow_async), for every oracle = every completion order,
   every pattern of "seen running", every max_concurrent, every set of failing jobs. *)
From Pydra Require Import Base.Prelude Base.SchedBase Model.Sched Spec.Sched Proofs.SchedG.

Theorem C15_safety :
  forall (V : Type) (body : nat -> nat -> list (list (option V)) -> V) (fails : job -> bool)
         (vr : variant) (g : graph) (kmax : option nat),
    fix14 vr = true -> wf_graph g ->
    forall orc fuel, starts_after_upstream g (event_log (run_async V body fails vr g kmax orc fuel)).
Proof. intros. apply async_safety; assumption. Qed.
Print Assumptions C15_safety.

Theorem C15_at_most_once :
  forall (V : Type) (body : nat -> nat -> list (list (option V)) -> V) (fails : job -> bool)
         (vr : variant) (g : graph) (kmax : option nat),
    fix14 vr = true -> wf_graph g ->
    forall orc fuel, at_most_once (event_log (run_async V body fails vr g kmax orc fuel)).
Proof. intros. apply async_at_most_once; assumption. Qed.
Print Assumptions C15_at_most_once.

(* the hypotheses are met by the repaired code on a diamond with a split node *)
Example C15_hyps_nonvacuous :
  fix14 repaired = true /\ wf_graph [mkNode 0 [] 2; mkNode 1 [0] 1; mkNode 2 [0] 3; mkNode 3 [1; 2] 1].
Proof. split; reflexivity. Qed.
