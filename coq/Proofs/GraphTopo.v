(* Proofs/GraphTopo.v — the invariants of GraphInv / GraphEdges restated with the reference
   notion of a valid topological order (Spec/Graph.v), and the termination of sorting. *)
From Pydra Require Import Base.Prelude Model.Graph Spec.Graph
  Proofs.GraphBase Proofs.GraphSort Proofs.GraphInv Proofs.GraphEdges.
From Coq Require Import Sorting.Permutation.
Local Open Scope nat_scope.
Local Open Scope list_scope.

Lemma pos_app_in a l1 l2 : In a l1 -> pos a (l1 ++ l2) = pos a l1 /\ pos a l1 < List.length l1.
Proof.
  induction l1 as [|x l1 IH]; cbn; intros H; [contradiction|].
  destruct (Nat.eqb a x) eqn:E; [split; [reflexivity|lia]|].
  apply Nat.eqb_neq in E. destruct H as [H|H]; [congruence|]. destruct (IH H). split; lia.
Qed.

Lemma pos_app_notin a l1 l2 : ~ In a l1 -> pos a (l1 ++ l2) = List.length l1 + pos a l2.
Proof.
  induction l1 as [|x l1 IH]; cbn; intros H; [reflexivity|].
  destruct (Nat.eqb a x) eqn:E; [apply Nat.eqb_eq in E; subst; exfalso; apply H; auto|].
  rewrite IH; auto.
Qed.

Lemma before_pos a b l : NoDup l -> before a b l -> pos a l < pos b l.
Proof.
  intros Hnd [l1 [l2 [-> [Ha Hb]]]].
  destruct (pos_app_in a l1 l2 Ha) as [E1 Hlt].
  assert (Hnb : ~ In b l1) by (intros Hb1; eapply nodup_app_disj; eauto).
  pose proof (pos_app_notin b l1 l2 Hnb) as E2. unfold node, vertex in *. lia.
Qed.

Lemma pred_edges_In pd a b : In (a, b) (pred_edges pd) -> NoDup (dkeys pd) -> inW pd b a.
Proof.
  unfold pred_edges, inW. intros H Hnd. apply in_flat_map in H. destruct H as [[k pl] [Hk H]].
  cbn in H. apply in_map_iff in H. destruct H as [x [E Hx]]. inversion E; subst x k. clear E.
  exists pl. split; [|exact Hx].
  revert Hnd Hk. unfold dkeys. induction pd as [|[k' v'] pd IH]; cbn; intros Hnd Hk; [contradiction|].
  inversion Hnd; subst. destruct Hk as [Hk|Hk].
  - inversion Hk; subst. now rewrite Nat.eqb_refl.
  - destruct (Nat.eqb b k') eqn:E; [|auto]. apply Nat.eqb_eq in E. subst k'.
    exfalso. apply H1. apply in_map_iff. exists (b, pl). auto.
Qed.

(* the recorded order respects the predecessors dictionary — needs nothing but [inv] *)
Lemma sorted_valid_preds g s :
  inv g -> g_sorted g = Some s -> topo_valid (g_nodes g) (pred_edges (g_preds g)) s.
Proof.
  intros [Hnd [Hk Hs]] E. destruct (Hs s E) as [Hp Hb].
  assert (Hnds : NoDup s) by (eapply Permutation_NoDup; [symmetry; exact Hp|exact Hnd]).
  split; [exact Hnds|]. split; [exact Hp|].
  intros a b Hin Ha Hb'. apply before_pos; [exact Hnds|]. apply Hb; auto. apply pred_edges_In; auto.
Qed.

(* ... and the edges, under [inv2] *)
Lemma sorted_valid_edges g s :
  inv2 g -> g_sorted g = Some s -> topo_valid (g_nodes g) (g_edges g) s.
Proof.
  intros [[Hnd [Hk Hs]] [Hkeys [_ Hc]]] E. destruct (Hs s E) as [Hp Hb].
  assert (Hnds : NoDup s) by (eapply Permutation_NoDup; [symmetry; exact Hp|exact Hnd]).
  split; [exact Hnds|]. split; [exact Hp|].
  intros a b Hin Ha Hb'. apply before_pos; [exact Hnds|]. apply Hb; auto.
  apply Hkeys in Hb'. apply dget_In_keys in Hb'. destruct Hb' as [pl Hpl].
  exists pl. split; [exact Hpl|]. apply cnt_pos_In. rewrite (Hc b pl Hpl a). apply ecnt_pos_In. exact Hin.
Qed.

Definition sorted_ok_preds (g : graph) : Prop :=
  forall s, g_sorted g = Some s -> topo_valid (g_nodes g) (pred_edges (g_preds g)) s.
Definition sorted_ok (g : graph) : Prop :=
  forall s, g_sorted g = Some s -> topo_valid (g_nodes g) (g_edges g) s.

Theorem reachable_preds ns es ops g0 g :
  init ns es = Ok g0 -> run g0 ops = Ok g -> sorted_ok_preds g.
Proof.
  intros Hi Hr s E. eapply sorted_valid_preds; [|exact E]. eapply run_inv; [|exact Hr]. eapply init_inv; eauto.
Qed.

Theorem reachable_edges ns es ops g0 g :
  init ns es = Ok g0 -> run_dom g0 ops = true -> run g0 ops = Ok g -> sorted_ok g.
Proof.
  intros Hi Hd Hr s E. eapply sorted_valid_edges; [|exact E].
  eapply run_inv2; [|exact Hd|exact Hr]. eapply init_inv2; eauto.
Qed.

Theorem inv_step g o g' :
  inv2 g -> dom_ok g o = true -> step g o = Ok g' -> inv2 g' /\ sorted_ok g' /\ sorted_ok_preds g'.
Proof.
  intros H2 Hd H. assert (H2' : inv2 g') by (eapply step_inv2; eauto). split; [exact H2'|]. split.
  - intros s E. apply sorted_valid_edges; auto.
  - intros s E. apply sorted_valid_preds; auto. exact (proj1 H2').
Qed.

(* ---- termination of sorting (C18): |notsorted| passes always suffice; the result is a valid
   order or one of the exceptions *)
Theorem sorting_terminates g pres :
  (exists g' l, sorting g pres = Ok g' /\ g' = set_sorted g (Some l) /\
                Permutation l (if nonempty pres then pres else g_nodes g) /\
                forall a b, In a (if nonempty pres then pres else g_nodes g) ->
                            In b (if nonempty pres then pres else g_nodes g) ->
                            inW (g_preds g) b a -> before a b l) \/
  (exists e, sorting g pres = Err e /\ e <> EFuel).
Proof.
  destruct (sorting g pres) as [g'|e] eqn:H.
  - left. destruct (sorting_sound _ _ _ H) as [l [E [Hp Hb]]]. exists g', l. auto.
  - right. exists e. split; [reflexivity|]. intros ->. unfold sorting in H.
    destruct (release (g_succs g) (g_wip g) (g_preds g)) as [w0|e0] eqn:Hr; cbn in H.
    + destruct (sort_loop _ _ _ _ w0) as [l|e1] eqn:Hl; cbn in H; [discriminate|].
      inversion H; subst e1. eapply sort_loop_fuel; [|exact Hl]. lia.
    + inversion H; subst e0. eapply release_nofuel; eauto.
Qed.
