(* Spec/State.v — reference semantics of a splitter (C01/C05): which jobs exist, in which order, and which
   element of every split field each job receives.  Structural recursion on the splitter; nothing here
   mentions RPN, stacks or key lists. *)
From Pydra Require Import Base.Prelude Model.State.

(* a job is an assignment field -> index into the (flattened) value of that field, listed in the order the
   fields occur in the splitter; a denotation is the list of jobs in enumeration order plus the shape *)
Definition denot := (list assignment * shape)%type.

(* a field whose value has shape sh (for a plain list: [length]) yields one job per element, in order *)
Definition leafd (e : env) (f : nat) : denot := (map (fun i => [(f, i)]) (seq 0 (nprod (e f))), e f).

(* outer product of two enumerations: every pair, the left one varying slowest *)
Definition cart (a b : list assignment) : list assignment :=
  flat_map (fun x => map (fun y => x ++ y) b) a.
(* inner product: positional pairing *)
Fixpoint pairup (a b : list assignment) : list assignment :=
  match a, b with x :: a', y :: b' => (x ++ y) :: pairup a' b' | _, _ => [] end.

(* n-ary products, nested to the right: [d1; d2; ...; dn] = d1 x (d2 x (... x dn)) *)
Fixpoint outer_all (ds : list (option denot)) : option denot :=
  match ds with
  | [] => None                                   (* an empty list/tuple is not a splitter *)
  | [d] => d
  | d :: r => match d, outer_all r with
              | Some (a, sa), Some (b, sb) => Some (cart a b, sa ++ sb)
              | _, _ => None
              end
  end.
Fixpoint inner_all (ds : list (option denot)) : option denot :=
  match ds with
  | [] => None
  | [d] => d
  | d :: r => match d, inner_all r with
              | Some (a, sa), Some (b, sb) => if shape_eqb sa sb then Some (pairup a b, sa) else None
              | _, _ => None                     (* operands of different shape are rejected *)
              end
  end.

(* None = the request is rejected *)
Fixpoint expand (e : env) (s : spl) : option denot :=
  match s with
  | Fld f => Some (leafd e f)
  | Outer l => outer_all (map (expand e) l)
  | Inner l => inner_all (map (expand e) l)
  end.

Definition jobs (e : env) (s : spl) : option (list assignment) :=
  match expand e s with Some (a, _) => Some a | None => None end.

(* well-formed splitter: no empty list/tuple, no field split twice *)
Definition wf (s : spl) : Prop := wfb s = true /\ NoDup (leaves s).

(* what the property promises for a request, as a result value comparable with the model *)
Definition spec_result (e : env) (s : spl) : res (list assignment) :=
  match jobs e s with Some a => Ok a | None => Err EShape end.

(* executable comparison helpers used on correspondence cases *)
Definition asg_eqb (a b : assignment) : bool := list_eqb (pair_eqb Nat.eqb Nat.eqb) (sort_kv a) (sort_kv b).
Definition err_eqb (a b : err) : bool :=
  match a, b with EShape, EShape | EIndex, EIndex | EStack, EStack => true | _, _ => false end.
Definition res_eqb (a b : res (list assignment)) : bool :=
  match a, b with
  | Ok x, Ok y => list_eqb asg_eqb x y
  | Err x, Err y => err_eqb x y
  | _, _ => false
  end.

(* ======================================================================================================
   C05: equivalent spellings and ill-formed requests *)

(* the least equivalence containing: one-element list/tuple = its element; re-bracketing inside a chain of
   outer products or inside a chain of inner products; closed under contexts *)
Inductive respell : spl -> spl -> Prop :=
| rs_refl s : respell s s
| rs_sym s t : respell s t -> respell t s
| rs_trans s t u : respell s t -> respell t u -> respell s u
| rs_single_outer s : respell (Outer [s]) s
| rs_single_inner s : respell (Inner [s]) s
| rs_assoc_outer l1 m l2 : m <> [] -> respell (Outer (l1 ++ Outer m :: l2)) (Outer (l1 ++ m ++ l2))
| rs_assoc_inner l1 m l2 : m <> [] -> respell (Inner (l1 ++ Inner m :: l2)) (Inner (l1 ++ m ++ l2))
| rs_cong_outer l1 s t l2 : respell s t -> respell (Outer (l1 ++ s :: l2)) (Outer (l1 ++ t :: l2))
| rs_cong_inner l1 s t l2 : respell s t -> respell (Inner (l1 ++ s :: l2)) (Inner (l1 ++ t :: l2)).

(* the splitter a request ends up with *)
Definition effective_split (r : req) : option spl :=
  if r_split_called r then
    match r_split r with
    | Some s => Some s
    | None => match r_vals r with [] => None | vs => Some (Outer (map Fld vs)) end
    end
  else None.

(* the five ways of being ill-formed that the property lists (plus: a split value that is not a sequence) *)
Definition split_twice (r : req) : Prop :=
  r_split_called r = true /\ exists s, r_split r = Some s /\ ~ NoDup (leaves s).
Definition field_without_value (r : req) : Prop :=
  r_split_called r = true /\ exists s f, r_split r = Some s /\ In f (leaves s) /\ ~ In f (r_vals r).
Definition value_without_field (r : req) : Prop :=
  r_split_called r = true /\ exists s f, r_split r = Some s /\ In f (r_vals r) /\ ~ In f (leaves s).
Definition value_not_sequence (r : req) : Prop := r_split_called r = true /\ r_nonseq r <> [].
Definition combiner_not_split (r : req) : Prop :=
  exists c f, r_comb r = Some c /\ In f c /\
    (~ In f (r_task r) \/ exists s, effective_split r = Some s /\ ~ In f (leaves s)).
Definition combine_without_split (r : req) : Prop :=
  exists c, r_comb r = Some c /\ c <> [] /\ effective_split r = None.

Definition illformed (r : req) : Prop :=
  split_twice r \/ field_without_value r \/ value_without_field r \/ value_not_sequence r \/
  combiner_not_split r \/ combine_without_split r.

(* executable form of [illformed], used on the correspondence cases (equivalence proved in Proofs/StateSpell.v) *)
Definition illformedb (r : req) : bool :=
  let comb := match r_comb r with Some c => c | None => [] end in
  (r_split_called r &&
     match r_split r with
     | Some s => has_dup (leaves s) || negb (subsetb (leaves s) (r_vals r)) || negb (subsetb (r_vals r) (leaves s))
     | None => false
     end)
  || (r_split_called r && negb (Nat.eqb (List.length (r_nonseq r)) 0))
  || negb (subsetb comb (r_task r))
  || match effective_split r with
     | Some s => negb (subsetb comb (leaves s))
     | None => negb (Nat.eqb (List.length comb) 0)
     end.

(* ======================================================================================================
   C02: combining.  Reference semantics: the jobs of the expansion are partitioned by the values of the axes that
   are NOT combined; groups in order of first appearance, members in enumeration order. *)

(* the axes of a splitter, in order, each with the fields that move along it: an outer product puts the axes of
   its operands side by side, an inner product identifies the axes of its operands position by position *)
Fixpoint zip_axes (a b : list (list nat)) : list (list nat) :=
  match a, b with x :: a', y :: b' => (x ++ y) :: zip_axes a' b' | _, _ => [] end.
Fixpoint axes (s : spl) : list (list nat) :=
  match s with
  | Fld f => [[f]]
  | Outer l => flat_map axes l
  | Inner l => match l with [] => [] | x :: r => fold_left zip_axes (map axes r) (axes x) end
  end.

(* combining a field combines every field on the same axis *)
Definition linked (s : spl) (comb : list nat) : list nat :=
  flat_map (fun ax => if existsb (fun f => memb f comb) ax then ax else []) (axes s).

(* what is left of a job after the combined fields are forgotten *)
Definition forget (gone : list nat) (a : assignment) : assignment := filter (fun kv => negb (memb (fst kv) gone)) a.

Definition kv_eqb (x y : nat * nat) : bool := Nat.eqb (fst x) (fst y) && Nat.eqb (snd x) (snd y).
Definition key_eqb (a b : assignment) : bool := list_eqb kv_eqb a b.

(* distinct elements in order of first appearance *)
Fixpoint distinct (l : list assignment) : list assignment :=
  match l with [] => [] | x :: r => x :: filter (fun y => negb (key_eqb x y)) (distinct r) end.

(* positions (job numbers) of the elements of l equal to k *)
Fixpoint positions (k : assignment) (l : list assignment) (i : nat) : list nat :=
  match l with [] => [] | x :: r => if key_eqb k x then i :: positions k r (S i) else positions k r (S i) end.

(* one group per distinct assignment of the remaining axes, in enumeration order, each holding, in enumeration
   order, exactly the jobs with that assignment.  None = the split itself is rejected. *)
Definition spec_groups (e : env) (s : spl) (comb : list nat) : option (list (list nat)) :=
  match jobs e s with
  | None => None
  | Some js =>
      let keys := map (forget (linked s comb)) js in
      Some (map (fun k => positions k keys 0) (distinct keys))
  end.

(* the splitter with the fields in `gone` deleted (None when nothing is left) *)
Fixpoint prune (gone : list nat) (s : spl) : option spl :=
  match s with
  | Fld f => if memb f gone then None else Some s
  | Outer l => match flat_map (fun x => match prune gone x with Some y => [y] | None => [] end) l with
               | [] => None
               | l' => Some (Outer l')
               end
  | Inner l => match flat_map (fun x => match prune gone x with Some y => [y] | None => [] end) l with
               | [] => None
               | l' => Some (Inner l')
               end
  end.

(* the computable condition under which the model's combiner path is proved to meet the reference: the axis
   bookkeeping (splits_groups / combine_final_groups) finds exactly the linked fields, and
   remove_inp_from_splitter_rpn returns the RPN of the splitter with those fields deleted.
   Its negation is the input class of finding F02. *)
Definition good_removalb (s : spl) (comb : list nat) : bool :=
  match combiner_all_of (rpn s) comb with
  | inr call =>
      list_eqb Nat.eqb call (sort_set (linked s comb)) &&
      match remove_rpn (rpn s) call with
      | Some p => list_eqb tok_eqb p (match prune (linked s comb) s with Some s' => rpn s' | None => [] end)
      | None => false
      end
  | inl _ => false
  end.

Definition groups_of (r : cerr + (list assignment * list (list nat))) : option (list (list nat)) :=
  match r with inr (_, g) => Some g | inl _ => None end.

(* the same partition, indexed by the jobs of the remaining splitter (the splitter with the combined fields
   deleted): one group per job of the remaining splitter, in its enumeration order, each holding in order the jobs
   whose remaining fields equal it; defined when every job's remaining assignment is such a job *)
Definition has_key (k : assignment) (ks : list assignment) : bool := existsb (key_eqb k) ks.
Definition spec_groups_pruned (e : env) (s : spl) (comb : list nat) : option (list (list nat)) :=
  match jobs e s with
  | None => None
  | Some js =>
      let gone := linked s comb in
      let keys := map (forget gone) js in
      match prune gone s with
      | None => Some [seq 0 (List.length js)]
      | Some s' =>
          match jobs e s' with
          | None => None
          | Some ks => if forallb (fun k => has_key k ks) keys
                       then Some (map (fun k => positions k keys 0) ks) else None
          end
      end
  end.

(* the class for which the two formulations of the reference partition are proved to coincide: every inner product
   is over plain fields, and is combined as a whole or not at all (both computable) *)
Definition is_fld (s : spl) : bool := match s with Fld _ => true | _ => false end.
Fixpoint flat_innerb (s : spl) : bool :=
  match s with Fld _ => true | Outer l => forallb flat_innerb l | Inner l => forallb is_fld l end.
Fixpoint closedb (gone : list nat) (s : spl) : bool :=
  match s with
  | Fld _ => true
  | Outer l => forallb (closedb gone) l
  | Inner l => forallb (fun f => memb f gone) (flat_map leaves l) || forallb (fun f => negb (memb f gone)) (flat_map leaves l)
  end.

(* the declared nesting of the outputs is computed from the combiner as written; it is the nesting of the value
   when that agrees with the computation over all linked fields.  The negation is the input class of finding F02b
   (declared output type of split().combine() does not match the value; end to end only). *)
Definition type_depth_okb (s : spl) (comb : list nat) : bool :=
  option_eqb Nat.eqb (state_depth s comb) (state_depth s (linked s comb)).
