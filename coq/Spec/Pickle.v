(* Spec/Pickle.v — C29 reference semantics: what it means for a value to have survived serialization.
   Nothing here mentions how pickling proceeds. *)
From Pydra Require Import Base.Prelude Model.Pickle.
Local Open Scope string_scope.
Local Open Scope list_scope.

Inductive opt_rel {A} (R : A -> A -> Prop) : option A -> option A -> Prop :=
| or_none : opt_rel R None None
| or_some a b : R a b -> opt_rel R (Some a) (Some b).

(* [survives desc v v']: v' is v as far as anything but the declared transient attributes goes —
   plain data are equal, objects have the same class and every attribute outside the class's transient set
   is present on both sides or on neither, and has itself survived.  A live resource never survives. *)
Inductive survives (desc : string -> descr) : val -> val -> Prop :=
| sv_none : survives desc VNone VNone
| sv_data n : survives desc (VData n) (VData n)
| sv_obj c l l' :
    (forall k, mem k (transient (desc c)) = false -> opt_rel (survives desc) (lookup k l) (lookup k l')) ->
    survives desc (VObj c l) (VObj c l').

(* executable (sound, see Proofs.Pickle.survivesb_sound): compares the two attribute lists key by key *)
Fixpoint survivesb (desc : string -> descr) (a b : val) : bool :=
  match a, b with
  | VNone, VNone => true
  | VData n, VData m => Nat.eqb n m
  | VObj c l, VObj c' l' =>
      String.eqb c c' &&
      (fix go (r : list (string * val)) : bool :=
         match r with
         | [] => true
         | (k, x) :: r' =>
             (mem k (transient (desc c)) ||
              match lookup k l' with Some x' => survivesb desc x x' | None => false end) && go r'
         end) l &&
      forallb (fun kv => mem (fst kv) (transient (desc c)) ||
                         match lookup (fst kv) l with Some _ => true | None => false end) l'
  | _, _ => false
  end.

(* the job's cache identity does not depend on anything transient *)
Definition identity_safe (desc : string -> descr) (job_class : string) : bool :=
  forallb (fun k => negb (mem k (transient (desc job_class)))) job_reads.

(* nothing that cannot be pickled sits outside the attributes __getstate__ removes or blanks *)
Fixpoint picklableb (desc : string -> descr) (v : val) : bool :=
  match v with
  | VNone | VData _ => true
  | VLive _ | VFresh _ => false
  | VObj c l =>
      (fix go (r : list (string * val)) : bool :=
         match r with
         | [] => true
         | (k, x) :: r' => (mem k (d_drop (desc c)) || mem k (d_null (desc c)) || picklableb desc x) && go r'
         end) l
  end.

(* a class table is well formed when whatever a __setstate__ pushes into a held object lands on an
   attribute that is transient for the held object's class *)
Definition push_wfb (t : list (string * descr)) : bool :=
  forallb (fun cd => forallb (fun p : string * string * string * string =>
                                let '(_, cc, ck, _) := p in mem ck (transient (table t cc)))
                             (d_push (snd cd))) t.

(* what the user configured (the constructor parameters of a class that hold plain values — read off the live
   signatures by the driver) must not be declared transient by the class's own __getstate__/__setstate__ *)
Definition config_safeb (t : list (string * descr)) (req : list (string * list string)) : bool :=
  forallb (fun ck => forallb (fun k => negb (mem k (transient (table t (fst ck))))) (snd ck)) req.
