(* Spec/CopyFiles.v — C33 / C34 reference semantics, stated on the input tree, the output tree and
   the file system before and after; nothing about memo tables, clash sets or traversal state. *)
From Pydra Require Import Base.Prelude Base.PyPath Model.Mount Model.CopyFiles.
Local Open Scope string_scope.

(* file leaves of a value, left to right (dict: key, value, key, value, …) *)
Fixpoint leaves (v : value) : list fileset :=
  match v with
  | VAtom _ _ => []
  | VFile f => [f]
  | VCont _ l => flat_map leaves l
  end.

(* same containers of the same kinds and lengths, equal non-file leaves, files where files were *)
Fixpoint same_shape (v v' : value) : bool :=
  match v, v' with
  | VAtom r t, VAtom r' t' => String.eqb r r' && Bool.eqb t t'
  | VFile _, VFile _ => true
  | VCont k l, VCont k' l' =>
      ckind_eqb k k' &&
      (fix go (l l' : list value) : bool :=
         match l, l' with
         | [], [] => true
         | x :: r, x' :: r' => same_shape x x' && go r r'
         | _, _ => false
         end) l l'
  | _, _ => false
  end.

(* (source, destination) for every file leaf *)
Definition pairs_of (v v' : value) : list (fileset * fileset) := combine (leaves v) (leaves v').
Definition all_pairs (vs vs' : list value) : list (fileset * fileset) :=
  flat_map (fun vv => pairs_of (fst vv) (snd vv)) (combine vs vs').

(* what "staged as w" means, observably: where the staged file is, and what it shows after the
   original has been modified in place *)
Definition behaves (w : way) (dest : string) (fs0 fs1 : fsT) (s d : fileset) : Prop :=
  match w with
  | Leave => d = s
  | Copy => fst (snd d) = dest /\ read fs0 (snd s) <> None /\
            forall c, read (write fs1 (snd s) c) (snd d) = read fs0 (snd s)      (* independent *)
  | Hard | Sym => fst (snd d) = dest /\ read fs0 (snd s) <> None /\
            forall c, read (write fs1 (snd s) c) (snd d) = Some c                (* shows the original *)
  end.

(* mounts restrict the ways: no symlink to a source on CIFS, no hard link across mounts *)
Definition mount_ok (tab : table) (dest : string) (w : way) (s : fileset) : Prop :=
  match w with
  | Sym => on_cifs tab (full (snd s)) = false
  | Hard => on_same_mount tab (full (snd s)) dest = true
  | _ => True
  end.

(* the requested mode can be realised for s on these mounts *)
Definition stageable (tab : table) (dest : string) (m : cmode) (s : fileset) : Prop :=
  exists w, allowed w m = true /\ mount_ok tab dest w s.

(* n is the number of distinct file-sets in l *)
Definition distinct_count (l : list fileset) (n : nat) : Prop :=
  exists u, NoDup u /\ (forall f, In f u <-> In f l) /\ n = List.length u.

(* ---------------------------------------------------------------- C33 *)
Record collected (tab : table) (dest : string) (fs0 fs1 : fsT) (vs vs' : list value) : Prop := {
  c_shape : Forall2 (fun v v' => same_shape v v' = true) vs vs';
  c_leaf : forall s d, In (s, d) (all_pairs vs vs') ->
      fst d = fst s                                        (* same class of file-set *)
      /\ fst (snd d) = dest                                (* inside the workflow directory *)
      /\ read fs0 (snd s) <> None
      /\ read fs1 (snd d) = read fs0 (snd s)               (* content preserved *)
      /\ read fs1 (snd s) = read fs0 (snd s)               (* the source is not lost *)
      /\ exists w, (w = Hard \/ w = Copy) /\ mount_ok tab dest w s /\ behaves w dest fs0 fs1 s d;
  c_inj : forall s1 d1 s2 d2,                              (* distinct sources, distinct destinations *)
      In (s1, d1) (all_pairs vs vs') -> In (s2, d2) (all_pairs vs vs') ->
      snd d1 = snd d2 -> snd s1 = snd s2
}.

(* ---------------------------------------------------------------- C34 *)
Definition is_staged (fd : field) : bool := truthy (fd_value fd) && fd_typed fd.

Record staged (tab : table) (dest : string) (fs0 fs1 : fsT)
       (fields : list field) (outs : list (value * nat)) : Prop := {
  g_shape : Forall2 (fun fd o => same_shape (fd_value fd) (fst o) = true) fields outs;
  g_untouched : forall fd o, In (fd, o) (combine fields outs) -> is_staged fd = false ->
      fst o = fd_value fd /\ snd o = 0;
  g_mode : forall fd o, In (fd, o) (combine fields outs) -> is_staged fd = true ->
      forall s d, In (s, d) (pairs_of (fd_value fd) (fst o)) ->
      fst d = fst s /\
      exists w, allowed w (fd_mode fd) = true /\ mount_ok tab dest w s /\ behaves w dest fs0 fs1 s d;
  g_once : forall fd o, In (fd, o) (combine fields outs) -> is_staged fd = true ->
      (forall s1 d1 s2 d2, In (s1, d1) (pairs_of (fd_value fd) (fst o)) ->
                           In (s2, d2) (pairs_of (fd_value fd) (fst o)) -> s1 = s2 -> d1 = d2)
      /\ distinct_count (leaves (fd_value fd)) (snd o);    (* one FileSet.copy per distinct file-set *)
  g_keep : forall p, ino_of fs0 p <> None -> read fs1 p = read fs0 p   (* nothing existing is altered *)
}.

(* ---------------------------------------------------------------- executable versions, used on observed runs.
   An observation gives the contents of every relevant path before (c0), after (c1), and after every
   source has then been overwritten in place with a marker (c2: path -> content). *)
Definition obs := list (path * string).
Definition look (o : obs) (p : path) : option string := assoc path_eqb p o.
Definition ostr_eqb := option_eqb String.eqb.

Fixpoint dedup (l : list fileset) : list fileset :=
  match l with
  | [] => []
  | x :: r => x :: filter (fun y => negb (fileset_eqb x y)) (dedup r)
  end.

Definition marker (s : fileset) : string := "MODIFIED:" ++ full (snd s).

Definition behaves_b (w : way) (dest : string) (c0 c2 : obs) (s d : fileset) : bool :=
  match w with
  | Leave => fileset_eqb d s
  | Copy => String.eqb (fst (snd d)) dest && negb (ostr_eqb (look c0 (snd s)) None)
            && ostr_eqb (look c2 (snd d)) (look c0 (snd s))
  | Hard | Sym => String.eqb (fst (snd d)) dest && negb (ostr_eqb (look c0 (snd s)) None)
            && ostr_eqb (look c2 (snd d)) (Some (marker s))
  end.
Definition mount_ok_b (tab : table) (dest : string) (w : way) (s : fileset) : bool :=
  match w with
  | Sym => negb (on_cifs tab (full (snd s)))
  | Hard => on_same_mount tab (full (snd s)) dest
  | _ => true
  end.
Definition ways : list way := [Leave; Hard; Sym; Copy].

Definition shapes_ok (vs vs' : list value) : bool :=
  Nat.eqb (List.length vs) (List.length vs') &&
  forallb (fun vv => same_shape (fst vv) (snd vv)
                     && Nat.eqb (List.length (leaves (fst vv))) (List.length (leaves (snd vv))))
          (combine vs vs').

Definition collected_b (tab : table) (dest : string) (c0 c1 c2 : obs) (vs vs' : list value) : bool :=
  let ps := all_pairs vs vs' in
  shapes_ok vs vs' &&
  forallb (fun sd => let '(s, d) := sd in
     String.eqb (fst d) (fst s) && String.eqb (fst (snd d)) dest
     && negb (ostr_eqb (look c0 (snd s)) None)
     && ostr_eqb (look c1 (snd d)) (look c0 (snd s))
     && ostr_eqb (look c1 (snd s)) (look c0 (snd s))
     && existsb (fun w => mount_ok_b tab dest w s && behaves_b w dest c0 c2 s d) [Hard; Copy]) ps &&
  forallb (fun a => forallb (fun b =>
     implb (path_eqb (snd (snd a)) (snd (snd b))) (path_eqb (snd (fst a)) (snd (fst b)))) ps) ps.

Definition staged_b (tab : table) (dest : string) (c0 c1 c2 : obs)
           (fields : list field) (outs : list (value * nat)) : bool :=
  shapes_ok (map fd_value fields) (map fst outs) &&
  forallb (fun fo => let '(fd, o) := fo in
     if is_staged fd then
       let ps := pairs_of (fd_value fd) (fst o) in
       forallb (fun sd => let '(s, d) := sd in
          String.eqb (fst d) (fst s)
          && existsb (fun w => allowed w (fd_mode fd) && mount_ok_b tab dest w s
                               && behaves_b w dest c0 c2 s d) ways) ps
       && forallb (fun a => forallb (fun b =>
            implb (fileset_eqb (fst a) (fst b)) (fileset_eqb (snd a) (snd b))) ps) ps
       && Nat.eqb (snd o) (List.length (dedup (leaves (fd_value fd))))
     else Nat.eqb (snd o) 0 && same_shape (fd_value fd) (fst o)
          && list_eqb fileset_eqb (leaves (fd_value fd)) (leaves (fst o)))
    (combine fields outs) &&
  forallb (fun pc => ostr_eqb (look c1 (fst pc)) (Some (snd pc))) c0.
