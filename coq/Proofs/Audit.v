(* Proofs/Audit.v — C36: with one Audit object per job (c_sharing = false) the messages of any forest of
   nested job executions satisfy Spec.Audit.audit_ok; the executable check decides audit_ok. *)
From Pydra Require Import Base.Prelude Model.Audit Spec.Audit.
From Coq Require Import Permutation.
Local Open Scope nat_scope.
Local Open Scope list_scope.

(* ------------------------------------------------------------------ lists of messages *)
Lemma starts_app a b : starts (a ++ b) = starts a ++ starts b.
Proof.
  induction a as [|[d m] a IH]; cbn [app starts]; [reflexivity|].
  destruct m; cbn; rewrite ?IH; reflexivity.
Qed.
Lemma ends_app a b : ends (a ++ b) = ends a ++ ends b.
Proof.
  induction a as [|[d m] a IH]; cbn [app ends]; [reflexivity|].
  destruct m; cbn; rewrite ?IH; reflexivity.
Qed.

Lemma NoDup_app_range (a b : list nat) k :
  NoDup a -> NoDup b -> (forall x, In x a -> x < k) -> (forall x, In x b -> k <= x) -> NoDup (a ++ b).
Proof.
  induction a as [|x a IH]; cbn; intros Ha Hb La Lb; [assumption|].
  inversion Ha; subst. constructor.
  - rewrite in_app_iff. intros [H|H]; [contradiction|].
    specialize (La x (or_introl eq_refl)). specialize (Lb x H). lia.
  - apply IH; auto.
Qed.

(* ------------------------------------------------------------------ the heap *)
Lemma upd_length h : forall r f, List.length (upd h r f) = List.length h.
Proof. induction h as [|a h IH]; intros [|r] f; cbn; auto. Qed.
Lemma get_upd_same h : forall r f, r < List.length h -> get (upd h r f) r = f (get h r).
Proof.
  unfold get. induction h as [|a h IH]; intros [|r] f; cbn; intros L; try lia; auto.
  apply IH. lia.
Qed.
Lemma get_upd_other h : forall r f i, i <> r -> get (upd h r f) i = get h i.
Proof.
  unfold get. induction h as [|a h IH]; intros [|r] f [|i]; cbn; intros N; try congruence; auto.
Qed.

Definition pres (h h' : list audit) : Prop :=
  List.length h <= List.length h' /\ forall i, i < List.length h -> get h' i = get h i.
Lemma pres_refl h : pres h h.
Proof. split; auto. Qed.
Lemma pres_trans a b c : pres a b -> pres b c -> pres a c.
Proof.
  intros [L1 G1] [L2 G2]. split; [lia|]. intros i Hi. rewrite G2 by lia. apply G1; assumption.
Qed.
Lemma pres_app h e : pres h (h ++ e).
Proof.
  split; [rewrite app_length; lia|]. intros i Hi. unfold get. apply app_nth1; assumption.
Qed.
Lemma pres_upd h0 h r f : List.length h0 <= r -> pres h0 h -> pres h0 (upd h r f).
Proof.
  intros L [L1 G1]. split; [rewrite upd_length; assumption|].
  intros i Hi. rewrite get_upd_other by lia. auto.
Qed.

(* ------------------------------------------------------------------ the Audit methods, one at a time *)
Lemma input_msgs_spec c s files : forall n,
  n <= snd (input_msgs c s files n) /\
  starts (fst (input_msgs c s files n)) = [] /\ ends (fst (input_msgs c s files n)) = [].
Proof.
  induction files as [|f r IH]; intros n; cbn; [auto|].
  destruct (input_msgs c s r (S n)) as [ms n'] eqn:E. specialize (IH (S n)). rewrite E in IH.
  cbn in *. destruct IH as (L & S1 & E1). repeat split; [lia|assumption|assumption].
Qed.

(* what a step may do to the heap: only reference r changes *)
Definition only (r : nat) (h h' : list audit) : Prop :=
  List.length h' = List.length h /\ forall i, i <> r -> get h' i = get h i.
Lemma only_refl r h : only r h h.
Proof. split; auto. Qed.
Lemma only_trans r a b c : only r a b -> only r b c -> only r a c.
Proof. intros [L1 G1] [L2 G2]. split; [congruence|]. intros i Hi. rewrite G2, G1; auto. Qed.
Lemma only_upd r h f : only r h (upd h r f).
Proof. split; [apply upd_length|]. intros i Hi. apply get_upd_other; assumption. Qed.
Lemma only_pres h0 r h h' : List.length h0 <= r -> only r h h' -> pres h0 h -> pres h0 h'.
Proof.
  intros L [L1 G1] [L2 G2]. split; [lia|]. intros i Hi. rewrite G1 by lia. auto.
Qed.

Lemma start_audit_spec c r d s :
  c_prov c = true -> r < List.length (heap s) ->
  forall s' ms, start_audit c r d s = (s', ms) ->
  only r (heap s) (heap s') /\ next s' = next s + 2 /\ cwd s' = d /\
  a_aid (get (heap s') r) = next s /\ a_mon (get (heap s') r) = (c_res c || a_mon (get (heap s) r)) /\
  ms = [(home (c_md c) d, MStart (next s) (next s + 1))].
Proof.
  intros P L s' ms. unfold start_audit, emit, place, with_heap, home. rewrite P. cbn [heap next cwd].
  destruct (c_res c); intros E; inversion E; subst; clear E; cbn [heap next cwd];
    repeat split; cbn [heap next cwd];
    try reflexivity; try (rewrite ?upd_length; reflexivity);
    try (intros i Hi; rewrite ?get_upd_other by assumption; reflexivity);
    try (rewrite ?get_upd_same by (rewrite ?upd_length; assumption); reflexivity).
Qed.

Lemma audit_task_spec c r name files shell s :
  forall s' ms, audit_task c r name files shell s = (s', ms) ->
  heap s' = heap s /\ next s <= next s' /\ cwd s' = cwd s /\ starts ms = [] /\ ends ms = [].
Proof.
  intros s' ms. unfold audit_task.
  pose proof (input_msgs_spec c s files (next s)) as H.
  destruct (input_msgs c s files (next s)) as [m n']. cbn in H. destruct H as (L & S1 & E1).
  intros E; inversion E; subst; clear E. cbn [heap next cwd].
  rewrite starts_app, ends_app, S1, E1. repeat split; auto.
Qed.

Lemma monitor_spec c r s :
  r < List.length (heap s) ->
  forall s' ms, monitor c r s = (s', ms) ->
  only r (heap s) (heap s') /\ next s <= next s' /\ cwd s' = cwd s /\
  a_aid (get (heap s') r) = a_aid (get (heap s) r) /\ a_mon (get (heap s') r) = a_mon (get (heap s) r) /\
  starts ms = [] /\ ends ms = [].
Proof.
  intros L s' ms. unfold monitor. destruct (c_res c && c_prov c); intros E; inversion E; subst; clear E.
  - cbn [heap next cwd]. rewrite get_upd_same by assumption. repeat split; auto.
    + apply upd_length.
    + intros i Hi. apply get_upd_other; assumption.
  - repeat split; auto.
Qed.

Lemma finalize_spec c r err s :
  c_prov c = true -> r < List.length (heap s) -> a_mon (get (heap s) r) = c_res c ->
  exists s' ms, finalize_audit c r err s = Some (s', ms) /\
    only r (heap s) (heap s') /\ next s <= next s' /\ cwd s' = cwd s /\
    starts ms = [] /\ ends ms = [(place c s, a_aid (get (heap s) r), err)].
Proof.
  intros P L M. unfold finalize_audit. rewrite M, P. destruct (c_res c) eqn:R; cbn [andb negb].
  - eexists _, _. split; [reflexivity|]. cbn [heap next cwd].
    rewrite starts_app, ends_app. unfold emit, place. cbn [heap next cwd starts ends app].
    rewrite get_upd_same by (rewrite upd_length; assumption).
    rewrite get_upd_same by assumption. cbn.
    repeat split; auto.
    + rewrite !upd_length; reflexivity.
    + intros i Hi. rewrite !get_upd_other by assumption. reflexivity.
  - eexists _, _. split; [reflexivity|]. cbn. repeat split; auto.
Qed.

(* ------------------------------------------------------------------ the invariant of an execution *)
Definition ids_in (ms : list lmsg) (lo hi : nat) : Prop :=
  forall p, In p (starts ms) -> lo <= snd p < hi.

Definition Inv (md : option loc) (s : sys) (o : out) : Prop :=
  let '(s', ms, rs, _) := o in
  pres (heap s) (heap s') /\ next s <= next s' /\ cwd s' = cwd s /\
  ids_in ms (next s) (next s') /\
  NoDup (map snd (starts ms)) /\
  Permutation (starts ms) (map fst (ends ms)) /\
  Permutation (map (fun e => (fst (fst e), snd e)) (ends ms))
              (map (fun r => (home md (fst r), snd r)) rs).

Lemma Inv_nil md s e : Inv md s (s, [], [], e).
Proof.
  cbn. split; [apply pres_refl|]. split; [lia|]. split; [reflexivity|].
  split; [intros p []|]. repeat split; constructor.
Qed.

Lemma get_app_new (h : list audit) x : get (h ++ [x]) (List.length h) = x.
Proof. unfold get. rewrite app_nth2 by lia. rewrite Nat.sub_diag. reflexivity. Qed.

Lemma frame_inv c is_wf d name files shell cr cf body s0 :
  c_sharing c = false -> c_prov c = true ->
  (forall s, Inv (c_md c) s (body s)) ->
  Inv (c_md c) s0 (frame c is_wf d name files shell cr cf body s0).
Proof.
  intros Sh P Hbody. unfold frame, alloc. rewrite Sh. cbn [andb].
  set (h0 := heap s0). set (r := List.length h0). set (h1 := h0 ++ [get h0 0]).
  assert (Hr : get h1 r = get h0 0) by apply get_app_new.
  destruct (a_mon (get h1 r)) eqn:M0.
  { cbn. unfold with_heap. cbn [heap next cwd]. split; [apply pres_app|]. split; [lia|].
    split; [reflexivity|]. split; [intros p []|]. repeat split; constructor. }
  set (s1 := with_heap s0 h1).
  assert (L1 : r < List.length (heap s1)).
  { unfold s1, with_heap, h1, r. cbn [heap]. rewrite app_length. cbn. lia. }
  destruct (start_audit c r d s1) as [s2 m_start] eqn:E2.
  destruct (start_audit_spec c r d s1 P L1 _ _ E2) as (O2 & N2 & C2 & A2 & Mo2 & Ms2).
  assert (L2 : r < List.length (heap s2)) by (destruct O2 as [O2 _]; rewrite O2; assumption).
  destruct (monitor c r s2) as [s3 m_mon] eqn:E3.
  destruct (monitor_spec c r s2 L2 _ _ E3) as (O3 & N3 & C3 & A3 & Mo3 & S3 & En3).
  assert (L3 : r < List.length (heap s3)) by (destruct O3 as [O3 _]; rewrite O3; assumption).
  (* the part between monitor() and the finally block, whatever it is, behaves like a body started in s3 *)
  set (inner := if c_prov c && negb (c_async c && is_wf) && cr then (s3, [], [], true)
                else let '(s4, m_task) := if c_prov c && negb (c_async c && is_wf)
                                          then audit_task c r name files shell s3 else (s3, []) in
                     let '(s5, m_body, r_body, err) := body s4 in (s5, m_task ++ m_body, r_body, err || cf)).
  assert (Hinner : Inv (c_md c) s3 inner).
  { unfold inner. destruct (c_prov c && negb (c_async c && is_wf) && cr); [apply Inv_nil|].
    set (tk := if c_prov c && negb (c_async c && is_wf) then audit_task c r name files shell s3 else (s3, [])).
    destruct tk as [s4 m_task] eqn:E4.
    assert (T4 : heap s4 = heap s3 /\ next s3 <= next s4 /\ cwd s4 = cwd s3 /\ starts m_task = [] /\ ends m_task = []).
    { unfold tk in E4. destruct (c_prov c && negb (c_async c && is_wf)).
      - eapply audit_task_spec; eassumption.
      - inversion E4; subst. repeat split; auto. }
    destruct T4 as (H4 & N4 & C4 & S4 & En4).
    specialize (Hbody s4). destruct (body s4) as [[[s5 m_body] r_body] err].
    cbn in Hbody. destruct Hbody as (Pr5 & N5 & C5 & I5 & ND5 & PS5 & PR5).
    cbn. unfold ids_in. rewrite !starts_app, !ends_app, S4, En4. cbn [app].
    split; [rewrite <- H4; assumption|]. split; [lia|]. split; [congruence|].
    split; [intros p Hp; specialize (I5 p Hp); lia|]. repeat split; assumption. }
  destruct inner as [[[s5 m_inner] r_body] err].
  cbn in Hinner. destruct Hinner as (Pr5 & N5 & C5 & I5 & ND5 & PS5 & PR5).
  assert (G5 : get (heap s5) r = get (heap s3) r) by (apply Pr5; assumption).
  assert (L5 : r < List.length (heap s5)) by (destruct Pr5 as [Pr5 _]; lia).
  assert (Aid : a_aid (get (heap s5) r) = next s0).
  { rewrite G5, A3, A2. reflexivity. }
  assert (Mon : a_mon (get (heap s5) r) = c_res c).
  { rewrite G5, Mo3, Mo2. unfold s1, with_heap. cbn [heap]. rewrite M0. apply orb_false_r. }
  destruct (finalize_spec c r err s5 P L5 Mon) as (s6 & m_fin & E6 & O6 & N6 & C6 & S6 & En6).
  rewrite E6. cbn [heap next cwd].
  assert (Hs1 : next s1 = next s0 /\ cwd s1 = cwd s0 /\ heap s1 = h1) by (unfold s1, with_heap; auto).
  destruct Hs1 as (Ns1 & Cs1 & Hs1).
  assert (PL : place c s5 = home (c_md c) d).
  { unfold place, home. destruct (c_md c); [reflexivity|]. rewrite C5, C3, C2. reflexivity. }
  split; [|split; [|split; [|split; [|split; [|split]]]]]; cbn [heap next cwd].
  - (* heap *)
    assert (Lr : List.length (heap s0) <= r) by (unfold r, h0; apply Nat.le_refl).
    apply (only_pres _ r _ _ Lr O6).
    eapply pres_trans; [| exact Pr5].
    apply (only_pres _ r _ _ Lr O3).
    apply (only_pres _ r _ _ Lr O2). rewrite Hs1. apply pres_app.
  - lia.
  - reflexivity.
  - (* ids *)
    intros p. rewrite !starts_app, S3, S6, Ms2. cbn [starts app]. rewrite app_nil_r.
    intros [<-|Hin]; cbn [snd]; [lia|]. specialize (I5 p Hin). lia.
  - (* NoDup *)
    rewrite !starts_app, S3, S6, Ms2. cbn [starts app map snd]. rewrite app_nil_r.
    constructor; [|assumption]. rewrite in_map_iff. intros (p & Hp & Hin).
    specialize (I5 p Hin). lia.
  - (* started = ended *)
    rewrite !starts_app, !ends_app, S3, S6, Ms2, En3, En6. cbn [starts ends app].
    rewrite app_nil_r, map_app. cbn [map fst]. rewrite Aid, PL, Ns1.
    apply Permutation_cons_app. rewrite app_nil_r. assumption.
  - (* ends = results *)
    rewrite !ends_app, En3, En6, Ms2. cbn [ends app]. rewrite !map_app. cbn [map fst snd].
    rewrite PL. apply Permutation_app; [assumption|]. apply Permutation_refl.
Qed.

(* ------------------------------------------------------------------ sequencing *)
Lemma Inv_seq md s s1 m1 r1 e1 s2 m2 r2 e2 e :
  Inv md s (s1, m1, r1, e1) -> Inv md s1 (s2, m2, r2, e2) -> Inv md s (s2, m1 ++ m2, r1 ++ r2, e).
Proof.
  cbn. intros (P1 & N1 & C1 & I1 & D1 & S1 & R1) (P2 & N2 & C2 & I2 & D2 & S2 & R2).
  split; [|split; [|split; [|split; [|split; [|split]]]]].
  - eapply pres_trans; eassumption.
  - lia.
  - congruence.
  - intros p. rewrite starts_app, in_app_iff. intros [H|H]; [specialize (I1 p H)|specialize (I2 p H)]; lia.
  - rewrite starts_app, map_app. apply NoDup_app_range with (k := next s1); auto.
    + intros x. rewrite in_map_iff. intros (p & <- & H). specialize (I1 p H). lia.
    + intros x. rewrite in_map_iff. intros (p & <- & H). specialize (I2 p H). lia.
  - rewrite starts_app, ends_app, map_app. apply Permutation_app; assumption.
  - rewrite ends_app, !map_app. apply Permutation_app; assumption.
Qed.

Lemma Inv_flag md s s' ms rs e e' : Inv md s (s', ms, rs, e) -> Inv md s (s', ms, rs, e').
Proof. cbn. auto. Qed.

Lemma task_ind2 (P : task -> Prop) :
  (forall d n f sh fl cr cf, P (Leaf d n f sh fl cr cf)) ->
  (forall d n nodes fl, Forall P nodes -> P (Wf d n nodes fl)) ->
  forall t, P t.
Proof.
  intros HL HW. fix IH 1. intros [d n f sh fl cr cf | d n nodes fl]; [apply HL|].
  apply HW. induction nodes as [|t r IHr]; constructor; [apply IH|assumption].
Qed.

Lemma run_job_wf c d name nodes fails :
  run_job c (Wf d name nodes fails) =
  frame c true d name [] false false false
    (fun s => let '(s', ms, rs, e) := run_nodes c nodes s in (s', ms, rs, e || fails)).
Proof. reflexivity. Qed.

Lemma run_nodes_inv c nodes :
  Forall (fun t => forall s, Inv (c_md c) s (run_job c t s)) nodes ->
  forall s, Inv (c_md c) s (run_nodes c nodes s).
Proof.
  induction 1 as [|t r Ht _ IH]; intros s; cbn [run_nodes]; [apply Inv_nil|].
  specialize (Ht s). destruct (run_job c t s) as [[[s1 m1] r1] e1].
  destruct e1; [eapply Inv_flag; exact Ht|].
  specialize (IH s1). destruct (run_nodes c r s1) as [[[s2 m2] r2] e2].
  eapply Inv_seq; eassumption.
Qed.

Lemma run_job_inv c :
  c_sharing c = false -> c_prov c = true ->
  forall t s, Inv (c_md c) s (run_job c t s).
Proof.
  intros Sh P. induction t as [d n f sh fl cr cf | d n nodes fl IH] using task_ind2; intros s.
  - cbn [run_job]. apply frame_inv; auto. intros s'. apply Inv_nil.
  - rewrite run_job_wf. apply frame_inv; auto. intros s'.
    pose proof (run_nodes_inv c nodes IH s') as H.
    destruct (run_nodes c nodes s') as [[[s2 ms] rs] e]. eapply Inv_flag; exact H.
Qed.

Lemma run_seq_inv c :
  c_sharing c = false -> c_prov c = true ->
  forall ts s, let '(s', ms, rs) := run_seq c ts s in Inv (c_md c) s (s', ms, rs, false).
Proof.
  intros Sh P. induction ts as [|t ts IH]; intros s; cbn [run_seq]; [apply Inv_nil|].
  pose proof (run_job_inv c Sh P t s) as H1.
  destruct (run_job c t s) as [[[s1 m1] r1] e1].
  specialize (IH s1). destruct (run_seq c ts s1) as [[s2 m2] r2].
  eapply Inv_seq; eassumption.
Qed.

Theorem audit_full c :
  c_sharing c = false -> c_prov c = true ->
  forall (ts : list task) (cwd0 : loc),
    audit_ok (c_md c) (fst (session c cwd0 ts)) (snd (session c cwd0 ts)).
Proof.
  intros Sh P ts cwd0. unfold session.
  pose proof (run_seq_inv c Sh P ts (init cwd0)) as H.
  destruct (run_seq c ts (init cwd0)) as [[s' ms] rs]. cbn [fst snd].
  cbn in H. destruct H as (_ & _ & _ & _ & D & S1 & R1). repeat split; assumption.
Qed.

(* the same for one job tree started in any state of the interpreter (any heap, any uuid history) *)
Theorem audit_job c :
  c_sharing c = false -> c_prov c = true ->
  forall (t : task) (s : sys),
    let '(_, ms, rs, _) := run_job c t s in audit_ok (c_md c) ms rs.
Proof.
  intros Sh P t s. pose proof (run_job_inv c Sh P t s) as H.
  destruct (run_job c t s) as [[[s' ms] rs] e]. cbn in H.
  destruct H as (_ & _ & _ & _ & D & S1 & R1). repeat split; assumption.
Qed.

(* without PROV nothing is sent at all *)
Lemma no_prov_silent c : c_prov c = false ->
  forall t s, let '(_, ms, _, _) := run_job c t s in ms = [].
Proof.
  intros P. induction t as [d n f sh fl cr cf | d n nodes fl IH] using task_ind2; intros s.
  - cbn [run_job]. unfold frame, start_audit, monitor, finalize_audit. rewrite P.
    destruct (alloc c false (heap s)) as [r h1]. destruct (a_mon (get h1 r)); [reflexivity|].
    rewrite andb_false_r. cbn [andb].
    destruct (c_res c); cbn [andb negb]; repeat (match goal with |- context [if ?b then _ else _] => destruct b end); reflexivity.
  - rewrite run_job_wf. unfold frame, start_audit, monitor. rewrite P.
    destruct (alloc c true (heap s)) as [r h1]. destruct (a_mon (get h1 r)); [reflexivity|].
    rewrite andb_false_r. cbn [andb].
    assert (HN : forall s', let '(_, ms, _, _) := run_nodes c nodes s' in ms = []).
    { clear -IH. induction IH as [|t r' Ht _ IHr]; intros s'; cbn [run_nodes]; [reflexivity|].
      specialize (Ht s'). destruct (run_job c t s') as [[[s1 m1] r1] e1]. subst m1.
      destruct e1; [reflexivity|]. specialize (IHr s1).
      destruct (run_nodes c r' s1) as [[[s2 m2] r2] e2]. subst. reflexivity. }
    match goal with |- context [run_nodes c nodes ?x] => specialize (HN x); destruct (run_nodes c nodes x) as [[[s2 m2] r2] e2] end.
    subst m2. unfold finalize_audit. rewrite P.
    destruct (c_res c); cbn [andb negb]; repeat (match goal with |- context [if ?b then _ else _] => destruct b end); reflexivity.
Qed.

(* ------------------------------------------------------------------ the executable check decides the spec *)
Section Permb.
  Context {A : Type} (eqb : A -> A -> bool) (eqb_ok : forall x y, eqb x y = true <-> x = y).

  Lemma remove1_perm x : forall l l', remove1 eqb x l = Some l' -> Permutation l (x :: l').
  Proof.
    induction l as [|y r IH]; cbn; intros l' H; [discriminate|].
    destruct (eqb x y) eqn:E.
    - apply eqb_ok in E. inversion H; subst. apply Permutation_refl.
    - destruct (remove1 eqb x r) as [r'|]; [|discriminate]. inversion H; subst.
      eapply perm_trans; [apply perm_skip, IH; reflexivity| apply perm_swap].
  Qed.

  Lemma remove1_in x : forall l, In x l -> exists l', remove1 eqb x l = Some l'.
  Proof.
    induction l as [|y r IH]; cbn; intros H; [contradiction|].
    destruct (eqb x y) eqn:E; [eexists; reflexivity|].
    destruct H as [->|H]; [|destruct (IH H) as [l' ->]; eexists; reflexivity].
    assert (eqb x x = true) by (apply eqb_ok; reflexivity). congruence.
  Qed.

  Lemma permb_ok : forall a b, permb eqb a b = true <-> Permutation a b.
  Proof.
    induction a as [|x a IH]; intros b; cbn.
    - destruct b; split; intros H; try reflexivity; try discriminate.
      apply Permutation_nil in H. discriminate.
    - destruct (remove1 eqb x b) as [b'|] eqn:E.
      + apply remove1_perm in E. rewrite IH. split; intros H.
        * eapply perm_trans; [apply perm_skip; exact H| apply Permutation_sym; exact E].
        * apply Permutation_cons_inv with (a := x). eapply perm_trans; eassumption.
      + split; [discriminate|]. intros H.
        assert (In x b) by (eapply Permutation_in; [exact H| left; reflexivity]).
        destruct (remove1_in x b H0) as [l' El]. congruence.
  Qed.
End Permb.

Lemma nodupb_ok : forall l, nodupb l = true <-> NoDup l.
Proof.
  induction l as [|x r IH]; cbn.
  - split; [constructor|reflexivity].
  - rewrite andb_true_iff, negb_true_iff, IH. split.
    + intros [E N]. constructor; [|assumption]. intros Hin.
      assert (existsb (Nat.eqb x) r = true) by (apply existsb_exists; exists x; split; [assumption|apply Nat.eqb_refl]).
      congruence.
    + intros H. inversion H; subst. split; [|assumption].
      destruct (existsb (Nat.eqb x) r) eqn:E; [|reflexivity].
      apply existsb_exists in E. destruct E as (y & Hy & Ey). apply Nat.eqb_eq in Ey. subst. contradiction.
Qed.

Lemma nn_eqb_ok x y : nn_eqb x y = true <-> x = y.
Proof.
  destruct x, y. unfold nn_eqb. cbn. rewrite andb_true_iff, !Nat.eqb_eq.
  split; [intros [-> ->]; reflexivity| intros E; inversion E; auto].
Qed.
Lemma nb_eqb_ok x y : nb_eqb x y = true <-> x = y.
Proof.
  destruct x, y. unfold nb_eqb. cbn. rewrite andb_true_iff, Nat.eqb_eq, eqb_true_iff.
  split; [intros [-> ->]; reflexivity| intros E; inversion E; auto].
Qed.

Theorem audit_okb_iff md log rs : audit_okb md log rs = true <-> audit_ok md log rs.
Proof.
  unfold audit_okb, audit_ok. rewrite !andb_true_iff, nodupb_ok.
  rewrite (permb_ok nn_eqb nn_eqb_ok), (permb_ok nb_eqb nb_eqb_ok). tauto.
Qed.

(* ------------------------------------------------------------------ what sharing the Audit object did *)
Definition wf2 : task := Wf 1 "main" [Leaf 2 "n1" [] false false false false; Leaf 3 "n2" [] false false false false] false.

Lemma shared_audit_breaks_nested :
  forall md, In md [None; Some 0] ->
  let c := mkCfg true false md true false in
  ~ audit_ok md (fst (session c 9 [wf2])) (snd (session c 9 [wf2])).
Proof.
  intros md Hmd c H. apply audit_okb_iff in H.
  destruct Hmd as [<-|[<-|[]]]; vm_compute in H; discriminate.
Qed.

(* … and which ids it left dangling: the workflow's own activity (1) is never ended, the last node's (5) twice *)
Lemma shared_audit_witness :
  let c := mkCfg true false (Some 0) true false in
  map fst (ends (fst (session c 9 [wf2]))) = [(0, 3); (0, 5); (0, 5)] /\
  starts (fst (session c 9 [wf2])) = [(0, 1); (0, 3); (0, 5)].
Proof. vm_compute. split; reflexivity. Qed.
