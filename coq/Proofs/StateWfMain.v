(* Proofs/StateWfMain.v — C03_partial: on the class of workflows whose nodes are fed by separate
   origins the model's outputs are the nested-loop outputs (induction over the node list). *)
From Pydra Require Import Base.Prelude Model.StateWf Spec.StateWf Proofs.StateWfLists Proofs.StateWfInv
  Proofs.StateWfStep Proofs.StateWfSel Proofs.StateWfNode.
Local Open Scope nat_scope.

Lemma spec_from_length wf : forall rest stab, List.length (spec_from wf stab rest) = List.length stab + List.length rest.
Proof.
  induction rest as [|nd rest IH]; intros stab; cbn [spec_from]; [cbn; lia|].
  rewrite IH, app_length. cbn. lia.
Qed.
Lemma spec_from_prefix wf : forall rest stab, exists ext, spec_from wf stab rest = stab ++ ext.
Proof.
  induction rest as [|nd rest IH]; intros stab; cbn [spec_from].
  - exists []. rewrite app_nil_r. reflexivity.
  - destruct (IH (stab ++ [spec_entry wf stab (List.length stab) nd])) as [ext E]. rewrite E, <- app_assoc. eexists. reflexivity.
Qed.

Lemma forallb_ext_in {A} (p q : A -> bool) l : (forall x, In x l -> p x = q x) -> forallb p l = forallb q l.
Proof.
  induction l as [|a l IH]; intros H; [reflexivity|]. cbn. rewrite (H a (or_introl eq_refl)), IH; [reflexivity|].
  intros x Hx. apply H. right; exact Hx.
Qed.
Lemma pairwise_ext_in {A} (p q : A -> A -> bool) l :
  (forall x y, In x l -> In y l -> p x y = q x y) -> pairwise p l = pairwise q l.
Proof.
  induction l as [|a l IH]; intros H; [reflexivity|]. cbn. f_equal.
  - apply forallb_ext_in. intros y Hy. rewrite (H a y), (H y a); auto using in_eq, in_cons.
  - apply IH. intros x y Hx Hy. apply H; right; assumption.
Qed.

(* reading a per-node condition off on_nodes *)
Lemma combine_nth_error {A B} (l1 : list A) (l2 : list B) i a b :
  nth_error l1 i = Some a -> nth_error l2 i = Some b -> nth_error (combine l1 l2) i = Some (a, b).
Proof.
  revert l2 i. induction l1 as [|x l1 IH]; intros [|y l2] [|i] H1 H2; cbn in *; try discriminate.
  - inversion H1; inversion H2; reflexivity.
  - apply IH; assumption.
Qed.
Lemma on_nodes_nth wf p n nd e :
  on_nodes wf p = true -> nth_error wf n = Some nd -> nth_error (spec_table wf) n = Some e -> p n e nd = true.
Proof.
  intros H Hn He. unfold on_nodes in H. rewrite forallb_forall in H.
  assert (Hs : nth_error (seq 0 (List.length wf)) n = Some n).
  { assert (n < List.length wf) by (apply nth_error_Some; rewrite Hn; discriminate).
    rewrite (nth_error_nth' _ 0) by (rewrite seq_length; assumption). rewrite seq_nth by assumption. reflexivity. }
  specialize (H (n, e, nd)). apply H. eapply nth_error_In.
  apply combine_nth_error; [apply combine_nth_error; eassumption | exact Hn].
Qed.

Lemma skipn_S {A} : forall n (l : list A) a r, skipn n l = a :: r -> skipn (S n) l = r.
Proof.
  induction n as [|n IH]; intros l a r H.
  - cbn in H. subst l. reflexivity.
  - destruct l as [|x l]; [discriminate H|]. cbn in H. cbn. destruct l as [|y l']; [destruct n; discriminate H|].
    exact (IH (y :: l') a r H).
Qed.

Section Main.
Variable wf : workflow.
Let T := spec_table wf.
Hypothesis DOM : c03_aligned wf = true.
Hypothesis ZLW : zip_len_ok wf = true.

Lemma dom_parts : wf_ok wf = true /\ share_class wf = true.
Proof. unfold c03_aligned in DOM. apply andb_true_iff in DOM. exact DOM. Qed.
Lemma T_length : List.length T = List.length wf.
Proof. unfold T, spec_table. rewrite spec_from_length. reflexivity. Qed.
Lemma T_nth n nd : nth_error wf n = Some nd -> exists e, nth_error T n = Some e.
Proof.
  intros H. destruct (nth_error T n) eqn:E; [eexists; reflexivity|]. apply nth_error_None in E.
  rewrite T_length in E. assert (n < List.length wf) by (apply nth_error_Some; rewrite H; discriminate). lia.
Qed.
Lemma wf_fields_lt : fields_lt wf.
Proof.
  intros j nd Hj x Hx. destruct (T_nth j nd Hj) as [e He].
  pose proof (on_nodes_nth wf node_wf j nd e (proj1 dom_parts) Hj He) as H. unfold node_wf in H.
  repeat (apply andb_true_iff in H; destruct H as [H _]). rewrite forallb_forall in H. specialize (H _ Hx).
  apply Nat.ltb_lt in H. exact H.
Qed.

Lemma main_ind : forall rest mtab stab,
  tab_ok wf mtab stab -> skipn (List.length stab) wf = rest -> spec_from wf stab rest = T ->
  exists mtab', run_from wf mtab rest = Some mtab' /\ tab_ok wf mtab' T.
Proof.
  induction rest as [|nd rest IH]; intros mtab stab TO Hsk HT.
  - cbn in HT. subst stab. exists mtab. split; [reflexivity | exact TO].
  - set (n := List.length stab).
    assert (Hnd : nth_error wf n = Some nd).
    { rewrite <- (firstn_skipn n wf). rewrite nth_error_app2 by (rewrite firstn_length; lia).
      assert (HL : n <= List.length wf).
      { destruct (Nat.le_gt_cases n (List.length wf)) as [H|H]; [exact H|]. rewrite skipn_all2 in Hsk by lia. discriminate Hsk. }
      rewrite firstn_length, Nat.min_l by exact HL. rewrite Nat.sub_diag. unfold n. rewrite Hsk. reflexivity. }
    cbn [spec_from] in HT. fold n in HT.
    set (e := spec_entry wf stab n nd) in *.
    destruct (spec_from_prefix wf rest (stab ++ [e])) as [ext Eext]. rewrite HT, <- app_assoc in Eext.
    assert (HeT : nth_error T n = Some e).
    { rewrite Eext. rewrite nth_error_app2 by (unfold n; lia). unfold n. rewrite Nat.sub_diag. reflexivity. }
    destruct dom_parts as [D1 D2].
    assert (ZL : zip_ok_node nd = true).
    { unfold zip_len_ok in ZLW. rewrite forallb_forall in ZLW. apply ZLW. eapply nth_error_In. exact Hnd. }
    pose proof (on_nodes_nth wf node_wf n nd e D1 Hnd HeT) as NW.
    pose proof (on_nodes_nth wf _ n nd e D2 Hnd HeT) as SH. cbn beta in SH. fold T in SH.
    assert (Hflt : forall x, In (BUp x) (n_fields nd) -> x < List.length stab) by (intros x Hx; exact (wf_fields_lt n nd Hnd x Hx)).
    assert (EU : ups T (n_fields nd) = ups stab (n_fields nd)) by (rewrite Eext; apply ups_ext; exact Hflt).
    assert (Hpar : forall z, z < n -> parents wf T z = parents wf stab z).
    { intros z Hz. unfold parents. rewrite Eext. apply ups_ext. intros w Hw.
      assert (Hz' : nth_error wf z = Some (node_at wf z)).
      { unfold node_at. apply nth_error_nth'. pose proof (proj1 (nth_error_Some wf n) ltac:(rewrite Hnd; discriminate)). lia. }
      pose proof (wf_fields_lt z _ Hz' w Hw). unfold n in Hz. lia. }
    assert (Hstep' : exists me, step wf mtab n nd = Some me /\ entry_ok wf (stab ++ [e]) n nd me e).
    { unfold sharing_ok in SH. apply orb_true_iff in SH. destruct SH as [SH|SH].
      - (* separate origins *)
        assert (SH' : pairwise (sep_ok wf stab) (U stab nd) = true).
        { unfold separate_ok in SH. rewrite EU in SH. unfold U. rewrite <- SH. apply pairwise_ext_in.
          intros x y Hx Hy. apply ups_in in Hx. apply ups_in in Hy. destruct Hx as [Hx _], Hy as [Hy _].
          pose proof (Hflt x Hx) as Lx. pose proof (Hflt y Hy) as Ly.
          unfold sep_ok. rewrite (Hpar y Ly). rewrite Eext, !s_faxes_of_app by assumption. reflexivity. }
        exact (step_ok wf mtab stab n nd TO eq_refl Hnd wf_fields_lt NW ZL SH').
      - (* a state and its relay *)
        rewrite EU in SH. destruct (ups stab (n_fields nd)) as [|x [|y [|z l]]] eqn:EUU; try discriminate SH.
        assert (Lx : x < n).
        { apply Hflt. assert (H : In x (ups stab (n_fields nd))) by (rewrite EUU; left; reflexivity). apply ups_in in H. tauto. }
        assert (Ly : y < n).
        { apply Hflt. assert (H : In y (ups stab (n_fields nd))) by (rewrite EUU; right; left; reflexivity). apply ups_in in H. tauto. }
        assert (Hrel : forall a b, a < n -> b < n -> relays wf T a b = relays wf stab a b).
        { intros a b La Lb. unfold relays. rewrite (Hpar a La), (Hpar b Lb). reflexivity. }
        apply orb_true_iff in SH. destruct SH as [SH|SH].
        + rewrite (Hrel x y Lx Ly) in SH.
          exact (step_relay wf mtab stab n nd TO eq_refl Hnd NW ZL x y (or_introl EUU) SH).
        + rewrite (Hrel y x Ly Lx) in SH.
          exact (step_relay wf mtab stab n nd TO eq_refl Hnd NW ZL y x (or_intror EUU) SH). }
    destruct Hstep' as [me [Hstep EOn]].
    cbn [run_from]. rewrite (proj1 TO). fold n. rewrite Hstep.
    apply (IH (mtab ++ [me]) (stab ++ [e])).
    + split; [rewrite !app_length, (proj1 TO); reflexivity|].
      intros j ndj mej sej H1 H2 H3.
      destruct (Nat.lt_ge_cases j n) as [Hlt|Hge].
      * rewrite nth_error_app1 in H2 by (rewrite (proj1 TO); exact Hlt). rewrite nth_error_app1 in H3 by exact Hlt.
        apply entry_ok_ext; [intros x Hx; pose proof (wf_fields_lt j ndj H1 x Hx); unfold n in Hlt; lia|].
        exact (proj2 TO j ndj mej sej H1 H2 H3).
      * assert (Hj : j = n).
        { assert (j < List.length (stab ++ [e])) by (apply nth_error_Some; rewrite H3; discriminate).
          rewrite app_length in H. cbn in H. unfold n in *. lia. }
        subst j. rewrite Hnd in H1. inversion H1; subst ndj.
        rewrite nth_error_app2 in H2 by (rewrite (proj1 TO); unfold n; lia). rewrite (proj1 TO) in H2. fold n in H2. rewrite Nat.sub_diag in H2.
        rewrite nth_error_app2 in H3 by (unfold n; lia). fold n in H3. rewrite Nat.sub_diag in H3.
        cbn in H2, H3. inversion H2; inversion H3; subst. exact EOn.
    + rewrite app_length. cbn. replace (List.length stab + 1) with (S n) by (unfold n; lia).
      apply (skipn_S n wf nd rest). exact Hsk.
    + exact HT.
Qed.

Lemma all_some_map2 {A B C} (f : A -> option C) (g : B -> C) : forall (l1 : list A) (l2 : list B),
  List.length l1 = List.length l2 ->
  (forall i a b, nth_error l1 i = Some a -> nth_error l2 i = Some b -> f a = Some (g b)) ->
  all_some (map f l1) = Some (map g l2).
Proof.
  induction l1 as [|a l1 IH]; intros [|b l2] HL H; cbn in HL; try discriminate; [reflexivity|].
  cbn [map all_some]. rewrite (H 0 a b eq_refl eq_refl). rewrite (IH l2); [reflexivity | lia |].
  intros i a' b' H1 H2. exact (H (S i) a' b' H1 H2).
Qed.

Theorem aligned : model_run wf = Some (spec_run wf).
Proof.
  destruct (main_ind wf [] []) as [mtab [Hrun TO]].
  - split; [reflexivity|]. intros j nd me se _ H. destruct j; discriminate H.
  - reflexivity.
  - reflexivity.
  - unfold model_run. rewrite Hrun. unfold spec_run. fold T.
    apply all_some_map2; [exact (proj1 TO)|].
    intros i me se H1 H2.
    assert (Hi : i < List.length wf) by (rewrite <- T_length; apply nth_error_Some; rewrite H2; discriminate).
    destruct (nth_error wf i) as [nd|] eqn:Hnd; [|apply nth_error_None in Hnd; lia].
    pose proof (proj2 TO i nd me se Hnd H1 H2) as EO.
    exact (get_value_output wf _ _ _ _ _ EO).
Qed.
End Main.

Theorem partial : forall wf, c03_domain wf = true -> zip_len_ok wf = true -> model_run wf = Some (spec_run wf).
Proof.
  intros wf H Z. apply aligned; [|exact Z]. unfold c03_domain in H. unfold c03_aligned.
  apply andb_true_iff in H. destruct H as [H1 H2]. rewrite H1.
  assert (S : share_class wf = true).
  { unfold share_class, separate_class, on_nodes in *. rewrite forallb_forall in H2. apply forallb_forall.
    intros z Hz. specialize (H2 z Hz). cbn beta in *. unfold sharing_ok. rewrite H2. reflexivity. }
  rewrite S. reflexivity.
Qed.

(* zip groups, combiner closure, both outputs *)
Lemma zip_len_normalize wf : zip_len_ok (normalize wf) = zip_len_ok wf.
Proof.
  unfold zip_len_ok, normalize. generalize wf at 1. intros w0. induction wf as [|nd wf IH]; [reflexivity|].
  cbn [map forallb]. rewrite IH. reflexivity.
Qed.
Theorem partial2 : forall wf, c03_class2 wf = true -> model_run2 wf = spec_run2 wf.
Proof.
  intros wf H. unfold c03_class2 in H.
  apply andb_true_iff in H. destruct H as [H _]. apply andb_true_iff in H. destruct H as [H _].
  apply andb_true_iff in H. destruct H as [H1 H2].
  unfold model_run2, spec_run2. rewrite H2.
  rewrite (aligned (normalize wf) H1); [reflexivity|]. rewrite zip_len_normalize. exact H2.
Qed.
