(* C22 — Shell argument vector follows the documented field semantics. *)
From Pydra Require Import Base.Prelude Base.Shlex Model.Shell Spec.Shell Proofs.ShellRefute.

Definition C22_full_statement : Prop := C22_statement.

Theorem C22_refuted_gap : ~ C22_full_statement.
Proof. exact refuted_gap. Qed.
Print Assumptions C22_refuted_gap.
