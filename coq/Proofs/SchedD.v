(* Proofs/SchedD.v — the scan / poll lemmas and the invariant of the asynchronous loop. *)
From Pydra Require Import Base.Prelude Base.SchedBase Model.Sched Spec.Sched Proofs.SchedA Proofs.SchedSpec Proofs.SchedB Proofs.SchedC.
Local Open Scope nat_scope.

Lemma In_firstn {A} (x : A) k l : In x (firstn k l) -> In x l.
Proof.
  revert l. induction k as [|k IH]; intros l; cbn; [tauto|].
  destruct l as [|y l]; cbn; [tauto|]. intros [H|H]; auto.
Qed.

Lemma launches_of_app a b : launches_of (a ++ b) = launches_of a ++ launches_of b.
Proof. unfold launches_of. apply flat_map_app. Qed.
Lemma finishes_of_app a b : finishes_of (a ++ b) = finishes_of a ++ finishes_of b.
Proof. unfold finishes_of. apply flat_map_app. Qed.

Section Inv.
Variable V : Type.
Variable body : nat -> nat -> list (list (option V)) -> V.
Variable fails : job -> bool.
Variable vr : variant.
Hypothesis F14 : fix14 vr = true.
Variable g : graph.
Hypothesis WF : wf_graph g.
Variable kmax : option nat.

Notation world := (world V).
Notation nstate := (nstate V).
Notation sstate := (sstate V).
Notation lstate := (lstate V).
Notation NInv := (NInv V fails g).
Notation GInv := (GInv V fails g).
Notation WInv := (WInv V fails).
Notation upstream_ok := (upstream_ok V g).
Notation Fresh := (@Fresh V).

(* what is known of a job returned by a poll: a property of the world only *)
Definition task_ok (w : world) (j : job) : Prop :=
  upstream_ok w (fst j) /\ In j (all_jobs g) /\ tainted_b g fails (fst j) = false.

Lemma task_ok_mono (w w' : world) j : wle V w w' -> task_ok w j -> task_ok w' j.
Proof. intros H [A [B C]]. split; [eapply upstream_ok_mono; eauto|auto]. Qed.

Definition runs (ss : sstate) (j : job) : Prop :=
  started_flag (nst ss (fst j)) = true /\ unrunnable (nst ss (fst j)) = false.

Definition keeps_running (st st' : nstates V) : Prop :=
  forall m, started_flag (st m) = true -> unrunnable (st m) = false ->
            started_flag (st' m) = true /\ unrunnable (st' m) = false.

Lemma scan_spec (w : world) : forall rest pre ss ns acc,
  g = pre ++ rest -> GInv w ss -> WInv w ->
  (forall m, In m (map nid pre) -> ~ In m ns -> Fresh w m (nst ss m)) ->
  (forall j, In j acc -> task_ok w j /\ runs ss j) ->
  GInv w (fst (scan vr g w rest ss ns acc))
  /\ (forall j, In j (snd (scan vr g w rest ss ns acc)) ->
        task_ok w j /\ runs (fst (scan vr g w rest ss ns acc)) j)
  /\ keeps_running (nst ss) (nst (fst (scan vr g w rest ss ns acc))).
Proof.
  induction rest as [|nd rest IH]; intros pre ss ns acc E G W Fp Ha.
  - cbn. split; [exact G|split; [exact Ha|]]. intros m A B; auto.
  - cbn [scan].
    assert (Hnd : In nd g). { rewrite E. apply in_or_app. right; left; reflexivity. }
    pose proof WF as WF'. unfold wf_graph in WF'. rewrite E in WF'.
    destruct (topo_b_split _ _ _ _ WF') as [Hpre [_ Hnpre]].
    destruct (update_spec V body fails vr F14 g w ss (nid nd) G) as [G1 [F1 [O1 [K1 U1]]]].
    set (ss1 := update vr w ss (nid nd)) in *.
    assert (Fp1 : forall m, In m (map nid pre) -> ~ In m ns -> Fresh w m (nst ss1 m)).
    { intros m Hm Hn. rewrite (K1 m (Fp m Hm Hn)). apply Fp; auto. }
    assert (KR1 : keeps_running (nst ss) (nst ss1)).
    { intros m A B. destruct (Nat.eq_dec m (nid nd)) as [->|Ne].
      - rewrite (us_flag _ _ _ _ _ _ _ U1), (us_unr _ _ _ _ _ _ _ U1). auto.
      - rewrite (O1 m Ne). auto. }
    assert (E' : g = (pre ++ [nd]) ++ rest). { rewrite <- app_assoc. exact E. }
    destruct (done_ns (nst ss1 (nid nd))) eqn:D.
    + (* node done: continue *)
      destruct (IH (pre ++ [nd]) ss1 ns acc E' G1 W) as [A [B C]]; auto.
      * intros m Hm Hn. rewrite map_app in Hm. apply in_app_or in Hm. destruct Hm as [Hm|[<-|[]]]; auto.
      * intros j Hj. destruct (Ha j Hj) as [X [Y Z]]. split; [exact X|]. apply KR1; auto.
      * split; [exact A|split; [exact B|]]. intros m X Y. destruct (KR1 m X Y). apply C; auto.
    + destruct (existsb (fun p => mem_nat p ns) (npreds nd)) eqn:BR.
      * (* break *)
        cbn. split; [exact G1|split; [|exact KR1]].
        intros j Hj. destruct (Ha j Hj) as [X [Y Z]]. split; [exact X|]. apply KR1; auto.
      * assert (Fpred : forall p, In p (npreds nd) -> Fresh w p (nst ss1 p)).
        { intros p Hp. apply Fp1.
          - destruct (Hpre p Hp) as [[]|H]; exact H.
          - intros Hn. assert (existsb (fun p => mem_nat p ns) (npreds nd) = true).
            { apply existsb_exists. exists p. split; [exact Hp|apply mem_nat_In; exact Hn]. }
            congruence. }
        destruct (node_runnable_spec V body fails vr F14 g WF w ss1 nd G1 W Hnd Fpred F1) as [G2 [O2 [Fr2 [T2 S2]]]].
        destruct (node_runnable vr g w ss1 nd) as [ss2 tl] eqn:NR. cbn [fst snd] in *.
        set (ns' := if is_started (nst ss1 (nid nd)) then ns else nid nd :: ns).
        assert (KR2 : keeps_running (nst ss1) (nst ss2)).
        { intros m A B. destruct (Nat.eq_dec m (nid nd)) as [->|Ne].
          - rewrite (S2 A B). auto.
          - rewrite (O2 m Ne). auto. }
        destruct (IH (pre ++ [nd]) ss2 ns' (acc ++ tl) E' G2 W) as [A [B C]].
        -- intros m Hm Hn. rewrite map_app in Hm. apply in_app_or in Hm. destruct Hm as [Hm|[<-|[]]].
           ++ assert (Ne : m <> nid nd). { intros ->. contradiction. }
              rewrite (O2 m Ne). apply Fp1; [exact Hm|]. intros H. apply Hn. unfold ns'.
              destruct (is_started (nst ss1 (nid nd))); [exact H|right; exact H].
           ++ unfold ns' in Hn. destruct (is_started (nst ss1 (nid nd))) eqn:St.
              ** apply Fr2. reflexivity.
              ** exfalso. apply Hn. left; reflexivity.
        -- intros j Hj. apply in_app_or in Hj. destruct Hj as [Hj|Hj].
           { destruct (Ha j Hj) as [X [Y Z]]. split; [exact X|]. apply KR2. apply KR1; auto. apply KR1; auto. }
           destruct (T2 j Hj) as [Hn Hq]. destruct j as [n i]. cbn in Hn, Hq. subst n.
           pose proof (gi_node _ _ _ _ _ G2 (nid nd)) as I2.
           destruct (queued_started V fails g w (nid nd) _ i I2 Hq) as [Fl Un].
           split; [|split; cbn; auto].
           split; [|split]; cbn.
           ++ apply (ni_upstream _ _ _ _ _ _ I2 Fl Un).
           ++ apply (in_all_jobs g nd i Hnd). rewrite <- (njobs_of_nd g WF nd Hnd).
              apply (ni_range _ _ _ _ _ _ I2). unfold SchedA.members. apply in_or_app. left; exact Hq.
           ++ apply (ni_taint_run _ _ _ _ _ _ I2 Fl Un).
        -- split; [exact A|split; [exact B|]]. intros m X Y. destruct (KR1 m X Y) as [X1 Y1].
           destruct (KR2 m X1 Y1). apply C; auto.
Qed.

Lemma poll_spec (w : world) ss :
  GInv w ss -> WInv w ->
  GInv w (fst (poll vr g kmax w ss))
  /\ (forall j, In j (snd (poll vr g kmax w ss)) -> task_ok w j /\ runs (fst (poll vr g kmax w ss)) j)
  /\ keeps_running (nst ss) (nst (fst (poll vr g kmax w ss))).
Proof.
  intros G W. unfold poll.
  destruct (scan_spec w g [] ss [] [] eq_refl G W) as [A [B C]].
  - intros m [].
  - intros j [].
  - destruct (scan vr g w g ss [] []) as [ss1 tasks]. cbn [fst snd] in *.
    split; [|split].
    + destruct A as [R N P]. constructor; cbn; auto.
    + intros j Hj. apply B. unfold truncate in Hj. destruct kmax; [eapply In_firstn; eauto|exact Hj].
    + exact C.
Qed.

(* ------------------------------------------------------------------ the loop *)
Fixpoint safe_rev (tr : list event) : Prop :=
  match tr with
  | [] => True
  | e :: r => match e with
              | ELaunch j => forall q, In q (upstream_jobs g (fst j)) -> In (EFinish q true) r
              | EFinish _ _ => True
              end /\ safe_rev r
  end.

Fixpoint conc_rev (k : nat) (tr : list event) : Prop :=
  match tr with
  | [] => True
  | e :: r => count_launch (e :: r) <= count_finish (e :: r) + k /\ conc_rev k r
  end.

End Inv.
