"""C29 — jobs, submitters, workers and results survive serialization to another process.

Three fresh interpreters per batch of configurations (`python -m harness.c29 send|recv|read <dir>`):
  send : builds task, Submitter, Job; records the job's object graph, the class table read off the live
         classes (what each __getstate__ drops / blanks, what __setstate__ recreates), the checksum and the
         outputs of a reference run; cloudpickles the Job to a file
  recv : another process: loads the Job, records the object graph and checksum, runs the job there
  read : the "submitting" side again: loads the result the other process wrote and compares
The parent lets Coq evaluate the model (Model/Pickle.v) and the specification (Spec/Pickle.v) on the graphs.
"""
import json
import os
import shutil
import subprocess
import sys
import tempfile

PROP = "C29"
PROPS_FILE = "Props/C29.v"
MANIFEST = dict(
    text="PARTIAL. Theorems (Coq, closed under the global context) about a thin model of pickling: objects are "
         "attribute dictionaries, each class has a table entry saying which attributes __getstate__ drops or blanks "
         "and which __setstate__ recreates or pushes into held objects, cloudpickle is a function assumed faithful "
         "on plain data. C29_roundtrip_nontransient: for every table and object graph, a successful round trip "
         "restores every non-transient attribute at every depth. C29_identity_preserved: Job.checksum reads only "
         "_checksum and task; if neither is transient the deserialized job has the same cache identity. "
         "C29_pickling_defined_iff: the round trip is defined iff no live resource sits outside the dropped/blanked "
         "attributes. The class table is NOT hand-written: on every run the driver reads it off the live Job, "
         "Submitter, Audit, Result and Worker (debug, cf, slurm, sge) classes and Coq re-checks the theorems' "
         "hypotheses (push_wfb, identity_safe, picklableb) on it. The substance is the correspondence run: python, "
         "shell and workflow tasks (split and unsplit) x worker/submitter configurations are cloudpickled into a "
         "fresh interpreter; there the attribute graph must equal the model's prediction, the checksum must be the "
         "same, the job is run, and a third fresh interpreter reads the result back and compares it with a "
         "reference run; results written by cf worker processes are read back by the submitting process.",
    note="The model cannot exhibit what cloudpickle does to concrete Python values (unpicklable closures, classes "
         "pickled by value, hash stability of values across processes): that part is differential testing only.",
    technique="Coq proof (induction over object graphs) over a class table extracted from the live classes + "
              "cross-process round trips compared with model and spec via generated cases.v",
    design="§8 Group H / C29",
)
TIE_NAME = "Model.Pickle.rt (class table from the live classes) vs cloudpickle round trip of Job/Submitter/Worker/Audit into a fresh interpreter"
TRUSTED = [
    "Model/Pickle.v: thin hand-written model of pickling through __getstate__/__setstate__; the cloudpickle bytes "
    "that Job.__getstate__/Result.__getstate__ make of task/outputs are modelled as pickling in place",
    "Section variable cp (cloudpickle on a plain datum) with hypotheses: faithful (cp n = Some m -> m = n) for "
    "C29_roundtrip_nontransient / C29_identity_preserved, total for C29_pickling_defined_iff",
    "the harness's abstraction of Python attribute values to None / datum (fingerprint = pydra hash_function) / "
    "live resource / object, and its reading of the class table from __reduce_ex__ and an in-process round trip",
]
ASSUMPTIONS = ["cloudpickle transports plain data unchanged; hash_function of an attribute value is the same in both "
               "processes (PYTHONHASHSEED fixed)"]
RULE = ("a case is (task kind and inputs, worker, how the worker was configured: by name+kwargs / as an object / mutated "
        "afterwards, audit flags); distinct = distinct tuples of those; "
        "non-trivial = the job's graph holds at least one live resource (event loop, process pool) and the job was "
        "run in the receiving interpreter")

OBJ_CLASSES = ("Job", "Submitter", "Audit", "Result", "Runtime")


# ====================================================================================== child side
def _defs():
    from pydra.compose import python, shell, workflow

    @python.define(outputs={"out": int})
    def Add(a: int, b: int) -> int:
        return a + b

    @python.define(outputs={"out": str})
    def Cat(s: str, n: int) -> str:
        return s * n

    @python.define(outputs={"out": int})
    def Failing(a: int, b: int) -> int:
        raise ValueError("a + b is undefined today")

    Echo = shell.define("echo <x:int> <word:str>")

    @workflow.define(outputs={"out": int})
    def Chain(x: int, y: int) -> int:
        n1 = workflow.add(Add(a=x, b=y), name="n1")
        n2 = workflow.add(Add(a=n1.out, b=y), name="n2")
        return n2.out

    @workflow.define(outputs={"out": list[int]})
    def Fan(x: int, y: int) -> list[int]:
        n1 = workflow.add(Add(b=y).split(a=[x, x + 1, x + 2]), name="n1")
        return n1.out

    @workflow.define(outputs={"out": int})
    def Mixed(x: int, word: str) -> int:
        e = workflow.add(Echo(x=x, word=word), name="e")
        n = workflow.add(Add(a=e.return_code, b=x), name="n")
        return n.out

    def make(spec):
        k = spec["kind"]
        if k == "add":
            return Add(a=spec["a"], b=spec["b"])
        if k == "failing":
            return Failing(a=spec["a"], b=spec["b"])
        if k == "cat":
            return Cat(s=spec["s"], n=spec["n"])
        if k == "echo":
            return Echo(x=spec["a"], word=spec["s"])
        if k == "chain":
            return Chain(x=spec["a"], y=spec["b"])
        if k == "fan":
            return Fan(x=spec["a"], y=spec["b"])
        if k == "mixed":
            return Mixed(x=spec["a"], word=spec["s"])
        raise ValueError(k)

    return make


def _is_live(v):
    import asyncio
    import concurrent.futures as cf
    import threading
    import io
    return isinstance(v, (asyncio.AbstractEventLoop, cf.Executor, threading.Thread, io.IOBase))


def _attr_items(obj):
    import attrs
    if attrs.has(type(obj)):
        return [(a.name, getattr(obj, a.name, None)) for a in attrs.fields(type(obj))]
    return list(vars(obj).items())


def _is_obj(v):
    from pydra.workers.base import Worker
    return type(v).__name__ in OBJ_CLASSES or isinstance(v, Worker)


def _fingerprint(v):
    from pydra.utils.hash import hash_function
    try:
        return "h:" + hash_function(v)
    except Exception as e:  # noqa
        return "r:%s:%s" % (type(v).__name__, type(e).__name__)


def abstract(v, key="", after=False, depth=0):
    """Python value -> JSON form of Model.Pickle.val"""
    if v is None:
        return ["none"]
    if _is_live(v):
        return ["fresh", key] if after else ["live", 1]
    if _is_obj(v) and depth < 6:
        return ["obj", type(v).__name__, [[k, abstract(x, k, after, depth + 1)] for k, x in _attr_items(v)]]
    return ["data", _fingerprint(v)]


def _state_keys(obj):
    """the keys of the state pickle would store for obj, and those stored as None"""
    red = obj.__reduce_ex__(4)
    state = red[2] if len(red) > 2 else None
    d = {}
    if isinstance(state, tuple):
        for part in state:
            if isinstance(part, dict):
                d.update(part)
    elif isinstance(state, dict):
        d = state
    elif state is not None:
        raise TypeError("state of %s is %s" % (type(obj).__name__, type(state).__name__))
    return d


def class_table(root):
    """read the class table off the live objects reachable from root.  For an object of class C:
    drop/null  from the state pickle would store (__reduce_ex__ -> __getstate__),
    fresh      what an in-process cloudpickle round trip of the object alone leaves in those attributes,
    push       attributes of a held object that differ between "held object unpickled alone" and "held object
               inside the unpickled holder" and are identical (`is`) to one of the holder's own attributes."""
    import cloudpickle as cp
    table = {}

    def close(o):
        closer = getattr(o, "close", None)
        if callable(closer):
            try:
                closer()
            except Exception:
                pass

    def visit(obj):
        name = type(obj).__name__
        items = _attr_items(obj)
        state = _state_keys(obj)
        drop = [k for k, v in items if k not in state]
        null = [k for k, v in items if k in state and state[k] is None and v is not None]
        alone = cp.loads(cp.dumps(obj))
        fresh = []
        for k in drop + null:
            if hasattr(alone, k):
                a = abstract(getattr(alone, k), k, after=True)
                if not (k in null and a == ["none"]):
                    fresh.append([k, a])
        push = []
        for k, v in items:
            if _is_obj(v) and k not in drop:
                visit(v)
                held = getattr(alone, k)
                held_alone = cp.loads(cp.dumps(v))
                vt = table[type(v).__name__]
                for ck in vt["drop"] + vt["null"]:
                    x_in, x_alone = getattr(held, ck, None), getattr(held_alone, ck, None)
                    if abstract(x_in, ck, True) != abstract(x_alone, ck, True):
                        own = [k2 for k2, _ in _attr_items(alone) if getattr(alone, k2, None) is x_in]
                        if not own:
                            raise ValueError("%s.__setstate__ changes %s.%s in a way the table cannot express" % (name, k, ck))
                        push.append([k, type(v).__name__, ck, own[0]])
                close(held_alone)
        if name != "Job":
            close(alone)
        else:
            close(alone.submitter)
        entry = {"drop": drop, "null": null, "fresh": fresh, "push": push}
        if name in table and table[name] != entry:
            raise ValueError("two objects of class %s pickle differently: %r / %r" % (name, table[name], entry))
        table[name] = entry

    visit(root)
    return table


def outputs_repr(result, strict=False):
    """every attribute of a Result, by type and value.  The runtime figures (memory/cpu peaks) differ from run to
    run, so they are compared by value only between copies of the same result (strict)."""
    from pydra.utils.general import attrs_values
    if result is None:
        return None
    out = None
    if result.outputs is not None:
        out = {k: repr(v) for k, v in sorted(attrs_values(result.outputs).items()) if not k.startswith("_")}
    rt = result.runtime
    if rt is None:
        runtime = None
    else:
        try:
            vals = attrs_values(rt)
            runtime = {k: (repr(v) if strict else type(v).__name__) for k, v in sorted(vals.items())}
        except Exception:
            runtime = "not an attrs object: " + (repr(rt) if strict else "")
    rep = {"errored": bool(result.errored), "errored_type": type(result.errored).__name__,
           "outputs": out, "outputs_type": type(result.outputs).__name__,
           "runtime": runtime, "runtime_type": type(rt).__name__,
           "cache_dir": os.path.basename(str(result.cache_dir)), "cache_dir_type": type(result.cache_dir).__name__}
    if strict:
        rep["task_type"] = type(result.task).__name__
        rep["task"] = _fingerprint(result.task) if result.task is not None else None
    return rep


# what the caller configured: constructor arguments of Job / Submitter / Audit, and the worker keyword arguments below
REQUIRED = {"Job": ["task", "submitter", "name", "environment", "state_index", "hooks", "audit", "_cache_root"],
            "Submitter": ["audit", "_cache_root", "readonly_caches", "propagate_rerun", "max_concurrent", "environment",
                          "worker", "clean_stale_locks"],
            "Audit": ["audit_flags", "messengers", "messenger_args", "develop"]}
WORKER_OBJ_KW = {"debug": {}, "cf": {"n_procs": 3}, "slurm": {"poll_delay": 4, "sbatch_args": "-N2 --mem=1G"},
                 "sge": {"poll_delay": 5, "qsub_args": "-q long", "max_job_array_length": 7}}
WORKER_KW = {"debug": {}, "cf": {"n_procs": 2}, "slurm": {"poll_delay": 2, "sbatch_args": "-N1"},
             "sge": {"poll_delay": 3, "qsub_args": "-q x"}}


def worker_config(worker, kw):
    """class and every configured attribute of a worker, as seen in this process"""
    return {"class": type(worker).__name__, **{k: repr(getattr(worker, k, "<missing>")) for k in sorted(kw)}}


def child_send(root):
    import cloudpickle as cp
    from pydra.engine.submitter import Submitter
    from pydra.engine.job import Job
    from pydra.utils.messenger import AuditFlag, FileMessenger
    make = _defs()
    with open(os.path.join(root, "configs.json")) as f:
        configs = json.load(f)
    for c in configs:
        d = os.path.join(root, "case%d" % c["id"])
        os.makedirs(d)
        rec = {"id": c["id"]}
        try:
            # reference run in this process
            ref = make(c["task"])
            rkw = {"audit_flags": AuditFlag.RESOURCE} if c["audit"] == "all" else {}
            with Submitter(cache_root=os.path.join(d, "cacheB"), worker="debug", **rkw) as sub:
                rec["expected"] = outputs_repr(sub(ref, raise_errors=False))
            # results written by cf worker processes, read back by this (the submitting) process
            if c.get("cf_run"):
                with Submitter(cache_root=os.path.join(d, "cacheC"), worker="cf", n_procs=2, **rkw) as sub:
                    rec["cf_result"] = outputs_repr(sub(make(c["task"]), raise_errors=False))
            task = make(c["task"])
            how = c.get("how", "name")
            kw = dict(WORKER_OBJ_KW[c["worker"]] if how in ("object", "mutated") else WORKER_KW[c["worker"]])
            akw = {}
            if c["audit"] in ("prov", "all"):
                akw = dict(audit_flags=AuditFlag.PROV if c["audit"] == "prov" else AuditFlag.ALL, messengers=FileMessenger(),
                           messenger_args={"message_dir": os.path.join(d, "msgs")})
            if how == "object":       # the worker is handed over as an already configured object
                from pydra.workers.base import Worker
                sub = Submitter(cache_root=os.path.join(d, "cacheA"), worker=Worker.plugin(c["worker"])(**kw), **akw)
            elif how == "mutated":    # ... or configured after the submitter was made
                sub = Submitter(cache_root=os.path.join(d, "cacheA"), worker=c["worker"], **akw)
                for k, v in kw.items():
                    setattr(sub.worker, k, v)
            else:
                sub = Submitter(cache_root=os.path.join(d, "cacheA"), worker=c["worker"], **akw, **kw)
            rec["worker_config"] = worker_config(sub.worker, kw)
            job = Job(task=task, submitter=sub, name="main")
            rec["checksum"] = job.checksum
            rec["before"] = abstract(job)
            rec["table"] = class_table(job)
            rec["required"] = {"Job": REQUIRED["Job"], "Submitter": REQUIRED["Submitter"], "Audit": REQUIRED["Audit"],
                               type(sub.worker).__name__: sorted(kw)}
            with open(os.path.join(d, "job.pkl"), "wb") as f:
                cp.dump(job, f)
            sub.close()
        except Exception:
            import traceback
            rec["error"] = traceback.format_exc()[-3000:]
        with open(os.path.join(d, "send.json"), "w") as f:
            json.dump(rec, f)


def child_recv(root):
    import cloudpickle as cp
    with open(os.path.join(root, "configs.json")) as f:
        configs = json.load(f)
    for c in configs:
        d = os.path.join(root, "case%d" % c["id"])
        rec = {"id": c["id"]}
        try:
            with open(os.path.join(d, "job.pkl"), "rb") as f:
                job = cp.load(f)
            rec["after"] = abstract(job, after=True)
            how = c.get("how", "name")
            kw = WORKER_OBJ_KW[c["worker"]] if how in ("object", "mutated") else WORKER_KW[c["worker"]]
            rec["worker_config"] = worker_config(job.submitter.worker, kw)
            rec["checksum"] = job.checksum
            if c["run"]:
                try:
                    if job.is_async:
                        job.submitter.submit(job, rerun=False)
                        res = job.result()
                    else:
                        res = job.run()
                    rec["result"] = outputs_repr(res)
                    rec["result_strict"] = outputs_repr(res, strict=True)
                    rec["result_graph"] = abstract(res)
                    rec["result_table"] = class_table(res)
                except Exception as e:     # a failing task: the errored result is what must come back
                    rec["run_exception"] = "%s: %s" % (type(e).__name__, str(e)[:300])
                    try:
                        res = job.result()
                        rec["result"] = outputs_repr(res)
                        rec["result_strict"] = outputs_repr(res, strict=True)
                        rec["result_graph"] = abstract(res)
                        rec["result_table"] = class_table(res)
                    except Exception:
                        pass
            try:
                job.submitter.close()
            except Exception:
                pass
        except Exception:
            import traceback
            rec["error"] = traceback.format_exc()[-3000:]
        with open(os.path.join(d, "recv.json"), "w") as f:
            json.dump(rec, f)


def child_read(root):
    import cloudpickle as cp
    from pathlib import Path
    from pydra.engine.result import load_result
    with open(os.path.join(root, "configs.json")) as f:
        configs = json.load(f)
    for c in configs:
        d = os.path.join(root, "case%d" % c["id"])
        rec = {"id": c["id"]}
        try:
            with open(os.path.join(d, "send.json")) as f:
                chk = json.load(f).get("checksum")
            if chk and c["run"]:
                res = load_result(chk, [Path(d) / "cacheA"])
                rec["result"] = outputs_repr(res)
                if res is not None:        # Result.__getstate__/__setstate__ once more, in this process
                    rec["result_strict"] = outputs_repr(res, strict=True)
                    rec["result_graph"] = abstract(res, after=True)
                    rec["result_again"] = outputs_repr(cp.loads(cp.dumps(res)), strict=True)
        except Exception:
            import traceback
            rec["error"] = traceback.format_exc()[-3000:]
        with open(os.path.join(d, "read.json"), "w") as f:
            json.dump(rec, f)



# ====================================================================================== parent side
IMPORTS = ["Model.Pickle", "Spec.Pickle"]
EXTRA = """
Definition case_t := (list (string * descr) * val * option val * list (string * list string))%type.
(* the live class table meets the theorems' hypotheses and the model's round trip is what the other process saw *)
Definition tie_ok (k : case_t) : bool :=
  let '(t, before, after, req) := k in
  push_wfb t && identity_safe (table t) "Job" &&
  match rt (table t) Some before, after with
  | Some m, Some a => val_eqb m a
  | None, None => true
  | _, _ => false
  end.
(* nothing the caller configured is transient, and every non-transient attribute, at every depth, is back *)
Definition spec_ok (k : case_t) : bool :=
  let '(t, before, after, req) := k in
  config_safeb t req &&
  match after with Some a => survivesb (table t) before a | None => false end.
"""
WORDS = ["hi", "a b", "x", "w_1", "w"]     # (no quote characters: `it's` makes ShellTask.cmdline raise — F23, C23's business)


def gen_config(rng, i, worker=None):
    worker = worker or rng.choice(["debug", "debug", "cf", "cf", "slurm", "sge"])
    kinds = ["add", "cat", "echo", "failing"] + (["chain", "fan", "mixed"] * 2 if worker in ("debug", "cf") else [])
    kind = rng.choice(kinds)
    task = {"kind": kind, "a": rng.randrange(0, 50), "b": rng.randrange(0, 50), "s": rng.choice(WORDS), "n": rng.randrange(0, 4)}
    return {"id": i, "task": task, "worker": worker, "how": rng.choice(["name", "object", "object", "mutated"]),
            "audit": rng.choice(["none", "prov", "all", "all"]), "run": True,
            "cf_run": kind in ("add", "cat", "echo", "chain") and rng.random() < 0.3}


class Enc:
    def __init__(self):
        self.fp = {}

    def val(self, v):
        from .lib import coqio
        tag = v[0]
        if tag == "none":
            return "VNone"
        if tag == "data":
            return coqio.app("VData", coqio.nat(self.fp.setdefault(v[1], len(self.fp))))
        if tag == "live":
            return "(VLive 1%nat)"
        if tag == "fresh":
            return coqio.app("VFresh", coqio.string(v[1]))
        if tag == "obj":
            return coqio.app("VObj", coqio.string(v[1]),
                             coqio.lst([coqio.pair(coqio.string(k), self.val(x)) for k, x in v[2]]))
        raise ValueError(v)

    def table(self, t):
        from .lib import coqio
        out = []
        for cls, e in sorted(t.items()):
            d = coqio.app("mkDescr", coqio.lst([coqio.string(k) for k in e["drop"]]),
                          coqio.lst([coqio.string(k) for k in e["null"]]),
                          coqio.lst([coqio.pair(coqio.string(k), self.val(a)) for k, a in e["fresh"]]),
                          coqio.lst([coqio.pair(*[coqio.string(x) for x in p]) for p in e["push"]]))
            out.append(coqio.pair(coqio.string(cls), d))
        return coqio.lst(out)


def enc_req(req):
    from .lib import coqio
    return coqio.lst([coqio.pair(coqio.string(c), coqio.lst([coqio.string(k) for k in ks])) for c, ks in sorted(req.items())])


def missing_required(v, req, acc=None):
    acc = [] if acc is None else acc
    if v[0] == "obj":
        keys = [k for k, _ in v[2]]
        acc += ["%s.%s" % (v[1], k) for k in req.get(v[1], []) if k not in keys]
        for _, x in v[2]:
            missing_required(x, req, acc)
    return acc


def has_live(v):
    return v[0] in ("live", "fresh") or (v[0] == "obj" and any(has_live(x) for _, x in v[2]))


def run_batches(configs, timeout):
    """every batch of configurations goes through three fresh interpreters (send, recv, read), one after the
    other; up to five batches are in flight at a time"""
    import concurrent.futures as cfut
    repo = os.environ.get("VERIF_REPO", "/repo")
    env = dict(os.environ, PYTHONPATH="/verif:" + repo, PYTHONHASHSEED="0", NO_ET="1", PYTHONDONTWRITEBYTECODE="1")
    tmp = tempfile.mkdtemp(prefix="c29-", dir="/tmp")
    recs = {}

    def chain(d, b):
        rc = {}
        for mode in ("send", "recv", "read"):
            p = subprocess.run(["timeout", "-k", "5", str(timeout), "/venv/bin/python", "-m", "harness.c29", mode, d],
                               cwd="/verif", env=env, stdout=subprocess.DEVNULL, stderr=subprocess.PIPE, text=True)
            rc[mode] = (p.returncode, (p.stderr or "")[-600:])
        out = {}
        for c in b:
            r = {"stage_rc": rc}
            for m in ("send", "recv", "read"):
                fp = os.path.join(d, "case%d" % c["id"], m + ".json")
                if os.path.exists(fp):
                    with open(fp) as f:
                        r[m] = json.load(f)
            out[c["id"]] = r
        return out

    try:
        jobs = []
        for bi in range(0, len(configs), 6):
            b = configs[bi:bi + 6]
            d = os.path.join(tmp, "b%d" % (bi // 6))
            os.makedirs(d)
            with open(os.path.join(d, "configs.json"), "w") as f:
                json.dump(b, f)
            jobs.append((d, b))
        with cfut.ThreadPoolExecutor(max_workers=5) as ex:
            for res in ex.map(lambda db: chain(*db), jobs):
                recs.update(res)
    finally:
        shutil.rmtree(tmp, ignore_errors=True)
    return recs


def judge(c, r):
    """property-level comparisons that need no model: -> list of (what, observed, expected)"""
    bad = []
    s, v, d = r.get("send"), r.get("recv"), r.get("read")
    if s is None or v is None or d is None:
        bad.append(("a stage did not complete", r["stage_rc"], "send, recv and read complete"))
        return bad
    if "error" in s:
        bad.append(("the job could not be built or serialized", s["error"][-600:], "cloudpickle.dump(job) succeeds"))
        return bad
    def loose(x):     # between different runs of the same task: everything but the resource figures (Job.result() of an
        return {k: w for k, w in x.items() if not k.startswith("runtime")} if isinstance(x, dict) else x   # errored job is synthetic)

    exp = loose(s["expected"])
    if c.get("cf_run") and loose(s.get("cf_result")) != exp:
        bad.append(("result written by a cf worker process, read by the submitting process", s.get("cf_result"), exp))
    if "error" in v:
        bad.append(("the job could not be loaded in the other process", v["error"][-600:], "cloudpickle.load succeeds"))
        return bad
    if v.get("worker_config") != s.get("worker_config"):
        bad.append(("configuration of the deserialized submitter's worker", v.get("worker_config"), s.get("worker_config")))
    if v["checksum"] != s["checksum"]:
        bad.append(("cache identity of the deserialized job", v["checksum"], s["checksum"]))
    if c["run"]:
        if loose(v.get("result")) != exp:
            bad.append(("outputs of the deserialized job run in the other process", v.get("result") or v.get("run_exception"), exp))
        if "error" in d:
            bad.append(("the result could not be read back", d["error"][-600:], "load_result succeeds"))
        else:
            if d.get("result") != v.get("result"):
                bad.append(("result read back by the submitting side", d.get("result"), v.get("result")))
            if "result_strict" in v and d.get("result_strict") != v.get("result_strict"):
                bad.append(("every attribute (type and value) of the Result read back from _result.pklz",
                            d.get("result_strict"), v.get("result_strict")))
            if d.get("result_again") != d.get("result_strict"):
                bad.append(("Result after another pickle round trip", d.get("result_again"), d.get("result_strict")))
    return bad


def run(ctx):
    from .lib import coqio
    from .lib.runner import Outcome, Failure
    rng = ctx.rng
    n = ctx.budget(15, 78)
    configs = [dict(c) for c in ctx.corpus()]
    for w in ("debug", "cf", "slurm", "sge"):      # every worker at least once as a pre-configured object
        c0 = gen_config(rng, 0, w)
        c0["how"] = "object"
        configs.append(c0)
    while len(configs) < n:
        configs.append(gen_config(rng, 0))
    for i, c in enumerate(configs):
        c["id"] = i
    recs = run_batches(configs, timeout=ctx.budget(400, 1200) if ctx.widen == 1 else 2400)
    out = Outcome(rule=RULE)
    dist = {"how_name": 0, "how_object": 0, "how_mutated": 0, "worker_debug": 0, "worker_cf": 0, "worker_slurm": 0, "worker_sge": 0, "audit_prov": 0, "cf_worker_runs": 0,
            "jobs_run_in_other_process": 0, "classes_in_tables": {}, "attributes_compared": 0}
    for k in ("add", "cat", "echo", "failing", "chain", "fan", "mixed"):
        dist["task_" + k] = 0
    enc_cases, meta, seen = [], [], set()
    for c in configs:
        r = recs[c["id"]]
        pub = {k: c[k] for k in ("task", "worker", "how", "audit", "run", "cf_run") if k in c}
        dist["worker_" + c["worker"]] += 1
        dist["how_" + c.get("how", "name")] += 1
        dist["task_" + c["task"]["kind"]] += 1
        dist["audit_prov"] += c["audit"] == "prov"
        dist["audit_all_resource"] = dist.get("audit_all_resource", 0) + (c["audit"] == "all")
        dist["cf_worker_runs"] += bool(c.get("cf_run"))
        for what, obs, exp in judge(c, r):
            out.failures.append(Failure(case=pub, observed=obs, expected=exp, note=what, kind="spec"))
        s, v = r.get("send"), r.get("recv")
        if not s or "before" not in s or "table" not in s:
            continue
        e = Enc()
        before = e.val(s["before"])
        after = e.val(v["after"]) if v and "after" in v else None
        req = s.get("required", {})
        missing = missing_required(s["before"], req)
        if missing:
            out.failures.append(Failure(case=pub, observed=missing, expected="the configured attributes exist on the objects",
                                        note="harness: attribute names it expects are gone", kind="tie"))
        term = coqio.pair(e.table(s["table"]), before, coqio.option(after), enc_req(req))
        enc_cases.append(term)
        meta.append({"case": pub, "table": s["table"], "term": term, "before": s["before"], "after": (v or {}).get("after")})
        for cls in s["table"]:
            dist["classes_in_tables"][cls] = dist["classes_in_tables"].get(cls, 0) + 1
        dist["attributes_compared"] += json.dumps(s["before"]).count('["data"') + json.dumps(s["before"]).count('["none"')
        d = r.get("read")
        if v and d and "result_graph" in v and "result_graph" in d:
            e2 = Enc()
            rterm = coqio.pair(e2.table(v["result_table"]), e2.val(v["result_graph"]), coqio.option(e2.val(d["result_graph"])),
                               enc_req({"Result": ["outputs", "runtime", "errored", "cache_dir", "task"]}))
            enc_cases.append(rterm)
            meta.append({"case": dict(pub, object="the Result written by the other process, read back"), "table": v["result_table"],
                         "term": rterm, "before": v["result_graph"], "after": d["result_graph"]})
            dist["results_compared"] = dist.get("results_compared", 0) + 1
            dist["results_with_runtime"] = dist.get("results_with_runtime", 0) + (v["result_strict"]["runtime_type"] != "NoneType")
            dist["results_errored"] = dist.get("results_errored", 0) + bool(v["result_strict"]["errored"])
        ran = bool(v and "result" in v)
        dist["jobs_run_in_other_process"] += ran
        key = (json.dumps(c["task"], sort_keys=True), c["worker"], c.get("how", "name"), c["audit"])
        if key not in seen:
            seen.add(key)
            if has_live(s["before"]) and ran:
                out.distinct_nontrivial += 1
    res = coqio.run_cases(ctx.scratch, "c29", IMPORTS, "case_t", enc_cases, {"tie": "tie_ok", "spec": "spec_ok"},
                          extra=EXTRA, shard=40) if enc_cases else {"tie": [], "spec": []}
    out.evaluations = len(enc_cases)
    out.traces_validated = len(enc_cases)
    out.distribution = dist
    out.samples = [{"case": m["case"], "class_table_read_off_the_live_classes": m["table"]} for m in meta[:4]]
    for kind in ("spec", "tie"):
        for i in res[kind][:8]:
            m = meta[i]
            vals = coqio.eval_terms(ctx.scratch, "x%s%d" % (kind, i), IMPORTS,
                                    ["let '(t, b, a, q) := %s in (config_safeb t q, push_wfb t, identity_safe (table t) \"Job\", picklableb (table t) b, rt (table t) Some b)" % m["term"]],
                                    extra=EXTRA)
            out.failures.append(Failure(
                case=m["case"], observed={"class_table": m["table"], "after": m["after"]},
                expected={"model (config_safeb, push_wfb, identity_safe, picklableb, round trip)": vals[0][:4000]},
                note=("a non-transient attribute is not restored in the other process" if kind == "spec"
                      else "model/impl: class table hypotheses or predicted object graph"), kind=kind))
    return out


def replay(ctx, payload):
    c = dict(payload["case"])
    c["id"] = 0
    r = run_batches([c], 900)[0]
    print("implementation:")
    for m in ("send", "recv", "read"):
        x = dict(r.get(m) or {})
        for k in ("before", "after"):
            x.pop(k, None)
        print("  %s: %s" % (m, json.dumps(x)[:1500]))
    print("property-level comparisons:", judge(c, r) or "all equal")
    s, v = r.get("send"), r.get("recv")
    if s and "before" in s:
        from .lib import coqio
        e = Enc()
        before = e.val(s["before"])
        after = e.val(v["after"]) if v and "after" in v else None
        term = coqio.pair(e.table(s["table"]), before, coqio.option(after), enc_req(s.get("required", {})))
        vals = coqio.eval_terms(ctx.scratch, "replay", IMPORTS, ["tie_ok %s" % term, "spec_ok %s" % term], extra=EXTRA)
        print("model = implementation (and table hypotheses hold):", vals[0])
        print("spec (config_safeb && survivesb before after):", vals[1])


if __name__ == "__main__":
    {"send": child_send, "recv": child_recv, "read": child_read}[sys.argv[1]](sys.argv[2])
    sys.exit(0)
