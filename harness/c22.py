"""C22 — Shell argument vector follows the documented field semantics
(pydra/compose/shell/task.py _command_args/_command_pos_args/_format_arg/split_cmd, pydra/utils/general.py
position_sort, pydra/compose/shell/builder.py remaining_positions, pydra/compose/shell/templating.py argstr_formatting)."""
import json

from .lib import coqio, shellgen as sg
from .lib.runner import Outcome, Failure

PROP = "C22"
PROPS_FILE = "Props/C22.v"
MANIFEST = dict(
    text="Partial. The property at full strength (C22_full_statement: for every accepted definition and value "
         "assignment the vector pydra builds is executable, set fields by position [non-negative ascending, "
         "unpositioned in definition order, negative ascending], appended arguments, with the omission and list "
         "rules) is REFUTED for the unchanged code by machine-checked witnesses (C22_refuted_gap, "
         "C22_refuted_class_form, C22_refuted_wrap, C22_refuted_falsy, C22_refuted_dots_sep: findings F22, F22b-e). "
         "C22_partial proves, for all definitions and values inside a computable class (functional form, explicit "
         "non-negative positions below the first implicit one, benign truthy words, '...' only with a blank "
         "separator), that the faithful model of define/_command_args (including the shlex re-tokenisation) yields "
         "exactly the reference vector; C22_order_dense, C22_omission, C22_list_expansion are its parts. The model is "
         "tied to the code on every run by differential execution of generated definitions (functional and class "
         "form) evaluated inside Coq.",
    note="Trusted: Coq kernel + vm_compute; hand-written model Model/Shell.v + Base/Shlex.v (tied to CPython shlex "
         "in C23/C24); str(float) taken from Python; str.format modelled for plain {name} only; formatter callables, "
         "xor groups, readonly fields and path templates are not modelled; correspondence is differential testing.",
    technique="Coq proof (sorted-permutation uniqueness for position_sort vs the stated order; per-field "
              "re-tokenisation lemma via shlex = whitespace split on quote-free text) + refutation witnesses + "
              "model/impl correspondence via generated cases.v",
    design="§8 Group F / C22",
)
TIE_NAME = "Model.Shell.define/task_argv vs pydra.compose.shell.define + ShellTask._command_args (through Native.execute)"
TRUSTED = [
    "Model/Shell.v + Base/Shlex.v: hand-written model of remaining_positions/define, _command_args, _command_pos_args, "
    "_format_arg, argstr_formatting, split_cmd, position_sort, append_args_converter",
    "modelled-not-verified: str(float) is taken from Python; str.format only for plain {name}; the runtime "
    "'position already used' check, xor groups, formatter callables, readonly fields, path templates are not modelled",
    "the harness: shellgen generator / Gallina encoder / exception canonicaliser / finding classifier",
]
ASSUMPTIONS = ["strings are byte strings (UTF-8) without NUL and without non-ASCII Unicode whitespace",
               "values are those _command_args receives (after the attrs converters / TypeParser coercion)"]
RULE = ("generated shell definitions (0-6 fields of kinds bool/str/int/float/path/list/MultiInputObj, optional or not, "
        "argstr absent/empty/flag/two flags/templated incl. repeated and cross-field placeholders, '...', separators "
        "blank , ; : + empty, positions absent/dense/sparse/negative/colliding, functional and class form) with "
        "benign word values (shell metacharacters and unicode but no whitespace/quotes/backslash), falsy values at "
        "5%, unset optionals at 30%, appended arguments as list or string; non-trivial = at least two fields "
        "contribute arguments; distinct = distinct (definition, values) JSON")

CASE_T = "(inputs_t * option (list (option Z)) * result (list la))%type"
DEFS = sg.COMMON_DEFS + """
Definition case_t := %s.
Definition dom (c : case_t) : bool :=
  let '((fm, e, fs, vals, app, _), _, _) := c in
  c22_in_domain fm e fs vals && match app with AppList _ => true | AppStr _ => false end.
Definition tie_ok (c : case_t) : bool :=
  let '(i, pos, obs) := c in
  negb (dom c) || (rendered_ok i && positions_ok i pos && res_eqb (in_argv i) obs).
Definition tie_all (c : case_t) : bool :=
  let '(i, pos, obs) := c in rendered_ok i && positions_ok i pos && res_eqb (in_argv i) obs.
Definition spec_ok (c : case_t) : bool :=
  let '((fm, e, fs, vals, app, _), _, obs) := c in
  match append_args_conv app with
  | Good a => c22_ok fm e fs vals a obs
  | Bad _ => match obs with Bad ENoClosingQuote | Bad ENoEscaped => true | _ => false end
  end.
(* bit 0: model != implementation; bit 1: implementation != spec; bit 2: outside the domain of C22_partial *)
Definition code (c : case_t) : nat :=
  (if tie_all c then 0 else 1) + (if spec_ok c then 0 else 2) + (if dom c then 0 else 4).

""" % CASE_T


def contributes(case):
    n = 0
    for f in case["fields"]:
        v = case["values"].get(f["name"])
        if f["argstr"] is None or v is None or v is False or v == {"list": []}:
            continue
        n += 1
    return n


def classify(case, obs):
    """finding class of a spec failure, from the input (and, for F22c, the rejection) -- None = not a known class"""
    fields = case["fields"]
    n = len(fields)
    explicit = [f["pos"] for f in fields if f["pos"] is not None]
    raw_dup = len(set(explicit + [0])) != len(explicit) + 1
    if obs["error"] == "EOverlap":
        return None if raw_dup else "F22c"
    # implicit positions as pydra's remaining_positions computes them
    used = {0} | {p if p >= 0 else n + 1 + p for p in explicit}
    free = [i for i in range(0, n + 1) if i not in used]
    unpos = [f for f in fields if f["pos"] is None]
    if unpos and free and any(p >= 0 and p > free[0] for p in explicit):
        return "F22"
    if case["form"] == "class" and [f["name"] for f in unpos] != sorted(f["name"] for f in unpos):
        return "F22b"
    for f in fields:
        v = case["values"].get(f["name"])
        if f["argstr"] is None or v is None or isinstance(v, bool):
            continue
        atoms = v["list"] if isinstance(v, dict) else [v]
        if any((a[0] == "str" and a[1] == "") or (a[0] == "int" and a[1] == 0) or (a[0] == "float" and not a[2])
               for a in atoms):
            return "F22d"
    for f in fields:
        v = case["values"].get(f["name"])
        if f["ty"] == "list" and f["argstr"] and f["argstr"]["dots"] and f["sep"] != " " and isinstance(v, dict) \
                and len(v["list"]) >= 2:
            return "F22e"
    return None


WHAT = {"F22": "explicit position above the first implicit one", "F22b": "class form numbers unpositioned fields by name",
        "F22c": "positive and negative position rejected as overlapping", "F22d": "falsy value dropped",
        "F22e": "'...' with non-blank separator"}


def gen_cases(ctx, n):
    rng = ctx.rng
    cases = [c for c in ctx.corpus() if "fields" in c]
    while len(cases) < n:
        c = sg.gen_definition(rng)
        sg.gen_values(rng, c, nasty=0.0, braces=0.0, falsy=0.05)
        cases.append(c)
    return cases


def run(ctx):
    import time
    t0 = time.time()
    n = ctx.budget(300, 4000)
    cases = gen_cases(ctx, n)
    terms, metas = [], []
    dist = {"form_class": 0, "define_rejected": 0, "errors": 0, "fields_total": 0, "with_negative_pos": 0,
            "with_explicit_pos": 0, "list_fields": 0, "templated_fields": 0, "dots_fields": 0, "append_str": 0}
    seen, nontrivial = set(), 0
    for c in cases:
        obs = sg.observe(c)
        terms.append(coqio.pair(sg.enc_inputs(c), sg.enc_positions(c, obs), sg.enc_result_argv(obs)))
        metas.append(obs)
        dist["form_class"] += c["form"] == "class"
        dist["define_rejected"] += obs["stage"] == "define"
        dist["errors"] += obs["error"] is not None
        dist["fields_total"] += len(c["fields"])
        dist["with_negative_pos"] += any((f["pos"] or 0) < 0 for f in c["fields"])
        dist["with_explicit_pos"] += any(f["pos"] is not None for f in c["fields"])
        dist["list_fields"] += sum(f["ty"] in ("list", "multi") for f in c["fields"])
        dist["templated_fields"] += sum(sg.has_placeholder(f) for f in c["fields"])
        dist["dots_fields"] += sum(bool(f["argstr"] and f["argstr"]["dots"]) for f in c["fields"])
        dist["append_str"] += isinstance(c["append"], dict)
        key = json.dumps([c["form"], c["exe"], c["fields"], c["values"], c["append"]], sort_keys=True)
        if key not in seen:
            seen.add(key)
            nontrivial += contributes(c) >= 2
    t1 = time.time()
    codes = coqio.run_case_codes(ctx.scratch, "c22", sg.IMPORTS, "case_t", terms, "code", extra=DEFS, shard=120)
    res = {"tie_all": [i for i, k in enumerate(codes) if k & 1], "spec": [i for i, k in enumerate(codes) if k & 2],
           "dom": [i for i, k in enumerate(codes) if k & 4]}
    res["tie"] = [i for i in res["tie_all"] if not codes[i] & 4]
    t2 = time.time()
    in_domain = len(cases) - len(res["dom"])          # "dom" lists the indices *outside* the domain
    dist["in_partial_theorem_domain"] = in_domain
    dist["spec_disagreements"] = len(res["spec"])
    out = Outcome(evaluations=len(cases), distinct_nontrivial=nontrivial, rule=RULE, distribution=dist,
                  traces_validated=len(cases),
                  samples=[{"case": {k: c[k] for k in ("form", "exe", "fields", "values", "append")},
                            "observed": {k: metas[i][k] for k in ("positions", "argv", "error")}}
                           for i, c in enumerate(cases[:3])],
                  extra={"model_disagreements_outside_domain": len(set(res["tie_all"]) - set(res["tie"])),
                         "model_agreements": len(cases) - len(res["tie_all"])})
    outside = set(res["dom"])
    by_class, pending = {}, []
    for i in res["spec"]:
        c, obs = cases[i], metas[i]
        fid = classify(c, obs) if i in outside else None
        by_class[fid] = by_class.get(fid, 0) + 1
        if sum(1 for f, _ in pending if f.finding == fid and f.kind == "spec") >= 3:
            continue
        pending.append((Failure(case=_strip(c), observed={k: obs[k] for k in ("positions", "argv", "error", "stage")},
                                kind="spec", finding=fid,
                                note=WHAT.get(fid, "argv differs from the reference vector"
                                              + ("" if i in outside else " inside the domain of C22_partial"))),
                        _spec_term(c)))
    dist["spec_disagreements_by_class"] = {str(k): v for k, v in by_class.items()}
    for i in res["tie"][:6]:
        c, obs = cases[i], metas[i]
        pending.append((Failure(case=_strip(c), observed={k: obs[k] for k in ("positions", "argv", "error", "stage")},
                                kind="tie", note="model != implementation inside the domain of C22_partial"),
                        _model_term(c)))
    if pending:
        try:
            vals = coqio.eval_terms(ctx.scratch, "expected", sg.IMPORTS, [t for _, t in pending], extra=sg.COMMON_DEFS + SHOW)
        except Exception as e:  # noqa
            vals = ["coq evaluation failed: %s" % e] * len(pending)
        for (f, _), v in zip(pending, vals):
            f.expected = v
            out.failures.append(f)
    out.extra["phase_wall_s"] = {"implementation": round(t1 - t0, 1), "coq_cases": round(t2 - t1, 1),
                                 "replay_values": round(time.time() - t2, 1)}
    return out


def _strip(c):
    return {k: c[k] for k in ("form", "exe", "fields", "values", "append")}


SHOW = """
Definition show (r : result (list la)) := match r with Good l => inl (map str_of l) | Bad e => inr e end.
"""


def _spec_term(c):
    app = sg.enc_las(c["append"]) if isinstance(c["append"], list) else "(match append_args_conv %s with Good a => a | _ => [] end)" % sg.enc_app(c["append"])
    return "map str_of (spec_argv %s %s %s %s)" % (
        sg.enc_exe(c["exe"]), coqio.lst([sg.enc_sfield(f) for f in c["fields"]]), sg.enc_vals(c), app)


def _model_term(c):
    return "(match define %s (map to_field %s) with Good fs => inl (map f_pos fs) | Bad e => inr e end, show (in_argv %s))" % (
        sg.enc_form(c), coqio.lst([sg.enc_sfield(f) for f in c["fields"]]), sg.enc_inputs(c))


def replay(ctx, payload):
    c = payload["case"]
    obs = sg.observe(c)
    print("definition:", json.dumps(c["fields"]))
    print("values    :", json.dumps(c["values"]), "append:", c["append"], "exe:", c["exe"], "form:", c["form"])
    print("implementation: positions=%s argv=%s error=%s" % (obs["positions"], obs["argv"], obs["error"]))
    vals = coqio.eval_terms(ctx.scratch, "replay", sg.IMPORTS, [_model_term(c), _spec_term(c)], extra=sg.COMMON_DEFS + SHOW)
    print("model         :", vals[0])
    print("spec          :", vals[1])
    return 0
