(* Proofs/SchedO.v — the asynchronous loop with empty (zero-job) nodes: a poll that returns nothing while
   nothing is pending and not everything is done has started a node with ZERO jobs; hence the ten-poll stall
   detector cannot fire when the graph has fewer than ten empty nodes, and (no failing job) the run ends
   Finished. *)
From Pydra Require Import Base.Prelude Base.SchedBase Model.Sched Spec.Sched Proofs.SchedA Proofs.SchedSpec Proofs.SchedSpec2 Proofs.SchedB Proofs.SchedC Proofs.SchedD Proofs.SchedE Proofs.SchedF Proofs.SchedG Proofs.SchedH Proofs.SchedI Proofs.SchedJ Proofs.SchedK Proofs.SchedL Proofs.SchedN Proofs.SchedTermA.
Local Open Scope nat_scope.

Section ZeroAsync.
Variable V : Type.
Variable body : nat -> nat -> list (list (option V)) -> V.
Variable fails : job -> bool.
Variable vr : variant.
Hypothesis F14 : fix14 vr = true.
Variable g : graph.
Hypothesis WF : wf_graph g.
Variable kmax : option nat.
Hypothesis NF : forall j, fails j = false.
Hypothesis KP : forall k, kmax = Some k -> 1 <= k.

Notation world := (world V).
Notation nstate := (nstate V).
Notation sstate := (sstate V).
Notation lstate := (lstate V).
Notation GInv := (GInv V fails g).
Notation WInv := (WInv V fails).
Notation NInv := (NInv V fails g).
Notation Fresh := (@Fresh V).
Notation LInv := (LInv V body fails vr g kmax).
Notation PInv2 := (PInv2 V).

Definition newly_started_zero (st st' : nstates V) : Prop :=
  exists nd, In nd g /\ njobs nd = 0 /\ started_flag (st (nid nd)) = false /\ started_flag (st' (nid nd)) = true.

Notation scan_flag_mono := (scan_flag_mono V vr F14 g).

(* the first node that is not done either yields a job or gets started now *)
Lemma node_runnable_progressZ (w : world) ss nd :
  GInv w ss -> WInv w -> In nd g ->
  (forall p, In p (npreds nd) -> Fresh w p (nst ss p) /\ done_ns (nst ss p) = true) ->
  Fresh w (nid nd) (nst ss (nid nd)) ->
  done_ns (nst ss (nid nd)) = false -> running (nst ss (nid nd)) = [] ->
  snd (node_runnable vr g w ss nd) <> []
  \/ (njobs nd = 0 /\ started_flag (nst ss (nid nd)) = false /\ started_flag (nst (fst (node_runnable vr g w ss nd)) (nid nd)) = true).
Proof.
  intros G W Hnd Hp Fn D R. unfold node_runnable.
  assert (EX : existsb (fun p => negb (is_nil (errored (nst ss p))) || unrunnable (nst ss p)) (npreds nd) = false).
  { destruct (existsb _ (npreds nd)) eqn:X; [|reflexivity]. exfalso.
    apply existsb_exists in X. destruct X as [p [_ X]].
    destruct (clean_node V fails g WF NF w p (nst ss p) W (gi_node _ _ _ _ _ G p)) as [A B]. rewrite A, B in X. discriminate. }
  rewrite EX.
  destruct (all_done_spec V body fails vr F14 g w (npreds nd) ss G) as [G1 [K1 _]].
  pose proof (all_done_true V body fails vr F14 g w (npreds nd) ss G Hp) as AT.
  assert (Hsame : forall m, nst (fst (all_done vr w ss (npreds nd))) m = nst ss m).
  { intros m. apply K1. destruct (in_dec Nat.eq_dec m (npreds nd)) as [Hin|Hnin]; [right; apply Hp; exact Hin|left; exact Hnin]. }
  destruct (all_done vr w ss (npreds nd)) as [ss1 alld]. cbn [fst snd] in *. subst alld.
  rewrite Hsame. set (s := nst ss (nid nd)) in *.
  pose proof (gi_node _ _ _ _ _ G (nid nd)) as In_. fold s in In_.
  destruct (is_started s) eqn:St.
  - left. cbn [snd queued].
    unfold done_ns in D. rewrite St, R, (ni_blocked _ _ _ _ _ _ In_) in D. cbn in D.
    rewrite !andb_true_r in D. apply is_nil_false in D.
    destruct (queued s) as [|i l]; [congruence|]. cbn. discriminate.
  - destruct (njobs nd) as [|k] eqn:Nj.
    + right. split; [reflexivity|split].
      * unfold is_started in St. rewrite !orb_false_iff in St. tauto.
      * cbn [fst nst]. rewrite set_ns_same. reflexivity.
    + left. cbn [snd]. unfold start_ns. cbn [queued blocked]. rewrite Nj. cbn [seq].
      intros X. apply map_eq_nil in X. apply app_eq_nil in X. destruct X as [_ X]. discriminate.
Qed.

Lemma scan_progressZ (w : world) : forall rest pre ss,
  g = pre ++ rest -> GInv w ss -> WInv w ->
  (forall n i, In i (running (nst ss n)) -> is_none w (n, i) = false) ->
  (forall j, mem_job j (visible w) = false) ->
  (forall nd, In nd pre -> Fresh w (nid nd) (nst ss (nid nd)) /\ done_ns (nst ss (nid nd)) = true) ->
  snd (scan vr g w rest ss [] []) <> []
  \/ (forall nd, In nd g -> Fresh w (nid nd) (nst (fst (scan vr g w rest ss [] [])) (nid nd))
                          /\ done_ns (nst (fst (scan vr g w rest ss [] [])) (nid nd)) = true)
  \/ newly_started_zero (nst ss) (nst (fst (scan vr g w rest ss [] []))).
Proof.
  induction rest as [|nd rest IH]; intros pre ss E G W RF NV Hpre.
  - right; left. cbn. rewrite app_nil_r in E. subst pre. exact Hpre.
  - cbn [scan].
    assert (Hnd : In nd g). { rewrite E. apply in_or_app. right; left; reflexivity. }
    pose proof WF as WF'. unfold wf_graph in WF'. rewrite E in WF'.
    destruct (topo_b_split _ _ _ _ WF') as [Hpp [_ Hnpre]].
    destruct (update_spec V body fails vr F14 g w ss (nid nd) G) as [G1 [F1 [O1 [K1 U1]]]].
    pose proof (update_run_from V body vr F14 w ss (nid nd)) as RU.
    pose proof (update_flag_mono V vr F14 w ss (nid nd)) as FM1.
    assert (FE : forall m, started_flag (nst (update vr w ss (nid nd)) m) = started_flag (nst ss m)).
    { intros m. rewrite (nst_update V vr). destruct (m =? nid nd) eqn:X; [|reflexivity].
      apply Nat.eqb_eq in X. subst m. apply (update_ns_flag V vr F14). }
    set (ss1 := update vr w ss (nid nd)) in *.
    assert (R1 : running (nst ss1 (nid nd)) = []).
    { apply nil_of_no_mem. intros i Hi. destruct F1 as [_ Fr]. pose proof (Fr i Hi) as X.
      destruct (RU (nid nd) i Hi) as [Y|Y]; [rewrite (RF _ _ Y) in X; discriminate|rewrite NV in Y; discriminate]. }
    assert (Hpre1 : forall nd', In nd' pre -> Fresh w (nid nd') (nst ss1 (nid nd')) /\ done_ns (nst ss1 (nid nd')) = true).
    { intros nd' H'. destruct (Hpre nd' H') as [A B]. rewrite (K1 _ A). auto. }
    assert (E' : g = (pre ++ [nd]) ++ rest). { rewrite <- app_assoc. exact E. }
    destruct (done_ns (nst ss1 (nid nd))) eqn:D.
    + destruct (IH (pre ++ [nd]) ss1 E' G1 W) as [A|[A|[x [Hx [X0 [X1 X2]]]]]]; auto.
      * intros n i Hi. destruct (RU n i Hi) as [Y|Y]; [apply RF; exact Y|rewrite NV in Y; discriminate].
      * intros nd' H'. apply in_app_or in H'. destruct H' as [H'|[<-|[]]]; auto.
      * right; right. exists x. split; [exact Hx|split; [exact X0|split; [rewrite <- FE; exact X1|exact X2]]].
    + cbn [existsb].
      assert (BR : existsb (fun p => mem_nat p []) (npreds nd) = false).
      { clear. induction (npreds nd) as [|p l IHl]; [reflexivity|]. cbn [existsb]. unfold mem_nat at 1. cbn [existsb orb]. exact IHl. }
      rewrite BR.
      assert (Hp : forall p, In p (npreds nd) -> Fresh w p (nst ss1 p) /\ done_ns (nst ss1 p) = true).
      { intros p Hp. destruct (Hpp p Hp) as [[]|H]. apply in_map_iff in H. destruct H as [nd' [<- H']]. apply Hpre1; exact H'. }
      pose proof (node_runnable_progressZ w ss1 nd G1 W Hnd Hp F1 D R1) as NP.
      pose proof (node_runnable_flag_mono V vr F14 g w ss1 nd) as FM2.
      destruct (node_runnable vr g w ss1 nd) as [ss2 tl]. cbn [fst snd] in NP, FM2.
      pose proof (scan_flag_mono w rest ss2 (if is_started (nst ss1 (nid nd)) then [] else [nid nd]) ([] ++ tl)) as FM3.
      destruct NP as [NE|[N0 [N1 N2]]].
      * left. destruct (scan_acc_prefix V vr g w rest ss2 (if is_started (nst ss1 (nid nd)) then [] else [nid nd]) ([] ++ tl)) as [l El].
        rewrite El. cbn. intros X. apply app_eq_nil in X. destruct X; contradiction.
      * right; right. exists nd. split; [exact Hnd|split; [exact N0|split; [rewrite <- FE; exact N1|apply FM3; exact N2]]].
Qed.

Lemma poll_progressZ (w : world) ss :
  GInv w ss -> WInv w ->
  (forall n i, In i (running (nst ss n)) -> is_none w (n, i) = false) ->
  (forall j, mem_job j (visible w) = false) ->
  snd (poll vr g kmax w ss) <> [] \/ any_not_done vr g w (fst (poll vr g kmax w ss)) = false
  \/ newly_started_zero (nst ss) (nst (fst (poll vr g kmax w ss))).
Proof.
  intros G W RF NV. unfold poll.
  destruct (scan_progressZ w g [] ss eq_refl G W RF NV (fun nd (H : In nd []) => match H with end)) as [A|[A|A]].
  - left. destruct (scan vr g w g ss [] []) as [ss1 tasks]. cbn [snd] in *. unfold truncate.
    destruct kmax as [k|] eqn:K; [apply firstn_nonempty; auto|exact A].
  - right; left. destruct (scan vr g w g ss [] []) as [ss1 tasks]. cbn [fst snd] in *.
    unfold any_not_done. destruct (existsb _ g) eqn:X; [|reflexivity]. exfalso.
    apply existsb_exists in X. destruct X as [nd [Hnd X]]. cbn in X.
    destruct (A nd Hnd) as [Fr D].
    destruct (update_ns_fresh V vr F14 w (nid nd) (nst ss1 (nid nd)) Fr) as [Eq _]. rewrite Eq, D in X. discriminate.
  - right; right. destruct (scan vr g w g ss [] []) as [ss1 tasks]. exact A.
Qed.

(* ---- counting the empty nodes that are not started yet *)
Definition zpend (st : nstates V) : nat :=
  List.length (filter (fun nd => (njobs nd =? 0) && negb (started_flag (st (nid nd)))) g).
Definition nempty : nat := List.length (filter (fun nd => njobs nd =? 0) g).

Lemma zpend_le st : zpend st <= nempty.
Proof. apply filter_len_mono. intros nd _ H. apply andb_true_iff in H. tauto. Qed.
Lemma zpend_mono st st' : flag_mono V st st' -> zpend st' <= zpend st.
Proof.
  intros M. apply filter_len_mono. intros nd _ H. apply andb_true_iff in H. destruct H as [A B].
  rewrite A. cbn. apply negb_true_iff in B. apply negb_true_iff.
  destruct (started_flag (st (nid nd))) eqn:E; [rewrite (M _ E) in B; discriminate|reflexivity].
Qed.
Lemma zpend_strict st st' : flag_mono V st st' -> newly_started_zero st st' -> zpend st' < zpend st.
Proof.
  intros M [nd [A [Z [B C]]]]. apply (filter_len_strict _ _ g nd).
  - intros y _ H. apply andb_true_iff in H. destruct H as [H1 H2]. rewrite H1. cbn.
    apply negb_true_iff in H2. apply negb_true_iff.
    destruct (started_flag (st (nid y))) eqn:E; [rewrite (M _ E) in H2; discriminate|reflexivity].
  - exact A.
  - rewrite C. apply andb_false_r.
  - rewrite Z, B. reflexivity.
Qed.

(* the `if not tasks and not task_futures:` block cannot run out of polls *)
Lemma stall_not (w : world) :
  WInv w -> (forall j, mem_job j (visible w) = false) ->
  forall n ss tasks, GInv w ss ->
  (forall m i, In i (running (nst ss m)) -> is_none w (m, i) = false) ->
  (is_nil tasks && any_not_done vr g w ss = true -> zpend (nst ss) + 2 <= S n) ->
  snd (stall_loop vr g kmax (S n) w ss tasks) = false.
Proof.
  intros W NV. induction n as [|n IH]; intros ss tasks G RF Z; cbn [stall_loop].
  - destruct (is_nil tasks && any_not_done vr g w ss && negb (raised ss)) eqn:C; [|reflexivity].
    apply andb_true_iff in C. destruct C as [C _]. specialize (Z C). lia.
  - destruct (is_nil tasks && any_not_done vr g w ss && negb (raised ss)) eqn:C; [|reflexivity].
    apply andb_true_iff in C. destruct C as [C _]. specialize (Z C).
    destruct (poll_spec V body fails vr F14 g WF kmax w ss G W) as [G1 _].
    pose proof (poll_run_from V body vr F14 g kmax w ss) as R1.
    pose proof (poll_flag_mono V vr F14 g kmax w ss) as FM.
    pose proof (poll_progressZ w ss G W RF NV) as PP.
    destruct (poll vr g kmax w ss) as [ss1 t1]. cbn [fst snd] in *.
    apply IH; [exact G1| |].
    + intros m i Hi. destruct (R1 m i Hi) as [X|X]; [apply RF; exact X|rewrite NV in X; discriminate].
    + intros C1. apply andb_true_iff in C1. destruct C1 as [C1 C2]. apply is_nil_true in C1.
      destruct PP as [X|[X|X]]; [congruence|congruence|].
      pose proof (zpend_strict _ _ FM X). lia.
Qed.

Hypothesis EZ : nempty + 2 <= 11.     (* fewer than ten empty nodes: the stall detector allows ten empty polls *)

Lemma async_step_not_stalled o (ls : lstate) :
  LInv ls -> PInv2 ls -> forall ls', async_step body fails vr g kmax o ls <> Stop Stalled ls'.
Proof.
  intros I P ls'. destruct I as [G W Vi T Tt Pr]. unfold async_step.
  destruct (raised (ls_ss ls)); [discriminate|].
  destruct (negb (loop_cond vr g ls)); [discriminate|].
  assert (S1 : snd (if is_nil (ls_tasks ls) && is_nil (ls_pending ls)
                    then stall_loop vr g kmax 11 (ls_w ls) (ls_ss ls) (ls_tasks ls)
                    else (ls_ss ls, ls_tasks ls, false)) = false).
  { destruct (is_nil (ls_tasks ls) && is_nil (ls_pending ls)) eqn:C; [|reflexivity].
    apply andb_true_iff in C. destruct C as [_ C]. apply is_nil_true in C.
    apply stall_not; auto.
    - intros j. destruct (mem_job j (visible (ls_w ls))) eqn:M; [|reflexivity]. apply mem_job_In in M.
      apply (p2_vp _ _ P) in M. rewrite C in M. destruct M.
    - intros m i Hi. destruct (is_none (ls_w ls) (m, i)) eqn:N; [|reflexivity].
      pose proof (p2_fp _ _ P _ (p2_run _ _ P m i Hi) N) as X. rewrite C in X. destruct X.
    - intros _. pose proof (zpend_le (nst (ls_ss ls))). lia. }
  destruct (if is_nil (ls_tasks ls) && is_nil (ls_pending ls) then _ else _) as [[ss1 tasks1] stalled].
  cbn [snd] in S1. subst stalled.
  destruct (raised ss1); [discriminate|].
  destruct (launch vr kmax tasks1 (ls_futured ls) (ls_pending ls) (ls_trace ls) []) as [[[fut pend] tr] launched].
  destruct (match pend with [] => _ | _ :: _ => _ end) as [[[w2 pend2] errs2] tr2].
  destruct (poll vr g kmax w2 ss1) as [ss3 tasks3]. discriminate.
Qed.

Lemma run_loop_never_stalled : forall fuel orc ls,
  LInv ls -> PInv2 ls -> o_status (run_loop body fails vr g kmax fuel orc ls) <> Stalled.
Proof.
  induction fuel as [|f IH]; intros orc ls I P; cbn [run_loop]; [discriminate|].
  set (o := match orc with [] => (default_step, []) | o :: r => (o, r) end). destruct o as [o rest].
  pose proof (async_step_spec V body fails vr F14 g WF kmax o ls I) as S1.
  pose proof (async_step_prog2 V body fails vr F14 g WF kmax KP o ls I P) as S2.
  pose proof (async_step_not_stalled o ls I P) as S3.
  destruct (async_step body fails vr g kmax o ls) as [ls'|st ls'].
  - destruct S2 as [P' _]. apply IH; auto.
  - cbn. intros E. subst st. apply (S3 ls'). reflexivity.
Qed.

(* fewer than ten empty nodes, no failing job: for every oracle the asynchronous loop ends by itself *)
Theorem async_terminates_bounded_empty orc fuel :
  List.length (all_jobs g) + 2 <= fuel -> o_status (run_async V body fails vr g kmax orc fuel) = Finished.
Proof.
  intros B. destruct (async_terminates_full V body fails vr F14 g WF kmax KP orc fuel B) as [S|S]; [exact S|].
  exfalso. revert S. unfold run_async. apply run_loop_never_stalled.
  - apply LInv_init; assumption.
  - apply (PInv2_init V body fails vr F14 g WF kmax).
Qed.

End ZeroAsync.
