(* Proofs/HashInj.v — C08_ser_injective: on the fragment [inj_dom], two values with the same digest are the
   same value (Spec.Hash.veqb: sets as sets, dicts as maps) or two different byte strings that were hashed
   while computing the two digests have the same blake2b digest (an explicit collision).  Merkle argument:
   equal digests + no collision => equal byte strings => (per-format parsing) same kind, same scalars, same
   number of children with pairwise equal digests => induction. *)
From Coq Require Import Sorting.Permutation.
From Pydra Require Import Base.Prelude Base.PySort Model.Hash Spec.Hash Proofs.HashSort Proofs.HashCtx Proofs.HashInjStr.
Local Open Scope list_scope.
Local Open Scope string_scope.

Local Arguments pack_q : simpl never.
Local Arguments dec_nat : simpl never.
Local Arguments dec_Z : simpl never.
Local Arguments D : simpl never.
Local Arguments fits_q : simpl never.

(* ------------------------------------------------------------------ the fragment *)
(* dict keys whose bytes are self-delimiting *)
Definition keyatom (v : pyval) : Prop :=
  match v with
  | VNone | VBool _ | VInt _ | VStr _ | VBytes _ => True
  | VFloat b => String.length b = 8
  | _ => False
  end.
Definition path_cls (c : string) : bool := nocolon c && has_dot c && starts "pathlib." c.
Definition obj_cls (c : string) : bool :=
  nocolon c && has_dot c && negb (starts "pathlib." c) && negb (starts "numpy" c).
(* module + class name of a numpy array / scalar, as bytes_repr_numpy writes it: "numpyndarray", "numpyfloat64" *)
Definition nd_cls (c : string) : bool := nocolon c && starts "numpy" c.

Definition local_ok (v : pyval) : Prop :=
  match v with
  | VNone | VBool _ | VInt _ | VStr _ | VBytes _ => True
  | VFloat b => String.length b = 8
  | VPath c _ => path_cls c = true
  | VList _ _ | VTuple _ _ | VSet _ _ | VFrozenset _ _ => True
  | VDict _ kvs => Forall keyatom (map fst kvs)
  | VObj _ c _ => obj_cls c = true
  | VNd _ c dt _ _ => nd_cls c = true /\ nocolon dt = true
  | _ => False          (* object arrays, functions, types, cyclic references: not covered by this theorem *)
  end.

Inductive inj_dom : pyval -> Prop :=
| id_intro v : local_ok v -> (forall x, In x (subs v) -> inj_dom x) -> inj_dom v.

Lemma pathlib_not_numpy : forall c, starts "pathlib." c = true -> starts "numpy" c = false.
Proof.
  intros [|a c] Hp; [discriminate Hp|]. cbn [starts] in Hp |- *.
  destruct (Ascii.eqb_spec "p" a) as [<-|]; [reflexivity|discriminate Hp].
Qed.

(* ------------------------------------------------------------------ dict keys: prefix-free and injective *)
Ltac peel E := cbn in E; try discriminate E; try (injection E as E).

Lemma scons_inj : forall c a b x y, String c a ++ x = String c b ++ y -> a ++ x = b ++ y.
Proof. intros c a b x y E. cbn in E. now injection E. Qed.

Lemma key_prefix_free : forall k1 k2 a1 a2 x y,
    keyatom k1 -> keyatom k2 -> atom_bytes k1 = Some a1 -> atom_bytes k2 = Some a2 ->
    a1 ++ x = a2 ++ y -> k1 = k2 /\ x = y.
Proof.
  intros k1 k2 a1 a2 x y K1 K2 A1 A2 E.
  destruct k1 as [ | b1 | z1 | f1 | s1 | s1 | | | | | | | | | | | ]; try contradiction;
  destruct k2 as [ | b2 | z2 | f2 | s2 | s2 | | | | | | | | | | | ]; try contradiction;
  cbn in A1, A2; injection A1 as <-; injection A2 as <-;
  try (destruct b1); try (destruct b2);
  try (destruct (fits_q z1) eqn:F1); try (destruct (fits_q z2) eqn:F2);
  try (cbn in E; discriminate E); repeat (apply scons_inj in E); rewrite ?sapp_assoc in E; cbn [append] in E.
  - (* None *) auto.
  - auto.
  - auto.
  - (* int / int *)
    apply sapp_len_inj in E; [|now rewrite !pack_q_len]. destruct E as [E ->].
    apply pack_q_inj in E; auto. now subst.
  - (* long / long *)
    apply lenpref_inj in E. destruct E as [E ->]. apply dec_Z_inj in E. now subst.
  - (* float *) cbn in K1, K2.
    apply sapp_len_inj in E; [|congruence]. destruct E as [-> ->]. auto.
  - (* str *)
    apply lenpref_inj in E. destruct E as [-> ->]. auto.
  - (* bytes *)
    apply lenpref_inj in E. destruct E as [-> ->]. auto.
Qed.

(* ------------------------------------------------------------------ what was hashed *)
Section Inj.
  Variable H : string -> string.

  Fixpoint hashed (f : nat) (v : pyval) (s : string) : Prop :=
    match f with
    | 0 => False
    | S f' => repr (dig H f') v tt = Ok (s, tt) \/ exists x, In x (subs v) /\ hashed f' x s
    end.

  (* two different byte strings, hashed while digesting v1 resp. v2, with the same digest *)
  Definition collision (f1 : nat) (v1 : pyval) (f2 : nat) (v2 : pyval) : Prop :=
    exists s1 s2, hashed f1 v1 s1 /\ hashed f2 v2 s2 /\ s1 <> s2 /\ D H s1 = D H s2.

  Lemma collision_lift : forall f1 v1 f2 v2 x y,
      In x (subs v1) -> In y (subs v2) -> collision f1 x f2 y -> collision (S f1) v1 (S f2) v2.
  Proof.
    intros f1 v1 f2 v2 x y Hx Hy (s1 & s2 & H1 & H2 & Hne & E).
    exists s1, s2. repeat split; auto; cbn [hashed]; right; eauto.
  Qed.

  Lemma dig_len : forall f v d, dig H f v tt = Ok (d, tt) -> String.length d = 16.
  Proof.
    intros [|f] v d E; [discriminate|]. cbn [dig] in E.
    destruct (repr (dig H f) v tt) as [[s u]|]; [|discriminate]. inversion E. apply D_len.
  Qed.

  (* ---------------------------------------------------------------- shapes of the byte strings *)
  Lemma seq_contents_digs : forall f l body,
      seq_contents (dig H f) l tt = Ok (body, tt) ->
      exists ds, Forall2 (fun x d => dig H f x tt = Ok (d, tt)) l ds /\ body = concat_str ds.
  Proof.
    induction l as [|x l IH]; intros body E; cbn in E.
    - inversion E. exists []. split; [constructor|reflexivity].
    - destruct (dig H f x tt) as [[d []]|] eqn:Ex; [|discriminate].
      destruct (seq_contents (dig H f) l tt) as [[s []]|] eqn:El; [|discriminate]. inversion E; subst.
      destruct (IH s eq_refl) as (ds & HF & ->). exists (d :: ds). split; [constructor; auto|reflexivity].
  Qed.

  Lemma digs_len : forall f l ds, Forall2 (fun x d => dig H f x tt = Ok (d, tt)) l ds ->
      Forall (fun d => String.length d = 16) ds.
  Proof. induction 1; constructor; auto. eapply dig_len; eauto. Qed.

  (* entries of a mapping: (key bytes, value digest) *)
  Fixpoint entries_str (es : list (string * string)) : string :=
    match es with [] => "" | (k, d) :: r => k ++ "=" ++ d ++ "," ++ entries_str r end.

  Lemma map_contents_entries : forall f kvs body,
      Forall keyatom (map fst kvs) ->
      map_contents (dig H f) kvs tt = Ok (body, tt) ->
      exists es, Forall2 (fun (kv : pyval * pyval) (e : string * string) =>
                            atom_bytes (fst kv) = Some (fst e) /\ dig H f (snd kv) tt = Ok (snd e, tt)) kvs es
                 /\ body = entries_str es.
  Proof.
    induction kvs as [|[k x] kvs IH]; intros body HK E; cbn in E.
    - inversion E. exists []. split; [constructor|reflexivity].
    - inversion HK as [|? ? Hk HK']; subst. cbn in Hk.
      unfold repr_flat in E. destruct (atom_bytes k) as [a|] eqn:Ea.
      2:{ destruct k; cbn in Hk; try contradiction; discriminate Ea. }
      destruct (dig H f x tt) as [[d []]|] eqn:Ex; [|discriminate].
      destruct (map_contents (dig H f) kvs tt) as [[s []]|] eqn:El; [|discriminate]. inversion E; subst.
      destruct (IH s HK' eq_refl) as (es & HF & ->). exists ((a, d) :: es). split; [constructor; auto|reflexivity].
  Qed.

  Lemma entries_inj : forall (kvs1 kvs2 : list (pyval * pyval)) es1 es2 f1 f2,
      Forall keyatom (map fst kvs1) -> Forall keyatom (map fst kvs2) ->
      Forall2 (fun (kv : pyval * pyval) (e : string * string) =>
                 atom_bytes (fst kv) = Some (fst e) /\ dig H f1 (snd kv) tt = Ok (snd e, tt)) kvs1 es1 ->
      Forall2 (fun (kv : pyval * pyval) (e : string * string) =>
                 atom_bytes (fst kv) = Some (fst e) /\ dig H f2 (snd kv) tt = Ok (snd e, tt)) kvs2 es2 ->
      entries_str es1 ++ "}" = entries_str es2 ++ "}" ->
      Forall2 (fun a b : pyval * pyval =>
                 fst a = fst b /\ exists d, dig H f1 (snd a) tt = Ok (d, tt) /\ dig H f2 (snd b) tt = Ok (d, tt)) kvs1 kvs2.
  Proof.
    intros kvs1 kvs2 es1 es2 f1 f2 K1 K2 F1. revert kvs2 es2 K2.
    induction F1 as [|[k1 x1] [a1 d1] kvs1 es1 [A1 D1] F1 IH]; intros kvs2 es2 K2 F2 E.
    - destruct F2 as [|[k2 x2] [a2 d2] kvs2 es2 [A2 D2] F2]; [constructor|].
      exfalso. cbn in E. apply (f_equal String.length) in E. cbn in E. rewrite !slen_app in E. cbn in E. lia.
    - destruct F2 as [|[k2 x2] [a2 d2] kvs2 es2 [A2 D2] F2].
      + exfalso. cbn in E. apply (f_equal String.length) in E. cbn in E. rewrite !slen_app in E. cbn in E. lia.
      + cbn [fst snd] in *. inversion K1 as [|? ? Hk1 K1']; subst. inversion K2 as [|? ? Hk2 K2']; subst.
        cbn [entries_str] in E. rewrite !sapp_assoc in E.
        destruct (key_prefix_free k1 k2 a1 a2 _ _ Hk1 Hk2 A1 A2 E) as [-> E'].
        apply scons_inj in E'. cbn [append] in E'.
        apply sapp_len_inj in E'; [|rewrite (dig_len _ _ _ D1), (dig_len _ _ _ D2); reflexivity].
        destruct E' as [-> E']. apply scons_inj in E'. cbn [append] in E'.
        constructor; [cbn; split; eauto|]. apply (IH K1' kvs2 es2 K2' F2). exact E'.
  Qed.

  (* ---------------------------------------------------------------- kind of a value from its bytes *)
  Definition code (v : pyval) : nat :=
    match v with
    | VNone => 1 | VBool _ => 2 | VInt _ => 3 | VFloat _ => 4 | VStr _ => 5 | VBytes _ => 6 | VPath _ _ => 7
    | VList _ _ => 8 | VTuple _ _ => 9 | VSet _ _ => 10 | VFrozenset _ _ => 11 | VDict _ _ => 12 | VObj _ _ _ => 13
    | VNd _ _ _ _ _ => 14
    | _ => 0
    end.

  Definition classify (s : string) : nat :=
    match after s with
    | None => if String.eqb s "None" then 1 else 2
    | Some _ =>
      let t := tok s in
      if String.eqb t "int" then 3 else if String.eqb t "long" then 3 else if String.eqb t "float" then 4
      else if String.eqb t "str" then 5 else if String.eqb t "bytes" then 6 else if String.eqb t "list" then 8
      else if String.eqb t "tuple" then 9 else if String.eqb t "set" then 10 else if String.eqb t "frozenset" then 11
      else if String.eqb t "dict" then 12
      else if starts "numpy" t then 14
      else if starts "pathlib." t then 7 else 13
    end.

  Lemma classify_dotted : forall c r, nocolon c = true -> has_dot c = true -> starts "numpy" c = false ->
      classify (c ++ String ":" r) = if starts "pathlib." c then 7 else 13.
  Proof.
    intros c r Hn Hd Hnp. unfold classify. rewrite (after_app c r Hn), (tok_app c r Hn).
    repeat match goal with
           | |- context [String.eqb c ?lit] =>
             destruct (String.eqb_spec c lit) as [->|_]; [cbn in Hd; discriminate Hd|]
           end.
    now rewrite Hnp.
  Qed.

  Lemma classify_nd : forall c r, nocolon c = true -> starts "numpy" c = true ->
      classify (c ++ String ":" r) = 14.
  Proof.
    intros c r Hn Hp. unfold classify. rewrite (after_app c r Hn), (tok_app c r Hn).
    repeat match goal with
           | |- context [String.eqb c ?lit] =>
             destruct (String.eqb_spec c lit) as [->|_]; [vm_compute in Hp; discriminate Hp|]
           end.
    now rewrite Hp.
  Qed.

  Lemma classify_repr : forall f v s u, local_ok v -> repr (dig H f) v tt = Ok (s, u) -> classify s = code v.
  Proof.
    intros f v s u Hok E.
    destruct v as [ | b | z | bits | s0 | s0 | cls s0 | i l | i l | i l | i l | i kvs | i cls ats
                  | i cls dt sh data | i src hid | i pre | i ]; cbn in Hok; try contradiction; cbn in E.
    - inversion E. reflexivity.
    - inversion E. destruct b; reflexivity.
    - inversion E. destruct (fits_q z); reflexivity.
    - inversion E. reflexivity.
    - inversion E. reflexivity.
    - inversion E. reflexivity.
    - inversion E. unfold path_cls in Hok. apply andb_true_iff in Hok. destruct Hok as [Hok Hp].
      apply andb_true_iff in Hok. destruct Hok as [Hn Hd]. rewrite classify_dotted; auto; [now rewrite Hp|].
      now apply pathlib_not_numpy.
    - destruct (seq_contents (dig H f) l tt) as [[b' ?]|]; [|discriminate]. inversion E. reflexivity.
    - destruct (seq_contents (dig H f) l tt) as [[b' ?]|]; [|discriminate]. inversion E. reflexivity.
    - destruct (sorted_res vlt l) as [sl|]; [|discriminate].
      destruct (seq_contents (dig H f) sl tt) as [[b' ?]|]; [|discriminate]. inversion E. reflexivity.
    - destruct (sorted_res vlt l) as [sl|]; [|discriminate].
      destruct (seq_contents (dig H f) sl tt) as [[b' ?]|]; [|discriminate]. inversion E. reflexivity.
    - destruct (mapping (dig H f) kvs tt) as [[b' ?]|]; [|discriminate]. inversion E. reflexivity.
    - destruct (mapping (dig H f) _ tt) as [[b' ?]|]; [|discriminate]. inversion E.
      unfold obj_cls in Hok. apply andb_true_iff in Hok. destruct Hok as [Hok Hnp].
      apply andb_true_iff in Hok. destruct Hok as [Hok Hp].
      apply andb_true_iff in Hok. destruct Hok as [Hn Hd]. apply negb_true_iff in Hp, Hnp. cbn. rewrite classify_dotted; auto.
      now rewrite Hp.
    - inversion E. destruct Hok as [Hc Hdt]. unfold nd_cls in Hc. apply andb_true_iff in Hc. destruct Hc as [Hn Hp].
      now apply classify_nd.
  Qed.

  (* ---------------------------------------------------------------- small list facts *)
  Lemma F2_join : forall {A B C} (R1 : A -> C -> Prop) (R2 : B -> C -> Prop) l1 l2 ds,
      Forall2 R1 l1 ds -> Forall2 R2 l2 ds -> Forall2 (fun a b => exists d, R1 a d /\ R2 b d) l1 l2.
  Proof.
    intros A B C R1 R2 l1 l2 ds F1. revert l2. induction F1; intros l2 F2; inversion F2; subst; constructor; eauto.
  Qed.

  Lemma F2_in_l : forall {A B} (R : A -> B -> Prop) l1 l2 a, Forall2 R l1 l2 -> In a l1 -> exists b, In b l2 /\ R a b.
  Proof.
    induction 1 as [|x y l1 l2 Hxy HF IH]; intros Hin; [contradiction|].
    destruct Hin as [->|Hin]; [exists y; split; [now left|auto]|].
    destruct (IH Hin) as (b & Hb & Hr). exists b. split; [now right|auto].
  Qed.
  Lemma F2_in_r : forall {A B} (R : A -> B -> Prop) l1 l2 b, Forall2 R l1 l2 -> In b l2 -> exists a, In a l1 /\ R a b.
  Proof.
    induction 1 as [|x y l1 l2 Hxy HF IH]; intros Hin; [contradiction|].
    destruct Hin as [->|Hin]; [exists x; split; [now left|auto]|].
    destruct (IH Hin) as (a & Ha & Hr). exists a. split; [now right|auto].
  Qed.

  Lemma list_eqb_F2 : forall {A} (e : A -> A -> bool) l1 l2,
      Forall2 (fun a b => e a b = true) l1 l2 -> list_eqb e l1 l2 = true.
  Proof. induction 1; cbn; auto. now rewrite H0, IHForall2. Qed.

  (* two lists paired up after a permutation of each are the same set *)
  Lemma same_set_paired : forall {A} (e : A -> A -> bool) l1 l2 s1 s2,
      Permutation l1 s1 -> Permutation l2 s2 -> Forall2 (fun a b => e a b = true) s1 s2 ->
      same_set e l1 l2 = true.
  Proof.
    intros A e l1 l2 s1 s2 P1 P2 HF. unfold same_set, incl_by. apply andb_true_iff. split.
    - apply forallb_forall. intros x Hx. apply existsb_exists.
      destruct (F2_in_l _ _ _ x HF (Permutation_in _ P1 Hx)) as (y & Hy & He).
      exists y. split; auto. eapply Permutation_in; [symmetry; exact P2|exact Hy].
    - apply forallb_forall. intros y Hy. apply existsb_exists.
      destruct (F2_in_r _ _ _ y HF (Permutation_in _ P2 Hy)) as (x & Hx & He).
      exists x. split; auto. eapply Permutation_in; [symmetry; exact P1|exact Hx].
  Qed.

  Lemma sorted_res_perm : forall {A} (lt : A -> A -> option bool) l s, sorted_res lt l = Ok s -> Permutation l s.
  Proof.
    intros A lt l s E. unfold sorted_res in E. destruct (py_sorted lt l) as [s'|] eqn:Es; [|discriminate].
    inversion E; subst. now apply py_sorted_perm in Es.
  Qed.

  (* ---------------------------------------------------------------- scalars *)
  Lemma keyatom_inj : forall v1 v2 s, keyatom v1 -> keyatom v2 ->
      atom_bytes v1 = Some s -> atom_bytes v2 = Some s -> v1 = v2.
  Proof.
    intros v1 v2 s K1 K2 A1 A2.
    now destruct (key_prefix_free v1 v2 s s "" "" K1 K2 A1 A2 eq_refl).
  Qed.

  Lemma veqb_refl_keyatom : forall f v, keyatom v -> veqb (S f) v v = true.
  Proof.
    intros f v K. destruct v; cbn in K; try contradiction; cbn.
    - reflexivity.
    - apply Bool.eqb_reflx.
    - apply Z.eqb_refl.
    - apply String.eqb_refl.
    - apply String.eqb_refl.
    - apply String.eqb_refl.
  Qed.

  Lemma keyatom_repr : forall f v s, keyatom v -> repr (dig H f) v tt = Ok (s, tt) -> atom_bytes v = Some s.
  Proof.
    intros f v s K E. destruct v; cbn in K; try contradiction; cbn in E; inversion E; reflexivity.
  Qed.

  (* ---------------------------------------------------------------- children with pairwise equal digests *)
  Definition IHyp (f1 : nat) : Prop :=
    forall f2 x y d, inj_dom x -> inj_dom y -> dig H f1 x tt = Ok (d, tt) -> dig H f2 y tt = Ok (d, tt) ->
                     veqb f1 x y = true \/ collision f1 x f2 y.

  Lemma pairs_step : forall {A B} (pa : A -> pyval) (pb : B -> pyval) (K : A -> B -> Prop) v1 v2 f1 f2 l1 l2,
      IHyp f1 ->
      Forall2 (fun a b => K a b /\ exists d, dig H f1 (pa a) tt = Ok (d, tt) /\ dig H f2 (pb b) tt = Ok (d, tt)) l1 l2 ->
      (forall a, In a l1 -> inj_dom (pa a) /\ In (pa a) (subs v1)) ->
      (forall b, In b l2 -> inj_dom (pb b) /\ In (pb b) (subs v2)) ->
      Forall2 (fun a b => K a b /\ veqb f1 (pa a) (pb b) = true) l1 l2 \/ collision (S f1) v1 (S f2) v2.
  Proof.
    intros A B pa pb K v1 v2 f1 f2 l1 l2 IH HF. induction HF as [|a b l1 l2 [Hk (d & D1 & D2)] HF IHF]; intros H1 H2.
    - left. constructor.
    - destruct (H1 a (or_introl eq_refl)) as [Ia Sa]. destruct (H2 b (or_introl eq_refl)) as [Ib Sb].
      destruct (IH f2 (pa a) (pb b) d Ia Ib D1 D2) as [He|Hc].
      + destruct IHF as [HF'|Hc]; [intros; apply H1; now right|intros; apply H2; now right| |]; [left|right]; auto.
      + right. eapply collision_lift; eauto.
  Qed.

  Lemma seq_step : forall v1 v2 f1 f2 l1 l2 b1 b2 (c : string),
      IHyp f1 -> String.length c = 1 ->
      seq_contents (dig H f1) l1 tt = Ok (b1, tt) -> seq_contents (dig H f2) l2 tt = Ok (b2, tt) ->
      b1 ++ c = b2 ++ c ->
      (forall a, In a l1 -> inj_dom a /\ In a (subs v1)) -> (forall b, In b l2 -> inj_dom b /\ In b (subs v2)) ->
      Forall2 (fun a b => veqb f1 a b = true) l1 l2 \/ collision (S f1) v1 (S f2) v2.
  Proof.
    intros v1 v2 f1 f2 l1 l2 b1 b2 c IH Hc E1 E2 E H1 H2.
    apply seq_contents_digs in E1. apply seq_contents_digs in E2.
    destruct E1 as (ds1 & F1 & ->). destruct E2 as (ds2 & F2 & ->).
    apply concat16_inj in E; auto; try (eapply digs_len; eauto). subst ds2.
    pose proof (F2_join _ _ _ _ _ F1 F2) as HF.
    destruct (pairs_step (fun x => x) (fun x => x) (fun _ _ => True) v1 v2 f1 f2 l1 l2 IH) as [HF'|Hc']; auto.
    - clear -HF. induction HF; constructor; auto.
    - left. clear -HF'. induction HF' as [|? ? ? ? [_ ?] ? ?]; constructor; auto.
  Qed.

  Lemma keyatom_sorted : forall (kvs s : list (pyval * pyval)),
      Forall keyatom (map fst kvs) -> Permutation kvs s -> Forall keyatom (map fst s).
  Proof.
    intros kvs s HK P. rewrite Forall_forall in *. intros k Hk. apply HK.
    eapply Permutation_in; [apply Permutation_map; symmetry; exact P|exact Hk].
  Qed.

  Lemma mapping_step : forall v1 v2 f1 f2 kvs1 kvs2 b1 b2,
      IHyp f1 ->
      Forall keyatom (map fst kvs1) -> Forall keyatom (map fst kvs2) ->
      mapping (dig H f1) kvs1 tt = Ok (b1, tt) -> mapping (dig H f2) kvs2 tt = Ok (b2, tt) ->
      b1 ++ "}" = b2 ++ "}" ->
      (forall kv, In kv kvs1 -> inj_dom (snd kv) /\ In (snd kv) (subs v1)) ->
      (forall kv, In kv kvs2 -> inj_dom (snd kv) /\ In (snd kv) (subs v2)) ->
      (exists s1 s2, Permutation kvs1 s1 /\ Permutation kvs2 s2 /\
                     Forall2 (fun a b : pyval * pyval => fst a = fst b /\ veqb f1 (snd a) (snd b) = true) s1 s2)
      \/ collision (S f1) v1 (S f2) v2.
  Proof.
    intros v1 v2 f1 f2 kvs1 kvs2 b1 b2 IH K1 K2 E1 E2 E H1 H2. unfold mapping in E1, E2.
    destruct (sorted_res kvlt kvs1) as [s1|] eqn:S1; [|discriminate].
    destruct (sorted_res kvlt kvs2) as [s2|] eqn:S2; [|discriminate].
    apply sorted_res_perm in S1. apply sorted_res_perm in S2.
    pose proof (keyatom_sorted _ _ K1 S1) as K1'. pose proof (keyatom_sorted _ _ K2 S2) as K2'.
    apply map_contents_entries in E1; auto. apply map_contents_entries in E2; auto.
    destruct E1 as (es1 & F1 & ->). destruct E2 as (es2 & F2 & ->).
    pose proof (entries_inj s1 s2 es1 es2 f1 f2 K1' K2' F1 F2 E) as HF.
    destruct (pairs_step (@snd pyval pyval) (@snd pyval pyval) (fun a b => fst a = fst b) v1 v2 f1 f2 s1 s2 IH HF)
      as [HF'|Hc]; auto.
    - intros a Ha. apply H1. eapply Permutation_in; [symmetry; exact S1|exact Ha].
    - intros b Hb. apply H2. eapply Permutation_in; [symmetry; exact S2|exact Hb].
    - left. exists s1, s2. auto.
  Qed.
End Inj.

Section Main.
  Variable H : string -> string.

  Lemma subs_inj_dom : forall v x, inj_dom v -> In x (subs v) -> inj_dom x.
  Proof. intros v x Hd Hx. inversion Hd; auto. Qed.

  Theorem dig_inj : forall f1, IHyp H f1.
  Proof.
    induction f1 as [|f1 IH]; intros f2 v1 v2 d I1 I2 D1 D2; [discriminate|].
    destruct f2 as [|f2]; [discriminate|]. cbn [dig] in D1, D2.
    destruct (repr (dig H f1) v1 tt) as [[s1 []]|] eqn:R1; [|discriminate].
    destruct (repr (dig H f2) v2 tt) as [[s2 []]|] eqn:R2; [|discriminate].
    inversion D1 as [Hd1]. inversion D2 as [Hd2].
    destruct (string_dec s1 s2) as [->|Hne].
    2:{ right. exists s1, s2. cbn [hashed]. repeat split; auto. congruence. }
    rename s2 into s. clear D1 D2 Hd1 Hd2 d.
    inversion I1 as [? L1 S1]; subst. inversion I2 as [? L2 S2]; subst.
    assert (Hc : code v1 = code v2).
    { rewrite <- (classify_repr H f1 v1 s tt L1 R1), <- (classify_repr H f2 v2 s tt L2 R2). reflexivity. }
    assert (Hatom : keyatom v1 -> keyatom v2 -> veqb (S f1) v1 v2 = true \/ collision H (S f1) v1 (S f2) v2).
    { intros K1 K2. left. rewrite (keyatom_inj v1 v2 s K1 K2 (keyatom_repr H f1 v1 s K1 R1) (keyatom_repr H f2 v2 s K2 R2)).
      now apply veqb_refl_keyatom. }
    destruct v1 as [ | b1 | z1 | bits1 | t1 | t1 | c1 p1 | i1 l1 | i1 l1 | i1 l1 | i1 l1 | i1 kvs1 | i1 c1 ats1
                   | i1 c1 dt1 sh1 data1 | i1 src1 hid1 | i1 pre1 | i1 ]; cbn in L1; try contradiction;
    destruct v2 as [ | b2 | z2 | bits2 | t2 | t2 | c2 p2 | i2 l2 | i2 l2 | i2 l2 | i2 l2 | i2 kvs2 | i2 c2 ats2
                   | i2 c2 dt2 sh2 data2 | i2 src2 hid2 | i2 pre2 | i2 ]; cbn in L2; try contradiction;
    cbn [code] in Hc; try discriminate Hc; try (apply Hatom; cbn; auto; fail); clear Hatom.
    - (* VPath *)
      cbn in R1, R2. inversion R1 as [E1]. inversion R2 as [E2]. rewrite <- E2 in E1.
      unfold path_cls in L1, L2. apply andb_true_iff in L1, L2. destruct L1 as [L1 _], L2 as [L2 _].
      apply andb_true_iff in L1, L2. destruct L1 as [N1 _], L2 as [N2 _].
      apply colon_split_inj in E1; auto. destruct E1 as [-> ->]. left. cbn. now rewrite !String.eqb_refl.
    - (* VList *)
      cbn in R1, R2.
      destruct (seq_contents (dig H f1) l1 tt) as [[b1 []]|] eqn:Q1; [|discriminate].
      destruct (seq_contents (dig H f2) l2 tt) as [[b2 []]|] eqn:Q2; [|discriminate].
      inversion R1 as [E1]. inversion R2 as [E2]. rewrite <- E2 in E1.
      injection E1 as E1.
      destruct (seq_step H (VList i1 l1) (VList i2 l2) f1 f2 l1 l2 b1 b2 ")" IH eq_refl Q1 Q2 E1) as [HF|Hc']; auto.
      left. cbn. now apply list_eqb_F2.
    - (* VTuple *)
      cbn in R1, R2.
      destruct (seq_contents (dig H f1) l1 tt) as [[b1 []]|] eqn:Q1; [|discriminate].
      destruct (seq_contents (dig H f2) l2 tt) as [[b2 []]|] eqn:Q2; [|discriminate].
      inversion R1 as [E1]. inversion R2 as [E2]. rewrite <- E2 in E1.
      injection E1 as E1.
      destruct (seq_step H (VTuple i1 l1) (VTuple i2 l2) f1 f2 l1 l2 b1 b2 ")" IH eq_refl Q1 Q2 E1) as [HF|Hc']; auto.
      left. cbn. now apply list_eqb_F2.
    - (* VSet *)
      cbn in R1, R2.
      destruct (sorted_res vlt l1) as [sl1|] eqn:So1; [|discriminate].
      destruct (sorted_res vlt l2) as [sl2|] eqn:So2; [|discriminate].
      destruct (seq_contents (dig H f1) sl1 tt) as [[b1 []]|] eqn:Q1; [|discriminate].
      destruct (seq_contents (dig H f2) sl2 tt) as [[b2 []]|] eqn:Q2; [|discriminate].
      inversion R1 as [E1]. inversion R2 as [E2]. rewrite <- E2 in E1.
      injection E1 as E1.
      apply sorted_res_perm in So1. apply sorted_res_perm in So2.
      destruct (seq_step H (VSet i1 l1) (VSet i2 l2) f1 f2 sl1 sl2 b1 b2 "}" IH eq_refl Q1 Q2 E1) as [HF|Hc']; auto.
      + intros a Ha. assert (In a l1) by (eapply Permutation_in; [symmetry; exact So1|exact Ha]). split; auto.
      + intros a Ha. assert (In a l2) by (eapply Permutation_in; [symmetry; exact So2|exact Ha]). split; auto.
      + left. cbn. eapply same_set_paired; eauto.
    - (* VFrozenset *)
      cbn in R1, R2.
      destruct (sorted_res vlt l1) as [sl1|] eqn:So1; [|discriminate].
      destruct (sorted_res vlt l2) as [sl2|] eqn:So2; [|discriminate].
      destruct (seq_contents (dig H f1) sl1 tt) as [[b1 []]|] eqn:Q1; [|discriminate].
      destruct (seq_contents (dig H f2) sl2 tt) as [[b2 []]|] eqn:Q2; [|discriminate].
      inversion R1 as [E1]. inversion R2 as [E2]. rewrite <- E2 in E1.
      injection E1 as E1.
      apply sorted_res_perm in So1. apply sorted_res_perm in So2.
      destruct (seq_step H (VFrozenset i1 l1) (VFrozenset i2 l2) f1 f2 sl1 sl2 b1 b2 "}" IH eq_refl Q1 Q2 E1) as [HF|Hc']; auto.
      + intros a Ha. assert (In a l1) by (eapply Permutation_in; [symmetry; exact So1|exact Ha]). split; auto.
      + intros a Ha. assert (In a l2) by (eapply Permutation_in; [symmetry; exact So2|exact Ha]). split; auto.
      + left. cbn. eapply same_set_paired; eauto.
    - (* VDict *)
      cbn [repr] in R1, R2.
      destruct (mapping (dig H f1) kvs1 tt) as [[b1 []]|] eqn:Q1; [|discriminate].
      destruct (mapping (dig H f2) kvs2 tt) as [[b2 []]|] eqn:Q2; [|discriminate].
      inversion R1 as [E1]. inversion R2 as [E2]. rewrite <- E2 in E1.
      injection E1 as E1.
      destruct (mapping_step H (VDict i1 kvs1) (VDict i2 kvs2) f1 f2 kvs1 kvs2 b1 b2 IH L1 L2 Q1 Q2 E1)
        as [(s1 & s2 & P1 & P2 & HF)|Hc']; auto.
      + intros kv Hkv. assert (In (snd kv) (subs (VDict i1 kvs1))).
        { cbn [subs]. apply in_flat_map. exists kv. split; auto. apply in_or_app. right. now left. }
        split; auto.
      + intros kv Hkv. assert (In (snd kv) (subs (VDict i2 kvs2))).
        { cbn [subs]. apply in_flat_map. exists kv. split; auto. apply in_or_app. right. now left. }
        split; auto.
      + left. cbn. apply (same_set_paired _ kvs1 kvs2 s1 s2 P1 P2).
        assert (K1' : Forall keyatom (map fst s1)) by (apply (keyatom_sorted kvs1 s1 L1 P1)).
        clear -HF K1'. destruct f1 as [|f1].
        { (* no fuel: then there is no entry at all *)
          destruct HF as [|a b s1 s2 [_ Hv] HF]; [constructor|]. cbn in Hv. discriminate. }
        induction HF as [|a b s1 s2 [Hk Hv] HF IHF]; constructor.
        * rewrite <- Hk, Hv. inversion K1'; subst. rewrite veqb_refl_keyatom; auto.
        * apply IHF. cbn in K1'. now inversion K1'.
    - (* VObj *)
      cbn [repr] in R1, R2.
      set (g := fun a : string * pyval => (VStr (fst a), snd a)) in *.
      destruct (mapping (dig H f1) (map g ats1) tt) as [[b1 []]|] eqn:Q1; [|discriminate].
      destruct (mapping (dig H f2) (map g ats2) tt) as [[b2 []]|] eqn:Q2; [|discriminate].
      inversion R1 as [E1]. inversion R2 as [E2]. rewrite <- E2 in E1.
      unfold obj_cls in L1, L2. apply andb_true_iff in L1, L2. destruct L1 as [L1 _], L2 as [L2 _].
      apply andb_true_iff in L1, L2. destruct L1 as [L1 _], L2 as [L2 _].
      apply andb_true_iff in L1, L2. destruct L1 as [N1 _], L2 as [N2 _].
      apply colon_split_inj in E1; auto. destruct E1 as [-> E1].
      cbn in E1. injection E1 as E1.
      assert (Kg : forall ats, Forall keyatom (map fst (map g ats))).
      { intros ats. rewrite Forall_forall. intros k Hk. rewrite map_map in Hk. apply in_map_iff in Hk.
        destruct Hk as (a & <- & _). exact Logic.I. }
      destruct (mapping_step H (VObj i1 c2 ats1) (VObj i2 c2 ats2) f1 f2 (map g ats1) (map g ats2) b1 b2 IH
                             (Kg ats1) (Kg ats2) Q1 Q2 E1) as [(s1 & s2 & P1 & P2 & HF)|Hc']; auto.
      + intros kv Hkv. apply in_map_iff in Hkv. destruct Hkv as (a & <- & Ha).
        assert (In (snd a) (subs (VObj i1 c2 ats1))) by (cbn [subs]; now apply in_map). split; auto.
      + intros kv Hkv. apply in_map_iff in Hkv. destruct Hkv as (a & <- & Ha).
        assert (In (snd a) (subs (VObj i2 c2 ats2))) by (cbn [subs]; now apply in_map). split; auto.
      + left. cbn. rewrite String.eqb_refl. cbn.
        (* from the pairing of the (VStr name, value) lists to the (name, value) lists *)
        unfold same_set, incl_by. apply andb_true_iff. split.
        * apply forallb_forall. intros a Ha. apply existsb_exists.
          assert (Hga : In (g a) s1) by (eapply Permutation_in; [exact P1|now apply in_map]).
          destruct (F2_in_l _ _ _ _ HF Hga) as (y & Hy & Hk & Hv).
          assert (Hy' : In y (map g ats2)) by (eapply Permutation_in; [symmetry; exact P2|exact Hy]).
          apply in_map_iff in Hy'. destruct Hy' as (b & <- & Hb). exists b. split; auto.
          cbn in Hk, Hv. inversion Hk as [Hn]. now rewrite Hn, String.eqb_refl, Hv.
        * apply forallb_forall. intros b Hb. apply existsb_exists.
          assert (Hgb : In (g b) s2) by (eapply Permutation_in; [exact P2|now apply in_map]).
          destruct (F2_in_r _ _ _ _ HF Hgb) as (x & Hx & Hk & Hv).
          assert (Hx' : In x (map g ats1)) by (eapply Permutation_in; [symmetry; exact P1|exact Hx]).
          apply in_map_iff in Hx'. destruct Hx' as (a & <- & Ha). exists a. split; auto.
          cbn in Hk, Hv. inversion Hk as [Hn]. now rewrite Hn, String.eqb_refl, Hv.
    - (* VNd *)
      cbn in R1, R2. inversion R1 as [E1]. inversion R2 as [E2]. rewrite <- E2 in E1.
      destruct L1 as [C1 T1], L2 as [C2 T2]. unfold nd_cls in C1, C2. apply andb_true_iff in C1, C2.
      destruct C1 as [N1 _], C2 as [N2 _].
      apply colon_split_inj in E1; auto. destruct E1 as [-> E1].
      apply colon_split_inj in E1; auto. destruct E1 as [-> E1].
      apply colon_split_inj in E1; try apply shape_repr_nocolon. destruct E1 as [Es ->].
      apply shape_repr_inj in Es. subst sh2. left. cbn. rewrite !String.eqb_refl. cbn.
      rewrite (proj2 (list_eqb_spec Nat.eqb Nat.eqb_eq sh1 sh1) eq_refl). reflexivity.
  Qed.

  (* the statement on whole values: digest = dig with fuel 1 + depth *)
  Theorem ser_injective : forall v1 v2 d,
      inj_dom v1 -> inj_dom v2 -> digest H v1 = Ok d -> digest H v2 = Ok d ->
      veq v1 v2 \/ collision H (S (vdepth v1)) v1 (S (vdepth v2)) v2.
  Proof.
    intros v1 v2 d I1 I2 D1 D2. unfold digest in D1, D2.
    destruct (dig H (S (vdepth v1)) v1 tt) as [[d1 []]|] eqn:E1; [|discriminate].
    destruct (dig H (S (vdepth v2)) v2 tt) as [[d2 []]|] eqn:E2; [|discriminate].
    inversion D1; subst. inversion D2; subst.
    exact (dig_inj (S (vdepth v1)) (S (vdepth v2)) v1 v2 d I1 I2 E1 E2).
  Qed.
End Main.

(* ------------------------------------------------------------------ deciding "no collision" on concrete values *)
Section NoColl.
  Variable H : string -> string.

  Fixpoint hashed_list (f : nat) (v : pyval) : list string :=
    match f with
    | 0 => []
    | S f' => (match repr (dig H f') v tt with Ok (s, _) => [s] | Err _ => [] end)
                ++ flat_map (hashed_list f') (subs v)
    end.

  Lemma hashed_in : forall f v s, hashed H f v s -> In s (hashed_list f v).
  Proof.
    induction f as [|f IH]; intros v s Hh; [contradiction|]. cbn [hashed] in Hh. cbn [hashed_list].
    apply in_or_app. destruct Hh as [E|(x & Hx & Hh)].
    - left. rewrite E. now left.
    - right. apply in_flat_map. exists x. split; auto.
  Qed.

  Definition no_collb (l1 l2 : list string) : bool :=
    forallb (fun s1 => forallb (fun s2 => String.eqb s1 s2 || negb (String.eqb (D H s1) (D H s2))) l2) l1.

  Lemma no_collb_sound : forall f1 v1 f2 v2,
      no_collb (hashed_list f1 v1) (hashed_list f2 v2) = true -> ~ collision H f1 v1 f2 v2.
  Proof.
    intros f1 v1 f2 v2 E (s1 & s2 & H1 & H2 & Hne & Hd).
    apply hashed_in in H1. apply hashed_in in H2. unfold no_collb in E.
    rewrite forallb_forall in E. specialize (E s1 H1). rewrite forallb_forall in E. specialize (E s2 H2).
    apply orb_true_iff in E. destruct E as [E|E].
    - apply String.eqb_eq in E. contradiction.
    - apply negb_true_iff in E. rewrite Hd, String.eqb_refl in E. discriminate.
  Qed.
End NoColl.
