(* C10 — Concurrent submitters of one job share a single execution. *)
From Pydra Require Import Base.Prelude.
From Pydra Require Import Model.CacheProto Spec.CacheProto Proofs.CacheProto Proofs.CacheProtoC35 Proofs.CacheProtoC10
  Proofs.CacheProtoC12 Proofs.CacheProtoSpec.

(* The property on the model: every interleaving (trace) of any number of processes submitting the task any
   number of times -- body succeeds, nobody is killed, nobody asks for a rerun, with or without a result at the
   start -- leaves observations that meet the C10 spec. *)
Definition C10_full_statement : Prop :=
  forall pickle unpickle, codec_ok pickle unpickle ->
  forall bv pre tr s pids,
    clean_trace tr = true -> run pickle unpickle bv (init bv pre) tr = Some s ->
    c10_spec bv (observe_g s pids) (map (observe_p s) pids).

Theorem C10_once : C10_full_statement.
Proof. intros pickle unpickle C bv pre tr s pids. now apply c10_model_meets_spec. Qed.
Print Assumptions C10_once.

(* at most one live process between acquire and release: every trace, crashes and exceptions included *)
Theorem C10_mutex :
  forall pickle unpickle bv pre tr s p q,
    run pickle unpickle bv (init bv pre) tr = Some s ->
    alive s p -> alive s q ->
    holds (pc (procs s p)) = true -> holds (pc (procs s q)) = true -> p = q.
Proof. exact mutex. Qed.
Print Assumptions C10_mutex.

(* every submitter that got an answer got the body's value -- also when other submitters were killed *)
Theorem C10_same_outputs :
  forall pickle unpickle, codec_ok pickle unpickle ->
  forall bv pre tr s p o,
    det_trace tr = true -> run pickle unpickle bv (init bv pre) tr = Some s ->
    ret (procs s p) = Some o -> o = good bv.
Proof. intros pickle unpickle (H1 & H2 & H3) bv pre tr s p o. now apply same_outputs. Qed.
Print Assumptions C10_same_outputs.

(* without kills a partially written result exists only while its writer holds the lock: the check under the
   lock never sees one, and the caller's final read finds the whole value *)
Theorem C10_no_partial_read :
  forall pickle unpickle, codec_ok pickle unpickle ->
  forall bv pre tr s p,
    clean_trace tr = true -> run pickle unpickle bv (init bv pre) tr = Some s ->
    (pc (procs s p) = Locked -> is_writing (resf (gl s)) = false) /\
    (pc (procs s p) = RelHit \/ pc (procs s p) = Post2 ->
       load_result pickle unpickle (gl s) = Some (ok bv) /\ is_writing (resf (gl s)) = false \/
       exists h, h <> p /\ lock (gl s) = Some h /\ writing (pc (procs s h)) = true).
Proof. intros pickle unpickle (H1 & H2 & H3) bv pre tr s p. now apply no_partial_read. Qed.
Print Assumptions C10_no_partial_read.

(* whatever anybody reads back from the result file at any moment, kills included, is the body's value *)
Theorem C10_read_sound :
  forall pickle unpickle, codec_ok pickle unpickle ->
  forall bv pre tr s r,
    det_trace tr = true -> run pickle unpickle bv (init bv pre) tr = Some s ->
    load_result pickle unpickle (gl s) = Some r -> r = ok bv.
Proof. intros pickle unpickle (H1 & H2 & H3) bv pre tr s r. now apply read_sound. Qed.
Print Assumptions C10_read_sound.

(* the hypotheses are satisfiable, and the statement is not vacuous: three processes, the third one hits *)
Example C10_codec_example : codec_ok toy_pickle toy_unpickle.
Proof. exact toy_codec_ok. Qed.
