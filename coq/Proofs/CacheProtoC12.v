(* Proofs/CacheProtoC12.v — recovery after crashes: from every state reachable with crashes at arbitrary points
   (any partial-write length included) a later submission by a fresh process runs to completion on its own and
   returns the body's value, re-executing exactly when no complete result can be read back. *)
From Pydra Require Import Base.Prelude.
From Pydra Require Import Model.CacheProto Proofs.CacheProto Proofs.CacheProtoC35 Proofs.CacheProtoC10.
Local Open Scope nat_scope.

Local Arguments CacheProto.load_result : simpl never.

(* the steps of one submission that finds a usable result / that has to execute (asy: Job.run_async) *)
Definition hit_actions (asy : bool) : list action :=
  [APreRun false asy; AAcquire; AChecked; AHit; ARelease; AReturned].

(* how far a process is from the end of its submission when nothing goes wrong *)
Definition rank (c : pcT) : nat :=
  match c with
  | Waiting => 50 | Locked => 49 | Miss => 48 | Pop1 => 47 | Pop2 => 46 | Pop3 => 45
  | Sv false SAcq => 44 | Sv false SJB => 43 | Sv false SJO => 42 | Sv false SJD => 41 | Sv false SJA => 40
  | Sv false SRel => 39 | Pop4 => 38 | Pop5 => 37 | CwdCh => 36 | PreHk => 35 | AudSt => 34 | BodyIn => 33
  | BodyOut => 32 | OutsOk => 31 | Fin1 => 30 | Fin2 => 29
  | Sv true SAcq => 28 | Sv true SRB => 27 | Sv true SRO => 26 | Sv true SRD => 25 | Sv true SRA => 24
  | Sv true SJB => 23 | Sv true SJO => 22 | Sv true SJD => 21 | Sv true SJA => 20 | Sv true SRel => 19
  | Fin3 => 18 | Fin4 => 17 | Fin5 => 16 | RelOk => 15 | Post1 => 14 | Post2 => 13
  | Hit0 => 3 | Hit1 => 2 | RelHit => 1
  | _ => 0
  end.
(* the step the code takes next from pc c when nothing is raised *)
Definition next (q : proc) : action :=
  match pc q with
  | Waiting => AAcquire | Locked => AChecked | Hit0 => AHit | Hit1 => ARelease | RelHit => AReturned
  | Miss => AInfoWritten | Pop1 => ADirCleared | Pop2 => ADirCreated | Pop3 => ASaveAcq
  | Sv false SAcq => AJobBefore | Sv true SAcq => AResBefore
  | Sv _ SRB => AResOpened | Sv _ SRO => AResDumped | Sv _ SRD => AResAfter | Sv _ SRA => AJobBefore
  | Sv _ SJB => AJobOpened | Sv _ SJO => AJobDumped | Sv _ SJD => AJobAfter | Sv _ SJA => ASaveRel
  | Sv false SRel => AJobSaved | Sv true SRel => AResultSaved
  | Pop4 => APopulated | Pop5 => if is_async q then APreHook else ACwdChanged
  | CwdCh => APreHook | PreHk => AAuditStarted | AudSt => ABodyEnter | BodyIn => ABodyLeft | BodyOut => AOutputs
  | OutsOk => APostHook | Fin1 => AAuditFinal | Fin2 => ASaveAcq | Fin3 => AInfoRemoved | Fin4 => ACwdRestored
  | Fin5 => ARelease | RelOk => ALockReleased | Post1 => APostRun | Post2 => AReturned
  | _ => AReturned
  end.
(* 1 while the task body still lies ahead *)
Definition body_ahead (c : pcT) : nat := if Nat.leb 33 (rank c) then 1 else 0.

Lemma pcT_done_dec (c : pcT) : {c = Done} + {c <> Done}.
Proof. destruct c; try (right; discriminate); now left. Qed.

Section C12.
  Variable pickle : res -> list nat.
  Variable unpickle : list nat -> option res.
  Variable bv : val.
  Hypothesis unpickle_pickle : forall r, unpickle (pickle r) = Some r.
  Hypothesis prefix_rejected : forall r n, n < List.length (pickle r) -> unpickle (firstn n (pickle r)) = None.
  Hypothesis pickle_nonempty : forall r, pickle r <> [].

  Notation lstep := (lstep pickle unpickle bv).
  Notation step := (step pickle unpickle bv).
  Notation run := (run pickle unpickle bv).
  Notation init := (init bv).
  Notation load_result := (load_result pickle unpickle).
  Notation ok := (ok bv).

  Fixpoint lrun (p : pid) (q : proc) (g : glob) (l : list action) : option (proc * glob) :=
    match l with
    | [] => Some (q, g)
    | a :: r => match lstep p q g a with Some (q', g') => lrun p q' g' r | None => None end
    end.

  Lemma run_solo p l : forall s q' g',
    dead (gl s) p = false -> forallb nocrash l = true ->
    lrun p (procs s p) (gl s) l = Some (q', g') ->
    exists s', run s (map (pair p) l) = Some s' /\ procs s' p = q' /\ gl s' = g' /\
               forall r, r <> p -> procs s' r = procs s r.
  Proof.
    induction l as [|a l IH]; cbn [lrun map CacheProto.run forallb]; intros s q' g' Dp Nc H.
    - inversion H; subst. exists s. auto.
    - apply andb_true_iff in Nc. destruct Nc as [Na Nl].
      destruct (lstep p (procs s p) (gl s) a) as [[q1 g1]|] eqn:L; [|discriminate].
      assert (St : step s (p, a) = Some (mkState (upd (procs s) p q1) g1)).
      { unfold step, CacheProto.step. rewrite Dp. destruct a; try discriminate Na; now rewrite L. }
      rewrite St.
      pose proof (lstep_lock _ _ _ _ _ _ _ _ _ L) as [Dd _].
      destruct (IH (mkState (upd (procs s) p q1) g1) q' g') as (s' & R & E1 & E2 & E3).
      + cbn. now rewrite Dd.
      + exact Nl.
      + cbn. now rewrite upd_same.
      + exists s'. repeat split; auto. intros r Ne. rewrite (E3 r Ne). cbn. now apply upd_other.
  Qed.

  Lemma load_set_lock x g : load_result (set_lock x g) = load_result g.
  Proof. reflexivity. Qed.

  Lemma solo_hit p q g asy r :
    pc q = Idle \/ pc q = Done ->
    free (lock g) g = true ->
    load_result g = Some r -> errored r = false ->
    exists q', lrun p q g (hit_actions asy) = Some (q', set_lock None g) /\
               pc q' = Done /\ ret q' = Some (Returned r) /\ cwd q' = cwd q /\ infos q' = infos q.
  Proof.
    intros Hpc Fl L E. destruct q as [c rr a0 cw inf vw se re ro ra rt prc poc ex dt]. cbn in Hpc.
    unfold hit_actions.
    destruct Hpc as [-> | ->].
    all: repeat progress (cbn; rewrite ?Fl, ?load_set_lock, ?L, ?E, ?Nat.eqb_refl).
    all: eexists; split; [reflexivity|]; cbn; auto.
  Qed.


  Lemma progress p q g :
    pc_det (pc q) = true -> pc q <> Idle -> pc q <> Done ->
    raised q = false -> rerun q = false ->
    (pc q = Waiting -> free (lock g) g = true) ->
    (pc q = Pop3 \/ pc q = Fin2 -> free (slock g) g = true) ->
    (pc q = Pop2 -> dir g = false) ->
    (pc q = Fin3 -> infos q <> 0) ->
    exists q' g', lstep p q g (next q) = Some (q', g') /\ rank (pc q') < rank (pc q) /\
                  det (next q) = true /\ nocrash (next q) = true /\
                  runs g' + body_ahead (pc q') <= runs g + body_ahead (pc q) /\ pc q' <> Idle.
  Proof.
    intros Pd N1 N2 Ra Rr C1 C2 C3 C4.
    unfold next, lstep, CacheProto.lstep, go.
    destruct (pc q) as [| | | | | | | | |[] []| | | | | | | | | | | | | | | | | | | | | | | | | | | ] eqn:E;
      try discriminate Pd; try congruence.
    all: cbn [rank body_ahead Nat.leb det nocrash negb].
    all: rewrite ?Rr, ?Ra, ?(C1 eq_refl), ?(C2 (or_introl eq_refl)), ?(C2 (or_intror eq_refl)), ?(C3 eq_refl).
    all: try (destruct (infos q) eqn:EI; [now specialize (C4 eq_refl)|]).
    all: try (destruct (is_async q)).
    all: try (destruct (usable _)).
    all: do 2 eexists; (split; [reflexivity|]); cbn; repeat split; try lia; try discriminate.
    all: destruct (dir g); cbn; lia.
  Qed.

  Definition markers_ok (s : state) (p : pid) : Prop :=
    (forall h, lock (gl s) = Some h -> h = p \/ dead (gl s) h = true) /\
    (forall h, slock (gl s) = Some h -> h = p \/ dead (gl s) h = true).

  Lemma all_inv_step s e s' : all_inv pickle unpickle bv s -> step s e = Some s' -> det (snd e) = true -> all_inv pickle unpickle bv s'.
  Proof.
    intros (A & B & C) H D. split; [eapply lock_inv_step; eauto|split; [eapply c35_inv_step; eauto|eapply k_inv_step; eauto]].
  Qed.

  (* a process left alone, with every marker absent, its own, or a dead process's, finishes its submission *)
  Lemma solo p n : forall s,
    all_inv pickle unpickle bv s -> markers_ok s p -> alive s p ->
    rank (pc (procs s p)) <= n -> pc (procs s p) <> Idle ->
    exists tr' s', (forall e, In e tr' -> fst e = p) /\ det_trace tr' = true /\ run s tr' = Some s' /\
                   pc (procs s' p) = Done /\
                   runs (gl s') <= runs (gl s) + body_ahead (pc (procs s p)) /\
                   all_inv pickle unpickle bv s'.
  Proof.
    assert (DONE : forall s, all_inv pickle unpickle bv s -> pc (procs s p) = Done ->
      exists tr' s', (forall e, In e tr' -> fst e = p) /\ det_trace tr' = true /\ run s tr' = Some s' /\
                   pc (procs s' p) = Done /\
                   runs (gl s') <= runs (gl s) + body_ahead (pc (procs s p)) /\
                   all_inv pickle unpickle bv s').
    { intros s AI Ed. exists [], s. cbn. split; [intros e []|].
      split; [reflexivity|]. split; [reflexivity|]. split; [exact Ed|]. split; [lia|exact AI]. }
    induction n as [|n IH]; intros s AI MK Ap Rk Ni.
    all: destruct (pcT_done_dec (pc (procs s p))) as [Ed|Nd]; [now apply DONE|].
    - (* rank 0 and not Done: impossible for a det pc other than Idle *)
      exfalso. destruct AI as (_ & _ & (_ & PV & _)). destruct (PV p) as (Pd & _).
      destruct (pc (procs s p)) as [| | | | | | | | |[] []| | | | | | | | | | | | | | | | | | | | | | | | | | | ];
        cbn in *; try discriminate; try lia; congruence.
    - pose proof AI as (LI & [HL HF] & (V & PV & PK)).
      destruct (PV p) as (Pd & _ & Ra & _ & Rr & _ & _ & Dt).
      destruct LI as (I1 & I1c & I2 & I2c). destruct MK as [M1 M2].
      destruct (progress p (procs s p) (gl s) Pd Ni Nd Ra Rr) as (q' & g' & L & Rd & De & Nc & Rn & Nq).
      + intros E. destruct (lock (gl s)) as [h|] eqn:Lk; [|reflexivity]. cbn.
        destruct (M1 h eq_refl) as [->|Dh]; [|exact Dh].
        pose proof (I1c p eq_refl Ap) as Hh. rewrite E in Hh. discriminate.
      + intros E. destruct (slock (gl s)) as [h|] eqn:Lk; [|reflexivity]. cbn.
        destruct (M2 h eq_refl) as [->|Dh]; [|exact Dh].
        pose proof (I2c p eq_refl Ap) as Hh. destruct E as [E|E]; rewrite E in Hh; discriminate.
      + intros E. destruct (PK p Ap) as (_ & _ & _ & _ & P5). auto.
      + intros E. destruct (HL p) as (L1 & _). destruct (L1 Dt) as (Ei & _). rewrite Ei, E. discriminate.
      + assert (St : step s (p, next (procs s p)) = Some (mkState (upd (procs s) p q') g')).
        { unfold step, CacheProto.step. unfold alive in Ap. rewrite Ap.
          destruct (next (procs s p)); try discriminate Nc; now rewrite L. }
        pose proof (lstep_lock _ _ _ _ _ _ _ _ _ L) as [Dd Hl].
        pose proof (lstep_slock _ _ _ _ _ _ _ _ _ L) as Hs.
        destruct (IH (mkState (upd (procs s) p q') g')) as (tr' & s' & F1 & F2 & F3 & F4 & F5 & F6).
        * eapply all_inv_step; eauto.
        * split; cbn; rewrite Dd; intros h Eh.
          -- destruct Hl as [[E1 _]|[(_ & _ & _ & E1)|(_ & _ & E1)]].
             ++ apply M1; congruence.
             ++ left; congruence.
             ++ rewrite E1 in Eh. apply unlock_some in Eh. apply M1; tauto.
          -- destruct Hs as [[E1 _]|[(_ & _ & _ & E1)|(_ & _ & E1)]].
             ++ apply M2; congruence.
             ++ left; congruence.
             ++ rewrite E1 in Eh. apply unlock_some in Eh. apply M2; tauto.
        * unfold alive in *; cbn. now rewrite Dd.
        * cbn. rewrite upd_same. lia.
        * cbn. now rewrite upd_same.
        * exists ((p, next (procs s p)) :: tr'), s'. cbn [CacheProto.run det_trace forallb snd]. rewrite St.
          split; [|split; [|split; [|split; [|split]]]]; auto.
          -- intros e [<-|Hin]; auto.
          -- unfold det_trace in F2. now rewrite De, F2.
          -- cbn in F5. rewrite upd_same in F5. lia.
  Qed.

  Lemma first_step p q g asy :
    pc q = Idle \/ pc q = Done ->
    lstep p q g (APreRun false asy) =
    Some (mkProc Waiting false asy (cwd q) (infos q) None false false None false None
                 (pre_calls q) (post_calls q) (execs q) (dirty q), g).
  Proof. intros [E|E]; unfold lstep, CacheProto.lstep; rewrite E; reflexivity. Qed.

  (* markers left behind name only dead processes when every live process other than p is outside its with block *)
  Lemma markers_free s p :
    lock_inv s -> alive s p -> holds (pc (procs s p)) = false ->
    (forall r, r <> p -> alive s r -> holds (pc (procs s r)) = false) ->
    (forall h, lock (gl s) = Some h -> dead (gl s) h = true) /\
    (forall h, slock (gl s) = Some h -> dead (gl s) h = true).
  Proof.
    intros (_ & I1c & _ & I2c) Ap Hp Oth. split; intros h Lk.
    - destruct (dead (gl s) h) eqn:Dh; [reflexivity|]. pose proof (I1c h Lk Dh) as Hh.
      destruct (Nat.eq_dec h p) as [->|Ne]; [congruence|]. rewrite (Oth h Ne Dh) in Hh. discriminate.
    - destruct (dead (gl s) h) eqn:Dh; [reflexivity|]. pose proof (I2c h Lk Dh) as Hh.
      apply holds_s_holds in Hh.
      destruct (Nat.eq_dec h p) as [->|Ne]; [congruence|]. rewrite (Oth h Ne Dh) in Hh. discriminate.
  Qed.

  (* C12_recover.  Any history of submissions by any number of processes, killed at arbitrary points (every
     checkpoint, every length of a partially written file), with a deterministic body and no rerun request.
     A process p that is not in the middle of a submission submits again while every other live process is
     outside its with block (the holders of the markers, if any, are dead).  Then p's submission, run on its own,
     terminates: it gets past both markers, reaches Done, the caller receives the body's value (not errored),
     and the body has been executed at most once more. *)
  Theorem recover pre tr s p (asy : bool) :
    det_trace tr = true -> run (init pre) tr = Some s ->
    alive s p -> (pc (procs s p) = Idle \/ pc (procs s p) = Done) ->
    (forall r, r <> p -> alive s r -> holds (pc (procs s r)) = false) ->
    exists tr' s', (forall e, In e tr' -> fst e = p) /\ run s tr' = Some s' /\
                   pc (procs s' p) = Done /\ ret (procs s' p) = Some (Returned ok) /\
                   runs (gl s') <= S (runs (gl s)).
  Proof.
    intros D R Ap Hpc Oth.
    pose proof (all_inv_reachable pickle unpickle bv unpickle_pickle prefix_rejected pickle_nonempty _ _ _ D R) as AI.
    assert (Hp : holds (pc (procs s p)) = false) by (destruct Hpc as [E|E]; rewrite E; reflexivity).
    destruct AI as (LI & AI2). destruct (markers_free s p LI Ap Hp Oth) as [M1 M2].
    pose (q0 := mkProc Waiting false asy (cwd (procs s p)) (infos (procs s p)) None false false None false None
                       (pre_calls (procs s p)) (post_calls (procs s p)) (execs (procs s p)) (dirty (procs s p))).
    assert (St : step s (p, APreRun false asy) = Some (mkState (upd (procs s) p q0) (gl s))).
    { unfold step, CacheProto.step. unfold alive in Ap. rewrite Ap. now rewrite (first_step _ _ _ _ Hpc). }
    assert (AI0 : all_inv pickle unpickle bv (mkState (upd (procs s) p q0) (gl s))).
    { eapply all_inv_step; [split; [exact LI|exact AI2]|exact St|reflexivity]. }
    destruct (solo p 50 (mkState (upd (procs s) p q0) (gl s)) AI0) as (tr' & s' & F1 & F2 & F3 & F4 & F5 & F6).
    - split; cbn; intros h Lk; right; auto.
    - exact Ap.
    - cbn. rewrite upd_same. cbn. lia.
    - cbn. rewrite upd_same. discriminate.
    - exists ((p, APreRun false asy) :: tr'), s'. cbn [CacheProto.run]. rewrite St.
      split; [intros e [<-|Hin]; auto|]. split; [exact F3|]. split; [exact F4|].
      cbn in F5. rewrite upd_same in F5. cbn in F5. split; [|lia].
      destruct F6 as (_ & [HL _] & (_ & PV & _)).
      destruct (HL p) as (_ & _ & _ & _ & _ & _ & L7 & _). destruct (PV p) as (_ & _ & _ & _ & _ & _ & Hr & _).
      destruct (ret (procs s' p)) as [o|] eqn:Er; [|now elim (L7 F4)]. now rewrite (Hr o eq_refl).
  Qed.

  (* ... and when a whole result can be read back, p does not execute anything: it returns that value and
     leaves the directory as it is *)
  Theorem recover_hit pre tr s p (asy : bool) r :
    det_trace tr = true -> run (init pre) tr = Some s ->
    alive s p -> (pc (procs s p) = Idle \/ pc (procs s p) = Done) ->
    (forall q, q <> p -> alive s q -> holds (pc (procs s q)) = false) ->
    load_result (gl s) = Some r ->
    r = ok /\
    exists s', run s (map (pair p) (hit_actions asy)) = Some s' /\
               pc (procs s' p) = Done /\ ret (procs s' p) = Some (Returned ok) /\
               gl s' = set_lock None (gl s).
  Proof.
    intros D R Ap Hpc Oth L.
    pose proof (all_inv_reachable pickle unpickle bv unpickle_pickle prefix_rejected pickle_nonempty _ _ _ D R) as (LI & _ & (V & _)).
    assert (Hp : holds (pc (procs s p)) = false) by (destruct Hpc as [E|E]; rewrite E; reflexivity).
    destruct (markers_free s p LI Ap Hp Oth) as [M1 _].
    assert (Er : r = ok) by (eapply load_valid; eauto). subst r. split; [reflexivity|].
    assert (Fl : free (lock (gl s)) (gl s) = true).
    { destruct (lock (gl s)) as [h|] eqn:Lk; [cbn; auto|reflexivity]. }
    destruct (solo_hit p (procs s p) (gl s) asy ok Hpc Fl L eq_refl) as (q' & Lr & E1 & E2 & _).
    destruct (run_solo p (hit_actions asy) s q' _ Ap eq_refl Lr) as (s' & Rs & P1 & P2 & _).
    exists s'. rewrite P1, P2. auto.
  Qed.

  (* C12_truncation: whatever prefix of the pickle a dead writer left in _result.pklz, load_result does not
     return it as a result unless it is the whole pickle *)
  Theorem truncation g r n :
    resf g = Writing r n -> n < List.length (pickle r) -> load_result g = None.
  Proof. intros. eapply load_strict_prefix; eauto. Qed.
End C12.
