(* Proofs/GraphSched.v — termination of the two submitter loops of Model/Graph.v (GraphSched). *)
From Pydra Require Import Base.Prelude Model.Graph Proofs.GraphBase.
Local Open Scope nat_scope.
Local Open Scope list_scope.

Definition weight (s : nstat) : nat := match s with NotStarted => 2 | Queued => 1 | _ => 0 end.
Fixpoint mu (m : smap) (order : list node) : nat :=
  match order with [] => 0 | n :: r => weight (m n) + mu m r end.

(* statuses only move forward, and a poll only moves not-started nodes *)
Definition le_st (m m' : smap) : Prop :=
  forall n, m' n = m n \/ (m n = NotStarted /\ (m' n = Queued \/ m' n = Unrunnable)).

Lemma le_st_refl m : le_st m m.
Proof. intros n. now left. Qed.
Lemma le_st_trans m1 m2 m3 : le_st m1 m2 -> le_st m2 m3 -> le_st m1 m3.
Proof.
  intros H1 H2 n. destruct (H1 n) as [E1|[E1 E1']], (H2 n) as [E2|[E2 E2']].
  - left. congruence.
  - right. split; [congruence|exact E2'].
  - right. split; [exact E1|]. rewrite E2. exact E1'.
  - exfalso. destruct E1' as [E|E]; congruence.
Qed.

Lemma le_st_weight m m' n : le_st m m' -> weight (m' n) <= weight (m n).
Proof.
  intros H. destruct (H n) as [E|[E [E'|E']]].
  - rewrite E. apply Nat.le_refl.
  - rewrite E, E'. cbn. lia.
  - rewrite E, E'. cbn. lia.
Qed.

Lemma le_st_mu m m' order : le_st m m' -> mu m' order <= mu m order.
Proof.
  intros H. induction order as [|n r IH]; cbn [mu]; [lia|].
  pose proof (le_st_weight m m' n H). lia.
Qed.

Lemma le_st_done m m' n : le_st m m' -> done_st (m n) = true -> m' n = m n.
Proof. intros H Hd. destruct (H n) as [E|[E _]]; [exact E|]. rewrite E in Hd. discriminate. Qed.

Lemma le_st_queued m m' n : le_st m m' -> m n = Queued -> m' n = Queued.
Proof. intros H Hq. destruct (H n) as [E|[E _]]; congruence. Qed.

Lemma sset_same m n s : sset m n s n = s.
Proof. unfold sset. now rewrite Nat.eqb_refl. Qed.
Lemma sset_other m n s x : x <> n -> sset m n s x = m x.
Proof. unfold sset. intros H. apply Nat.eqb_neq in H. now rewrite H. Qed.

Lemma mu_sset_notin m n s order : ~ In n order -> mu (sset m n s) order = mu m order.
Proof.
  induction order as [|x r IH]; cbn [mu In]; intros H; [reflexivity|].
  rewrite sset_other by (intros ->; apply H; now left). rewrite IH; [reflexivity|]. intros H'. apply H. now right.
Qed.

Lemma mu_sset_in m n s order : NoDup order -> In n order ->
  mu (sset m n s) order + weight (m n) = mu m order + weight s.
Proof.
  induction order as [|x r IH]; cbn [mu In]; intros Hnd Hin; [contradiction|].
  inversion Hnd; subst. destruct (Nat.eq_dec x n) as [->|Hne].
  - rewrite sset_same. rewrite mu_sset_notin by assumption. lia.
  - destruct Hin as [->|Hin]; [congruence|]. rewrite sset_other by assumption. specialize (IH H2 Hin). lia.
Qed.

Lemma mu_zero_done m order : mu m order = 0 -> all_done order m = true.
Proof.
  unfold all_done. induction order as [|x r IH]; cbn [mu forallb]; intros H; [reflexivity|].
  destruct (m x) eqn:E; cbn [weight] in H; try lia; cbn [done_st andb]; apply IH; lia.
Qed.

(* ---- one node, one scan *)
Lemma node_poll_le pd m n : le_st m (node_poll pd m n).
Proof.
  unfold node_poll. destruct (existsb _ _).
  - destruct (m n) eqn:E; try apply le_st_refl. intros x. destruct (Nat.eq_dec x n) as [->|Hne].
    + right. rewrite sset_same. auto.
    + left. now apply sset_other.
  - destruct (forallb _ _); [|apply le_st_refl].
    destruct (m n) eqn:E; try apply le_st_refl. intros x. destruct (Nat.eq_dec x n) as [->|Hne].
    + right. rewrite sset_same. auto.
    + left. now apply sset_other.
Qed.

Lemma poll_scan_le pd order : forall m ns tasks, le_st m (fst (poll_scan pd order m ns tasks)).
Proof.
  induction order as [|n r IH]; intros m ns tasks; cbn; [apply le_st_refl|].
  destruct (done_st (m n)); [apply IH|].
  destruct (existsb _ (plist pd n)); [apply le_st_refl|].
  eapply le_st_trans; [apply node_poll_le|apply IH].
Qed.

(* the jobs returned by a scan are queued, belong to the scanned list, and every node that is
   queued afterwards was either queued before or is returned *)
Lemma poll_scan_tasks pd order : forall m ns tasks m' tasks',
  poll_scan pd order m ns tasks = (m', tasks') ->
  (forall j, In j tasks -> m j = Queued) ->
  (forall j, In j tasks' -> m' j = Queued) /\
  (forall j, In j tasks' -> In j tasks \/ In j order) /\
  (forall j, m' j = Queued -> m j = Queued \/ In j tasks').
Proof.
  induction order as [|n r IH]; intros m ns tasks m' tasks' H Hq; cbn in H.
  - inversion H; subst. repeat split; auto.
  - destruct (done_st (m n)) eqn:Hd.
    + destruct (IH _ _ _ _ _ H Hq) as [A [B C]]. repeat split; auto.
      intros j Hj. destruct (B j Hj); auto. right. now right.
    + destruct (existsb _ (plist pd n)).
      * inversion H; subst. repeat split; auto.
      * set (m1 := node_poll pd m n) in *.
        assert (Hle : le_st m m1) by apply node_poll_le.
        assert (Hq1 : forall j, In j (match m1 n with Queued => tasks ++ [n] | _ => tasks end) -> m1 j = Queued).
        { intros j Hj. destruct (m1 n) eqn:E; try (eapply le_st_queued; eauto; fail).
          apply in_app_or in Hj. destruct Hj as [Hj|[<-|[]]]; [eapply le_st_queued; eauto|exact E]. }
        destruct (IH _ _ _ _ _ H Hq1) as [A [B C]]. repeat split; auto.
        -- intros j Hj. destruct (B j Hj) as [Hj'|Hj']; [|right; now right].
           destruct (m1 n); auto. apply in_app_or in Hj'. destruct Hj' as [Hj'|[<-|[]]]; [auto|right; now left].
        -- intros j Hj. destruct (C j Hj) as [Hj'|Hj']; [|auto].
           destruct (Hle j) as [E|[E [E'|E']]]; [left; congruence| |congruence].
           (* j became queued at this step: then j = n and it was appended *)
           right. assert (j = n).
           { destruct (Nat.eq_dec j n) as [|Hne]; [assumption|]. exfalso. unfold m1, node_poll in E'.
             destruct (existsb _ _); [destruct (m n); try congruence; rewrite sset_other in E' by assumption; congruence|].
             destruct (forallb _ _); [|congruence].
             destruct (m n); try congruence; rewrite sset_other in E' by assumption; congruence. }
           subst j.
           assert (In n (match m1 n with Queued => tasks ++ [n] | _ => tasks end))
             by (rewrite E'; apply in_or_app; right; now left).
           clear -H H0 IH. revert H H0. generalize (match m1 n with Queued => tasks ++ [n] | _ => tasks end).
           intros t Hps Hin.
           assert (G : forall order m ns t m' t', poll_scan pd order m ns t = (m', t') -> forall x, In x t -> In x t').
           { clear. induction order as [|y r IH]; intros m ns t m' t' H x Hx; cbn in H; [inversion H; subst; exact Hx|].
             destruct (done_st (m y)); [eapply IH; eauto|].
             destruct (existsb _ (plist pd y)); [inversion H; subst; exact Hx|].
             eapply IH; [exact H|]. destruct (node_poll pd m y y); auto. apply in_or_app. auto. }
           eapply G; eauto.
Qed.

Lemma poll_spec pd order m m' tasks :
  poll pd order m = (m', tasks) ->
  le_st m m' /\ (forall j, In j tasks -> m' j = Queued /\ In j order) /\
  (forall j, m' j = Queued -> m j = Queued \/ In j tasks).
Proof.
  unfold poll. intros H. split; [pose proof (poll_scan_le pd order m [] []) as L; rewrite H in L; exact L|].
  destruct (poll_scan_tasks pd order m [] [] m' tasks H) as [A [B C]]; [intros j []|].
  split; [|exact C]. intros j Hj. split; [auto|]. destruct (B j Hj) as [[]|]; assumption.
Qed.

Lemma all_done_poll pd order : forall m ns tasks,
  all_done order m = true -> poll_scan pd order m ns tasks = (m, tasks).
Proof.
  unfold all_done. induction order as [|n r IH]; intros m ns tasks H; cbn; [reflexivity|].
  cbn in H. apply andb_true_iff in H. destruct H as [H1 H2]. rewrite H1. apply IH, H2.
Qed.

Lemma NoDup_app_intro_one (l : list node) x : NoDup l -> ~ In x l -> NoDup (l ++ [x]).
Proof.
  induction l as [|y l IH]; cbn; intros N H; [constructor; [auto|constructor]|].
  inversion N; subst. constructor.
  - intros Hin. apply in_app_or in Hin. destruct Hin as [Hin|[->|[]]]; [contradiction|apply H; now left].
  - apply IH; [assumption|]. intros Hx. apply H. now right.
Qed.

(* ================= the asynchronous loop ================= *)
Section Async.
  Variables (pd : dict) (order : list node) (k : nat) (oracle : nat -> nat * bool).
  Hypothesis ND : NoDup order.
  Hypothesis Kpos : 1 <= k.

  (* every queued job that was launched is a pending future *)
  Definition AI (m : smap) (futures futured : list node) : Prop :=
    NoDup futures /\
    (forall j, In j futures -> m j = Queued /\ In j futured /\ In j order) /\
    (forall x, m x = Queued -> In x futured -> In x futures) /\
    (forall x, In x futured -> m x <> NotStarted).

  Lemma AI_le m m' futures futured : le_st m m' -> AI m futures futured -> AI m' futures futured.
  Proof.
    intros L [N [A [B E]]]. split; [exact N|]. split; [|split].
    - intros j Hj. destruct (A j Hj) as [Q R]. split; [eapply le_st_queued; eauto|exact R].
    - intros x Hq Hf. apply B; [|exact Hf]. destruct (L x) as [Ex|[Ex _]]; [congruence|]. exfalso. exact (E x Hf Ex).
    - intros x Hf Hn. destruct (L x) as [Ex|[Ex [Ey|Ey]]]; try congruence. apply (E x Hf). congruence.
  Qed.

  Lemma launch_incl tasks : forall futures futured f1 fd1,
    launch k tasks futures futured = (f1, fd1) -> forall j, In j futures -> In j f1.
  Proof.
    induction tasks as [|t r IH]; intros futures futured f1 fd1 H j Hj; cbn [launch] in H.
    - inversion H; subst. exact Hj.
    - destruct (negb (memb t futured) && Nat.ltb (List.length futures) k).
      + eapply IH; [exact H|]. apply in_or_app. auto.
      + eapply IH; [exact H|]. exact Hj.
  Qed.

  Lemma launch_AI m tasks : forall futures futured f1 fd1,
    AI m futures futured -> (forall j, In j tasks -> m j = Queued /\ In j order) ->
    launch k tasks futures futured = (f1, fd1) -> AI m f1 fd1.
  Proof.
    induction tasks as [|t r IH]; intros futures futured f1 fd1 Hai Ht H; cbn [launch] in H.
    - inversion H; subst. exact Hai.
    - destruct (negb (memb t futured) && Nat.ltb (List.length futures) k) eqn:C.
      + eapply IH; [| |exact H]; [|intros j Hj; apply Ht; now right].
        apply andb_true_iff in C. destruct C as [C _]. apply negb_true_iff, memb_false in C.
        destruct Hai as [N [A [B E]]]. destruct (Ht t (or_introl eq_refl)) as [Qt Ot].
        split; [|split; [|split]].
        * apply NoDup_app_intro_one; [exact N|]. intros Hin. apply C. exact (proj1 (proj2 (A t Hin))).
        * intros j Hj. apply in_app_or in Hj. destruct Hj as [Hj|[<-|[]]].
          -- destruct (A j Hj) as [Q [F O]]. repeat split; auto. apply in_or_app. auto.
          -- repeat split; auto. apply in_or_app. right. now left.
        * intros x Hq Hf. apply in_or_app. apply in_app_or in Hf. destruct Hf as [Hf|[<-|[]]]; [left; auto|right; now left].
        * intros x Hf. apply in_app_or in Hf. destruct Hf as [Hf|[<-|[]]]; [auto|congruence].
      + eapply IH; [exact Hai| |exact H]. intros j Hj. apply Ht. now right.
  Qed.

  Lemma launch_nonempty m tasks futures futured f1 fd1 :
    AI m futures futured -> (forall j, In j tasks -> m j = Queued) ->
    (tasks <> [] \/ futures <> []) ->
    launch k tasks futures futured = (f1, fd1) -> f1 <> [].
  Proof.
    intros [N [A [B E]]] Ht Hne H Hnil. subst f1.
    assert (Hf : futures = []).
    { destruct futures as [|x r]; [reflexivity|]. exfalso.
      apply (launch_incl _ _ _ _ _ H x (or_introl eq_refl)). }
    subst futures. destruct tasks as [|t r]; [destruct Hne; congruence|]. cbn [launch] in H.
    destruct (memb t futured) eqn:Mt.
    - apply memb_In in Mt. exact (B t (Ht t (or_introl eq_refl)) Mt).
    - assert (L : Nat.ltb (@List.length node []) k = true) by (apply Nat.ltb_lt; cbn; lia). rewrite L in H.
      cbn [negb andb app] in H. apply (launch_incl _ _ _ _ _ H t). now left.
  Qed.

  Lemma stall_spec p : forall m tasks m1 tasks1,
    stall p pd order m tasks = Some (m1, tasks1) ->
    (forall j, In j tasks -> m j = Queued /\ In j order) ->
    le_st m m1 /\ (tasks1 <> [] \/ all_done order m1 = true) /\
    (forall j, In j tasks1 -> m1 j = Queued /\ In j order).
  Proof.
    induction p as [|p IH]; intros m tasks m1 tasks1 H Ht; cbn in H.
    - destruct (nonempty tasks || all_done order m) eqn:C; [|discriminate]. inversion H; subst.
      split; [apply le_st_refl|]. split; [|exact Ht].
      apply orb_true_iff in C. destruct C as [C|C]; [left; destruct tasks1; [discriminate|congruence]|right; exact C].
    - destruct (nonempty tasks || all_done order m) eqn:C.
      + inversion H; subst. split; [apply le_st_refl|]. split; [|exact Ht].
        apply orb_true_iff in C. destruct C as [C|C]; [left; destruct tasks1; [discriminate|congruence]|right; exact C].
      + destruct (poll pd order m) as [m' tasks'] eqn:P. destruct (poll_spec _ _ _ _ _ P) as [L [Q _]].
        destruct (IH _ _ _ _ H Q) as [L2 [D T]]. split; [eapply le_st_trans; eauto|]. split; assumption.
  Qed.

  Lemma async_unfold fuel i m tasks futures futured ran :
    async_loop (S fuel) pd order k oracle i m tasks futures futured ran =
    if nonempty tasks || nonempty futures || negb (all_done order m) then
      match (if nonempty tasks || nonempty futures then Some (m, tasks) else stall 11 pd order m tasks) with
      | None => StallError
      | Some (m1, tasks1) =>
          let (futures1, futured1) := launch k tasks1 futures futured in
          match futures1 with
          | [] => let (m2, tasks2) := poll pd order m1 in
                  async_loop fuel pd order k oracle i m2 tasks2 futures1 futured1 ran
          | _ :: _ =>
              let c := oracle i in
              let j := nth (fst c mod List.length futures1) futures1 0 in
              let m1' := sset m1 j (if snd c then Errored else Succ) in
              let futures2 := match remove_one Nat.eqb j futures1 with Some l => l | None => futures1 end in
              let (m2, tasks2) := poll pd order m1' in
              async_loop fuel pd order k oracle (S i) m2 tasks2 futures2 futured1 (ran ++ [j])
          end
      end
    else Finished ran (snapshot_of order m).
  Proof. reflexivity. Qed.

  Lemma async_done fuel i m futured ran :
    all_done order m = true ->
    async_loop fuel pd order k oracle i m [] [] futured ran = Finished ran (snapshot_of order m).
  Proof. intros H. destruct fuel; cbn; rewrite H; reflexivity. Qed.

  Lemma async_no_fuel_out : forall fuel i m tasks futures futured ran,
    AI m futures futured -> (forall j, In j tasks -> m j = Queued /\ In j order) ->
    mu m order + 2 <= fuel ->
    async_loop fuel pd order k oracle i m tasks futures futured ran <> OutOfFuel.
  Proof.
    induction fuel as [|fuel IH]; intros i m tasks futures futured ran Hai Ht Hmu; [lia|].
    rewrite async_unfold.
    destruct (nonempty tasks || nonempty futures || negb (all_done order m)) eqn:Cond; [|discriminate].
    (* the state after the optional stall detection *)
    assert (Hs : forall m1 tasks1,
              (if nonempty tasks || nonempty futures then Some (m, tasks) else stall 11 pd order m tasks) = Some (m1, tasks1) ->
              le_st m m1 /\ (forall j, In j tasks1 -> m1 j = Queued /\ In j order) /\
              ((tasks1 <> [] \/ futures <> []) \/ (tasks1 = [] /\ futures = [] /\ all_done order m1 = true))).
    { intros m1 tasks1 H. destruct (nonempty tasks || nonempty futures) eqn:C2.
      - inversion H; subst. split; [apply le_st_refl|]. split; [exact Ht|]. left.
        apply orb_true_iff in C2. destruct C2 as [C2|C2]; [left; destruct tasks1|right; destruct futures]; discriminate || congruence.
      - apply orb_false_iff in C2. destruct C2 as [C2 C3].
        assert (futures = []) by (destruct futures; [reflexivity|discriminate]). subst futures.
        destruct (stall_spec _ _ _ _ _ H Ht) as [L [D T]]. split; [exact L|]. split; [exact T|].
        destruct D as [D|D]; [left; left; exact D|].
        destruct tasks1; [right; auto|left; left; discriminate]. }
    destruct (if nonempty tasks || nonempty futures then Some (m, tasks) else stall 11 pd order m tasks)
      as [[m1 tasks1]|] eqn:St; [|discriminate].
    destruct (Hs m1 tasks1 eq_refl) as [L [T1 Prog]]. clear Hs.
    pose proof (AI_le _ _ _ _ L Hai) as Hai1.
    destruct (launch k tasks1 futures futured) as [f1 fd1] eqn:La.
    pose proof (launch_AI m1 tasks1 _ _ _ _ Hai1 T1 La) as Hai2.
    destruct Prog as [Prog|[-> [-> Dn]]].
    - (* something is or gets launched: one future completes *)
      pose proof (launch_nonempty m1 tasks1 _ _ _ _ Hai1 (fun j Hj => proj1 (T1 j Hj)) Prog La) as Hne.
      destruct f1 as [|x0 fr]; [congruence|]. clear Hne. cbv beta iota zeta.
      set (f1 := x0 :: fr) in *.
      set (c := oracle i). set (j := nth (fst c mod List.length f1) f1 0).
      assert (Hj : In j f1).
      { apply nth_In. apply Nat.mod_upper_bound. subst f1. cbn. lia. }
      destruct Hai2 as [N [A [B E]]]. destruct (A j Hj) as [Qj [Fj Oj]].
      destruct (remove_one_some Nat.eqb Nat.eqb_eq j f1 Hj) as [f2 Hr]. rewrite Hr.
      set (m1' := sset m1 j (if snd c then Errored else Succ)).
      assert (Hmu1 : mu m1' order + 1 = mu m1 order).
      { pose proof (mu_sset_in m1 j (if snd c then Errored else Succ) order ND Oj) as Hm.
        rewrite Qj in Hm. fold m1' in Hm. destruct (snd c); cbn in Hm; lia. }
      destruct (poll pd order m1') as [m2 tasks2] eqn:P.
      destruct (poll_spec _ _ _ _ _ P) as [L2 [Q2 _]].
      apply IH.
      + apply (AI_le m1'); [exact L2|].
        destruct (remove_one_nodup Nat.eqb Nat.eqb_eq _ _ _ Hr N) as [N2 Nj].
        split; [exact N2|]. split; [|split].
        * intros x Hx. assert (Hx1 : In x f1) by (eapply (remove_one_incl Nat.eqb Nat.eqb_eq); eauto).
          destruct (A x Hx1) as [Qx R]. split; [|exact R]. unfold m1'. rewrite sset_other; [exact Qx|].
          intros ->. contradiction.
        * intros x Hq Hf. destruct (Nat.eq_dec x j) as [->|Hne].
          -- unfold m1' in Hq. rewrite sset_same in Hq. destruct (snd c); discriminate.
          -- unfold m1' in Hq. rewrite sset_other in Hq by assumption.
             eapply (remove_one_other Nat.eqb Nat.eqb_eq); eauto.
        * intros x Hf. destruct (Nat.eq_dec x j) as [->|Hne].
          -- unfold m1'. rewrite sset_same. destruct (snd c); discriminate.
          -- unfold m1'. rewrite sset_other by assumption. auto.
      + exact Q2.
      + pose proof (le_st_mu _ _ order L). pose proof (le_st_mu _ _ order L2). lia.
    - (* nothing left to do: the loop condition is false at the next test *)
      cbn in La. inversion La; subst f1 fd1.
      unfold poll. rewrite (all_done_poll pd order m1 [] [] Dn). cbv beta iota.
      rewrite (async_done fuel i m1 futured ran Dn). discriminate.
  Qed.

  (* both for every oracle and every max_concurrent >= 1, and for ANY predecessor dictionary and
     node list (cyclic or not): 2|nodes|+2 iterations always suffice; a stuck state ends in StallError *)
  Theorem async_terminates : run_async (2 * List.length order + 2) pd order k oracle <> OutOfFuel.
  Proof.
    unfold run_async. destruct (poll pd order (fun _ => NotStarted)) as [m1 tasks] eqn:P.
    destruct (poll_spec _ _ _ _ _ P) as [L [Q _]]. apply async_no_fuel_out.
    - split; [constructor|]. split; [intros j []|]. split; [intros x _ []|intros x []].
    - exact Q.
    - pose proof (le_st_mu _ _ order L).
      assert (mu (fun _ => NotStarted) order = 2 * List.length order).
      { clear. induction order as [|x r IH]; cbn [mu List.length]; [reflexivity|]. cbn [weight]. lia. }
      lia.
  Qed.
End Async.

(* ================= the synchronous loop ================= *)
(* every predecessor of a node stands before it in the list the scheduler scans *)
Definition order_valid (pd : dict) (order : list node) : Prop :=
  forall l1 n l2, order = l1 ++ n :: l2 -> forall p, In p (plist pd n) -> In p l1.

Section Sync.
  Variables (pd : dict) (order : list node) (fails : node -> bool).
  Hypothesis ND : NoDup order.
  Hypothesis OV : order_valid pd order.

  Lemma mu_sset_le m n s : weight s <= weight (m n) -> mu (sset m n s) order <= mu m order.
  Proof.
    intros H. destruct (in_dec Nat.eq_dec n order) as [Hin|Hn].
    - pose proof (mu_sset_in m n s order ND Hin). lia.
    - rewrite mu_sset_notin by assumption. lia.
  Qed.

  (* with a valid order and nothing queued, a poll always finds something to do *)
  Lemma scan_progress : forall suffix prefix m tasks,
    order = prefix ++ suffix ->
    (forall x, In x prefix -> done_st (m x) = true) ->
    (forall x, In x suffix -> m x <> Queued) ->
    all_done suffix m = false ->
    mu (fst (poll_scan pd suffix m [] tasks)) order < mu m order.
  Proof.
    induction suffix as [|n r IH]; intros prefix m tasks Ho Hp Hq Hd; [discriminate|].
    cbn [poll_scan]. destruct (done_st (m n)) eqn:Dn.
    - apply (IH (prefix ++ [n])).
      + rewrite <- app_assoc. exact Ho.
      + intros x Hx. apply in_app_or in Hx. destruct Hx as [Hx|[<-|[]]]; auto.
      + intros x Hx. apply Hq. now right.
      + cbn in Hd. rewrite Dn in Hd. exact Hd.
    - assert (Hb : existsb (fun p => memb p []) (plist pd n) = false).
      { clear. induction (plist pd n); cbn; auto. }
      rewrite Hb.
      assert (Hn : m n = NotStarted).
      { pose proof (Hq n (or_introl eq_refl)). destruct (m n); cbn in Dn; congruence. }
      assert (Hin : In n order) by (rewrite Ho; apply in_or_app; right; now left).
      assert (Hpreds : forall p, In p (plist pd n) -> done_st (m p) = true)
        by (intros p Hpp; apply Hp; eapply OV; eauto).
      set (m1 := node_poll pd m n).
      assert (Hm1 : mu m1 order < mu m order).
      { unfold m1, node_poll. destruct (existsb (fun p => failed_st (m p)) (plist pd n)).
        - rewrite Hn. pose proof (mu_sset_in m n Unrunnable order ND Hin) as E. rewrite Hn in E. cbn in E. lia.
        - assert (Hall : forallb (fun p => done_st (m p)) (plist pd n) = true) by (apply forallb_forall; exact Hpreds).
          rewrite Hall, Hn. pose proof (mu_sset_in m n Queued order ND Hin) as E. rewrite Hn in E. cbn in E. lia. }
      match goal with |- mu (fst (poll_scan pd r m1 ?ns ?t)) order < _ =>
        pose proof (le_st_mu _ _ order (poll_scan_le pd r m1 ns t)) end. lia.
  Qed.

  Lemma poll_progress m :
    (forall x, m x <> Queued) -> all_done order m = false -> mu (fst (poll pd order m)) order < mu m order.
  Proof.
    intros Hq Hd. unfold poll. apply (scan_progress order [] m []); auto; intros x [].
  Qed.

  Lemma run_tasks_spec tasks : forall m ran m1 ran1,
    run_tasks fails tasks m ran = (m1, ran1, false) ->
    (forall x, In x tasks -> m1 x = Succ) /\ (forall x, ~ In x tasks -> m1 x = m x) /\ mu m1 order <= mu m order.
  Proof.
    induction tasks as [|j r IH]; intros m ran m1 ran1 H; cbn in H.
    - inversion H; subst. repeat split; auto. intros x [].
    - destruct (fails j); [discriminate|]. destruct (IH _ _ _ _ H) as [A [B C]]. repeat split.
      + intros x [<-|Hx]; [|auto]. destruct (in_dec Nat.eq_dec j r) as [Hj|Hj]; [auto|].
        rewrite (B j Hj). apply sset_same.
      + intros x Hx. rewrite B by (intros Hr; apply Hx; now right). apply sset_other. intros ->. apply Hx. now left.
      + pose proof (mu_sset_le m j Succ (Nat.le_0_l _)). cbn [weight] in *. lia.
  Qed.

  Lemma run_tasks_strict j r m ran m1 ran1 :
    run_tasks fails (j :: r) m ran = (m1, ran1, false) -> m j = Queued -> In j order ->
    mu m1 order < mu m order.
  Proof.
    intros H Hq Hin. cbn in H. destruct (fails j); [discriminate|].
    destruct (run_tasks_spec _ _ _ _ _ H) as [_ [_ C]].
    pose proof (mu_sset_in m j Succ order ND Hin) as E. rewrite Hq in E. cbn in E. lia.
  Qed.

  Definition SI (m : smap) (tasks : list node) : Prop :=
    (forall x, m x = Queued -> In x tasks) /\ (forall j, In j tasks -> m j = Queued /\ In j order).

  Lemma sync_unfold fuel m tasks ran :
    sync_loop (S fuel) pd order fails m tasks ran =
    if nonempty tasks || negb (all_done order m) then
      let '(m1, ran1, raised) := run_tasks fails tasks m ran in
      if raised then JobError ran1 else
      let (m2, tasks2) := poll pd order m1 in sync_loop fuel pd order fails m2 tasks2 ran1
    else Finished ran (snapshot_of order m).
  Proof. reflexivity. Qed.

  Lemma sync_no_fuel_out : forall fuel m tasks ran,
    SI m tasks -> mu m order + 1 <= fuel -> sync_loop fuel pd order fails m tasks ran <> OutOfFuel.
  Proof.
    induction fuel as [|fuel IH]; intros m tasks ran [Q T] Hmu; [lia|].
    rewrite sync_unfold. destruct (nonempty tasks || negb (all_done order m)) eqn:Cond; [|discriminate].
    destruct (run_tasks fails tasks m ran) as [[m1 ran1] raised] eqn:R.
    destruct raised; [discriminate|].
    destruct (run_tasks_spec _ _ _ _ _ R) as [A [B C]].
    assert (Hnq : forall x, m1 x <> Queued).
    { intros x Hx. destruct (in_dec Nat.eq_dec x tasks) as [Hi|Hi]; [rewrite (A x Hi) in Hx; discriminate|].
      rewrite (B x Hi) in Hx. apply Hi, Q, Hx. }
    destruct (poll pd order m1) as [m2 tasks2] eqn:P.
    destruct (poll_spec _ _ _ _ _ P) as [L [Q2 C2]].
    apply IH.
    - split; [|exact Q2]. intros x Hx. destruct (C2 x Hx) as [H1|H1]; [exfalso; exact (Hnq x H1)|exact H1].
    - assert (mu m2 order < mu m order); [|lia].
      pose proof (le_st_mu _ _ order L) as Lm.
      destruct tasks as [|j r].
      + (* nothing was runnable: the poll itself must progress *)
        cbn in R. inversion R; subst m1 ran1. cbn in Cond. apply negb_true_iff in Cond.
        pose proof (poll_progress m Hnq Cond) as Pp. rewrite P in Pp. exact Pp.
      + destruct (T j (or_introl eq_refl)) as [Qj Oj].
        pose proof (run_tasks_strict _ _ _ _ _ _ R Qj Oj). lia.
  Qed.

  (* with a valid topological order the synchronous loop needs at most 2|nodes|+1 iterations:
     it ends with every node done, or with the exception of the first failing job *)
  Theorem sync_terminates : run_sync (2 * List.length order + 1) pd order fails <> OutOfFuel.
  Proof.
    unfold run_sync. destruct (poll pd order (fun _ => NotStarted)) as [m1 tasks] eqn:P.
    destruct (poll_spec _ _ _ _ _ P) as [L [Q C]]. apply sync_no_fuel_out.
    - split; [|exact Q]. intros x Hx. destruct (C x Hx) as [H|H]; [discriminate|exact H].
    - pose proof (le_st_mu _ _ order L).
      assert (mu (fun _ => NotStarted) order = 2 * List.length order).
      { clear. induction order as [|x r IH]; cbn [mu List.length]; [reflexivity|]. cbn [weight]. lia. }
      lia.
  Qed.
End Sync.
