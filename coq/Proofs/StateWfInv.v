(* Proofs/StateWfInv.v — C03: the invariant between the model's per-node tables and the spec's
   origin-coordinate boxes, and what LazyOutField._get_value returns under it. *)
From Pydra Require Import Base.Prelude Model.StateWf Spec.StateWf Proofs.StateWfLists.
Local Open Scope nat_scope.

Section Inv.
Variable wf : workflow.
Definition lens (ks : list key) : list nat := map (key_len wf) ks.

(* ---------- agree / subrow ---------- *)
Lemma option_nat_eqb_eq (a b : option nat) : option_eqb Nat.eqb a b = true <-> a = b.
Proof.
  destruct a, b; cbn; try (split; congruence).
  rewrite Nat.eqb_eq. split; congruence.
Qed.
Lemma agree_iff ks r1 r2 : agree ks r1 r2 = true <-> forall k, In k ks -> lookup r1 k = lookup r2 k.
Proof.
  unfold agree. rewrite forallb_forall. split; intros H k Hk; [apply option_nat_eqb_eq | apply option_nat_eqb_eq]; auto.
Qed.
Lemma agree_nil r1 r2 : agree [] r1 r2 = true.
Proof. reflexivity. Qed.
Lemma agree_filter_ext ks r1 r2 (l : list row) :
  agree ks r1 r2 = true -> filter (agree ks r1) l = filter (agree ks r2) l.
Proof.
  intros H. apply filter_ext. intros r. rewrite agree_iff in H.
  destruct (agree ks r1 r) eqn:E1, (agree ks r2 r) eqn:E2; try reflexivity.
  - rewrite agree_iff in E1. assert (agree ks r2 r = true) by (apply agree_iff; intros k Hk; rewrite <- H, E1; auto). congruence.
  - rewrite agree_iff in E2. assert (agree ks r1 r = true) by (apply agree_iff; intros k Hk; rewrite H, E2; auto). congruence.
Qed.

Lemma lookup_combine_nodup ks vs k v :
  NoDup ks -> In (k, v) (combine ks vs) -> lookup (combine ks vs) k = Some v.
Proof.
  revert vs; induction ks as [|k0 ks IH]; intros [|v0 vs] Hnd Hin; cbn in *; try contradiction.
  inversion Hnd; subst. destruct Hin as [E|Hin].
  - inversion E; subst. rewrite key_eqb_refl. reflexivity.
  - destruct (key_eqb k0 k) eqn:E.
    + apply key_eqb_eq in E; subst. exfalso. apply H1. eapply in_map_fst_combine. apply in_map_iff. exists (k, v). split; [reflexivity | exact Hin].
    + apply IH; assumption.
Qed.
Lemma lookup_in d k v : lookup d k = Some v -> In (k, v) d.
Proof.
  induction d as [|[k' v'] d IH]; cbn; [discriminate|].
  destruct (key_eqb k' k) eqn:E.
  - apply key_eqb_eq in E; subst. intros H; inversion H; subst. left; reflexivity.
  - intros H; right; apply IH; exact H.
Qed.
(* group_values' superset test is the spec's "agrees on the un-combined axes" *)
Lemma subrow_agree ks t r :
  NoDup ks -> List.length ks = List.length t ->
  subrow (combine ks t) r = agree ks (combine ks t) r.
Proof.
  intros Hnd HL.
  destruct (agree ks (combine ks t) r) eqn:E.
  - rewrite agree_iff in E. unfold subrow. apply forallb_forall. intros [k v] Hin; cbn.
    assert (Hk : In k ks) by (eapply in_map_fst_combine; apply in_map_iff; exists (k, v); split; [reflexivity | exact Hin]).
    rewrite <- (E k Hk). rewrite (lookup_combine_nodup _ _ _ _ Hnd Hin). apply Nat.eqb_refl.
  - destruct (subrow (combine ks t) r) eqn:E2; [|reflexivity]. exfalso.
    assert (agree ks (combine ks t) r = true); [|congruence].
    apply agree_iff. intros k Hk. destruct (lookup_combine_some ks t k Hk HL) as [v Hv].
    rewrite Hv. unfold subrow in E2. rewrite forallb_forall in E2.
    specialize (E2 (k, v) (lookup_in _ _ _ Hv)). cbn in E2.
    destruct (lookup r k); [apply Nat.eqb_eq in E2; subst; reflexivity | discriminate].
Qed.

(* ---------- boxes ---------- *)
Lemma box_idx_empty_iff l : box_idx l = [] <-> In 0 l.
Proof.
  induction l as [|n l IH].
  - cbn. split; [discriminate | intros []].
  - change (n :: l) with ([n] ++ l). rewrite box_idx_app.
    change (box_idx [n]) with (prod2 (map (fun i => [i]) (seq 0 n)) [[]]). rewrite prod2_nil_r.
    split.
    + intros H. destruct n as [|n]; [left; reflexivity|]. right. apply IH.
      destruct (box_idx l) as [|y ys] eqn:E; [reflexivity|].
      exfalso. assert (Hin : In ([0] ++ y) (prod2 (map (fun i => [i]) (seq 0 (S n))) (y :: ys))).
      { apply In_prod2. exists [0], y. split; [cbn; left; reflexivity | split; [left; reflexivity | reflexivity]]. }
      rewrite H in Hin. exact Hin.
    + intros [->|H]; [reflexivity|]. apply IH in H. rewrite H. apply prod2_empty_r.
Qed.
Lemma box_empty_iff ks : box wf ks = [] <-> In 0 (lens ks).
Proof.
  unfold box. rewrite <- box_idx_empty_iff. fold (lens ks).
  destruct (box_idx (lens ks)); cbn; split; intros H; try reflexivity; discriminate H.
Qed.
Lemma box_length ks : List.length (box wf ks) = List.length (box_idx (lens ks)).
Proof. unfold box. apply map_length. Qed.
Lemma box_nth ks i : i < List.length (box_idx (lens ks)) ->
  nth i (box wf ks) [] = combine ks (nth i (box_idx (lens ks)) []).
Proof.
  intros H. change (box wf ks) with (map (combine ks) (box_idx (lens ks))).
  rewrite (nth_indep (map (combine ks) (box_idx (lens ks))) [] (combine ks [])) by (rewrite map_length; exact H).
  apply (map_nth (combine ks)).
Qed.
Lemma lens_app a b : lens (a ++ b) = lens a ++ lens b.
Proof. apply map_app. Qed.
Lemma lens_length a : List.length (lens a) = List.length a.
Proof. apply map_length. Qed.
Lemma lens_sub_zero a b : incl a b -> In 0 (lens a) -> In 0 (lens b).
Proof.
  unfold lens. intros Hi H. apply in_map_iff in H. destruct H as [k [E Hk]]. apply in_map_iff. exists k. auto.
Qed.


(* ---------- the invariant ---------- *)
Record state_ok (stab : list sentry) (j : nat) (nd : node) (se : sentry) (s : mstate) : Prop := {
  so_prev_incl : incl (m_prev s) (ups stab (n_fields nd));
  so_other_nil : ups stab (n_fields nd) = [] -> m_other s = [];
  so_exact : List.length (ups stab (n_fields nd)) <= 1 ->
             m_prev s = ups stab (n_fields nd) /\ map fst (m_other s) = ups stab (n_fields nd);
  so_cur : m_cur s = map (fun f => (j, f)) (n_split nd);
  so_comb : m_comb s = n_comb nd;
  so_rpnf : m_rpnf s = s_faxes se;
  so_keys : m_keys s = s_axes se;
  so_sind : m_sind s = box wf (s_axes se);
  so_keysf : m_keysf s = s_faxes se;
  so_indf : m_indf s = if negb (is_nil (n_comb nd)) && is_nil (s_faxes se) then [] else box_idx (lens (s_faxes se));
  so_sindf : m_sindf s = map (mkdict (s_faxes se)) (m_indf s);
  so_jobs : m_jobs s = map (s_sem se) (box wf (s_axes se))
}.

Record entry_ok (stab : list sentry) (j : nat) (nd : node) (me : mnode) (se : sentry) : Prop := {
  eo_nodup : NoDup (s_axes se);
  eo_bound : forall k, In k (s_axes se) -> fst k <= j;
  eo_axes : s_axes se = up_axes stab (n_fields nd) ++ map (fun f => (j, f)) (n_split nd);
  eo_faxes : s_faxes se = filter (fun k => negb (memk k (n_comb nd))) (s_axes se);
  eo_comb : incl (n_comb nd) (s_axes se);
  eo_sem_ext : forall r1 r2, agree (s_axes se) r1 r2 = true -> s_sem se r1 = s_sem se r2;
  eo_out : forall rho, s_out se rho =
             if is_nil (n_comb nd) then s_sem se rho
             else VList (map (s_sem se) (filter (agree (s_faxes se) rho) (box wf (s_axes se))));
  eo_stateless : s_axes se = [] -> me = MStateless (s_sem se []);
  eo_state : s_axes se <> [] -> exists s, me = MState s /\ state_ok stab j nd se s
}.

Section Entry.
Variables (stab : list sentry) (j : nat) (nd : node) (me : mnode) (se : sentry).
Hypothesis EO : entry_ok stab j nd me se.

Lemma eo_comb_nil_faxes : n_comb nd = [] -> s_faxes se = s_axes se.
Proof.
  intros E. rewrite (eo_faxes _ _ _ _ _ EO), E. clear.
  induction (s_axes se) as [|a l IH]; [reflexivity|]. cbn. f_equal. exact IH.
Qed.
Lemma eo_faxes_incl : incl (s_faxes se) (s_axes se).
Proof. rewrite (eo_faxes _ _ _ _ _ EO). intros k H. apply filter_In in H. tauto. Qed.
Lemma eo_faxes_nodup : NoDup (s_faxes se).
Proof. rewrite (eo_faxes _ _ _ _ _ EO). apply NoDup_filter. exact (eo_nodup _ _ _ _ _ EO). Qed.
Lemma eo_axes_nil_comb : s_axes se = [] -> n_comb nd = [].
Proof.
  intros E. pose proof (eo_comb _ _ _ _ _ EO) as H. rewrite E in H.
  destruct (n_comb nd) as [|k r]; [reflexivity|]. exfalso. apply (H k). left; reflexivity.
Qed.
Lemma eo_faxes_nil_comb : s_axes se <> [] -> s_faxes se = [] -> n_comb nd <> [].
Proof. intros H1 H2 E. apply H1. rewrite <- (eo_comb_nil_faxes E). exact H2. Qed.

Lemma eo_out_ext r1 r2 : agree (s_faxes se) r1 r2 = true -> s_out se r1 = s_out se r2.
Proof.
  intros H. rewrite !(eo_out _ _ _ _ _ EO). destruct (is_nil (n_comb nd)) eqn:E.
  - apply is_nil_true in E. apply (eo_sem_ext _ _ _ _ _ EO). rewrite <- (eo_comb_nil_faxes E). exact H.
  - rewrite (agree_filter_ext _ _ _ _ H). reflexivity.
Qed.

(* a consumer that sees no open axis of this node gets its whole (combined) output *)
Lemma get_value_none_closed rho : s_faxes se = [] -> get_value me None = Some (s_out se rho).
Proof.
  intros HF. rewrite (eo_out_ext rho []) by (rewrite HF; reflexivity).
  destruct (s_axes se) as [|k0 ax] eqn:EA.
  - rewrite (eo_stateless _ _ _ _ _ EO EA). cbn. rewrite (eo_out _ _ _ _ _ EO).
    rewrite (eo_axes_nil_comb EA). reflexivity.
  - assert (HA : s_axes se <> []) by (rewrite EA; discriminate).
    destruct (eo_state _ _ _ _ _ EO HA) as [s [Eme SO]]. rewrite Eme.
    pose proof (eo_faxes_nil_comb HA HF) as HC.
    rewrite (eo_out _ _ _ _ _ EO). apply is_nil_false in HC. rewrite HC.
    cbn [get_value]. rewrite (so_jobs _ _ _ _ _ SO), (so_comb _ _ _ _ _ SO), (so_indf _ _ _ _ _ SO), HC, HF. cbn [negb andb is_nil].
    rewrite EA.
    assert (Hf : filter (agree [] []) (box wf (k0 :: ax)) = box wf (k0 :: ax)).
    { clear. induction (box wf (k0 :: ax)); cbn; congruence. }
    rewrite Hf. cbn [negb andb]. destruct (map (s_sem se) (box wf (k0 :: ax))); reflexivity.
Qed.

(* a consumer job holding index i into this node's final state list *)
Lemma get_value_some i : s_faxes se <> [] -> i < List.length (box_idx (lens (s_faxes se))) ->
  get_value me (Some i) = Some (s_out se (nth i (box wf (s_faxes se)) [])).
Proof.
  intros HF Hi.
  assert (HA : s_axes se <> []).
  { intros E. apply HF. pose proof eo_faxes_incl as H. rewrite E in H. destruct (s_faxes se) as [|k r]; [reflexivity|]. exfalso; apply (H k); left; reflexivity. }
  destruct (eo_state _ _ _ _ _ EO HA) as [s [Eme SO]]. rewrite Eme.
  apply is_nil_false in HF.
  assert (Hindf : m_indf s = box_idx (lens (s_faxes se))).
  { rewrite (so_indf _ _ _ _ _ SO), HF, andb_false_r. reflexivity. }
  rewrite (eo_out _ _ _ _ _ EO). cbn [get_value].
  rewrite (so_jobs _ _ _ _ _ SO), (so_comb _ _ _ _ _ SO), Hindf.
  destruct (is_nil (n_comb nd)) eqn:EC.
  - (* no combiner: faxes = axes *)
    apply is_nil_true in EC. pose proof (eo_comb_nil_faxes EC) as EF. cbn [negb andb].
    rewrite EF in *. rewrite <- box_length in Hi.
    destruct (map (s_sem se) (box wf (s_axes se))) as [|v vs] eqn:EM.
    + exfalso. apply (f_equal (@List.length val)) in EM. rewrite map_length in EM. cbn in EM. lia.
    + cbn [is_nil andb]. rewrite <- EM. rewrite (nth_error_nth' _ (s_sem se [])) by (rewrite map_length; exact Hi).
      f_equal. apply (map_nth (s_sem se)).
  - cbn [negb].
    destruct (box_idx (lens (s_faxes se))) as [|t0 ts] eqn:EB; [cbn in Hi; lia|]. cbn [is_nil negb andb].
    rewrite andb_false_r. cbn [is_nil].
    unfold group_values. rewrite (so_sindf _ _ _ _ _ SO), Hindf.
    rewrite (nth_error_nth' _ (mkdict (s_faxes se) [])) by (rewrite map_length; exact Hi).
    rewrite (map_nth (mkdict (s_faxes se))).
    rewrite (so_sind _ _ _ _ _ SO), (so_jobs _ _ _ _ _ SO).
    rewrite mkdict_nodup by exact eo_faxes_nodup.
    rewrite box_nth by (rewrite EB; exact Hi). rewrite EB.
    set (t := nth i (t0 :: ts) []).
    assert (Ht : List.length (s_faxes se) = List.length t).
    { symmetry. rewrite <- (lens_length (s_faxes se)). apply box_idx_elem_length. rewrite EB. apply nth_In. exact Hi. }
    f_equal. f_equal.
    induction (box wf (s_axes se)) as [|r rs IH]; [reflexivity|].
    cbn [map combine filter fst snd]. rewrite (subrow_agree _ _ _ eo_faxes_nodup Ht).
    destruct (agree (s_faxes se) (combine (s_faxes se) t) r); cbn [map snd]; rewrite IH; reflexivity.
Qed.

Lemma map_nth_seq {A} (l : list A) d : map (fun i => nth i l d) (seq 0 (List.length l)) = l.
Proof.
  induction l as [|x l IH]; [reflexivity|]. cbn [List.length seq map nth]. f_equal.
  rewrite <- seq_shift, map_map. exact IH.
Qed.

(* the workflow output of the node: _get_value(state_index=None) *)
Lemma get_value_output : get_value me None = Some (spec_output wf se).
Proof.
  unfold spec_output.
  destruct (is_nil (s_faxes se)) eqn:HF.
  - apply is_nil_true in HF. apply get_value_none_closed. exact HF.
  - assert (HF' : s_faxes se <> []) by (apply is_nil_false; exact HF).
    assert (HA : s_axes se <> []).
    { intros E. apply HF'. pose proof eo_faxes_incl as H. rewrite E in H. destruct (s_faxes se) as [|k r]; [reflexivity|]. exfalso; apply (H k); left; reflexivity. }
    destruct (eo_state _ _ _ _ _ EO HA) as [s [Eme SO]]. rewrite Eme.
    assert (Hindf : m_indf s = box_idx (lens (s_faxes se))).
    { rewrite (so_indf _ _ _ _ _ SO), HF, andb_false_r. reflexivity. }
    cbn [get_value]. rewrite (so_jobs _ _ _ _ _ SO), (so_comb _ _ _ _ _ SO), Hindf.
    destruct (is_nil (n_comb nd)) eqn:EC; cbn [negb andb].
    + (* no combiner *)
      pose proof EC as EC'. apply is_nil_true in EC'. rewrite (eo_comb_nil_faxes EC').
      assert (EM : map (s_out se) (box wf (s_axes se)) = map (s_sem se) (box wf (s_axes se))).
      { apply map_ext. intros r. rewrite (eo_out _ _ _ _ _ EO), EC. reflexivity. }
      rewrite EM. rewrite andb_true_r. destruct (map (s_sem se) (box wf (s_axes se))); reflexivity.
    + destruct (box_idx (lens (s_faxes se))) as [|t0 ts] eqn:EB.
      * (* no remaining coordinate at all: then no job either *)
        cbn [is_nil negb andb]. rewrite andb_true_r.
        assert (EBA : box wf (s_axes se) = []).
        { apply box_empty_iff. apply (lens_sub_zero _ _ eo_faxes_incl). apply box_idx_empty_iff. exact EB. }
        rewrite EBA. cbn [map is_nil]. f_equal. f_equal.
        assert (EBF : box wf (s_faxes se) = []) by (apply box_empty_iff, box_idx_empty_iff; exact EB).
        rewrite EBF. reflexivity.
      * cbn [is_nil negb andb]. rewrite andb_false_r. rewrite <- EB.
        rewrite (all_some_map _ (fun i => s_out se (nth i (box wf (s_faxes se)) []))).
        -- cbn [option_map]. f_equal. f_equal. rewrite <- box_length.
           rewrite <- (map_map (fun i => nth i (box wf (s_faxes se)) []) (s_out se)). rewrite map_nth_seq. reflexivity.
        -- intros i Hi. apply in_seq in Hi.
           pose proof (get_value_some i HF' ltac:(lia)) as G. rewrite Eme in G. cbn [get_value] in G.
           rewrite (so_jobs _ _ _ _ _ SO), (so_comb _ _ _ _ _ SO), Hindf, EC in G. cbn [negb andb is_nil] in G.
           rewrite andb_false_r in G. exact G.
Qed.
End Entry.

End Inv.
