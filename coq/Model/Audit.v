(* Model/Audit.v — pydra/engine/audit.py (Audit.start_audit / audit_task / monitor / finalize_audit),
   the part of pydra/engine/job.py (Job.__init__, Job.run, Job.run_async) that drives it, and how
   Submitter / Job share the Audit object.  No proofs here.

   Python objects are modelled by a heap of [audit] records addressed by a reference; the record keeps
   the attributes the methods assign ([aid], [mid], [eid], [resource_monitor]).  [gen_uuid] is a counter
   ([next]); FileMessenger.send writes a message into [message_dir] if given, else into cwd/messages, so a
   message is recorded together with the place it went to.  A job tree says which jobs execute nested in
   which: the nodes of a workflow job run inside the workflow job's [task._run] (same process and same
   Audit object under the debug worker; nested workflow jobs also under an asynchronous worker). *)
From Pydra Require Import Base.Prelude.
Local Open Scope nat_scope.
Local Open Scope list_scope.

Definition uid := nat.      (* uid:<uuid4>; uuids are numbered in the order gen_uuid() is called *)
Definition loc := nat.      (* a directory: a job's cache_dir, or the message_dir *)

(* the JSON-LD messages, by the keys that identify them *)
Inductive msg :=
| MStart (aid user : uid)                            (* start_audit : @id aid, @type job, startedAtTime, executedBy *)
| MInput (ent : uid) (label : string)                (* audit_task  : one per FileSet input: @id, Label, @type input *)
| MTask (aid : uid) (label : string) (has_cmd : bool)(* audit_task  : @id aid, Label, Command, StartedAtTime *)
| MMonStart (mid aid : uid)                          (* monitor     : @id mid, @type monitor, wasStartedBy aid *)
| MMonEnd (mid aid : uid)                            (* finalize    : @id mid, endedAtTime, wasEndedBy aid *)
| MRuntime (eid aid : uid)                           (* finalize    : @id eid, @type runtime, prov:wasGeneratedBy aid *)
| MGen (eid mid : uid)                               (* finalize    : prov:Generation entity_generated eid hadActivity mid *)
| MEnd (aid : uid) (errored : bool).                 (* finalize    : @id aid, endedAtTime, errored *)

Definition lmsg := (loc * msg)%type.                 (* where FileMessenger wrote it, what it says *)
Definition res := (loc * bool)%type.                 (* save(cache_dir, result=result): the job's cache_dir, result.errored *)

Record audit := mkAudit { a_aid : uid; a_mid : uid; a_eid : uid; a_mon : bool }.
Definition blank : audit := mkAudit 0 0 0 false.
Definition set_aid (v : uid) (a : audit) := mkAudit v (a_mid a) (a_eid a) (a_mon a).
Definition set_mid (v : uid) (a : audit) := mkAudit (a_aid a) v (a_eid a) (a_mon a).
Definition set_eid (v : uid) (a : audit) := mkAudit (a_aid a) (a_mid a) v (a_mon a).
Definition set_mon (v : bool) (a : audit) := mkAudit (a_aid a) (a_mid a) (a_eid a) v.

(* configuration of a Submitter and of the code *)
Record cfg := mkCfg {
  c_prov : bool;            (* audit_flags & AuditFlag.PROV *)
  c_res : bool;             (* audit_flags & AuditFlag.RESOURCE *)
  c_md : option loc;        (* messenger_args["message_dir"] *)
  c_sharing : bool;         (* Job.__init__: true = [self.audit = submitter.audit] (the Audit object is shared),
                               false = [self.audit = copy(submitter.audit)]; read off the live code by the driver *)
  c_async : bool            (* worker.is_async: workflow jobs go through run_async, other jobs are cloudpickled to a worker process *)
}.

Record sys := mkSys { heap : list audit; next : uid; cwd : loc }.

Definition get (h : list audit) (r : nat) : audit := nth r h blank.
Fixpoint upd (h : list audit) (r : nat) (f : audit -> audit) : list audit :=
  match h, r with
  | [], _ => []
  | a :: h', 0 => f a :: h'
  | a :: h', S r' => a :: upd h' r' f
  end.
Definition with_heap (s : sys) (h : list audit) := mkSys h (next s) (cwd s).

(* FileMessenger.send: kwargs["message_dir"] or Path(os.getcwd()) / "messages" *)
Definition place (c : cfg) (s : sys) : loc := match c_md c with Some d => d | None => cwd s end.
Definition emit (c : cfg) (s : sys) (m : msg) : lmsg := (place c s, m).

(* Job.__init__: reference 0 is the Submitter's own Audit *)
Definition alloc (c : cfg) (is_wf : bool) (h : list audit) : nat * list audit :=
  if c_sharing c && (negb (c_async c) || is_wf) then (0, h)
  else (List.length h, h ++ [get h 0]).      (* copy(submitter.audit); or, shared and asynchronous: the pickled copy a worker process gets *)

Definition start_audit (c : cfg) (r : nat) (odir : loc) (s : sys) : sys * list lmsg :=
  let a := next s in
  let s1 := if c_prov c then mkSys (upd (heap s) r (set_aid a)) (a + 2) (cwd s) else s in
  let s2 := mkSys (heap s1) (next s1) odir in                                   (* os.chdir(self.odir) *)
  let ms := if c_prov c then [emit c s2 (MStart a (a + 1))] else [] in
  let s3 := if c_res c then with_heap s2 (upd (heap s2) r (set_mon true)) else s2 in   (* ResourceMonitor(...) opens its log file *)
  (s3, ms).

Fixpoint input_msgs (c : cfg) (s : sys) (files : list string) (n : uid) : list lmsg * uid :=
  match files with
  | [] => ([], n)
  | f :: r => let '(ms, n') := input_msgs c s r (S n) in (emit c s (MInput n f) :: ms, n')
  end.

Definition audit_task (c : cfg) (r : nat) (name : string) (files : list string) (shell : bool) (s : sys)
  : sys * list lmsg :=
  let '(ms, n') := input_msgs c s files (next s) in
  (mkSys (heap s) n' (cwd s), ms ++ [emit c s (MTask (a_aid (get (heap s) r)) name shell)]).

Definition monitor (c : cfg) (r : nat) (s : sys) : sys * list lmsg :=
  if c_res c && c_prov c then
    let h := upd (heap s) r (set_mid (next s)) in
    (mkSys h (S (next s)) (cwd s), [emit c s (MMonStart (next s) (a_aid (get h r)))])
  else (s, []).

(* returns None when [self.resource_monitor.stop()] hits a resource_monitor that is None: the
   AttributeError leaves the [finally] block of Job.run at once *)
Definition finalize_audit (c : cfg) (r : nat) (err : bool) (s : sys) : option (sys * list lmsg) :=
  let a := get (heap s) r in
  if c_res c && negb (a_mon a) then None else
  let '(s1, ms1) :=
    if c_res c then
      if c_prov c then
        let e := next s in
        (mkSys (upd (upd (heap s) r (set_eid e)) r (set_mon false)) (S e) (cwd s),
         [emit c s (MMonEnd (a_mid a) (a_aid a)); emit c s (MRuntime e (a_aid a)); emit c s (MGen e (a_mid a))])
      else (with_heap s (upd (heap s) r (set_mon false)), [])
    else (s, []) in
  Some (s1, ms1 ++ (if c_prov c then [emit c s1 (MEnd (a_aid (get (heap s1) r)) err)] else [])).

Definition out := (sys * list lmsg * list res * bool)%type.   (* state, messages sent, results saved, raised *)

(* Job.__init__ followed by Job.run / Job.run_async once the lock is held and no usable result is cached.
   [cmd_raises]: the task's command line cannot be rendered (ShellTask.cmdline raises), which audit_task
   trips over first thing.  [collect_fails]: the body returns normally but
   [result.outputs = self.task.Outputs._from_job(self)] raises (a returned value that does not fit the declared
   output type, a mandatory output file that is not there) — still inside the try block. *)
Definition frame (c : cfg) (is_wf : bool) (dir : loc) (name : string) (files : list string) (shell : bool)
                 (cmd_raises collect_fails : bool) (body : sys -> out) (s0 : sys) : out :=
  let '(r, h1) := alloc c is_wf (heap s0) in
  let s1 := with_heap s0 h1 in
  (* _populate_filesystem: save(cache_dir, job=self) cloudpickles the job with its audit; an Audit
     holding a live ResourceMonitor (open log file) cannot be pickled *)
  if a_mon (get h1 r) then (s1, [], [], true) else
  let cwd0 := cwd s1 in
  let '(s2, m_start) := start_audit c r dir s1 in
  (* try: *)
  let '(s3, m_mon) := monitor c r s2 in
  let do_task := c_prov c && negb (c_async c && is_wf) in              (* run_async never calls audit_task *)
  let '(s5, m_inner, r_body, err) :=
    if do_task && cmd_raises then (s3, [], [], true)                     (* except: result.errored = True *)
    else
      let '(s4, m_task) := if do_task then audit_task c r name files shell s3 else (s3, []) in
      let '(s5, m_body, r_body, err) := body s4 in                     (* self.task._run(self, rerun) *)
      (s5, m_task ++ m_body, r_body, err || collect_fails) in          (* result.outputs = Outputs._from_job(self) *)
  (* finally: *)
  match finalize_audit c r err s5 with
  | None => (s5, m_start ++ m_mon ++ m_inner, r_body, true)
  | Some (s6, m_fin) =>
      (mkSys (heap s6) (next s6) cwd0,                                  (* os.chdir(cwd) *)
       m_start ++ m_mon ++ m_inner ++ m_fin,
       r_body ++ [(dir, err)],                                          (* save(cache_dir, result=result, job=self) *)
       err)
  end.

(* the jobs that execute, nested as they execute *)
Inductive task :=
| Leaf (dir : loc) (name : string) (files : list string) (shell : bool) (fails : bool) (cmd_raises : bool) (collect_fails : bool)
| Wf (dir : loc) (name : string) (nodes : list task) (fails : bool).

Section Run.
  Variable c : cfg.

  (* Submitter.expand_workflow: [for job in tasks: self.worker.run(job)] — the first node job that raises
     takes the workflow job down with it; the remaining ones are never started *)
  Fixpoint run_job (t : task) : sys -> out :=
    match t with
    | Leaf d name files shell fails cr cf => frame c false d name files shell cr cf (fun s => (s, [], [], fails))
    | Wf d name nodes fails =>
        frame c true d name [] false false false
          (fun s =>
             let '(s', ms, rs, e) :=
               (fix go (l : list task) (s : sys) : out :=
                  match l with
                  | [] => (s, [], [], false)
                  | t' :: l' =>
                      let '(s1, m1, r1, e1) := run_job t' s in
                      if e1 then (s1, m1, r1, true) else
                      let '(s2, m2, r2, e2) := go l' s1 in (s2, m1 ++ m2, r1 ++ r2, e2)
                  end) nodes s in
             (s', ms, rs, e || fails))
    end.

  Fixpoint run_nodes (l : list task) (s : sys) : out :=
    match l with
    | [] => (s, [], [], false)
    | t' :: l' =>
        let '(s1, m1, r1, e1) := run_job t' s in
        if e1 then (s1, m1, r1, true) else
        let '(s2, m2, r2, e2) := run_nodes l' s1 in (s2, m1 ++ m2, r1 ++ r2, e2)
    end.

  (* successive submissions through one Submitter: an error does not stop the later ones *)
  Fixpoint run_seq (l : list task) (s : sys) : sys * list lmsg * list res :=
    match l with
    | [] => (s, [], [])
    | t :: l' =>
        let '(s1, m1, r1, _) := run_job t s in
        let '(s2, m2, r2) := run_seq l' s1 in (s2, m1 ++ m2, r1 ++ r2)
    end.
End Run.

(* a fresh Submitter: heap = its own Audit, no uuid drawn yet; the caller's cwd is some directory *)
Definition init (cwd0 : loc) : sys := mkSys [blank] 1 cwd0.
Definition session (c : cfg) (cwd0 : loc) (l : list task) : list lmsg * list res :=
  let '(_, ms, rs) := run_seq c l (init cwd0) in (ms, rs).

(* decidable equality on messages, for comparing the model's log with an observed one *)
Definition msg_eqb (a b : msg) : bool :=
  match a, b with
  | MStart x y, MStart x' y' => Nat.eqb x x' && Nat.eqb y y'
  | MInput x l, MInput x' l' => Nat.eqb x x' && String.eqb l l'
  | MTask x l c, MTask x' l' c' => Nat.eqb x x' && String.eqb l l' && Bool.eqb c c'
  | MMonStart x y, MMonStart x' y' => Nat.eqb x x' && Nat.eqb y y'
  | MMonEnd x y, MMonEnd x' y' => Nat.eqb x x' && Nat.eqb y y'
  | MRuntime x y, MRuntime x' y' => Nat.eqb x x' && Nat.eqb y y'
  | MGen x y, MGen x' y' => Nat.eqb x x' && Nat.eqb y y'
  | MEnd x e, MEnd x' e' => Nat.eqb x x' && Bool.eqb e e'
  | _, _ => false
  end.
Definition lmsg_eqb (a b : lmsg) : bool := Nat.eqb (fst a) (fst b) && msg_eqb (snd a) (snd b).
