(* Proofs/TypingStaticLive.v — C21 on the tables translated from the live source. *)
From Pydra Require Import Base.Prelude Model.Typing Spec.Typing Proofs.Typing Proofs.TypingNss Proofs.TypingStatic.
From Pydra Require Import Generated.TypingTables Proofs.TypingLive.
Local Open Scope string_scope.

Lemma live_c21 : tables_c21 live = true.
Proof. vm_compute. reflexivity. Qed.

Definition world_total (W : world) : Prop := forall f p, w_check W f p = None.
(* accepted, or a place where the model does not speak *)
Definition not_rejected (r : result val) : Prop := forall e, r = Err e -> e = EUnmodelled.

Lemma live_static_dynamic W t s v :
  world_total W -> c21_target_ok t = true -> scalar_based s = true -> s <> TBase KAny ->
  check_type live t s = Ok tt -> conforms live s v -> arity_ok t v = true ->
  not_rejected (coerce live W false t v).
Proof. intros HW. apply (static_dynamic live W live_wf live_c21 HW). Qed.

(* the statement without the restriction on the target type *)
Definition c21_statement : Prop :=
  forall W t s v, world_total W -> scalar_based t = true -> scalar_based s = true -> s <> TBase KAny ->
    check_type live t s = Ok tt -> conforms live s v -> arity_ok t v = true ->
    not_rejected (coerce live W false t v).

Lemma W_all_total : world_total W_all.
Proof. intros f p. reflexivity. Qed.

Lemma c21_refuted_unhashable : ~ c21_statement.
Proof.
  intros H.
  specialize (H W_all (TSet false (TList (TBase CInt))) (TList (TList (TBase CInt))) (VList None [VList None [VInt None 1]])
                W_all_total eq_refl eq_refl ltac:(discriminate) ltac:(vm_compute; reflexivity)).
  assert (conforms live (TList (TList (TBase CInt))) (VList None [VList None [VInt None 1]])) as Hc.
  { split; [vm_compute; reflexivity|]. exists None, [VList None [VInt None 1]]. split; [reflexivity|].
    constructor; [|constructor].
    split; [vm_compute; reflexivity|]. exists None, [VInt None 1]. split; [reflexivity|].
    constructor; [vm_compute; reflexivity|constructor]. }
  specialize (H Hc eq_refl ETypeError ltac:(vm_compute; reflexivity)). discriminate.
Qed.

(* not vacuous: a connection that is accepted, whose values are converted *)
Example ex_c21 :
  check_type live (TTupleVar (TBase CFloat)) (TList (TBase CInt)) = Ok tt /\
  coerce live W_all false (TTupleVar (TBase CFloat)) (VList None [VInt None 1; VBool true]) = Ok (VTuple None [VFloat None 1; VFloat None 1]).
Proof. split; vm_compute; reflexivity. Qed.
Example ex_c21_rejected : check_type live (TList (TBase CInt)) (TList (TBase CStr)) = Err ETypeError.
Proof. vm_compute. reflexivity. Qed.

(* finding F21a is repaired: a collection type is no longer accepted into bytes *)
Example ex_c21_bytes : check_type live (TBase CBytes) (TList (TBase CInt)) = Err ETypeError.
Proof. vm_compute. reflexivity. Qed.
