"""C16 — the max_concurrent limit is never exceeded (pydra/engine/submitter.py: get_runnable_tasks truncation,
update_status moving started jobs to 'running', expand_workflow_async launch guard)."""
from .lib import coqio, fakes
from .lib.runner import Outcome, Failure

PROP = "C16"
PROPS_FILE = "Props/C16.v"
MANIFEST = dict(
    text="Coq theorems over the model of the two scheduling loops (Model/Sched.v): C16_full (for every oracle, every "
         "k, every graph and failing set: after every prefix of the start/finish log, #launched <= #finished + k), "
         "C16_full_total (fuel >= |jobs|+2, k >= 1: the run has ended, Finished or Stalled, and the bound holds over its complete log), C16_sync (the sequential loop has at most one job started and unfinished). C16_refuted: false for the model "
         "of the code as pinned (finding F16: jobs seen running leave `queued`, the tasks[:k] truncation then admits "
         "k more) — repaired in /repo by a fix: commit. Tie: controlled fake worker (model = implementation on every "
         "poll / launch / log); plus real process-pool runs whose bodies record enter/leave timestamps (measured "
         "peak <= k) — the latter is testing, not proof.",
    note="Trusted: Coq kernel + vm_compute; hand-written model; 'executing' is over-approximated by 'launched and "
         "future not completed'; nested workflow jobs (awaited inline by the loop) are outside the model.",
    technique="Coq proof by loop invariant (|pending| <= k with the launch guard) + refutation witness for the pinned variant + differential execution + measured concurrency on the cf worker",
    design="§8 Group D / C16",
)
TIE_NAME = "Model.Sched.run_async / run_sync vs Submitter.expand_workflow_async / expand_workflow"
TRUSTED = [
    "Model/Sched.v (+Base/SchedBase.v): hand-written model of the scheduling loops",
    "modelled-not-verified: world frozen during one poll; job identity (node, state index); asyncio wake-ups = oracle",
    "harness/lib/fakeworker.py (fake Worker, hooks; body timestamps for the cf runs)",
]
ASSUMPTIONS = ["wf_graph", "max_concurrent >= 1 (checked by Submitter.__init__)"]
RULE = ("an observed run with max_concurrent = k in 1..jobs of a generated workflow (<=10 independent / chained / "
        "split jobs) under a generated oracle with jobs seen running; distinct = different (workflow, k, observed "
        "log, visibility pattern); non-trivial = >=3 jobs, >=2 nodes, >=1 edge")

SPEC = """
Definition spec_ok (c : case_t) : bool :=
  match c_k c with
  | Some k => peak (c_log c) <=? k
  | None => true
  end.
"""

SPEC_SYNC_NOTE = "sync runs: peak of the body start/finish log must be <= 1 as well (checked by the same spec when k = 1)"


def cf_cases(ctx, n):
    rng = ctx.rng
    out = []
    for _ in range(n):
        nj = rng.choice([4, 5, 6])
        k = rng.choice([1, 2, 2, 3])
        if rng.random() < 0.5:
            nodes = [dict(id=0, preds=[], split=nj)]
            jobs = [(0, i) for i in range(nj)]
        else:
            nodes = [dict(id=i, preds=[], split=None) for i in range(nj)]
            jobs = [(i, -1) for i in range(nj)]
        dur = [[n_, x, rng.choice([0.05, 0.1, 0.3, 0.6])] for n_, x in jobs]
        out.append(dict(nodes=nodes, k=k, fail=[], oracle=[], mode="cf", n_procs=rng.choice([4, 6]), dur=dur))
    return out


def burst_cases(ctx, n):
    """k >= 2, more jobs than k, oracles in which most wake-ups collect 2-3 completions at once and every still
    pending job is seen running at every poll (the jobs leave `queued`, so only the launch guard holds the limit)."""
    rng = ctx.rng
    out = []
    for _ in range(n):
        k = rng.choice([2, 2, 3])
        nj = k + rng.choice([2, 3, 4])
        shape = rng.random()
        if shape < 0.5:
            nodes = [dict(id=0, preds=[], split=nj)]
        elif shape < 0.8:
            a = rng.randint(1, nj - 1)
            nodes = [dict(id=0, preds=[], split=a), dict(id=1, preds=[], split=nj - a)]
        else:
            nodes = [dict(id=i, preds=[], split=None) for i in range(min(nj, 6))]
            nj = len(nodes)
        steps = []
        for _ in range(2 * nj + 4):
            cs = [rng.randrange(nj) for _ in range(rng.choice([1, 2, 2, 3]))]
            vis = [1 if rng.random() < 0.85 else 0 for _ in range(nj)]
            steps.append(dict(c=cs, vis=vis))
        out.append(dict(nodes=nodes, k=k, fail=[], oracle=steps, mode="async", burst=True))
    return out


def rerun_limit_cases(ctx, n):
    """Second submission with rerun=True over a warm cache, with a limit: the re-executions count against
    max_concurrent like any other job (pure bodies: tie with the model's warm start)."""
    rng = ctx.rng
    out = []
    for _ in range(n):
        nodes = fakes.gen_nodes(rng, nmin=2, nmax=5, maxjobs=8, zero_p=0.0)
        nj = sum(fakes.njobs(nd) for nd in nodes)
        out.append(dict(nodes=nodes, k=rng.randint(1, max(1, nj - 1)), fail=[],
                        oracle=fakes.gen_oracle(rng, nj, multi=0.3, visp=rng.choice([0.5, 1.0])), mode="rerun"))
    return out


def run(ctx):
    extra = (cf_cases(ctx, fakes.bud(ctx, 2, 10)) + burst_cases(ctx, fakes.bud(ctx, 14, 150))
             + rerun_limit_cases(ctx, fakes.bud(ctx, 8, 100)))
    out, cases, obs, usable, bad = fakes.drive(
        ctx, "c16", SPEC, fakes.bud(ctx, 22, 300), fakes.bud(ctx, 4, 40), fakes.bud(ctx, 8, 300), RULE,
        "more than max_concurrent jobs launched and unfinished at some instant", force_k=True, extra_cases=extra)
    peaks = []
    for i in usable:
        c, o = cases[i], obs[i]
        if c["mode"] == "cf":
            peaks.append({"k": c["k"], "jobs": len(c["dur"]), "n_procs": c["n_procs"], "measured_peak": o.get("cf_peak")})
            if o.get("cf_peak") is None or o["cf_peak"] > c["k"]:
                out.failures.append(Failure(case=c, observed=fakes.slim(o), expected={"peak<=": c["k"]}, kind="spec",
                                            note="process pool: more than max_concurrent task bodies executing at once"))
        if c["mode"] == "sync" and o.get("evlog"):
            live = peak = 0
            for e in o["evlog"]:
                live += 1 if e[0] == "L" else -1
                peak = max(peak, live)
            if peak > 1:
                out.failures.append(Failure(case=c, observed=fakes.slim(o), expected={"peak<=": 1}, kind="spec",
                                            note="sequential loop: two bodies at once"))
    out.extra["cf_worker_measured_peaks"] = peaks
    multi = [i for i in usable if cases[i]["mode"] == "async" and cases[i].get("k") and cases[i]["k"] >= 2
             and any(len(s["done"]) >= 2 for s in obs[i].get("steps") or [])]
    out.distribution["k_ge2_with_two_completions_in_one_wakeup"] = len(multi)
    out.distribution["of_those_followed_by_a_poll_with_a_job_seen_running"] = sum(
        1 for i in multi if any(len(s["done"]) >= 2 and any(t["vis"] for t in obs[i]["steps"][n + 1:])
                                for n, s in enumerate(obs[i]["steps"])))
    return out


def replay(ctx, payload):
    fakes.replay_case(ctx, payload, SPEC)
