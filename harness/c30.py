"""C30 — workflow construction caching and repeated runs are transparent
(pydra/engine/workflow.py Workflow.construct/_constructed_cache/clear_cache, pydra/compose/workflow.py
WorkflowTask.construct).

The driver generates modules of workflow definitions (source text, so that type hashes are the real
ones), runs operation histories on them in worker processes, asks a pristine forked "zygote" (pydra and
the definitions imported, nothing ever constructed) what a fresh process observes for the same task, and
lets Coq evaluate Model/WfCache.v and Spec/WfCache.v on the same histories.

Also runnable as a child:  python -m harness.c30 worker <dir> <in.json> <out.json>
"""
import copy
import json
import os
import shutil
import subprocess
import sys
import tempfile

if __name__ != "__main__":
    from .lib import coqio
    from .lib.runner import Outcome, Failure

PROP = "C30"
PROPS_FILE = "Props/C30.v"
MANIFEST = dict(
    text="Coq theorems (closed under the global context) about a model of Workflow.construct's class-level cache "
         "(type hash -> non-lazy key set -> value hash -> Workflow; exact hit, superset-of-lazy hit with deep copy + "
         "setattr, miss), clear_cache, task objects under new/setattr/copy/evolve, and a result store keyed by the task "
         "checksum: for EVERY operation history (induction over the op list) every construct/run shows what a fresh "
         "process shows (C30_partial, C30_parametric_full), a returned workflow's inputs are always the requester's "
         "(C30_no_leak, needs no parametricity), cached workflows never alias the user's task objects (C30_no_alias, object "
         "identities modelled and observed), exact and superset hits are sound (C30_exact_hit_sound, "
         "C30_superset_hit_sound). Partial: the full statement is refuted (C30_refuted_nonparametric, finding F30b): "
         "a constructor that branches on an input gets the graph built while that input was lazy; minor finding F30c: "
         "the type hash ignores the class name (hypothesis hash_type injective). The stale per-task "
         "memo (finding F30) was repaired in /repo and the model follows the repaired code. Model tied to the code by "
         "running generated histories on generated workflow modules and evaluating model and spec in Coq.",
    note="Trusted: Coq kernel + vm_compute; hand-written model; hashes are injective by hypothesis (named in the "
         "theorems); Workflow objects are immutable values in the model (in-place mutation of node states by "
         "_create_graph is covered by the differential run only); nested-workflow histories are differential only.",
    technique="Coq proof (cache invariant: every entry is the fresh construction of an earlier request; simulation of "
              "the cached history by the cache-free spec) + model/impl/fresh-process correspondence via generated cases.v",
    design="§8 Group H / C30",
)
TIE_NAME = "Model.WfCache.c_history vs Workflow.construct / WorkflowTask.construct / Task.__call__ on generated histories"
TRUSTED = [
    "Model/WfCache.v: hand-written model of Workflow.construct (exact / superset-of-lazy / miss), clear_cache, "
    "WorkflowTask.construct, of task objects (new, setattr, copy.copy, attrs.evolve) and of the result store by checksum",
    "Section variables: hash_type, hash_dict, checksum (blake2b digests) with the explicit hypotheses that they are "
    "injective (no collision) in C30_partial / C30_exact_hit_sound / C30_superset_hit_sound / C30_no_leak; ctor (the "
    "user's constructor function), subst (lazy-field resolution), eval (execution of a resolved graph): arbitrary",
    "modelled, not verified: the identity of a workflow's inputs object is modelled (C30_no_alias, tied by observing "
    "`is` on every returned wf.inputs), but nodes and their states are values (in-place mutation of node states by "
    "_create_graph/prepare_states and of node tasks is exercised by repeated construct/plot/run in the correspondence "
    "only); node-level result caching; the 'constructor' field is constant per class; nested workflows are not in "
    "the Coq model (their histories are compared with a fresh process only)",
    "the fresh-process oracle is a process forked from a zygote that imported pydra and the definitions and never "
    "constructed anything; a sample is re-checked in really fresh interpreters on every run",
]
ASSUMPTIONS = [
    "no blake2b collision among the hashed classes / value dicts / tasks of a history; the type hash separates the "
    "classes of a history (false for classes that differ only in their name: finding F30c, compared with the spec only)",
    "field names of a class are distinct; operations are construct / Workflow.construct(lazy=, dont_cache=) / run / "
    "setattr / copy.copy / attrs.evolve / clear_cache (no in-place mutation of an input value, no mutation of a returned Workflow)",
]
RULE = ("histories of 3-7 operations (new / setattr / copy / evolve / construct / Workflow.construct(lazy, dont_cache) / "
        "run in the shared or a new cache_root / clear_cache) over generated workflow classes (2-3 nodes, int and "
        "list inputs with and without defaults, split/combine nodes, `if <field>:` constructors, lazy-valued "
        "attributes); non-trivial = the model's history takes at least one exact or superset-of-lazy cache hit; "
        "distinct = different (definitions, history) pairs. A second stream (not in the Coq model, compared with the fresh "
        "process only) runs outer workflows that use a generated class as a node with lazily bound inputs: nested plots, "
        "runs, setattr, copy, construct, interleaved with direct use of the inner class. Executing histories is time-boxed.")

REPO = os.environ.get("VERIF_REPO", "/repo")
PY = "/venv/bin/python"

# ------------------------------------------------------------------------------------------------
# generated workflow modules
# ------------------------------------------------------------------------------------------------
HEADER = '''
from pydra.compose import python, workflow


@python.define
def Add(a: int, b: int) -> int:
    return a + b


@python.define
def Mul(a: int, b: int) -> int:
    return a * b


@python.define
def Sub(a: int, b: int) -> int:
    return a - b


@python.define
def Sum(a: list[int], b: int) -> int:
    return sum(a) + b
'''

OPS = ["Add", "Sub", "Mul"]


def ref_src(r):
    return {"in": lambda: r[1], "const": lambda: repr(r[1]), "node": lambda: "%s.out" % r[1]}[r[0]]()


def node_call(n, op):
    if n.get("split"):
        call = "%s(b=%s).split(a=%s)" % (op, ref_src(n["b"]), ref_src(n["a"]))
    else:
        call = "%s(a=%s, b=%s)" % (op, ref_src(n["a"]), ref_src(n["b"]))
    if n.get("combine"):
        call += '.combine("a")'
    return call


def def_src(d):
    args = []
    for f in d["fields"]:
        s = "%s: %s" % (f["name"], f["type"])
        if f.get("default") is not None:
            s += " = %r" % (f["default"],)
        args.append(s)
    lines = ["@workflow.define", "def %s(%s) -> %s:" % (d["name"], ", ".join(args), d["outtype"])]
    for n in d["nodes"]:
        if n.get("else"):
            lines.append("    if %s:" % n["else"][0])
            lines.append("        %s = workflow.add(%s, name=%r)" % (n["name"], node_call(n, n["op"]), n["name"]))
            lines.append("    else:")
            lines.append("        %s = workflow.add(%s, name=%r)" % (n["name"], node_call(n, n["else"][1]), n["name"]))
        else:
            lines.append("    %s = workflow.add(%s, name=%r)" % (n["name"], node_call(n, n["op"]), n["name"]))
    lines.append("    return %s" % ref_src(d["out"]))
    return "\n".join(lines) + "\n"


def nested_src(o):
    """outer workflow: f = <op>(x, c); inner = <Inner>(field bound to x or f.out, rest const)."""
    lines = ["@workflow.define", "def %s(x: int) -> %s:" % (o["name"], o["outtype"]),
             "    f = workflow.add(%s(a=x, b=%r), name='f')" % (o["fop"], o["fconst"])]
    kw = []
    for k, v in o["bind"].items():
        kw.append("%s=%s" % (k, {"x": "x", "f": "f.out"}[v[1]] if v[0] == "lazy" else repr(v[1])))
    lines.append("    inner = workflow.add(%s(%s), name='inner')" % (o["inner"], ", ".join(kw)))
    lines.append("    return inner.out")
    return "\n".join(lines) + "\n"


def module_src(defs, outers=()):
    return HEADER + "\n\n" + "\n\n".join(def_src(d) for d in defs) + "\n\n" + "\n\n".join(nested_src(o) for o in outers)


def gen_def(rng, idx):
    """One workflow class. Shapes: chain (ints), split (list input, state propagates / is combined),
    cond (`if flag:` picks the class of a node)."""
    name = "W%d" % idx
    shape = rng.choice(["chain", "chain", "split", "split", "cond", "cond"])
    k = rng.randrange(100)           # makes every constructor body textually distinct (type hashes differ)
    fields = []
    if shape == "split":
        fields.append({"name": "xs", "type": "list[int]", "default": None})
    else:
        fields.append({"name": "x", "type": "int", "default": rng.choice([None, None, rng.randrange(1, 6)])})
    fields.append({"name": "y", "type": "int", "default": rng.choice([None, rng.randrange(1, 6), rng.randrange(1, 6)])})
    if shape == "cond":
        fields.append({"name": "flag", "type": "int", "default": rng.choice([None, 0, 1])})
    elif rng.random() < 0.4:
        fields.append({"name": "z", "type": "int", "default": rng.choice([None, rng.randrange(1, 6)])})
    # a default must not precede a non-default in a Python signature
    fields.sort(key=lambda f: f["default"] is not None)
    ints = [["in", f["name"]] for f in fields if f["type"] == "int" and f["name"] != "flag"]

    def pick(prev):
        r = rng.random()
        if prev and r < 0.45:
            return ["node", rng.choice(prev)]
        if r < 0.85:
            return rng.choice(ints)
        return ["const", rng.randrange(1, 9)]

    nodes = []
    if shape == "split":
        comb = rng.random() < 0.5
        nodes.append({"name": "n1", "op": rng.choice(OPS), "a": ["in", "xs"], "b": rng.choice(ints + [["const", k + 1]]),
                      "split": True, "combine": comb})
        if comb:
            nodes.append({"name": "n2", "op": "Sum", "a": ["node", "n1"], "b": rng.choice(ints + [["const", k]])})
            if rng.random() < 0.5:
                nodes.append({"name": "n3", "op": rng.choice(OPS), "a": ["node", "n2"], "b": rng.choice(ints + [["const", k]])})
            outtype = "int"
        else:
            nodes.append({"name": "n2", "op": rng.choice(OPS), "a": ["node", "n1"], "b": rng.choice(ints + [["const", k]])})
            outtype = "list[int]"
    else:
        nn = rng.choice([2, 2, 3])
        prev = []
        for i in range(nn):
            a, b = pick(prev), pick(prev)
            if i == 0:
                a = ["in", "x"]
            if i == nn - 1 and prev and a[0] != "node" and b[0] != "node":
                a = ["node", prev[-1]]
            nodes.append({"name": "n%d" % (i + 1), "op": rng.choice(OPS), "a": a, "b": b})
            prev.append("n%d" % (i + 1))
        nodes[-1]["b"] = ["const", k + 10] if rng.random() < 0.3 else nodes[-1]["b"]
        nodes[0]["b"] = ["const", k + 20] if nodes[0]["b"][0] == "const" else nodes[0]["b"]
        if shape == "cond":
            j = rng.randrange(nn)
            other = rng.choice([o for o in OPS if o != nodes[j]["op"]])
            nodes[j]["else"] = ["flag", other]
        outtype = "int"
    d = {"name": name, "shape": shape, "fields": fields, "nodes": nodes, "out": ["node", nodes[-1]["name"]],
         "outtype": outtype, "salt": k}
    # the salt goes into the source as a constant so that no two generated bodies are equal
    if not any(r[0] == "const" for n in nodes for r in (n["a"], n["b"])):
        nodes[-1]["b"] = ["const", k + 30] if nodes[-1]["op"] != "Sum" and shape != "split" else nodes[-1]["b"]
    return d


def gen_value(rng, ftype, name):
    if ftype == "list[int]":
        return [rng.randrange(-3, 9) for _ in range(rng.choice([1, 2, 3]))]
    if name == "flag":
        return rng.choice([0, 0, 1, 2])
    return rng.randrange(-3, 12)


def gen_history(rng, defs, nops):
    """ops (python form):
       ["new", def_idx, {field: value | "LAZY"}]    ["set", obj, field, value]   ["copy", obj]
       ["evolve", obj, {field: value}]  ["construct", obj]  ["wconstruct", obj, [lazy...], dont_cache]
       ["run", obj, new_root]  ["clear", def_idx | None]
    The generator keeps operations valid: a field that is unset (NOTHING) or lazy-valued is always in `lazy`
    when constructing, and run is only used on fully specified objects."""
    ops, objs = [], []       # objs: {"def": i, "vals": {field: value|"LAZY"|None}}
    snaps = []               # (def, vals) as they were when an object was used for a construction / run

    def unset(o):
        return [f for f, v in o["vals"].items() if v is None]

    def lazyv(o):
        return [f for f, v in o["vals"].items() if v == "LAZY"]

    d0 = rng.randrange(len(defs))
    while len(ops) < nops:
        if not objs or (rng.random() < 0.18 and len(objs) < 4):
            di = d0 if rng.random() < 0.75 else rng.randrange(len(defs))
            d = defs[di]
            given, vals = {}, {}
            old = [v for dd, v in snaps if dd == di]
            if old and rng.random() < 0.5:
                # a new task with the values an earlier task had when it was constructed (that task may have been
                # changed since: the cached workflow must still show the old values)
                vals = dict(rng.choice(old))
                given = {f: v for f, v in vals.items() if v is not None}
                ops.append(["new", di, given])
                objs.append({"def": di, "vals": vals})
                continue
            base = objs[-1]["vals"] if objs and objs[-1]["def"] == di and rng.random() < 0.6 else None
            for f in d["fields"]:
                r = rng.random()
                if f["default"] is None and r < 0.12:
                    vals[f["name"]] = None                      # left unset (NOTHING)
                elif r < 0.2:
                    given[f["name"]] = vals[f["name"]] = "LAZY"  # lazy field of an enclosing workflow
                elif f["default"] is not None and r < 0.5:
                    vals[f["name"]] = f["default"]
                else:
                    v = base[f["name"]] if base and base.get(f["name"]) not in (None, "LAZY") and rng.random() < 0.7 \
                        else gen_value(rng, f["type"], f["name"])
                    given[f["name"]] = vals[f["name"]] = v
            ops.append(["new", di, given])
            objs.append({"def": di, "vals": vals})
            continue
        oi = rng.randrange(len(objs))
        o = objs[oi]
        d = defs[o["def"]]
        r = rng.random()
        if r < 0.17:
            f = rng.choice(d["fields"])
            pool = [p["vals"][f["name"]] for p in objs if p["def"] == o["def"] and p["vals"][f["name"]] not in (None, "LAZY")]
            v = rng.choice(pool) if pool and rng.random() < 0.5 else gen_value(rng, f["type"], f["name"])
            ops.append(["set", oi, f["name"], v])
            o["vals"][f["name"]] = v
        elif r < 0.23 and len(objs) < 5:
            ops.append(["copy", oi])
            objs.append({"def": o["def"], "vals": dict(o["vals"])})
        elif r < 0.31 and len(objs) < 5:
            f = rng.choice(d["fields"])
            v = gen_value(rng, f["type"], f["name"])
            ops.append(["evolve", oi, {f["name"]: v}])
            nv = dict(o["vals"])
            nv[f["name"]] = v
            objs.append({"def": o["def"], "vals": nv})
        elif r < 0.36:
            ops.append(["clear", rng.choice([None, None, o["def"], rng.randrange(len(defs))])])
        elif r < 0.58:
            names = [f["name"] for f in d["fields"]]
            prev = [p[2] for p in ops if p[0] == "wconstruct" and objs[p[1]]["def"] == o["def"]]
            if prev and rng.random() < 0.45:      # the same lazy set again (exact hits on partly lazy workflows)
                lazy = sorted(set(unset(o)) | set(rng.choice(prev)))
            else:
                lazy = sorted(set(unset(o)) | set(rng.sample(names, rng.choice([0, 1, 1, 2, len(names)][:len(names) + 1]))))
            ops.append(["wconstruct", oi, lazy, rng.random() < 0.12])
            snaps.append((o["def"], dict(o["vals"])))
        elif unset(o):
            f = rng.choice(unset(o))
            ft = [x for x in d["fields"] if x["name"] == f][0]
            v = gen_value(rng, ft["type"], f)
            ops.append(["set", oi, f, v])
            o["vals"][f] = v
        elif lazyv(o):
            if rng.random() < 0.6:
                ops.append(["construct", oi])
                snaps.append((o["def"], dict(o["vals"])))
            else:
                f = rng.choice(lazyv(o))
                ft = [x for x in d["fields"] if x["name"] == f][0]
                v = gen_value(rng, ft["type"], f)
                ops.append(["set", oi, f, v])
                o["vals"][f] = v
        elif r < 0.78:
            ops.append(["construct", oi])
            snaps.append((o["def"], dict(o["vals"])))
        else:
            ops.append(["run", oi, rng.random() < 0.25])
            snaps.append((o["def"], dict(o["vals"])))
    return ops


# ------------------------------------------------------------------------------------------------
# Coq literals
# ------------------------------------------------------------------------------------------------
def c_val(v):
    if v is None:
        return "VNothing"
    if isinstance(v, list):
        return "(VList %s)" % coqio.lst([coqio.z(x) for x in v])
    return "(VInt %s)" % coqio.z(v)


def c_attr(v):
    return "ALazy" if v == "LAZY" else "(AVal %s)" % c_val(v)


def c_ref(r):
    return {"in": lambda: "(RIn %s)" % coqio.string(r[1]), "const": lambda: "(RConst %s)" % c_val(r[1]),
            "node": lambda: "(RNode %s)" % coqio.string(r[1])}[r[0]]()


def c_def(d):
    nodes = []
    for n in d["nodes"]:
        els = "None" if not n.get("else") else "(Some (%s, %s))" % (coqio.string(n["else"][0]), coqio.string(n["else"][1]))
        nodes.append("{| nd_name := %s; nd_op := %s; nd_else := %s; nd_a := %s; nd_b := %s; nd_split := %s; nd_combine := %s |}" % (
            coqio.string(n["name"]), coqio.string(n["op"]), els, c_ref(n["a"]), c_ref(n["b"]),
            coqio.boolean(n.get("split", False)), coqio.boolean(n.get("combine", False))))
    fields = [coqio.pair(coqio.string(f["name"]), c_attr(f["default"])) for f in d["fields"]]
    return "{| wd_name := %s; wd_fields := %s; wd_nodes := %s; wd_out := %s |}" % (
        coqio.string(d["name"]), coqio.lst(fields), coqio.lst(nodes), c_ref(d["out"]))


def c_given(g):
    return coqio.lst([coqio.pair(coqio.string(k), c_attr(v)) for k, v in g.items()])


def c_op(op, dname):
    k = op[0]
    if k == "new":
        return "(ONew %s %s)" % (dname(op[1]), c_given(op[2]))
    if k == "set":
        return "(OSet %s %s %s)" % (coqio.nat(op[1]), coqio.string(op[2]), c_attr(op[3]))
    if k == "copy":
        return "(OCopy %s)" % coqio.nat(op[1])
    if k == "evolve":
        return "(OEvolve %s %s)" % (coqio.nat(op[1]), c_given(op[2]))
    if k == "construct":
        return "(OConstruct %s)" % coqio.nat(op[1])
    if k == "wconstruct":
        return "(OWConstruct %s %s %s)" % (coqio.nat(op[1]), coqio.lst([coqio.string(s) for s in op[2]]), coqio.boolean(op[3]))
    if k == "run":
        return "(ORun %s %s)" % (coqio.nat(op[1]), coqio.boolean(op[2]))
    if k == "clear":
        return "(OClear %s)" % ("None" if op[1] is None else "(Some %s)" % dname(op[1]))
    raise ValueError(op)


def c_bind(b):
    return {"const": lambda: "(BConst %s)" % c_val(b[1]), "lzin": lambda: "(BIn %s)" % coqio.string(b[1]),
            "lzout": lambda: "(BOut %s)" % coqio.string(b[1])}[b[0]]()


def c_wf(w):
    inputs = [coqio.pair(coqio.string(f), "(LzIn %s)" % coqio.string(b[1]) if b[0] == "lzin" else "(Conc %s)" % c_val(b[1]))
              for f, b in w["inputs"]]
    nodes = ["{| gn_name := %s; gn_op := %s; gn_a := %s; gn_b := %s; gn_split := %s; gn_combine := %s |}" % (
        coqio.string(n["name"]), coqio.string(n["op"]), c_bind(n["a"]), c_bind(n["b"]),
        coqio.boolean(n["split"]), coqio.boolean(n["combine"])) for n in w["nodes"]]
    return "{| wname := %s; winputs := %s; wgraph := {| g_nodes := %s; g_out := %s |} |}" % (
        coqio.string(w["name"]), coqio.lst(inputs), coqio.lst(nodes), c_bind(w["out"]))


def c_obs(o):
    if o is None:
        return "INone"
    if o[0] == "wf":
        return "(IWf %s)" % c_wf(o[1])
    if o[0] == "out":
        return "(IOut %s)" % ("None" if o[1] is None else "(Some %s)" % c_val(o[1]))
    return "IErr"


def c_ident(x):
    if x is None:
        return "None"
    on = lambda v: "None" if v < 0 else "(Some %s)" % coqio.nat(v)   # noqa: E731
    return "(Some (%s, %s))" % (on(x["same"]), on(x["user"]))


EXTRA = """
Local Open Scope string_scope.
Inductive iobs := INone | IWf (w : cwf) | IOut (r : option val) | IErr.
Definition wf_eqb (a b : cwf) : bool :=
  String.eqb (wname a) (wname b) && eqb_of_dec inputs_dec (winputs a) (winputs b)
  && eqb_of_dec graph_dec (wgraph a) (wgraph b).
Definition oval_eqb (a b : option val) : bool := option_eqb (eqb_of_dec val_dec) a b.
(* model observation = implementation observation (raw: inputs and unresolved bindings) *)
Definition obs_match (m : cobs) (i : iobs) : bool :=
  match m, i with
  | NoObs, INone => true
  | ObsWf w _, IWf w' => wf_eqb w w'
  | ObsOut r _, IOut r' => oval_eqb r r'
  | ObsErr, IErr => true
  | _, _ => false
  end.
Definition view_eqb (a b : string * list (fname * arg val) * graph) : bool :=
  let '(n, i, g) := a in let '(n', i', g') := b in
  String.eqb n n' && eqb_of_dec inputs_dec i i' && eqb_of_dec graph_dec g g'.
(* spec observation = what the implementation shows (name, inputs, resolved graph; outputs) *)
Definition spec_match (s : sobs val graph (option val)) (i : iobs) : bool :=
  match s, i with
  | SNone, INone => true
  | SWf v, IWf w => view_eqb v (view val graph subst_graph w)
  | SOut r, IOut r' => oval_eqb r r'
  | SErr, IErr => true
  | _, _ => false
  end.
Fixpoint all2 {A B} (f : A -> B -> bool) (a : list A) (b : list B) : bool :=
  match a, b with
  | [], [] => true
  | x :: a', y :: b' => f x y && all2 f a' b'
  | _, _ => false
  end.
(* identity of the inputs object of a returned workflow, as the driver can see it: the first earlier operation
   that returned the same object, and the user's task object it is identical to (never, says C30_no_alias) *)
Definition idpat := option (option nat * option nat).
Fixpoint index_of (n : nat) (l : list nat) (k : nat) : option nat :=
  match l with [] => None | x :: r => if Nat.eqb x n then Some k else index_of n r (S k) end.
Fixpoint first_ret (n : nat) (l : list idobs) (k : nat) : option nat :=
  match l with
  | [] => None
  | o :: r => match id_ret o with
              | Some m => if Nat.eqb m n then Some k else first_ret n r (S k)
              | None => first_ret n r (S k)
              end
  end.
Fixpoint id_patterns (done todo : list idobs) : list idpat :=
  match todo with
  | [] => []
  | o :: r => (match id_ret o with
               | Some n => Some (first_ret n done 0, index_of n (id_user o) 0)
               | None => None
               end) :: id_patterns (done ++ [o]) r
  end.
Definition onat_eqb := option_eqb Nat.eqb.
Definition idpat_eqb (a b : idpat) : bool :=
  option_eqb (fun x y => onat_eqb (fst x) (fst y) && onat_eqb (snd x) (snd y)) a b.
Definition case_t := (list cop * list iobs * list iobs * list idpat)%type.   (* history, observed in the history, observed fresh, identities *)
Definition tie_ok (c : case_t) : bool := let '(ops, obs, _, _) := c in all2 obs_match (c_history ops) obs.
Definition spec_ok (c : case_t) : bool := let '(ops, obs, _, _) := c in all2 spec_match (c_spec_history ops) obs.
Definition fresh_ok (c : case_t) : bool := let '(ops, _, fr, _) := c in all2 spec_match (c_spec_history ops) fr.
Definition in_domain (c : case_t) : bool := let '(ops, _, _, _) := c in negb (c_excluded ops).
Definition is_hit (o : cobs) : bool :=
  match o with ObsWf _ Exact | ObsWf _ Superset | ObsOut _ (Some Exact) | ObsOut _ (Some Superset) => true | _ => false end.
Definition is_sup (o : cobs) : bool :=
  match o with ObsWf _ Superset | ObsOut _ (Some Superset) => true | _ => false end.
(* bit mask: 1 tie fails, 2 spec fails, 4 spec != fresh process, 8 outside the domain of C30_partial,
   16 the model takes a cache hit, 32 ... a superset-of-lazy hit,
   64 object identities of the returned inputs differ from the model's.  Model and spec are evaluated once. *)
Definition code (c : case_t) : nat :=
  let '(ops, obs, fr, idp) := c in
  let m := c_history ops in
  let s := c_spec_history ops in
  ((if all2 obs_match m obs then 0 else 1) + (if all2 spec_match s obs then 0 else 2)
   + (if all2 spec_match s fr then 0 else 4) + (if c_excluded ops then 8 else 0)
   + (if existsb is_hit m then 16 else 0) + (if existsb is_sup m then 32 else 0)
   + (if list_eqb idpat_eqb (id_patterns [] (c_id_history ops)) idp then 0 else 64))%nat.
Definition no_hit (c : case_t) : bool :=
  let '(ops, _, _, _) := c in
  forallb (fun o => match o with ObsWf _ Exact | ObsWf _ Superset | ObsOut _ (Some Exact) | ObsOut _ (Some Superset) => false
                                | _ => true end) (c_history ops).
Definition no_superset (c : case_t) : bool :=
  let '(ops, _, _, _) := c in
  forallb (fun o => match o with ObsWf _ Superset | ObsOut _ (Some Superset) => false | _ => true end) (c_history ops).
"""
IMPORTS = ["Model.WfCache", "Spec.WfCache"]


# ------------------------------------------------------------------------------------------------
# python mirror of the view (resolved graph) and of the F30b classifier
# ------------------------------------------------------------------------------------------------
def view(w):
    env = {f: b for f, b in w["inputs"] if b[0] == "const"}

    def res(b):
        return env[b[1]] if b[0] == "lzin" and b[1] in env else b
    return {"name": w["name"], "inputs": w["inputs"],
            "nodes": [dict(n, a=res(n["a"]), b=res(n["b"])) for n in w["nodes"]], "out": res(w["out"])}


def obs_view(o):
    return ["wf", view(o[1])] if o is not None and o[0] == "wf" else o


def classify_f30b(defs, ops):
    """Mirror of Spec.excluded: some request's class has `if f:`, f is concrete and falsy in the request, and an
    earlier request of the history had a non-lazy key set that is a subset of this one's and does not contain f."""
    objs, earlier = [], []
    for op in ops:
        k = op[0]
        if k == "new":
            d = defs[op[1]]
            objs.append({"def": op[1], "vals": {f["name"]: op[2].get(f["name"], f["default"]) for f in d["fields"]}})
        elif k == "set":
            objs[op[1]]["vals"][op[2]] = op[3]
        elif k == "copy":
            objs.append({"def": objs[op[1]]["def"], "vals": dict(objs[op[1]]["vals"])})
        elif k == "evolve":
            objs.append({"def": objs[op[1]]["def"], "vals": dict(objs[op[1]]["vals"], **op[2])})
        elif k in ("construct", "wconstruct", "run"):
            o = objs[op[1]]
            lazy = set(op[2]) if k == "wconstruct" else set()
            keys = {f for f, v in o["vals"].items() if v != "LAZY" and f not in lazy}
            d = defs[o["def"]]
            for n in d["nodes"]:
                if n.get("else"):
                    f = n["else"][0]
                    v = o["vals"][f]
                    falsy = v in (0, None) or v == []
                    if f in keys and falsy and any(ks <= keys and f not in ks for ks in earlier):
                        return True
            earlier.append(keys)
    return False


def body_of(d):
    return json.dumps([d["fields"], d["nodes"], d["out"], d["outtype"]], sort_keys=True)


def classify_twins(defs, ops):
    """F30c input class: the history creates tasks of two classes that differ only in their name."""
    used = {op[1] for op in ops if op[0] == "new"}
    return any(a < b and body_of(defs[a]) == body_of(defs[b]) for a in used for b in used)


def nameless(o):
    if o is not None and o[0] == "wf":
        return ["wf", dict(o[1], name="*")]
    return o


# ------------------------------------------------------------------------------------------------
# worker side (runs under PYTHONPATH=$VERIF_REPO in a separate interpreter)
# ------------------------------------------------------------------------------------------------
def w_canon_val(v):
    import attrs
    from pydra.engine.lazy import LazyInField, LazyOutField
    from pydra.utils.typing import StateArray
    if isinstance(v, LazyInField):
        return ["lzin", v._field]
    if isinstance(v, LazyOutField):
        return ["lzout", v._node.name]
    if v is attrs.NOTHING:
        return ["const", None]
    if isinstance(v, (StateArray, list, tuple)):
        return ["const", [int(x) for x in v]]
    if isinstance(v, bool) or not isinstance(v, int):
        return ["const", "?" + repr(v)[:40]]
    return ["const", v]


def w_canon_wf(wf):
    from pydra.utils.general import attrs_values
    nodes = []
    for n in wf.nodes:
        t = n._task
        av = attrs_values(t)
        nodes.append({"name": n.name, "op": type(t).__name__, "a": w_canon_val(av.get("a")), "b": w_canon_val(av.get("b")),
                      "split": t._splitter is not None, "combine": bool(t._combiner),
                      "other": sorted(k for k in av if k not in ("a", "b", "function", "constructor")),
                      "fields": {k: w_canon_val(v) for k, v in av.items() if k not in ("function", "constructor")}})
    inputs = [[k, w_canon_val(v)] for k, v in attrs_values(wf.inputs).items() if k != "constructor"]
    outs = attrs_values(wf.outputs)
    # the graph as pydra builds it (this also applies _create_graph's state updates to the shared object)
    g = wf.graph()
    edges = sorted([a.name, b.name] for a, b in g.edges)
    return {"name": wf.name, "inputs": inputs, "nodes": nodes, "out": w_canon_val(outs.get("out")),
            "nouts": len(outs), "edges": edges}


def w_mk_value(v, ftype):
    if v == "LAZY":
        from unittest.mock import Mock
        from pydra.engine.lazy import LazyOutField
        m = Mock()
        m.name = "upstream"
        return LazyOutField(node=m, field="out", type=list[int] if ftype == "list[int]" else int)
    return v


def w_do(mod, defs, objs, op, root, counter, rets=None):
    """Execute one operation on the live objects; returns the canonical observation."""
    import attrs
    from pydra.engine.workflow import Workflow
    k = op[0]
    try:
        if k == "new":
            if isinstance(op[1], str):          # an outer (nested) workflow class: single field x: int
                objs.append(getattr(mod, op[1])(**op[2]))
                return None
            d = defs[op[1]]
            ft = {f["name"]: f["type"] for f in d["fields"]}
            objs.append(getattr(mod, d["name"])(**{f: w_mk_value(v, ft[f]) for f, v in op[2].items()}))
            return None
        if k == "set":
            setattr(objs[op[1]], op[2], op[3])
            return None
        if k == "copy":
            objs.append(copy.copy(objs[op[1]]))
            return None
        if k == "evolve":
            objs.append(attrs.evolve(objs[op[1]], **op[2]))
            return None
        if k == "clear":
            if op[1] is None:
                Workflow.clear_cache()
            else:
                Workflow.clear_cache(getattr(mod, defs[op[1]]["name"]))
            return None
        if k in ("construct", "wconstruct"):
            wf = objs[op[1]].construct() if k == "construct" else \
                Workflow.construct(objs[op[1]], dont_cache=op[3], lazy=list(op[2]))
            if rets is not None:
                rets.append(wf)
            return ["wf", w_canon_wf(wf)]
        if k == "plot":
            from pathlib import Path
            from pydra.utils.general import plot_workflow
            counter[0] += 1
            plot_workflow(objs[op[1]], Path(root) / ("plot%d" % counter[0]), plot_type=op[2])
            return None
    except Exception as e:
        return ["err", type(e).__name__, str(e)[:300]]
    if k == "run":
        try:
            if op[2]:
                counter[0] += 1
                cr = os.path.join(root, "new%d" % counter[0])
            else:
                cr = os.path.join(root, "shared")
            outs = objs[op[1]](cache_root=cr, worker="debug")
            v = w_canon_val(outs.out)
            return ["out", v[1]]
        except Exception as e:
            return ["out", None, type(e).__name__, str(e)[:300]]
    raise ValueError(op)


def w_snapshot(obj):
    """current public attribute values of a task object, JSON-able"""
    from pydra.utils.general import attrs_values
    out = {}
    for k, v in attrs_values(obj).items():
        if k == "constructor":
            continue
        c = w_canon_val(v)
        out[k] = "LAZY" if c[0] != "const" else c[1]
    return out


def w_detail(obj):
    """all public attribute values of a task object, lazy-in and lazy-out fields distinguished"""
    from pydra.utils.general import attrs_values
    return {k: w_canon_val(v) for k, v in attrs_values(obj).items() if k != "constructor"}


def w_fresh(mod, defs, req, root):
    """What a process that has never constructed anything observes for one task (runs in a forked child)."""
    from pydra.engine.workflow import Workflow
    assert not Workflow._constructed_cache, "zygote is not pristine"
    d = defs[req["def"]] if isinstance(req["def"], int) else {"name": req["def"], "fields": [{"name": "x", "type": "int"}]}
    ft = {f["name"]: f["type"] for f in d["fields"]}
    kw = {f: w_mk_value(v, ft.get(f, "int")) for f, v in req["vals"].items() if v is not None}
    objs = [getattr(mod, d["name"])(**kw)]
    return w_do(mod, defs, objs, req["op"], root, [0])


def w_zygote(mods, defss, rfd, wfd, root):
    rf = os.fdopen(rfd, "r")
    n = 0
    while True:
        line = rf.readline()
        if not line:
            os._exit(0)
        n += 1
        pid = os.fork()
        if pid == 0:
            try:
                sub = os.path.join(root, "z%d" % n)
                os.makedirs(sub, exist_ok=True)
                req = json.loads(line)
                res = w_fresh(mods[req.get("batch", 0)], defss[req.get("batch", 0)], req, sub)
            except BaseException as e:  # noqa
                res = ["err", "zygote:" + type(e).__name__, str(e)[:300]]
            os.write(wfd, (json.dumps(res) + "\n").encode())
            os._exit(0)
        os.waitpid(pid, 0)
        shutil.rmtree(os.path.join(root, "z%d" % n), ignore_errors=True)


def worker_main(wdir, inp, outp):
    """One worker process: imports pydra and ALL its modules of generated definitions once, forks the zygote
    (which never constructs anything), then runs the histories of each module."""
    import importlib
    import time
    os.environ.setdefault("NO_ET", "1")
    spec = json.load(open(inp))
    sys.path.insert(0, wdir)
    batches = spec["batches"]
    mods = [importlib.import_module(b["module"]) for b in batches]
    from pydra.engine.workflow import Workflow
    import pydra.engine.submitter  # noqa  (everything is imported before the zygote is forked)
    import pydra.utils.general  # noqa
    root = tempfile.mkdtemp(prefix="c30w-", dir=wdir)
    if spec.get("mode") == "fresh":
        # a really fresh interpreter: one request only
        json.dump(w_fresh(mods[0], batches[0]["defs"], spec["request"], root), open(outp, "w"))
        shutil.rmtree(root, ignore_errors=True)
        return
    r1, w1 = os.pipe()
    r2, w2 = os.pipe()
    zpid = os.fork()
    if zpid == 0:
        os.close(w1)
        os.close(r2)
        w_zygote(mods, [b["defs"] for b in batches], r1, w2, root)
        os._exit(0)
    os.close(r1)
    os.close(w2)
    req_w = os.fdopen(w1, "w")
    res_r = os.fdopen(r2, "r")
    memo = {}
    deadline = spec.get("deadline")
    out = []
    done = 0
    for bi, (b, mod) in enumerate(zip(batches, mods)):
        defs = b["defs"]
        names = {d["name"]: i for i, d in enumerate(defs)}
        results = []
        for hi, h in enumerate(b["histories"]):
            if deadline and time.time() > deadline and not b.get("corpus") and done >= spec.get("min_histories", 6):
                break
            done += 1
            Workflow.clear_cache()
            hroot = os.path.join(root, "b%dh%d" % (bi, hi))
            os.makedirs(hroot)
            objs, obs, fresh, freqs, counter = [], [], [], [], [0]
            ident, changed, kept = [], [], []        # object identity of returned wf.inputs; caller's task modified?
            for opi, op in enumerate(h):
                req = None
                if op[0] in ("construct", "wconstruct", "run") and op[1] < len(objs):
                    cname = type(objs[op[1]]).__name__
                    fop = list(op)
                    fop[1] = 0
                    if fop[0] == "run":
                        fop[2] = True
                    req = {"batch": bi, "def": names.get(cname, cname), "vals": w_snapshot(objs[op[1]]), "op": fop}
                before = w_detail(objs[op[1]]) if req is not None else None
                rets = []
                obs.append(w_do(mod, defs, objs, op, hroot, counter, rets=rets))
                changed.append(req is not None and w_detail(objs[op[1]]) != before)
                if rets:
                    inp = rets[0].inputs
                    ident.append({"same": next((k for k, x in kept if x is inp), -1),
                                  "user": next((u for u, x in enumerate(objs) if x is inp), -1)})
                    kept.append((opi, inp))
                else:
                    ident.append(None)
                if req is None:
                    fresh.append(None if obs[-1] is None or obs[-1][0] != "err" else ["err"])
                    freqs.append(None)
                    continue
                key = json.dumps(req, sort_keys=True)
                if key not in memo:
                    req_w.write(key + "\n")
                    req_w.flush()
                    memo[key] = json.loads(res_r.readline())
                fresh.append(memo[key])
                freqs.append(req)
            results.append({"obs": obs, "fresh": fresh, "freqs": freqs, "ident": ident, "changed": changed})
            shutil.rmtree(hroot, ignore_errors=True)
        out.append(results)
    req_w.close()
    os.waitpid(zpid, 0)
    json.dump(out, open(outp, "w"))
    shutil.rmtree(root, ignore_errors=True)


# ------------------------------------------------------------------------------------------------
# driver
# ------------------------------------------------------------------------------------------------
def child_env():
    env = dict(os.environ)
    env["PYTHONPATH"] = "/verif:" + os.environ.get("VERIF_REPO", "/repo")
    env["PYTHONHASHSEED"] = "0"
    env["NO_ET"] = "1"
    env["PYTHONDONTWRITEBYTECODE"] = "1"
    return env


def run_batches(tmp, batches, par=4, timeout=2400, deadline=None, min_histories=6):
    """batches: list of dicts {module, defs, outers, histories, ...}. They are dealt round-robin to `par` worker
    processes (each imports pydra once). Returns one result list per batch; a list may be shorter than the
    batch's histories (or empty) when the time box was used up."""
    groups = [[] for _ in range(min(par, max(1, len(batches))))]
    for i, b in enumerate(batches):
        groups[i % len(groups)].append(i)
        with open(os.path.join(tmp, b["module"] + ".py"), "w") as f:
            f.write(module_src(b["defs"], b.get("outers", ())))
    procs = []
    for g, idxs in enumerate(groups):
        tag = "%s_%d" % (batches[idxs[0]]["module"], g)
        inp, outp = os.path.join(tmp, "in_%s.json" % tag), os.path.join(tmp, "out_%s.json" % tag)
        json.dump({"batches": [batches[i] for i in idxs], "deadline": deadline, "min_histories": min_histories}, open(inp, "w"))
        p = subprocess.Popen(["timeout", str(timeout), PY, "-m", "harness.c30", "worker", tmp, inp, outp],
                             env=child_env(), cwd="/verif", stdout=subprocess.PIPE, stderr=subprocess.STDOUT, text=True)
        procs.append((p, outp, idxs))
    out = [None] * len(batches)
    for p, outp, idxs in procs:
        log, _ = p.communicate()
        if p.returncode != 0 or not os.path.exists(outp):
            raise RuntimeError("C30 worker failed (rc=%s):\n%s" % (p.returncode, log[-3000:]))
        for i, r in zip(idxs, json.load(open(outp))):
            out[i] = r
    return out


def norm_obs(o):
    """what goes to Coq / is compared: drop diagnostic tails"""
    if o is None:
        return None
    if o[0] == "wf":
        w = o[1]
        return ["wf", {"name": w["name"], "inputs": [[f, b] for f, b in w["inputs"]],
                       "nodes": [{k: n[k] for k in ("name", "op", "a", "b", "split", "combine")} for n in w["nodes"]],
                       "out": w["out"]}]
    if o[0] == "out":
        return ["out", o[1]]
    return ["err"]


def _is_val(v):
    return v is None or (isinstance(v, int) and not isinstance(v, bool)) or \
        (isinstance(v, list) and all(isinstance(x, int) for x in v))


def well_formed(o):
    """can the observation be written as a Coq term of the model's types?"""
    if o is None or o[0] == "err":
        return True
    if o[0] == "out":
        return _is_val(o[1])
    w = o[1]
    binds = [x[1] for x in w["inputs"]] + [n[k] for n in w["nodes"] for k in ("a", "b")] + [w["out"]]
    return all(_is_val(b[1]) for b in binds if b[0] == "const")


def extras_ok(o):
    """parts of a workflow the Coq types do not carry: node fields other than a/b, number of outputs, and
    pydra's own edge list, which must be exactly the lazy-out bindings"""
    if o is None or o[0] != "wf":
        return True
    w = o[1]
    edges = sorted([n[k][1], n["name"]] for n in w["nodes"] for k in ("a", "b") if n[k][0] == "lzout")
    edges = [list(x) for x in sorted(set(map(tuple, edges)))]
    return all(not n["other"] for n in w["nodes"]) and w["nouts"] == 1 and w["edges"] == edges


def src_of(defs, outers=()):
    return module_src(defs, outers).split("return sum(a) + b\n")[1].strip()


def fresh_start(tmp, items):
    """items: (batch, request, zygote answer). Re-ask really fresh interpreters (started now, collected later)."""
    procs = []
    for k, (b, req, ans) in enumerate(items):
        inp, outp = os.path.join(tmp, "fin%d.json" % k), os.path.join(tmp, "fout%d.json" % k)
        json.dump({"batches": [b], "mode": "fresh", "request": dict(req, batch=0)}, open(inp, "w"))
        procs.append((subprocess.Popen(["timeout", "900", PY, "-m", "harness.c30", "worker", tmp, inp, outp], env=child_env(),
                                       cwd="/verif", stdout=subprocess.PIPE, stderr=subprocess.STDOUT, text=True), outp, b, req, ans))
    return procs


def fresh_collect(procs):
    bad = []
    for p, outp, b, req, ans in procs:
        log, _ = p.communicate()
        got = json.load(open(outp)) if os.path.exists(outp) else ["err", "no output", log[-500:]]
        if norm_obs(got) != norm_obs(ans):
            bad.append((b, req, ans, got))
    return bad


# ------------------------------------------------------------------------------------------------
# nested workflows: an outer workflow uses a generated class as a node with lazily bound inputs; plotting
# the nested graph constructs the inner class partially lazily (graph.py: nd._task.construct()), running the
# outer constructs it with all values inside the same process. Not in the Coq model: history vs fresh process.
# ------------------------------------------------------------------------------------------------
def gen_outer(rng, d, idx):
    bind = {}
    lazy_any = False
    for f in d["fields"]:
        if f["type"] != "int":
            bind[f["name"]] = ["const", [rng.randrange(1, 6) for _ in range(rng.choice([1, 2, 3]))]]
            continue
        r = rng.random()
        if f["name"] == "flag":
            bind["flag"] = ["lazy", rng.choice(["x", "f"])] if r < 0.75 else ["const", rng.choice([0, 1])]
        elif r < 0.5:
            bind[f["name"]] = ["lazy", rng.choice(["x", "f"])]
        elif f["default"] is None or r < 0.8:
            bind[f["name"]] = ["const", rng.randrange(1, 9)]
        lazy_any = lazy_any or bind.get(f["name"], ["c"])[0] == "lazy"
    if not lazy_any:
        f = [f for f in d["fields"] if f["type"] == "int"][0]
        bind[f["name"]] = ["lazy", "x"]
    fop = rng.choice(["Sub", "Mul", "Add"])
    # Sub(x, x)-like nodes give 0: a falsy flag at run time, while a lazy flag is truthy at construction time
    return {"name": "O%d" % idx, "inner": d["name"], "inner_idx": idx, "fop": fop,
            "fconst": rng.choice([0, 0, 1, 2]) if fop == "Mul" else rng.randrange(0, 4), "bind": bind, "outtype": d["outtype"]}


def gen_nested_history(rng, defs, outers, nops):
    ops, objs = [], []          # objs: {"cls": outer name | def idx, "vals": {...}}
    while len(ops) < nops:
        if not objs or (rng.random() < 0.2 and len(objs) < 4):
            if rng.random() < 0.75 or not objs:
                o = rng.choice(outers)
                v = rng.randrange(0, 7)
                ops.append(["new", o["name"], {"x": v}])
                objs.append({"cls": o["name"], "vals": {"x": v}})
            else:
                di = rng.randrange(len(defs))
                d = defs[di]
                given = {f["name"]: gen_value(rng, f["type"], f["name"]) for f in d["fields"]}
                ops.append(["new", di, given])
                objs.append({"cls": di, "vals": given})
            continue
        oi = rng.randrange(len(objs))
        if ops and ops[-1][0] == "plot" and rng.random() < 0.7:
            oi = ops[-1][1]            # what was plotted is constructed / run next (the plot must not have changed it)
            ops.append(["construct", oi] if rng.random() < 0.5 else ["run", oi, rng.random() < 0.5])
            continue
        o = objs[oi]
        r = rng.random()
        outer = isinstance(o["cls"], str)
        if outer and r < 0.3:
            ops.append(["plot", oi, rng.choice(["nested", "nested", "nested", "simple", "detailed"])])
        elif r < 0.45:
            f = "x" if outer else rng.choice(list(o["vals"]))
            ft = "int" if outer else [x for x in defs[o["cls"]]["fields"] if x["name"] == f][0]["type"]
            v = rng.randrange(0, 7) if outer else gen_value(rng, ft, f)
            ops.append(["set", oi, f, v])
            o["vals"][f] = v
        elif r < 0.5 and len(objs) < 5:
            ops.append(["copy", oi])
            objs.append({"cls": o["cls"], "vals": dict(o["vals"])})
        elif not outer and r < 0.7:
            names = list(o["vals"])
            ops.append(["wconstruct", oi, sorted(rng.sample(names, rng.choice([1, 1, 2][:len(names)]))), False])
        elif r < 0.78:
            ops.append(["construct", oi])
        else:
            ops.append(["run", oi, rng.random() < 0.3])
    return ops


def nview(o):
    """observation of the nested stream: outputs, or the workflow with every node field resolved from the inputs"""
    if o is None:
        return None
    if o[0] == "out":
        return ["out", o[1]]
    if o[0] == "err":
        return ["err"]
    w = o[1]
    env = {f: b for f, b in w["inputs"] if b[0] == "const"}

    def res(b):
        return env[b[1]] if b[0] == "lzin" and b[1] in env else b
    return ["wf", {"name": w["name"], "inputs": w["inputs"], "edges": w["edges"], "out": res(w["out"]),
                   "nodes": [{"name": n["name"], "op": n["op"], "split": n["split"], "combine": n["combine"],
                              "fields": {k: res(v) for k, v in sorted(n["fields"].items())}} for n in w["nodes"]]}]


def classify_nested_f30b(defs, outers, ops, upto):
    """the failing operation (index upto) constructs a class with `if <field>:` -- directly or as the inner node of
    an outer run -- after an operation that constructed that class with the field lazy (plot of the nested graph of an
    outer that binds the field lazily, or Workflow.construct(lazy=[field...]))"""
    cond = {i: [n["else"][0] for n in d["nodes"] if n.get("else")] for i, d in enumerate(defs)}
    byname = {o["name"]: o for o in outers}
    objs, lazily = [], set()
    for k, op in enumerate(ops[:upto + 1]):
        if op[0] == "new":
            objs.append(op[1])
        elif op[0] == "copy":
            objs.append(objs[op[1]])
        elif op[0] == "evolve":
            objs.append(objs[op[1]])
        elif op[0] == "plot" and op[2] == "nested" and k < upto:
            o = byname[objs[op[1]]]
            if any(o["bind"].get(f, ["c"])[0] == "lazy" for f in cond[o["inner_idx"]]):
                lazily.add(o["inner_idx"])
        elif op[0] == "wconstruct" and k < upto and not isinstance(objs[op[1]], str):
            if any(f in op[2] for f in cond[objs[op[1]]]):
                lazily.add(objs[op[1]])
    cls = objs[ops[upto][1]]
    inner = byname[cls]["inner_idx"] if isinstance(cls, str) else cls
    return inner in lazily


def gen_nested_batch(rng, bi, per):
    defs = []
    while len(defs) < 2:
        d = gen_def(rng, len(defs))
        if d["shape"] != "split" or rng.random() < 0.3:
            defs.append(d)
    outers = [gen_outer(rng, d, i) for i, d in enumerate(defs)]
    hists = [gen_nested_history(rng, defs, outers, rng.choice([3, 4, 5, 6])) for _ in range(per)]
    return {"module": "c30nested_%d" % bi, "defs": defs, "outers": outers, "histories": hists, "nested": True}


def nested_results(pairs):
    dist = {"histories": 0, "observing_ops": 0, "ops": {}, "plots_nested": 0, "differences": 0, "modules": 0}
    failures = []
    for b, res in pairs:
        dist["modules"] += 1
        for h, r in zip(b["histories"], res):
            dist["histories"] += 1
            for k, (op, o, f) in enumerate(zip(h, r["obs"], r["fresh"])):
                dist["ops"][op[0]] = dist["ops"].get(op[0], 0) + 1
                dist["plots_nested"] += op[0] == "plot" and op[2] == "nested"
                if op[0] == "plot" and o is not None:
                    failures.append(Failure(case={"defs": b["defs"], "outers": b["outers"], "history": h, "stream": "nested"},
                                            observed=o, expected=None, kind="tie", note="plot_workflow raised in the nested stream"))
                if op[0] not in ("construct", "wconstruct", "run"):
                    continue
                dist["observing_ops"] += 1
                if f is not None and nview(o) != nview(f):
                    dist["differences"] += 1
                    known = classify_nested_f30b(b["defs"], b["outers"], h, k)
                    failures.append(Failure(
                        case={"defs": b["defs"], "outers": b["outers"], "history": h, "stream": "nested", "op_index": k,
                              "source": src_of(b["defs"], b["outers"])},
                        observed=nview(o), expected={"fresh_process": nview(f)}, kind="spec", finding="F30b" if known else None,
                        note="superset-of-lazy hit reuses a graph built while an input the constructor branches on was lazy (F30b)"
                        if known else "nested workflow: an observation of the history differs from what a fresh process shows"))
                    break
    return {"failures": failures[:40], "dist": dist}


def run(ctx):
    import time
    rng = ctx.rng
    thorough = ctx.tier == "thorough"
    nb = ctx.budget(8, 64)                       # generated modules of the modelled stream
    nn = ctx.budget(3, 20)                       # ... of the nested stream
    per = 16 if not thorough else 36             # histories per module
    box = (80 if not thorough else 420) * (3 if ctx.widen > 1 else 1)   # seconds for executing histories
    tmp = tempfile.mkdtemp(prefix="c30-")
    out = Outcome(rule=RULE)
    try:
        batches = []
        for ci, c in enumerate(ctx.corpus()):
            nested = c.get("stream", "model") == "nested"
            batches.append({"module": "c30corpus_%d" % ci, "defs": c["defs"], "outers": c.get("outers", []),
                            "histories": [c["history"]], "corpus": c.get("name", "corpus%d" % ci), "nested": nested})
        nmodel = nnest = 0
        while nmodel < nb or nnest < nn:          # interleaved, so that a short time box reaches both streams
            if nmodel < nb:
                defs = [gen_def(rng, i) for i in range(3)]
                twin = rng.random() < 0.2
                if twin:       # W2 = W0 under another name: same fields, outputs and constructor source, so the same type hash
                    defs[2] = dict(copy.deepcopy(defs[0]), name="W2")
                hists = [gen_history(rng, defs, rng.choice([3, 4, 5, 6, 6, 7])) for _ in range(per)]
                if twin:
                    for h in hists:
                        for op in h:
                            if op[0] == "new" and op[1] == 0 and rng.random() < 0.5:
                                op[1] = 2
                            if op[0] == "clear" and op[1] == 0 and rng.random() < 0.5:
                                op[1] = 2
                batches.append({"module": "c30defs_%d" % nmodel, "defs": defs, "histories": hists, "nested": False})
                nmodel += 1
            if nnest < nn and nmodel % 3 == 0 or nmodel >= nb and nnest < nn:
                batches.append(gen_nested_batch(rng, nnest, 10 if not thorough else 24))
                nnest += 1
        t0 = time.time()
        results = run_batches(tmp, batches, par=4, deadline=t0 + box, min_histories=5 if thorough else 3)
        exec_s = time.time() - t0
        cases, meta = [], []
        dist = {"ops": {}, "shapes": {}, "histories": 0, "observing_ops": 0, "impl_errors": 0, "modules": 0,
                "corpus_cases": sum(1 for b in batches if b.get("corpus"))}
        used = [(b, r) for b, r in zip(batches, results) if r and not b["nested"]]
        for b, res in used:
            dist["modules"] += 1
            for d in b["defs"]:
                dist["shapes"][d.get("shape", "corpus")] = dist["shapes"].get(d.get("shape", "corpus"), 0) + 1
            for h, r in zip(b["histories"], res):          # res may be shorter than the batch (time box)
                obs = [norm_obs(o) for o in r["obs"]]
                fresh = [norm_obs(o) for o in r["fresh"]]
                dist["histories"] += 1
                for op, o in zip(h, r["obs"]):
                    dist["ops"][op[0]] = dist["ops"].get(op[0], 0) + 1
                    dist["observing_ops"] += op[0] in ("construct", "wconstruct", "run")
                    dist["impl_errors"] += o is not None and (o[0] == "err" or (o[0] == "out" and o[1] is None))
                m = {"defs": b["defs"], "history": h, "observed": r["obs"], "fresh": r["fresh"], "batch": b,
                     "freqs": r.get("freqs", [])}
                case = {"defs": b["defs"], "history": h, "source": src_of(b["defs"])}
                if not all(well_formed(o) for o in obs + fresh) or not all(extras_ok(o) for o in r["obs"] + r["fresh"]):
                    out.failures.append(Failure(case=case, observed=r["obs"], expected=None, kind="tie",
                                                note="observation outside the model's types (value, extra node field, "
                                                     "several outputs, or pydra's edge list != the lazy-out bindings)"))
                    continue
                dn = {i: "(D_%s_%d)" % (b["module"], i) for i in range(len(b["defs"]))}
                cases.append(coqio.pair(coqio.lst([c_op(op, lambda i: dn[i]) for op in h]),
                                        coqio.lst([c_obs(o) for o in obs]), coqio.lst([c_obs(o) for o in fresh]),
                                        coqio.lst([c_ident(x) for x in r["ident"]])))
                m["ident"], m["changed"] = r["ident"], r["changed"]
                meta.append(m)
        # the zygote oracle against really fresh interpreters (started now, collected after the Coq run)
        items = [(m["batch"], fq, f) for m in meta for fq, f in zip(m["freqs"], m["fresh"]) if fq is not None]
        rng.shuffle(items)
        nf = 2 if not thorough else 16
        fprocs = fresh_start(tmp, items[:nf])
        dist["fresh_interpreter_rechecks"] = len(fprocs)
        defs_txt = "".join("Definition D_%s_%d : wfdef := %s.\n" % (b["module"], i, c_def(d))
                           for b, _ in used for i, d in enumerate(b["defs"]))
        t1 = time.time()
        codes = coqio.run_case_codes(ctx.scratch, "c30", IMPORTS, "case_t", cases, "code", extra=EXTRA + defs_txt, shard=60)
        coq_s = time.time() - t1
        bit = lambda k: {i for i, c in enumerate(codes) if c & k}   # noqa: E731
        tie_bad, spec_bad, fresh_bad, excluded, hits, sups = bit(1), bit(2), bit(4), bit(8), bit(16), bit(32)
        ident_bad = bit(64)
        seen, nontrivial = set(), 0
        for i, m in enumerate(meta):
            key = json.dumps([m["defs"], m["history"]], sort_keys=True)
            if key not in seen:
                seen.add(key)
                nontrivial += i in hits
        dist["histories_with_cache_hit"] = len(hits)
        dist["histories_with_superset_hit"] = len(sups)
        dist["histories_in_excluded_class_F30b"] = len(excluded)
        dist["history_execution_s"] = round(exec_s, 1)
        dist["coq_cases_s"] = round(coq_s, 1)
        out.evaluations = dist["observing_ops"]
        out.distinct_nontrivial = nontrivial
        out.traces_validated = len(meta)
        out.samples = [{"definitions": src_of(m["defs"]), "history": m["history"],
                        "observed": [norm_obs(o) for o in m["observed"]]} for m in meta[-2:]]
        # the property read literally, in python: every observation of the history = the fresh process's
        pyfail = set()
        for i, m in enumerate(meta):
            for o, f in zip(m["observed"], m["fresh"]):
                if f is not None and obs_view(norm_obs(o)) != obs_view(norm_obs(f)):
                    pyfail.add(i)
        for i, m in enumerate(meta):
            case = {"defs": m["defs"], "history": m["history"], "source": src_of(m["defs"])}
            if classify_f30b(m["defs"], m["history"]) != (i in excluded):
                out.failures.append(Failure(case=case, observed=classify_f30b(m["defs"], m["history"]), expected=i in excluded,
                                            kind="tie", note="F30b classifier (python) != Spec.excluded (Coq)"))
        twins = {i for i, m in enumerate(meta) if classify_twins(m["defs"], m["history"])}
        dist["histories_with_twin_classes_F30c"] = len(twins)
        for i in sorted(spec_bad | pyfail)[:40]:
            m = meta[i]
            case = {"defs": m["defs"], "history": m["history"], "source": src_of(m["defs"])}
            finding, note = None, "an observation of the history differs from what a fresh process shows"
            if i in excluded:
                finding = "F30b"
                note = "superset-of-lazy hit reuses a graph built while an input the constructor branches on was lazy (F30b)"
            elif i in twins and all(f is None or obs_view(nameless(norm_obs(o))) == obs_view(nameless(norm_obs(f)))
                                    for o, f in zip(m["observed"], m["fresh"])):
                finding = "F30c"
                note = "a class that differs from another only in its name gets the other's workflow name (F30c)"
            out.failures.append(Failure(
                case=case, observed=[norm_obs(o) for o in m["observed"]],
                expected={"fresh_process": [norm_obs(o) for o in m["fresh"]]}, kind="spec", finding=finding, note=note))
        # aliasing (C30_no_alias): a returned workflow's inputs object is never a task object of the user, and a
        # construct / run never modifies the requester's task
        dist["returned_inputs_identity_observed"] = sum(1 for m in meta for x in m["ident"] if x is not None)
        for i, m in enumerate(meta):
            al = [k for k, x in enumerate(m["ident"]) if x is not None and x["user"] >= 0]
            ch = [k for k, c in enumerate(m["changed"]) if c]
            if al or ch:
                out.failures.append(Failure(
                    case={"defs": m["defs"], "history": m["history"], "source": src_of(m["defs"])},
                    observed={"ops_returning_a_workflow_whose_inputs_IS_a_user_task": al, "identities": m["ident"],
                              "ops_that_modified_the_requesters_task": ch},
                    expected="the inputs of a constructed workflow are a copy (C30_no_alias); construct does not write to the task",
                    kind="spec", note="a cached/returned workflow aliases (or construct modifies) the caller's task object"))
        for i in sorted(ident_bad)[:25]:
            if i in twins:
                continue
            m = meta[i]
            out.failures.append(Failure(case={"defs": m["defs"], "history": m["history"], "source": src_of(m["defs"])},
                                        observed=m["ident"], expected="Model.WfCache.c_id_history of the case (--replay)",
                                        kind="tie", note="object identities of returned workflows' inputs: model/implementation"))
        for i in sorted(tie_bad)[:25]:
            if i in excluded or i in twins:
                continue        # outside the positive theorem's domain the implementation is compared with the spec only
            m = meta[i]
            out.failures.append(Failure(case={"defs": m["defs"], "history": m["history"], "source": src_of(m["defs"])},
                                        observed=[norm_obs(o) for o in m["observed"]],
                                        expected="Model.WfCache.c_history of the case (./check C30 --replay <file>)",
                                        kind="tie", note="model/implementation"))
        for i in sorted(fresh_bad)[:25]:
            m = meta[i]
            out.failures.append(Failure(case={"defs": m["defs"], "history": m["history"], "source": src_of(m["defs"])},
                                        observed=[norm_obs(o) for o in m["fresh"]],
                                        expected="Spec.WfCache.c_spec_history of the case (./check C30 --replay <file>)",
                                        kind="tie", note="spec != what a fresh process of the implementation shows"))
        # nested workflows (outside the Coq model): history vs fresh process
        nres = nested_results([(b, r) for b, r in zip(batches, results) if r and b["nested"]])
        out.failures += nres["failures"]
        dist["nested"] = nres["dist"]
        out.evaluations += nres["dist"]["observing_ops"]
        for b, req, ans, got in fresh_collect(fprocs):
            out.failures.append(Failure(case={"defs": b["defs"], "request": req, "source": src_of(b["defs"])}, observed=got,
                                        expected=ans, kind="tie", note="forked-zygote oracle != a really fresh interpreter"))
        out.distribution = dist
    finally:
        shutil.rmtree(tmp, ignore_errors=True)
    return out


def replay(ctx, payload):
    c = payload["case"]
    tmp = tempfile.mkdtemp(prefix="c30r-")
    try:
        b = {"module": "c30replay", "defs": c["defs"], "outers": c.get("outers", []), "histories": [c["history"]]}
        r = run_batches(tmp, [b], par=1)[0][0]
        print(src_of(c["defs"], c.get("outers", [])))
        nested = c.get("stream") == "nested"
        for op, o, f in zip(c["history"], r["obs"], r["fresh"]):
            print("op", op)
            print("   implementation, in the history :", json.dumps(nview(o) if nested else obs_view(norm_obs(o))))
            print("   implementation, fresh process  :", json.dumps(nview(f) if nested else obs_view(norm_obs(f))))
        print("identity of each returned workflow's inputs object (same as op / is user task):", r.get("ident"))
        print("operations that modified the requester's task object:", [k for k, c in enumerate(r.get("changed", [])) if c])
        if nested:
            print("(nested workflows are outside the Coq model: the reference is the fresh process)")
            return 0
        defs_txt = "".join("Definition D_%d : wfdef := %s.\n" % (i, c_def(d)) for i, d in enumerate(c["defs"]))
        ops = coqio.lst([c_op(op, lambda i: "D_%d" % i) for op in c["history"]])
        vals = coqio.eval_terms(ctx.scratch, "replay", IMPORTS, ["c_history %s" % ops, "c_spec_history %s" % ops,
                                                                "c_excluded %s" % ops, "id_patterns [] (c_id_history %s)" % ops],
                                extra=EXTRA + defs_txt)
        print("model identities:", vals[3])
        print("model   :", vals[0])
        print("spec    :", vals[1])
        print("in the excluded class of C30_partial (F30b):", vals[2])
    finally:
        shutil.rmtree(tmp, ignore_errors=True)
    return 0


if __name__ == "__main__":
    if sys.argv[1] == "worker":
        worker_main(sys.argv[2], sys.argv[3], sys.argv[4])
