(* Proofs/HashCache.v — C06: the result cache keyed by the checksum returns what running the task would return
   exactly when the checksum separates tasks that compute different things; what the checksum does not see. *)
From Pydra Require Import Base.Prelude Base.PySort Model.Hash Spec.Hash Proofs.HashRefuted.
Local Open Scope list_scope.
Local Open Scope string_scope.

Section CacheFacts.
  Context {T O : Type}.
  Variable ident : T -> string.
  Variable run : T -> O.

  (* every stored entry was produced by running a task with that identity *)
  Definition store_inv (done : list T) (s : store) : Prop :=
    forall d o, find d s = Some o -> exists t, In t done /\ ident t = d /\ o = run t.

  Lemma submit_inv : forall done s t, store_inv done s -> store_inv (t :: done) (snd (submit ident run s t)).
  Proof.
    intros done s t HI d o Hf. unfold submit in Hf. destruct (find (ident t) s) as [o'|] eqn:E; cbn in Hf.
    - destruct (HI d o Hf) as (t' & Hin & Hid & Ho). exists t'. split; [now right|auto].
    - destruct (String.eqb_spec (ident t) d) as [<-|Hne].
      + inversion Hf; subst. exists t. split; [now left|auto].
      + destruct (HI d o Hf) as (t' & Hin & Hid & Ho). exists t'. split; [now right|auto].
  Qed.

  Theorem cache_sound : forall ts done s,
      store_inv done s ->
      (forall t1 t2, In t1 (done ++ ts) -> In t2 (done ++ ts) -> ident t1 = ident t2 -> run t1 = run t2) ->
      fst (submit_all ident run s ts) = map run ts.
  Proof.
    induction ts as [|t ts IH]; intros done s HI Hsep; [reflexivity|].
    cbn [submit_all]. destruct (submit ident run s t) as [o s1] eqn:Es.
    destruct (submit_all ident run s1 ts) as [os s2] eqn:Ea. cbn [fst map]. f_equal.
    - unfold submit in Es. destruct (find (ident t) s) as [o'|] eqn:Ef; inversion Es; subst; [|reflexivity].
      destruct (HI _ _ Ef) as (t' & Hin & Hid & ->). apply Hsep; auto.
      + apply in_or_app. now left.
      + apply in_or_app. right. now left.
    - change os with (fst (os, s2)). rewrite <- Ea. apply (IH (t :: done)).
      + replace s1 with (snd (submit ident run s t)) by now rewrite Es. now apply submit_inv.
      + intros t1 t2 H1 H2. apply Hsep.
        * cbn in H1. destruct H1 as [<-|H1]; [apply in_or_app; right; now left|].
          apply in_app_or in H1. apply in_or_app. destruct H1; [now left|right; now right].
        * cbn in H2. destruct H2 as [<-|H2]; [apply in_or_app; right; now left|].
          apply in_app_or in H2. apply in_or_app. destruct H2; [now left|right; now right].
  Qed.

  (* and conversely: two tasks with one identity and different results make the second submission wrong *)
  Theorem cache_stale : forall t1 t2, ident t1 = ident t2 -> run t1 <> run t2 ->
      fst (submit_all ident run [] [t1; t2]) <> map run [t1; t2].
  Proof.
    intros t1 t2 Hid Hr. cbn. unfold submit. cbn [find]. rewrite <- Hid, String.eqb_refl. cbn.
    intros E. inversion E. contradiction.
  Qed.
End CacheFacts.

(* ------------------------------------------------------------------ what the identity does not see *)
Definition ident_of (H : string -> string) (t : taskdef) : string :=
  match identity H t with Ok s => s | Err _ => "" end.

(* per-field metadata (argstr, position, sep, formatter) is in none of the hashed values *)
Theorem identity_ignores_metadata : forall H ty fields m1 m2,
    identity H {| t_type := ty; t_fields := fields; t_meta := m1 |} =
    identity H {| t_type := ty; t_fields := fields; t_meta := m2 |}.
Proof. reflexivity. Qed.

(* the closure cells / globals of a function value are not part of its bytes *)
Lemma hash_object_ignores_hidden : forall H i src h1 h2 m,
    hash_object H (VFunc i src h1) m = hash_object H (VFunc i src h2) m.
Proof. reflexivity. Qed.

Lemma field_hashes_ignores_hidden : forall H pre post n i src h1 h2 m,
    field_hashes H (pre ++ (n, VFunc i src h1) :: post) m = field_hashes H (pre ++ (n, VFunc i src h2) :: post) m.
Proof.
  induction pre as [|[k v] pre IH]; intros post n i src h1 h2 m; cbn [app field_hashes].
  - now rewrite (hash_object_ignores_hidden H i src h1 h2 m).
  - destruct (hash_object H v m) as [[d m']|]; [|reflexivity]. now rewrite (IH post n i src h1 h2 m').
Qed.

Theorem identity_ignores_closure : forall H ty meta pre post n i src h1 h2,
    identity H {| t_type := ty; t_fields := pre ++ (n, VFunc i src h1) :: post; t_meta := meta |} =
    identity H {| t_type := ty; t_fields := pre ++ (n, VFunc i src h2) :: post; t_meta := meta |}.
Proof.
  intros. unfold identity, checksum, compute_hash. cbn [t_type t_fields].
  now rewrite (field_hashes_ignores_hidden H pre post n i src h1 h2 []).
Qed.

(* ------------------------------------------------------------------ witnesses *)
Definition fn_src : list string := ["arguments([], [arg('x')], None, [], [], None, [])"; "Return(BinOp(Name('x', Load()), Add(), Name('k', Load())))"].
Definition task_closure (k : Z) : taskdef :=
  {| t_type := "python";
     t_fields := [("x", VInt 1); ("function", VFunc 5 fn_src [("closure:k", VInt k)]); ("Outputs", VOpaque 6 "type:(outputs)")];
     t_meta := [] |}.
Definition task_argstr (a : string) : taskdef :=
  {| t_type := "shell";
     t_fields := [("a", VStr "x"); ("append_args", VList 3 []); ("executable", VStr "echo"); ("Outputs", VOpaque 6 "type:(outputs)")];
     t_meta := [("a.argstr", a); ("a.position", "1")] |}.

Lemma closure_witness : forall H, ident_of H (task_closure 1) = ident_of H (task_closure 100) /\ task_closure 1 <> task_closure 100.
Proof.
  intros H. split; [|intros E; inversion E].
  unfold ident_of.
  assert (E : identity H (task_closure 1) = identity H (task_closure 100)); [|now rewrite E].
  exact (identity_ignores_closure H "python" [] [("x", VInt 1)] [("Outputs", VOpaque 6 "type:(outputs)")]
                                  "function" 5 fn_src [("closure:k", VInt 1)] [("closure:k", VInt 100)]).
Qed.

Lemma argstr_witness : forall H, ident_of H (task_argstr "-a") = ident_of H (task_argstr "-b") /\ task_argstr "-a" <> task_argstr "-b".
Proof. intros H. split; [reflexivity|intros E; inversion E]. Qed.

(* after the repair of bytes_repr_numpy: arrays with one buffer but different shape or dtype have different bytes
   (so their digests, and the checksums of tasks taking them as input, differ unless blake2b collides) *)
Definition nd_zeros (dt : string) (sh : list nat) : pyval :=
  VNd 1 "numpyndarray" dt sh (hx "000000000000000000000000000000000000000000000000000000000000000000000000000000000000000000000000").
Lemma array_shape_dtype_separated : forall H,
    preimage H (nd_zeros "float64" [2; 3]) <> preimage H (nd_zeros "float64" [3; 2]) /\
    preimage H (nd_zeros "float64" [6]) <> preimage H (nd_zeros "int64" [6]) /\
    preimage H (nd_zeros "float64" [6]) <> preimage H (nd_zeros "float64" [2; 3]).
Proof. intros H. repeat split; vm_compute; intros E; discriminate E. Qed.
