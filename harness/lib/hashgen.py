"""Grammar-directed generator of value trees (see hashmodel.py) and of one-step mutations, shared by the
C06/C07/C08 drivers.  All randomness comes from the rng passed in."""
import copy
import struct

STRS = ["", "a", "b", "ab", "abc", "a=b", "x:y", "k,", "}", ")", "str:1:a", "é", "日本", "A", "z" * 9, "0", "1"]
BYTES = [b"", b"a", b"\x00", b"\x00\x01", b"ab", b"\xff" * 3, b"1"]
INTS = [0, 1, -1, 2, 3, 5, 7, 10, 255, 256, -128, 2 ** 31, 2 ** 63 - 1, -2 ** 63, 2 ** 63, -2 ** 63 - 1, 2 ** 70,
        -10 ** 25]
FLOATS = [0.0, -0.0, 1.0, 1.5, -2.25, 1e300, float("inf"), float("-inf"), 5e-324, 3.141592653589793]
PATHS = ["/a/b", "a", "b", "a/b", "/", "x=y", "/tmp/f.txt", "a b"]
NAMES = ["a", "b", "c", "x", "val", "k1", "_p"]
CLSN = ["Pa", "Pb"]


class Ids:
    def __init__(self, start=1):
        self.n = start - 1

    def new(self):
        self.n += 1
        return self.n


def f_hex(x):
    return struct.pack("<d", x).hex()


def s_hex(s):
    return s.encode("utf-8").hex()


def atom(rng, kinds=None):
    k = rng.choice(kinds or ["none", "bool", "int", "int", "float", "str", "str", "bytes", "path"])
    if k == "none":
        return ["VNone"]
    if k == "bool":
        return ["VBool", rng.random() < 0.5]
    if k == "int":
        return ["VInt", rng.choice(INTS) if rng.random() < 0.7 else rng.randrange(-1000, 1000)]
    if k == "float":
        return ["VFloat", f_hex(rng.choice(FLOATS))]
    if k == "str":
        return ["VStr", s_hex(rng.choice(STRS))]
    if k == "bytes":
        return ["VBytes", rng.choice(BYTES).hex()]
    return ["VPath", rng.choice(["pathlib.PurePosixPath", "pathlib.PosixPath"]), s_hex(rng.choice(PATHS))]


ELEM_KINDS = ["int", "int", "str", "str", "bytes", "float", "tuple", "fset", "path", "mixed", "intbool"]


def hashable_elems(rng, ids, n, depth, kind=None):
    """n hashable element trees, mutually orderable unless kind is 'mixed' / 'fset' (partial order)."""
    kind = kind or rng.choice(ELEM_KINDS)
    out = []
    for _ in range(n):
        if kind == "tuple":
            out.append(["VTuple", ids.new(), [atom(rng, ["int"]) for _ in range(rng.randrange(0, 3))]])
        elif kind == "fset":
            out.append(["VFrozenset", ids.new(), [atom(rng, ["int"]) for _ in range(rng.randrange(0, 3))]])
        elif kind == "mixed":
            out.append(atom(rng, ["int", "str", "none", "bytes"]))
        elif kind == "intbool":
            out.append(atom(rng, ["int", "bool"]))
        else:
            out.append(atom(rng, [kind]))
    return out


def value(rng, ids, depth, width=4, top=False):
    """a value tree of nesting depth <= depth"""
    if depth <= 1 or rng.random() < (0.08 if top else 0.25):
        if rng.random() < 0.08:
            return nd(rng, ids)
        return atom(rng)
    k = rng.choice(["list", "list", "tuple", "set", "fset", "dict", "dict", "obj", "nd"])
    n = rng.randrange(0, width + 1)
    if k == "list":
        return ["VList", ids.new(), [value(rng, ids, depth - 1, width) for _ in range(n)]]
    if k == "tuple":
        return ["VTuple", ids.new(), [value(rng, ids, depth - 1, width) for _ in range(n)]]
    if k == "set":
        return ["VSet", ids.new(), hashable_elems(rng, ids, n, depth - 1)]
    if k == "fset":
        return ["VFrozenset", ids.new(), hashable_elems(rng, ids, n, depth - 1)]
    if k == "dict":
        keys = hashable_elems(rng, ids, n, depth - 1)
        return ["VDict", ids.new(), [[kk, value(rng, ids, depth - 1, width)] for kk in keys]]
    if k == "obj":
        kind = rng.choice(["plain", "slots", "attrs"])
        names = rng.sample(NAMES, min(n, len(NAMES)))
        t = ["VObj", ids.new(), "vmod." + rng.choice(CLSN), kind,
             [[nm, value(rng, ids, depth - 1, width)] for nm in names]]
        if kind == "attrs" and rng.random() < 0.5:
            t.append([["ne_h", atom(rng)]])      # eq=False attribute: not part of the value's bytes
        return t
    return nd(rng, ids)


def nd(rng, ids):
    import numpy as np
    dtype = rng.choice(["float64", "int64", "int32", "uint8", "float32"])
    shape = rng.choice([[], [1], [2], [6], [2, 3], [3, 2], [1, 6], [2, 1, 3], [0], [4]])
    n = 1
    for s in shape:
        n *= s
    vals = [rng.choice([0, 0, 1, 2, 3]) for _ in range(n)]
    arr = np.array(vals, dtype=dtype)
    if shape == [] and rng.random() < 0.5:
        return ["VNd", ids.new(), "numpy" + np.dtype(dtype).type.__name__, dtype, [], arr.tobytes().hex()]
    t = ["VNd", ids.new(), "numpyndarray", dtype, shape, arr.tobytes().hex()]
    if len(shape) >= 1 and rng.random() < 0.4:
        t.append(rng.choice(["F", "T", "S", "ST", "N"]))      # memory layout: not part of the value
    return t


def nd_layouts(rng, ids):
    """one array with at least 2 dimensions and distinct entries, in every memory layout"""
    import numpy as np
    dtype = rng.choice(["float64", "int64", "int32", "float32", "uint8"])
    shape = rng.choice([[2, 3], [3, 2], [3, 4], [2, 2, 3], [4, 1, 2], [1, 5], [5, 1], [2, 3, 2]])
    n = 1
    for s in shape:
        n *= s
    arr = (np.arange(n) + rng.randrange(5)).astype(dtype)
    base = ["VNd", 0, "numpyndarray", dtype, shape, arr.tobytes().hex()]
    out = []
    for lay in ["C", "F", "T", "S", "ST", "N"]:
        t = list(base) + [lay]
        t[1] = ids.new()
        out.append(t)
    return out


BIG_NBYTES = [8192 - 8, 8192, 8192 + 8, 2 * 8192 - 16, 2 * 8192, 2 * 8192 + 8, 3 * 8192 + 4096, 80000, 10 * 8192 + 24]


def nd_big_pair(rng, ids, k):
    """(where, t1, t2): two large constant-filled arrays (byte size around multiples of 8192, the chunk size numpy
    buffers are commonly streamed in) that differ in exactly one element: the last one, one inside the last
    (nbytes % 8192) bytes, the first one, or one in the middle; k cycles through sizes and positions"""
    import numpy as np
    dtype = ["float64", "uint8", "int32", "float64"][k % 4]
    item = np.dtype(dtype).itemsize
    nbytes = BIG_NBYTES[k % len(BIG_NBYTES)]
    n = nbytes // item
    fill = rng.choice([0, 1, 3])
    a = np.full(n, fill, dtype=dtype)
    where = ["last", "tail", "first", "middle", "last"][(k // len(BIG_NBYTES) + k) % 5]
    tail_items = max(1, (nbytes % 8192) // item)
    pos = {"last": n - 1, "tail": n - 1 - rng.randrange(tail_items), "first": 0, "middle": n // 2}[where]
    b = a.copy()
    b[pos] = fill + 5
    shape = [n] if k % 3 else [2, n // 2] if n % 2 == 0 else [n]
    t1 = ["VNd", ids.new(), "numpyndarray", dtype, shape, a.tobytes().hex()]
    t2 = ["VNd", ids.new(), "numpyndarray", dtype, shape, b.tobytes().hex()]
    if k % 2:
        t1 = ["VList", ids.new(), [t1, ["VInt", k]]]
        t2 = ["VList", ids.new(), [t2, ["VInt", k]]]
    return "%s@%d/%dB" % (where, pos, nbytes), t1, t2


# ------------------------------------------------------------------ traversal helpers
def children(t):
    k = t[0]
    if k in ("VList", "VTuple", "VSet", "VFrozenset"):
        return t[2]
    if k == "VDict":
        return [x for kv in t[2] for x in kv]
    if k == "VObj":
        return [v for _, v in t[4]]
    return []


def nodes(t, acc=None):
    acc = [] if acc is None else acc
    acc.append(t)
    for c in children(t):
        nodes(c, acc)
    return acc


def fresh(t, ids, idmap=None):
    """deep copy with fresh ids (aliasing inside t is preserved)"""
    idmap = {} if idmap is None else idmap
    t = copy.deepcopy(t)

    def go(x):
        if x[0] in ("VList", "VTuple", "VSet", "VFrozenset", "VDict", "VObj", "VNd", "VRef", "VFunc", "VOpaque"):
            if x[1] not in idmap:
                idmap[x[1]] = ids.new()
            x[1] = idmap[x[1]]
        for c in children(x):
            go(c)
    go(t)
    return t


def hashable(t):
    k = t[0]
    if k in ("VList", "VSet", "VDict", "VNd"):
        return False
    if k == "VObj":
        return True
    return all(hashable(c) for c in children(t))


# ------------------------------------------------------------------ one-step mutations
MUTATIONS = ["copy", "layout", "retag", "regroup", "scalar_type", "scalar_value", "permute", "array",
             "drop", "attr_name", "cls_name"]


def _inside_hashable_ctx(root, target):
    """is `target` (by identity) inside a set element / dict key of root?"""
    def go(x, inside):
        if x is target:
            return inside
        k = x[0]
        r = None
        if k in ("VSet", "VFrozenset"):
            for c in x[2]:
                r = go(c, True)
                if r is not None:
                    return r
        elif k == "VDict":
            for kk, v in x[2]:
                r = go(kk, True)
                if r is not None:
                    return r
                r = go(v, inside)
                if r is not None:
                    return r
        else:
            for c in children(x):
                r = go(c, inside)
                if r is not None:
                    return r
        return None
    return bool(go(root, False))


def mutate(rng, t, ids, only=None):
    """(name, t2): t2 is a fresh-id copy of t changed in one aspect ('copy': unchanged; `only`: allowed mutations)."""
    t2 = fresh(t, ids)
    pool = list(only) if only else MUTATIONS
    for m in rng.sample(pool, len(pool)):
        ns = nodes(t2)
        if m == "copy":
            return m, t2
        if m == "layout":
            # the same array in another memory layout: the value is unchanged
            c = [x for x in ns if x[0] == "VNd" and x[2] == "numpyndarray" and len(x[4]) >= 1]
            if not c:
                continue
            x = rng.choice(c)
            cur = x[6] if len(x) > 6 else "C"
            new = rng.choice([l for l in ["C", "F", "T", "S", "ST", "N"] if l != cur])
            del x[6:]
            x.append(new)
            return m, t2
        if m == "retag":
            c = [x for x in ns if x[0] in ("VList", "VTuple", "VSet", "VFrozenset")]
            c = [x for x in c if not _inside_hashable_ctx(t2, x) or x[0] in ("VTuple",)]
            if not c:
                continue
            x = rng.choice(c)
            if _inside_hashable_ctx(t2, x):
                continue
            if x[0] in ("VList", "VTuple"):
                x[0] = {"VList": "VTuple", "VTuple": "VList"}[x[0]]
            else:
                x[0] = {"VSet": "VFrozenset", "VFrozenset": "VSet"}[x[0]]
            return m, t2
        if m == "regroup":
            c = [x for x in ns if x[0] in ("VList", "VTuple") and len(x[2]) >= 2 and not _inside_hashable_ctx(t2, x)]
            if not c:
                continue
            x = rng.choice(c)
            k = rng.randrange(1, len(x[2]))
            x[2] = [[x[0], ids.new(), x[2][:k]]] + x[2][k:]
            return m, t2
        if m == "scalar_type":
            c = [x for x in ns if x[0] in ("VInt", "VBool", "VStr", "VBytes", "VFloat") and not _inside_hashable_ctx(t2, x)]
            if not c:
                continue
            x = rng.choice(c)
            if x[0] == "VInt":
                v = x[1]
                alt = [["VStr", s_hex(str(v))]]
                if abs(v) < 2 ** 52:
                    alt.append(["VFloat", f_hex(float(v))])
                if v in (0, 1):
                    alt.append(["VBool", bool(v)])
                x[:] = rng.choice(alt)
            elif x[0] == "VBool":
                x[:] = ["VInt", int(x[1])]
            elif x[0] == "VStr":
                x[:] = ["VBytes", x[1]]
            elif x[0] == "VBytes":
                try:
                    bytes.fromhex(x[1]).decode("utf-8")
                except UnicodeDecodeError:
                    continue
                x[:] = ["VStr", x[1]]
            else:
                f = struct.unpack("<d", bytes.fromhex(x[1]))[0]
                if f != f or f in (float("inf"), float("-inf")) or f != int(f):
                    continue
                x[:] = ["VInt", int(f)]
            return m, t2
        if m == "scalar_value":
            c = [x for x in ns if x[0] in ("VInt", "VStr", "VBytes", "VFloat", "VBool") and not _inside_hashable_ctx(t2, x)]
            if not c:
                continue
            x = rng.choice(c)
            if x[0] == "VInt":
                x[1] = x[1] + rng.choice([1, -1, 256, 2 ** 32])
            elif x[0] == "VBool":
                x[1] = not x[1]
            elif x[0] == "VFloat":
                f = struct.unpack("<d", bytes.fromhex(x[1]))[0]
                x[1] = f_hex(-f if f == f and f != 0 else (0.0 if f != f or str(f) == "-0.0" else -0.0))
            else:
                x[1] = x[1] + "61"
            return m, t2
        if m == "permute":
            c = [x for x in ns if x[0] in ("VSet", "VFrozenset", "VDict") and len(x[2]) >= 2]
            c += [x for x in ns if x[0] == "VObj" and x[3] == "plain" and len(x[4]) >= 2]
            if not c:
                continue
            x = rng.choice(c)
            lst = x[4] if x[0] == "VObj" else x[2]
            p = lst[:]
            rng.shuffle(p)
            if p == lst:
                p = lst[::-1]
            lst[:] = p
            return m, t2
        if m == "array":
            c = [x for x in ns if x[0] == "VNd" and x[2] == "numpyndarray"]
            if not c:
                continue
            x = rng.choice(c)
            n = 1
            for s in x[4]:
                n *= s
            if rng.random() < 0.6:
                alts = [s for s in ([n], [1, n], [n, 1], [2, n // 2] if n % 2 == 0 else [n], [n // 2, 2] if n % 2 == 0 else [n])
                        if s != x[4]]
                if not alts:
                    continue
                x[4] = rng.choice(alts)
            else:
                same = {"float64": "int64", "int64": "float64", "int32": "float32", "float32": "int32", "uint8": "int8"}
                x[3] = same[x[3]]
            return m, t2
        if m == "drop":
            c = [x for x in ns if x[0] in ("VList", "VTuple") and len(x[2]) >= 1 and not _inside_hashable_ctx(t2, x)]
            if not c:
                continue
            x = rng.choice(c)
            del x[2][rng.randrange(len(x[2]))]
            return m, t2
        if m == "attr_name":
            c = [x for x in ns if x[0] == "VObj" and x[4] and not _inside_hashable_ctx(t2, x)]
            if not c:
                continue
            x = rng.choice(c)
            j = rng.randrange(len(x[4]))
            new = x[4][j][0] + "q"
            x[4][j][0] = new
            return m, t2
        if m == "cls_name":
            c = [x for x in ns if x[0] == "VObj" and not _inside_hashable_ctx(t2, x)]
            if not c:
                continue
            x = rng.choice(c)
            x[2] = x[2] + "x"
            return m, t2
    return "copy", t2


def alias_pair(rng, ids, depth):
    """(v1, v2): the same content, but v1 holds two separately built equal objects where v2 holds one object twice."""
    for _ in range(20):
        x = value(rng, ids, depth)
        if x[0] in ("VList", "VTuple", "VDict", "VObj", "VSet", "VFrozenset"):
            break
    tag = rng.choice(["VList", "VTuple"])
    extra = [atom(rng) for _ in range(rng.randrange(0, 2))]
    v1 = [tag, ids.new(), [x] + extra + [fresh(x, ids)]]
    x2 = fresh(x, ids)
    v2 = [tag, ids.new(), [x2] + fresh(["VList", 0, extra], ids)[2] + [copy.deepcopy(x2)]]
    return v1, v2


def add_cycle(rng, t, ids):
    """make t cyclic: some mutable container inside t gets a reference to an enclosing list/dict/object.
    Returns (t, inner) where inner is the node that received the back reference, or None."""
    def paths(x, anc, acc):
        if x[0] in ("VList", "VDict") or (x[0] == "VObj" and x[3] != "slots"):
            for a in anc:
                acc.append((a, x))
            anc = anc + [x]
        elif x[0] in ("VSet", "VFrozenset"):
            return
        if x[0] == "VDict":
            for _, v in x[2]:
                paths(v, anc, acc)
        else:
            for c in children(x):
                paths(c, anc, acc)
    acc = []
    paths(t, [], acc)
    acc += [(x, x) for x in nodes(t) if x[0] == "VList"]
    acc = [(a, x) for a, x in acc if not _inside_hashable_ctx(t, x) and not _inside_hashable_ctx(t, a)]
    if not acc:
        return None
    a, x = rng.choice(acc)
    ref = ["VRef", a[1]]
    if x[0] == "VList":
        x[2].insert(rng.randrange(len(x[2]) + 1), ref)
    elif x[0] == "VDict":
        x[2].append([["VStr", s_hex("cyc%d" % ids.new())], ref])
    else:
        x[4].append(["cyc", ref])
    return x
