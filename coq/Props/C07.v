(* C07 — identical computations map to the same cache identity in every session. *)
From Coq Require Import Sorting.Permutation.
From Pydra Require Import Base.Prelude Base.PySort Model.Hash Spec.Hash Proofs.HashSort Proofs.HashCtx
     Proofs.HashOrder Proofs.HashDom Proofs.HashRefuted Proofs.HashTask Proofs.HashExamples Proofs.HashOrderDeep.

(* What another session can change about equal inputs: the iteration order of every set / frozenset (hash
   randomisation), the insertion order of every dict, and every object identity (pickling round trip, separate
   construction).  That is [session_variant]: same field names, values related by [reorder].  The checksum has no
   cache-root / worker argument at all (Model.Hash.checksum : H -> task type -> fields -> result). *)
Definition C07_full_statement : Prop :=
  forall H ty f1 f2, session_variant f1 f2 -> checksum H ty f1 = checksum H ty f2.

Theorem C07_refuted_frozenset_of_frozensets : ~ C07_full_statement.
Proof. intros S. destruct checksum_seed_dependent as [V N]. exact (N (S toyH _ _ _ V)). Qed.
Print Assumptions C07_refuted_frozenset_of_frozensets.

(* the value-level form: the two iteration orders of frozenset({frozenset({1,2}), frozenset({3,4})}) *)
Theorem C07_refuted_value : exists a b, reorder a b /\ veq a b /\ digest toyH a <> digest toyH b.
Proof.
  exists po_s1, po_s2. split; [apply ro_fset; apply perm_swap|exact partial_order_iteration_dependent].
Qed.
Print Assumptions C07_refuted_value.

(* the strongest positive statement: whenever `<` is a strict total order on the elements / keys of every set
   and dict inside the inputs (and the inputs have no reference cycles), the checksum is the same in every
   session *)
Theorem C07_seed_independent :
  forall H env1 env2 ty f1 f2,
    session_variant f1 f2 ->
    (forall kv, In kv f1 -> sortable (snd kv) /\ hashable_acyclic H env1 (snd kv)) ->
    (forall kv, In kv f2 -> hashable_acyclic H env2 (snd kv)) ->
    checksum H ty f1 = checksum H ty f2.
Proof. exact checksum_session_independent. Qed.
Print Assumptions C07_seed_independent.

(* the value-level form *)
Theorem C07_value_seed_independent :
  forall H f v1 v2, reorder v1 v2 -> sortable v1 -> dig H f v1 tt = dig H f v2 tt.
Proof. exact dig_reorder. Qed.
Print Assumptions C07_value_seed_independent.

(* the sort itself: CPython's small-list algorithm returns the same list for every input order when `<` is a
   strict total order on the pairwise distinct elements; on a partial order it need not (the refutation above) *)
Theorem C07_sorted_order_free :
  forall l1 l2, keys_ok l1 -> Permutation l1 l2 -> sorted_res vlt l1 = sorted_res vlt l2.
Proof. exact sorted_set_perm. Qed.
Print Assumptions C07_sorted_order_free.

(* the checksum depends on the field values only through the digests they have alone *)
Theorem C07_checksum_of_digests :
  forall H env fields, (forall kv, In kv fields -> hashable_acyclic H env (snd kv)) ->
    compute_hash H fields = hash_of_items H (map (fun kv : string * pyval => (fst kv, hex (dg H (snd kv)))) fields).
Proof. exact compute_hash_alone. Qed.
Print Assumptions C07_checksum_of_digests.

Theorem C07_example : forall H,
    session_variant [("x"%string, ex_s1)] [("x"%string, ex_s2)] /\
    (forall kv, In kv [("x"%string, ex_s1)] -> sortable (snd kv) /\ hashable_acyclic H ex_env1 (snd kv)) /\
    (forall kv, In kv [("x"%string, ex_s2)] -> hashable_acyclic H ex_env2 (snd kv)).
Proof. exact ex_session_hyps. Qed.
Print Assumptions C07_example.

(* the same with inputs whose sets are re-ordered at every nesting level at once ([session_variant_deep]: field
   values related by [operm], which carries, per set node, "elements pairwise distinct, totally ordered by `<`, and
   `<` answers alike in both sessions"); nested frozensets that form a chain are inside, incomparable ones (F07) not *)
Theorem C07_seed_independent_deep :
  forall H env1 env2 ty f1 f2,
    session_variant_deep f1 f2 ->
    (forall kv, In kv f1 -> hashable_acyclic H env1 (snd kv)) ->
    (forall kv, In kv f2 -> hashable_acyclic H env2 (snd kv)) ->
    checksum H ty f1 = checksum H ty f2.
Proof. exact checksum_session_independent_deep. Qed.
Print Assumptions C07_seed_independent_deep.

Theorem C07_deep_example : operm nx_v1 nx_v2 /\ session_variant_deep [("x"%string, nx_v1)] [("x"%string, nx_v2)].
Proof. split; [exact nested_operm|]. constructor; [split; [reflexivity|exact nested_operm]|constructor]. Qed.
Print Assumptions C07_deep_example.
