(* C26 — Output path templates resolve inside the job directory. *)
From Pydra Require Import Base.Prelude Base.PyPath Base.PyFormat Model.Template Spec.Template Proofs.Template.

(* the property at full strength: every path resolved from a path template lies strictly inside the job directory *)
Definition C26_full_statement : Prop :=
  forall (o : outarg) (values : env) (job_dir : list ascii) (r : resolved),
    resolve_output o values job_dir = Ok r -> all_inside job_dir r.

(* false on the unchanged code: the template ".." resolves to the parent of the job directory (finding F26) *)
Theorem C26_refuted_dotdot : ~ C26_full_statement.
Proof. exact refuted_dotdot. Qed.
Print Assumptions C26_refuted_dotdot.

(* ... and a template that fills in to "." resolves to the job directory itself *)
Theorem C26_refuted_jobdir :
  exists o values cd r, resolve_output o values cd = Ok r /\ ~ all_inside cd r /\ r = ROne (la_of "/cache/job").
Proof. exact refuted_jobdir. Qed.
Print Assumptions C26_refuted_jobdir.

(* partial: for every outarg, template, input values and job directory, each resolved path is
   job_dir / (last component of the filled-in template); it is strictly inside the job directory when that
   component is neither missing nor "..", and it is not inside otherwise (so the guard is exact) *)
Theorem C26_inside :
  forall o values cd r,
    resolve_output o values cd = Ok r ->
    exists f, template_formatting o values = Ok f /\
      resolved_paths r = map (in_cache cd) (formatted_strings f) /\
      (forall s, In s (formatted_strings f) ->
         (bad_name s = false ->
            in_cache_path cd s = {| p_anchor := p_anchor (parse cd); p_comps := (p_comps (parse cd) ++ [pname (parse s)])%list |}
            /\ inside_str cd (in_cache cd s)) /\
         (bad_name s = true -> ~ inside_str cd (in_cache cd s))).
Proof. exact resolve_output_inside. Qed.
Print Assumptions C26_inside.

(* the same with the excluded input class as one computable predicate (the driver's classifier for F26) *)
Theorem C26_partial :
  forall o values cd r,
    resolve_output o values cd = Ok r -> degenerate_name o values = false -> all_inside cd r.
Proof. exact resolve_output_all_inside. Qed.
Print Assumptions C26_partial.

Example C26_partial_nontrivial :
  let o := {| o_multi := false; o_keep := true; o_template := TOne (la_of "{a}_out") |} in
  let values := [(la_of "a", VAtom (APath (la_of "/data/in/x.nii.gz")))] in
  resolve_output o values (la_of "/cache/job") = Ok (ROne (la_of "/cache/job/x_out.nii.gz"))
  /\ degenerate_name o values = false.
Proof. split; reflexivity. Qed.

(* what Job.inputs holds for the outarg when the template is used *)
Theorem C26_partial_job_inputs :
  forall o values cd r,
    resolve_input o GTrue values cd = Ok r -> degenerate_name o values = false -> all_inside cd r.
Proof. exact resolve_input_all_inside. Qed.
Print Assumptions C26_partial_job_inputs.

(* an explicitly supplied output path is used as given (up to pathlib's own normalisation of the text) *)
Theorem C26_explicit_as_given :
  forall o s values cd, exists x, resolve_input o (GPath s) values cd = Ok (ROne x) /\ same_path x s.
Proof. exact explicit_as_given. Qed.
Print Assumptions C26_explicit_as_given.

(* deterministic: the resolved path is a function of the job directory and of the values of the fields the
   template references (the names the code's two regexes find) — no other input can influence it *)
Theorem C26_deterministic :
  forall o g v1 v2 cd,
    (forall n, In n (template_refs o) -> lookup n v1 = lookup n v2) ->
    resolve_output o v1 cd = resolve_output o v2 cd /\ resolve_input o g v1 cd = resolve_input o g v2 cd.
Proof. exact resolve_deterministic. Qed.
Print Assumptions C26_deterministic.

(* keep_extension = False ("dropping as declared"): two input assignments that differ only in the extensions of
   their path-valued fields resolve to the same path *)
Theorem C26_ext_dropped :
  forall o v1 v2 cd, o_keep o = false -> same_up_to_ext v1 v2 -> resolve_output o v1 cd = resolve_output o v2 cd.
Proof. exact ext_dropped. Qed.
Print Assumptions C26_ext_dropped.

Example C26_ext_dropped_nontrivial :
  file_stem_path (la_of "/data/in/x.nii.gz") = file_stem_path (la_of "/data/in/x.txt")
  /\ resolve_output {| o_multi := false; o_keep := false; o_template := TOne (la_of "{a}_out") |}
       [(la_of "a", VAtom (APath (la_of "/data/in/x.nii.gz")))] (la_of "/cache/job") = Ok (ROne (la_of "/cache/job/x_out")).
Proof. split; reflexivity. Qed.

(* keep_extension = True ("keeping as declared"): when the input file has an extension e, the template has no '.'
   of its own and references the file once, formatting gives the keep_extension = False text followed by "." e *)
Theorem C26_ext_kept :
  forall t d n f e,
    all_word n = true -> n <> [] ->
    file_ext f = Some e -> has_dot t = false ->
    (forall ps, tokenize t = Ok ps -> count_field n ps <= 1) ->
    element_formatting t d (Some (n, f)) true =
    bind (element_formatting t d (Some (n, f)) false) (fun s => Ok (s ++ "."%char :: e)%list).
Proof. exact ext_kept. Qed.
Print Assumptions C26_ext_kept.

Example C26_ext_kept_nontrivial :
  let t := la_of "pre_{a}" in let n := la_of "a" in let f := la_of "/data/in/x.nii.gz" in
  all_word n = true /\ file_ext f = Some (la_of "nii.gz") /\ has_dot t = false
  /\ (exists ps, tokenize t = Ok ps /\ count_field n ps = 1)
  /\ element_formatting t [] (Some (n, f)) true = Ok (la_of "pre_/data/in/x.nii.gz").
Proof. repeat split; try reflexivity. eexists. split; reflexivity. Qed.
