(* Proofs/Rules.v — C31: the rule checker against the property's formula. *)
From Pydra Require Import Base.Prelude Model.Rules Spec.Rules.
Local Open Scope string_scope.

(* ---------------------------------------------------------------- list facts *)
Lemma flat_map_nil {A B} (f : A -> list B) l :
  flat_map f l = [] <-> forall x, In x l -> f x = [].
Proof.
  induction l as [|a l IH]; cbn.
  - split; [intros _ x []|reflexivity].
  - split.
    + intros H. apply app_eq_nil in H as [Ha Hl]. intros x [<-|Hx]; [exact Ha|].
      now apply IH.
    + intros H. rewrite (H a (or_introl eq_refl)). cbn. apply IH. intros x Hx. apply H. now right.
Qed.

Lemma filter_nil {A} (p : A -> bool) l :
  filter p l = [] <-> forall x, In x l -> p x = false.
Proof.
  induction l as [|a l IH]; cbn.
  - split; [intros _ x []|reflexivity].
  - destruct (p a) eqn:Pa.
    + split; [discriminate|]. intros H. rewrite (H a (or_introl eq_refl)) in Pa. discriminate.
    + rewrite IH. split.
      * intros H x [<-|Hx]; auto.
      * intros H x Hx. apply H. now right.
Qed.

Lemma length_zero_nil {A} (l : list A) : List.length l = 0 <-> l = [].
Proof. destruct l; cbn; split; congruence. Qed.

(* at most one element satisfies p, in a list without duplicates *)
Lemma filter_le1 {A} (p : A -> bool) l : NoDup l ->
  (List.length (filter p l) <= 1 <->
   forall a b, In a l -> In b l -> p a = true -> p b = true -> a = b).
Proof.
  induction 1 as [|x l Hx ND IH]; cbn.
  - split; [intros _ a b []|lia].
  - destruct (p x) eqn:Px; cbn.
    + split.
      * intros H.
        assert (E : filter p l = []) by (apply length_zero_nil; lia).
        pose proof (proj1 (filter_nil p l) E) as F.
        intros a b [<-|Ha] [<-|Hb] Pa Pb; auto.
        -- rewrite (F b Hb) in Pb. discriminate.
        -- rewrite (F a Ha) in Pa. discriminate.
        -- rewrite (F a Ha) in Pa. discriminate.
      * intros H.
        assert (E : filter p l = []).
        { apply filter_nil. intros y Hy. destruct (p y) eqn:Py; [|reflexivity].
          exfalso. apply Hx. rewrite (H x y (or_introl eq_refl) (or_intror Hy) Px Py). exact Hy. }
        rewrite E. cbn. lia.
    + rewrite IH. split.
      * intros H a b [<-|Ha] [<-|Hb] Pa Pb; try congruence. now apply H.
      * intros H a b Ha Hb. apply H; now right.
Qed.

Lemma filter_ge1 {A} (p : A -> bool) l :
  1 <= List.length (filter p l) <-> exists a, In a l /\ p a = true.
Proof.
  split.
  - intros H. destruct (filter p l) as [|a r] eqn:E; [cbn in H; lia|].
    exists a. apply filter_In. rewrite E. now left.
  - intros [a Ha]. apply filter_In in Ha. destruct (filter p l); [destruct Ha|cbn; lia].
Qed.

Lemma NoDup_map_inj {A B} (f : A -> B) l a b :
  NoDup (map f l) -> In a l -> In b l -> f a = f b -> a = b.
Proof.
  induction l as [|x l IH]; cbn; [intros _ []|].
  intros ND Ha Hb E. inversion ND as [|? ? Hx ND']; subst.
  destruct Ha as [<-|Ha], Hb as [<-|Hb]; auto.
  - exfalso. apply Hx. rewrite E. now apply in_map.
  - exfalso. apply Hx. rewrite <- E. now apply in_map.
Qed.

Lemma NoDup_of_map {A B} (f : A -> B) l : NoDup (map f l) -> NoDup l.
Proof.
  induction l as [|x l IH]; cbn; intros ND; [constructor|].
  inversion ND; subst. constructor; [|auto]. intros Hx. apply H1. now apply in_map.
Qed.

(* ---------------------------------------------------------------- decidable no-duplicates *)
Lemma existsb_eqb_In x l : existsb (String.eqb x) l = true <-> In x l.
Proof.
  rewrite existsb_exists. split.
  - intros [y [Hy E]]. apply String.eqb_eq in E. now subst.
  - intros H. exists x. split; [exact H|apply String.eqb_refl].
Qed.

Lemma nodupb_spec l : nodupb l = true -> NoDup l.
Proof.
  induction l as [|x l IH]; cbn; [constructor|].
  rewrite andb_true_iff, negb_true_iff. intros [H1 H2]. constructor; [|auto].
  intros Hx. apply existsb_eqb_In in Hx. congruence.
Qed.

Lemma oeqb_spec (a b : option string) : option_eqb String.eqb a b = true <-> a = b.
Proof.
  destruct a, b; cbn; try (split; congruence).
  rewrite String.eqb_eq. split; congruence.
Qed.

Lemma existsb_oeqb_In x l : existsb (option_eqb String.eqb x) l = true <-> In x l.
Proof.
  rewrite existsb_exists. split.
  - intros [y [Hy E]]. apply oeqb_spec in E. now subst.
  - intros H. exists x. split; [exact H|now apply oeqb_spec].
Qed.

Lemma nodupb_o_spec l : nodupb_o l = true -> NoDup l.
Proof.
  induction l as [|x l IH]; cbn; [constructor|].
  rewrite andb_true_iff, negb_true_iff. intros [H1 H2]. constructor; [|auto].
  intros Hx. apply existsb_oeqb_In in Hx. congruence.
Qed.

(* ---------------------------------------------------------------- well-formed definitions *)
Record Wf (d : taskdef) : Prop := {
  wf_names : NoDup (map fname (fields d));
  wf_nonempty : forall f, In f (fields d) -> fname f <> "";
  wf_reqs : forall f rs r, In f (fields d) -> In rs (frequires f) -> In r rs ->
            exists g, In g (fields d) /\ fname g = rname r;
  wf_xor_nodup : forall x, In x (xors d) -> NoDup x;
  wf_xor_fields : forall x n, In x (xors d) -> In (Some n) x -> exists g, In g (fields d) /\ fname g = n
}.

Lemma is_field_spec d n : is_field d n = true <-> exists g, In g (fields d) /\ fname g = n.
Proof.
  unfold is_field. rewrite existsb_exists. split; intros [g [Hg E]]; exists g; split; auto.
  - now apply String.eqb_eq.
  - now apply String.eqb_eq.
Qed.

Lemma wf_def_Wf d : wf_def d = true -> Wf d.
Proof.
  unfold wf_def. rewrite !andb_true_iff. intros [[[H1 H2] H3] H4].
  rewrite forallb_forall in H2, H3, H4. constructor.
  - now apply nodupb_spec.
  - intros f Hf E. specialize (H2 f Hf). rewrite E in H2. discriminate.
  - intros f rs r Hf Hrs Hr. specialize (H3 f Hf). rewrite forallb_forall in H3.
    specialize (H3 rs Hrs). rewrite forallb_forall in H3. apply is_field_spec. now apply H3.
  - intros x Hx. specialize (H4 x Hx). apply andb_true_iff in H4 as [H4 _]. now apply nodupb_o_spec.
  - intros x n Hx Hn. specialize (H4 x Hx). apply andb_true_iff in H4 as [_ H4].
    rewrite forallb_forall in H4. apply is_field_spec. exact (H4 (Some n) Hn).
Qed.

Lemma same_name_same_field d f g : Wf d -> In f (fields d) -> In g (fields d) -> fname f = fname g -> f = g.
Proof. intros W. apply NoDup_map_inj, W. Qed.

Lemma type_of_field d g : Wf d -> In g (fields d) -> type_of d (fname g) = ftype g.
Proof.
  intros W Hg. unfold type_of.
  destruct (find (fun f => fname f =? fname g) (rev (fields d))) as [f|] eqn:F.
  - apply find_some in F as [Hf E]. apply String.eqb_eq in E. rewrite <- in_rev in Hf.
    now rewrite (same_name_same_field d f g W Hf Hg E).
  - exfalso. pose proof (find_none _ _ F g) as N. cbn in N. rewrite String.eqb_refl in N.
    assert (In g (rev (fields d))) by now rewrite <- in_rev. specialize (N H). discriminate.
Qed.

(* ---------------------------------------------------------------- the model against the formula
   with the code's own three notions of "set" *)
Definition N (b : notionb) : notion := fun k v => b k v = true.

Lemma allowed_ok_iff r v :
  match rallowed r with None => true | Some l => existsb (py_eq v) l end = true <-> allowed_ok r v.
Proof.
  unfold allowed_ok. destruct (rallowed r) as [l|]; [|tauto].
  rewrite existsb_exists. split; intros [a Ha]; exists a; exact Ha.
Qed.

Lemma req_satisfied_spec d e r : Wf d ->
  (exists g, In g (fields d) /\ fname g = rname r) ->
  (req_satisfied d e r = true <-> requirement_met (N set_required) d e r).
Proof.
  intros W [g [Hg E]]. unfold req_satisfied, requirement_met, N.
  assert (Ty : type_of d (rname r) = ftype g) by (rewrite <- E; now apply type_of_field).
  rewrite Ty. split.
  - intros H. exists g. destruct (set_required (ftype g) (e (rname r))); [|discriminate].
    repeat split; auto. now apply allowed_ok_iff.
  - intros [g' [Hg' [E' [S A]]]].
    assert (g' = g) by (apply (same_name_same_field d); auto; congruence). subst g'.
    rewrite S. now apply allowed_ok_iff.
Qed.

Lemma field_errors_nil d e f : Wf d -> In f (fields d) ->
  (field_errors d e f = [] <->
   (fmay_unset f = false -> e (fname f) <> VNothing) /\
   (set_trigger (ftype f) (e (fname f)) = true -> frequires f <> [] ->
    exists rs, In rs (frequires f) /\ forall r, In r rs -> requirement_met (N set_required) d e r)).
Proof.
  intros W Hf. unfold field_errors.
  set (v := e (fname f)).
  assert (RS : forall rs, In rs (frequires f) ->
               (reqset_satisfied d e rs = true <-> forall r, In r rs -> requirement_met (N set_required) d e r)).
  { intros rs Hrs. unfold reqset_satisfied. rewrite forallb_forall. split; intros H r Hr.
    - apply req_satisfied_spec; auto. eapply wf_reqs; eauto.
    - apply req_satisfied_spec; auto. eapply wf_reqs; eauto. }
  split.
  - intros H. apply app_eq_nil in H as [H1 H2]. split.
    + intros M V. rewrite V, M in H1. cbn in H1. discriminate.
    + intros T NE. rewrite T in H2. destruct (frequires f) as [|rs0 rss] eqn:RQ; [congruence|].
      cbn [nonempty andb] in H2.
      destruct (existsb (reqset_satisfied d e) (rs0 :: rss)) eqn:EX; [|discriminate].
      apply existsb_exists in EX as [rs [Hrs S]]. exists rs. split; [exact Hrs|]. now apply RS.
  - intros [H1 H2].
    assert (M : (if is_nothing v && negb (fmay_unset f) then [EMandatory (fname f)] else []) = []).
    { destruct v eqn:V; cbn; try reflexivity. destruct (fmay_unset f) eqn:MU; [reflexivity|].
      exfalso. now apply H1. }
    rewrite M. cbn [app].
    destruct (set_trigger (ftype f) v) eqn:T; [|reflexivity].
    destruct (frequires f) as [|rs0 rss] eqn:RQ; [reflexivity|]. cbn [nonempty andb].
    destruct (H2 eq_refl) as [rs [Hrs S]]; [congruence|].
    assert (EX : existsb (reqset_satisfied d e) (rs0 :: rss) = true).
    { apply existsb_exists. exists rs. split; [exact Hrs|]. now apply RS. }
    now rewrite EX.
Qed.

Lemma in_xor_names x n : In n (xor_names x) <-> In (Some n) x /\ n <> "".
Proof.
  unfold xor_names. rewrite in_flat_map. split.
  - intros [o [Ho Hn]]. destruct o as [m|]; [|destruct Hn].
    destruct (m =? "") eqn:E; [destruct Hn|]. destruct Hn as [<-|[]].
    split; [exact Ho|]. now apply String.eqb_neq.
  - intros [Ho Hn]. exists (Some n). split; [exact Ho|].
    apply String.eqb_neq in Hn. rewrite Hn. now left.
Qed.

Lemma NoDup_xor_names x : NoDup x -> NoDup (xor_names x).
Proof.
  induction 1 as [|o x Ho ND IH]; cbn; [constructor|].
  destruct o as [m|]; [|exact IH]. destruct (m =? ""); [exact IH|]. cbn.
  constructor; [|exact IH]. intros H. apply in_xor_names in H as [H _]. contradiction.
Qed.

Lemma has_none_spec x : has_none x = true <-> In None x.
Proof.
  unfold has_none. rewrite existsb_exists. split.
  - intros [o [Ho E]]. destruct o; [discriminate|exact Ho].
  - intros H. now exists None.
Qed.

Lemma member_set_code d e x n : Wf d -> In x (xors d) ->
  (member_set (N set_exclusive) d e x n <-> In n (xor_names x) /\ truthy (e n) = true).
Proof.
  intros W Hx. unfold member_set, N, set_exclusive. rewrite in_xor_names. split.
  - intros [Hn [g [Hg [E T]]]]. repeat split; auto. rewrite <- E. now apply (wf_nonempty d W).
  - intros [[Hn _] T]. split; [exact Hn|].
    destruct (wf_xor_fields d W x n Hx Hn) as [g [Hg E]]. exists g. auto.
Qed.

Lemma xor_errors_nil d e x : Wf d -> In x (xors d) ->
  (xor_errors e x = [] <->
   (forall n m, member_set (N set_exclusive) d e x n -> member_set (N set_exclusive) d e x m -> n = m) /\
   (~ In None x -> exists n, member_set (N set_exclusive) d e x n)).
Proof.
  intros W Hx. unfold xor_errors.
  set (names := xor_names x). set (p := fun n => truthy (e n)).
  assert (ND : NoDup names) by (apply NoDup_xor_names, (wf_xor_nodup d W x Hx)).
  pose proof (filter_le1 p names ND) as LE.
  pose proof (filter_ge1 p names) as GE.
  assert (MS : forall n, member_set (N set_exclusive) d e x n <-> In n names /\ p n = true)
    by (intros n; now apply member_set_code).
  destruct (Nat.ltb 1 (List.length (filter p names))) eqn:L1.
  - apply Nat.ltb_lt in L1. split; [discriminate|]. intros [U _]. exfalso.
    assert (List.length (filter p names) <= 1); [|lia].
    apply LE. intros a b Ha Hb Pa Pb. apply U; apply MS; auto.
  - apply Nat.ltb_ge in L1.
    destruct (Nat.eqb (List.length (filter p names)) 0) eqn:Z; cbn [andb].
    + apply Nat.eqb_eq in Z. destruct (has_none x) eqn:HN; cbn [negb].
      * split; [|reflexivity]. intros _. split.
        -- intros n m Hn Hm. apply MS in Hn, Hm. apply (proj1 LE L1); tauto.
        -- intros NN. exfalso. apply NN. now apply has_none_spec.
      * split; [discriminate|]. intros [_ E]. exfalso.
        destruct E as [n Hn].
        { intros H. apply has_none_spec in H. congruence. }
        apply MS in Hn. assert (1 <= List.length (filter p names)); [|lia].
        apply GE. now exists n.
    + apply Nat.eqb_neq in Z. split; [|reflexivity]. intros _. split.
      * intros n m Hn Hm. apply MS in Hn, Hm. apply (proj1 LE L1); tauto.
      * intros _. assert (G : 1 <= List.length (filter p names)) by lia.
        apply GE in G as [n Hn]. exists n. now apply MS.
Qed.

Definition code_notions_spec : taskdef -> env -> Prop :=
  Spec_roles (N set_trigger) (N set_required) (N set_exclusive).

Lemma rules_ok_nil d e : rules_ok d e = true <-> rule_violations d e = [].
Proof. unfold rules_ok. destruct (rule_violations d e); split; congruence. Qed.

(* what the rule checker enforces, for every well-formed definition and every assignment *)
Theorem rules_ok_roles d e : Wf d -> (rules_ok d e = true <-> code_notions_spec d e).
Proof.
  intros W. rewrite rules_ok_nil. unfold rule_violations, code_notions_spec, Spec_roles.
  split.
  - intros H. apply app_eq_nil in H as [HF HX].
    pose proof (proj1 (flat_map_nil _ _) HF) as HF'. pose proof (proj1 (flat_map_nil _ _) HX) as HX'.
    clear HF HX. rename HF' into HF, HX' into HX. repeat split.
    + intros f Hf. now apply (field_errors_nil d e f W Hf), HF.
    + intros f Hf. now apply (field_errors_nil d e f W Hf), HF.
    + now apply (xor_errors_nil d e x W H), HX.
    + now apply (xor_errors_nil d e x W H), HX.
  - intros [M [R X]].
    assert (HF : flat_map (field_errors d e) (fields d) = []).
    { apply flat_map_nil. intros f Hf. apply (field_errors_nil d e f W Hf). split; [exact (M f Hf)|exact (R f Hf)]. }
    assert (HX : flat_map (xor_errors e) (xors d) = []).
    { apply flat_map_nil. intros x Hx. apply (xor_errors_nil d e x W Hx). exact (X x Hx). }
    now rewrite HF, HX.
Qed.

(* ---------------------------------------------------------------- the executable formula is the formula *)
Section Exec.
  Variables tb rb xb : notionb.

  Lemma mandatory_okb_spec d e : mandatory_okb d e = true <-> mandatory_ok d e.
  Proof.
    unfold mandatory_okb, mandatory_ok. rewrite forallb_forall. split.
    - intros H f Hf M V. specialize (H f Hf). rewrite M, V in H. discriminate.
    - intros H f Hf. destruct (fmay_unset f) eqn:M; [reflexivity|]. cbn.
      destruct (e (fname f)) eqn:V; try reflexivity. exfalso. now apply (H f Hf M).
  Qed.

  Lemma allowed_okb_spec r v : allowed_okb r v = true <-> allowed_ok r v.
  Proof.
    unfold allowed_okb, allowed_ok. destruct (rallowed r) as [l|]; [|tauto].
    rewrite existsb_exists. split; intros [a Ha]; exists a; exact Ha.
  Qed.

  Lemma requirement_metb_spec d e r : requirement_metb rb d e r = true <-> requirement_met (N rb) d e r.
  Proof.
    unfold requirement_metb, requirement_met, N. rewrite existsb_exists.
    split; intros [g H]; exists g.
    - destruct H as [Hg H]. rewrite !andb_true_iff in H. destruct H as [[E R] A].
      apply String.eqb_eq in E. apply allowed_okb_spec in A. auto.
    - destruct H as [Hg [E [R A]]]. split; [exact Hg|]. rewrite !andb_true_iff.
      repeat split; [now apply String.eqb_eq|exact R|now apply allowed_okb_spec].
  Qed.

  Lemma requires_okb_spec d e : requires_okb tb rb d e = true <-> requires_ok (N tb) (N rb) d e.
  Proof.
    unfold requires_okb, requires_ok, N. rewrite forallb_forall. split.
    - intros H f Hf T NE. specialize (H f Hf).
      destruct (frequires f) as [|rs0 rss] eqn:RQ; [congruence|].
      rewrite T in H. cbn [negb orb] in H. apply existsb_exists in H as [rs [Hrs S]].
      exists rs. split; [exact Hrs|]. rewrite forallb_forall in S.
      intros r Hr. apply requirement_metb_spec. now apply S.
    - intros H f Hf. destruct (frequires f) as [|rs0 rss] eqn:RQ; [reflexivity|].
      destruct (tb (ftype f) (e (fname f))) eqn:T; [|reflexivity]. cbn [negb orb].
      destruct (H f Hf T) as [rs [Hrs S]]; [rewrite RQ; discriminate|].
      apply existsb_exists. exists rs. rewrite RQ in Hrs. split; [exact Hrs|].
      apply forallb_forall. intros r Hr. apply requirement_metb_spec. now apply S.
  Qed.

  Let q (e : env) (x : list (option string)) (g : fdef) : bool :=
    existsb (option_eqb String.eqb (Some (fname g))) x && xb (ftype g) (e (fname g)).

  Lemma member_set_q d e x n :
    member_set (N xb) d e x n <-> exists g, In g (fields d) /\ fname g = n /\ q e x g = true.
  Proof.
    unfold member_set, N, q. split.
    - intros [Hn [g [Hg [E X]]]]. exists g. repeat split; auto. rewrite andb_true_iff. split.
      + apply existsb_oeqb_In. now rewrite E.
      + now rewrite E.
    - intros [g [Hg [E Q]]]. apply andb_true_iff in Q as [I X]. apply existsb_oeqb_In in I.
      rewrite E in I, X. split; [exact I|]. exists g. auto.
  Qed.

  Lemma xor_okb_spec d e : Wf d -> (xor_okb xb d e = true <-> xor_ok (N xb) d e).
  Proof.
    intros W. unfold xor_okb, xor_ok. rewrite forallb_forall.
    assert (ND : NoDup (fields d)) by (eapply NoDup_of_map, (wf_names d W)).
    assert (C : forall x, count_set xb d e x = List.length (filter (q e x) (fields d))) by reflexivity.
    assert (U : forall x, count_set xb d e x <= 1 <->
                forall n m, member_set (N xb) d e x n -> member_set (N xb) d e x m -> n = m).
    { intros x. rewrite C, (filter_le1 (q e x) (fields d) ND). split.
      - intros H n m Hn Hm. apply member_set_q in Hn as [a [Ha [En Qa]]].
        apply member_set_q in Hm as [b [Hb [Em Qb]]].
        rewrite <- En, <- Em. f_equal. now apply H.
      - intros H a b Ha Hb Qa Qb. apply (same_name_same_field d a b W Ha Hb).
        apply H; apply member_set_q; [exists a|exists b]; auto. }
    assert (G : forall x, 1 <= count_set xb d e x <-> exists n, member_set (N xb) d e x n).
    { intros x. rewrite C, filter_ge1. split.
      - intros [a [Ha Qa]]. exists (fname a). apply member_set_q. exists a. auto.
      - intros [n Hn]. apply member_set_q in Hn as [a [Ha [_ Qa]]]. exists a. auto. }
    split.
    - intros H x Hx. specialize (H x Hx). cbv zeta in H. apply andb_true_iff in H as [H1 H2].
      apply Nat.leb_le in H1. split; [now apply U|]. intros NN.
      apply orb_true_iff in H2 as [H2|H2].
      + apply existsb_oeqb_In in H2. contradiction.
      + apply G. now apply Nat.leb_le.
    - intros H x Hx. destruct (H x Hx) as [H1 H2]. cbv zeta. apply andb_true_iff. split.
      + apply Nat.leb_le. now apply U.
      + destruct (existsb (option_eqb String.eqb None) x) eqn:EN; [reflexivity|]. cbn [orb].
        apply Nat.leb_le, G, H2. intros I. apply existsb_oeqb_In in I. congruence.
  Qed.

  Theorem spec_rolesb_spec d e : Wf d ->
    (spec_rolesb tb rb xb d e = true <-> Spec_roles (N tb) (N rb) (N xb) d e).
  Proof.
    intros W. unfold spec_rolesb, Spec_roles.
    rewrite !andb_true_iff, mandatory_okb_spec, requires_okb_spec, (xor_okb_spec d e W). tauto.
  Qed.
End Exec.

(* ---------------------------------------------------------------- one notion: truthiness *)
Lemma is_setb_spec v : is_setb v = true <-> IsSet v.
Proof.
  destruct v as [| |b|s|z|b]; cbn; try (split; [discriminate|tauto]); try tauto.
  - destruct s; split; congruence.
  - destruct z; split; congruence.
Qed.

Lemma truthy_is_setb v : truthy v = is_setb v.
Proof.
  destruct v as [| |b|s|z|b]; cbn; try reflexivity.
  - destruct s; reflexivity.
  - destruct z; reflexivity.
Qed.

Lemma truthy_spec v : truthy v = true <-> IsSet v.
Proof. rewrite truthy_is_setb. apply is_setb_spec. Qed.

Theorem spec_okb_spec d e : Wf d -> (spec_okb d e = true <-> Spec_ok d e).
Proof.
  intros W. unfold spec_okb. rewrite (spec_rolesb_spec _ _ _ d e W).
  unfold Spec_ok, Spec_gen, Spec_roles, mandatory_ok, requires_ok, xor_ok, requirement_met, member_set,
    N, set_notionb, set_notion.
  setoid_rewrite is_setb_spec. tauto.
Qed.

(* the formula only looks at a notion where the role occurs *)
Lemma Spec_roles_ext (T1 R1 X1 T2 R2 X2 : notion) d e :
  (forall f, In f (fields d) -> frequires f <> [] ->
     (T1 (ftype f) (e (fname f)) <-> T2 (ftype f) (e (fname f)))) ->
  (forall f rs r g, In f (fields d) -> In rs (frequires f) -> In r rs -> In g (fields d) ->
     fname g = rname r -> (R1 (ftype g) (e (rname r)) <-> R2 (ftype g) (e (rname r)))) ->
  (forall g, In g (fields d) -> (X1 (ftype g) (e (fname g)) <-> X2 (ftype g) (e (fname g)))) ->
  Spec_roles T1 R1 X1 d e -> Spec_roles T2 R2 X2 d e.
Proof.
  intros HT HR HX [M [R X]]. split; [exact M|]. split.
  - intros f Hf T NE. destruct (R f Hf) as [rs [Hrs S]]; [now apply HT|exact NE|].
    exists rs. split; [exact Hrs|]. intros r Hr. destruct (S r Hr) as [g [Hg [E [Rg A]]]].
    exists g. repeat split; auto. now apply (HR f rs r g).
  - intros x Hx. destruct (X x Hx) as [U G].
    assert (MS : forall n, member_set X2 d e x n <-> member_set X1 d e x n).
    { intros n. unfold member_set. split; intros [Hn [g [Hg [E S]]]]; (split; [exact Hn|]); exists g;
        repeat split; auto; rewrite <- E in *; now apply HX. }
    split.
    + intros n m Hn Hm. apply U; now apply MS.
    + intros NN. destruct (G NN) as [n Hn]. exists n. now apply MS.
Qed.

Lemma uncontested_spec d e : Wf d -> uncontested d e = true ->
  (forall f, In f (fields d) -> frequires f <> [] ->
     set_trigger (ftype f) (e (fname f)) = truthy (e (fname f))) /\
  (forall f rs r g, In f (fields d) -> In rs (frequires f) -> In r rs -> In g (fields d) ->
     fname g = rname r -> set_required (ftype g) (e (rname r)) = truthy (e (rname r))).
Proof.
  intros W U. unfold uncontested, uncontested_trigger, uncontested_required in U.
  apply andb_true_iff in U as [U1 U2].
  rewrite forallb_forall in U1, U2. split.
  - intros f Hf NE. specialize (U1 f Hf). destruct (frequires f); [congruence|].
    now apply eqb_prop.
  - intros f rs r g Hf Hrs Hr Hg E. specialize (U2 f Hf). rewrite forallb_forall in U2.
    specialize (U2 rs Hrs). rewrite forallb_forall in U2. specialize (U2 r Hr).
    apply eqb_prop in U2. rewrite <- E in U2 at 1. rewrite (type_of_field d g W Hg) in U2. exact U2.
Qed.

(* the strongest positive statement about the property's formula: on assignments where the code's
   three tests coincide with truthiness for the roles the fields play *)
Theorem rules_ok_partial d e : Wf d -> uncontested d e = true ->
  (rules_ok d e = true <-> Spec_ok d e).
Proof.
  intros W U. rewrite (rules_ok_roles d e W). destruct (uncontested_spec d e W U) as [UT UR].
  unfold code_notions_spec, Spec_ok, Spec_gen.
  split; apply Spec_roles_ext; unfold N, set_notion, set_exclusive.
  - intros f Hf NE. rewrite (UT f Hf NE). apply truthy_spec.
  - intros f rs r g Hf Hrs Hr Hg E. rewrite (UR f rs r g Hf Hrs Hr Hg E). apply truthy_spec.
  - intros g Hg. apply truthy_spec.
  - intros f Hf NE. rewrite (UT f Hf NE). symmetry. apply truthy_spec.
  - intros f rs r g Hf Hrs Hr Hg E. rewrite (UR f rs r g Hf Hrs Hr Hg E). symmetry. apply truthy_spec.
  - intros g Hg. symmetry. apply truthy_spec.
Qed.

(* ---------------------------------------------------------------- the formula at full strength fails *)
Definition full_statement : Prop :=
  forall d e, wf_def d = true -> (rules_ok d e = true <-> Spec_ok d e).

(* a: str = "" with requires=["b"], b: str | None = None; nothing given.
   The formula holds (a is not set); the code reports "'a' requires ['b']". *)
Definition wit_def : taskdef :=
  {| fields := [ {| fname := "a"; ftype := TOther; fmay_unset := false;
                    frequires := [[ {| rname := "b"; rallowed := None |} ]] |};
                 {| fname := "b"; ftype := TOther; fmay_unset := false; frequires := [] |} ];
     xors := [] |}.
Definition wit_env : env := env_of [("a", VStr ""); ("b", VNone)].

Theorem full_statement_refuted : ~ full_statement.
Proof.
  intros H. assert (W : wf_def wit_def = true) by (vm_compute; reflexivity).
  destruct (H wit_def wit_env W) as [_ H2].
  assert (S : Spec_ok wit_def wit_env).
  { apply spec_okb_spec; [now apply wf_def_Wf|]. vm_compute. reflexivity. }
  specialize (H2 S). vm_compute in H2. discriminate.
Qed.

(* ... and not because of the reading of "set" chosen above: no notion of "set" whatsoever, even one
   that looks at the field's type, makes the formula describe the code. *)
Definition str_field (n : string) (rq : list (list req)) : fdef :=
  {| fname := n; ftype := TOther; fmay_unset := false; frequires := rq |}.
Definition d_xor2 : taskdef := {| fields := [str_field "a" []; str_field "c" []]; xors := [[Some "a"; Some "c"; None]] |}.
Definition d_xor1 : taskdef := {| fields := [str_field "c" []]; xors := [[Some "c"]] |}.
Definition e_ac : env := env_of [("a", VStr ""); ("b", VNone); ("c", VStr "y")].

Theorem no_uniform_notion (S : notion) :
  ~ (forall d e, wf_def d = true -> (rules_ok d e = true <-> Spec_gen S d e)).
Proof.
  intros H.
  (* c = "y" alone in an exclusive group that must have one member set: accepted, so "y" is set *)
  assert (Sy : S TOther (VStr "y")).
  { destruct (H d_xor1 e_ac eq_refl) as [H1 _]. specialize (H1 eq_refl).
    destruct H1 as [_ [_ X]]. destruct (X [Some "c"] (or_introl eq_refl)) as [_ G].
    destruct G as [n [Hn [g [Hg [E Sg]]]]].
    - intros [F|[]]. discriminate.
    - destruct Hg as [<-|[]]. cbn in E. subst n. exact Sg. }
  (* a = "" and c = "y" in one exclusive group: accepted, so "" is not set *)
  assert (Se : ~ S TOther (VStr "")).
  { intros Se. destruct (H d_xor2 e_ac eq_refl) as [H1 _]. specialize (H1 eq_refl).
    destruct H1 as [_ [_ X]]. destruct (X _ (or_introl eq_refl)) as [U _].
    assert (E : "a" = "c"); [|discriminate]. apply U.
    - split; [now left|]. exists (str_field "a" []). split; [now left|]. split; [reflexivity|exact Se].
    - split; [right; now left|]. exists (str_field "c" []). split; [right; now left|]. split; [reflexivity|exact Sy]. }
  (* a = "" with requires b, b = None: rejected, although a is not set *)
  destruct (H wit_def e_ac eq_refl) as [_ H2].
  assert (Sp : Spec_gen S wit_def e_ac).
  { split; [|split].
    - intros f [<-|[<-|[]]] _; cbn; discriminate.
    - intros f [<-|[<-|[]]] T NE; cbn in *; [contradiction|congruence].
    - intros x []. }
  specialize (H2 Sp). vm_compute in H2. discriminate.
Qed.

(* ---------------------------------------------------------------- violations are reported before any execution *)
Section BeforeExecution.
  Variable run : taskdef -> env -> nat.

  Lemma rejected_before_run d e : rules_ok d e = false ->
    submitter_call run d e = Rejected (rule_violations d e).
  Proof.
    unfold rules_ok, submitter_call, check_rules. destruct (rule_violations d e); [discriminate|reflexivity].
  Qed.

  Lemma ran_only_if_ok d e n : submitter_call run d e = Ran n -> rules_ok d e = true /\ n = run d e.
  Proof.
    unfold rules_ok, submitter_call, job_init, check_rules.
    destruct (rule_violations d e); [|discriminate]. intros E. inversion E. auto.
  Qed.

  Theorem before_execution d e :
    (rules_ok d e = false -> submitter_call run d e = Rejected (rule_violations d e)) /\
    (forall n, submitter_call run d e = Ran n ->
       rules_ok d e = true /\ (wf_def d = true -> code_notions_spec d e) /\
       (wf_def d = true -> uncontested d e = true -> Spec_ok d e)).
  Proof.
    split; [apply rejected_before_run|]. intros n R. apply ran_only_if_ok in R as [R _].
    split; [exact R|]. split.
    - intros W. apply rules_ok_roles; [now apply wf_def_Wf|exact R].
    - intros W U. apply rules_ok_partial; [now apply wf_def_Wf|exact U|exact R].
  Qed.
End BeforeExecution.
