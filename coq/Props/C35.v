(* C35 — Job lifecycle leaves the process and the cache directory consistent. *)
From Pydra Require Import Base.Prelude.
From Pydra Require Import Model.CacheProto Spec.CacheProto Proofs.CacheProto Proofs.CacheProtoC35 Proofs.CacheProtoC10
  Proofs.CacheProtoC12 Proofs.CacheProtoSpec Proofs.CacheProtoC35n.

(* The property at full strength: after any submission by a process that is the only one using the cache root,
   however it ended (returned, raised, exception at any stage), the process is back in its directory, none of
   its info files is left, and the job directory holds the job record and a result. *)
Definition C35_full_statement : Prop :=
  forall pickle unpickle bv pre tr s p,
    run pickle unpickle bv (init bv pre) tr = Some s ->
    (forall r, r <> p -> pc (procs s r) = Idle) ->
    alive s p -> pc (procs s p) = Done ->
    cwd (procs s p) = Home /\ infos (procs s p) = 0 /\ fcode (resf (gl s)) = 2.

(* F35: an exception raised by hooks.pre_run_task (equally: at any label between job.lock_acquired and
   job.audit_started, by hooks.post_run_task or at any label of the finally block) leaves the process inside the
   job directory, the info file behind and no result *)
Theorem C35_refuted_pre_try : ~ C35_full_statement.
Proof.
  intros H. destruct pre_hook_witness as (s & R & E1 & E2 & E3 & E4 & E5).
  destruct (H toy_pickle toy_unpickle 7 false _ s 0 R) as (C & _); [|exact E5|exact E1|congruence].
  intros r Ne. rewrite (others_untouched _ _ _ 0 _ _ _ R); [reflexivity| |exact Ne].
  intros e Hin. unfold pre_hook_raises_trace in Hin. apply in_map_iff in Hin. now destruct Hin as (a & <- & _).
Qed.
Print Assumptions C35_refuted_pre_try.

(* C35_partial: as long as every exception of process p was raised inside the try block or its handler (task
   body, output collection, record_error -- at any label there; dirty = false is the computable class the
   harness mirrors), for every interleaving with any number of other processes:
   outside the with block p's cwd is restored and no info file of p is left; at the end of the with block
   (job.cwd_restored, lock still held) the directory holds the complete job record and the complete result p
   built, marked errored exactly when the finally block ran because of an exception. *)
Theorem C35_finally_region :
  forall pickle unpickle bv pre tr s p,
    run pickle unpickle bv (init bv pre) tr = Some s ->
    let q := procs s p in
    dirty q = false ->
    (holds (pc q) = false -> cwd q = Home /\ infos q = 0) /\
    (alive s p -> pc q = Fin5 ->
       cwd q = Home /\ infos q = 0 /\
       dir (gl s) = true /\ jobf (gl s) = Complete tt /\ resf (gl s) = Complete (mkRes (raised q) (r_out q))).
Proof. exact finally_region. Qed.
Print Assumptions C35_finally_region.

(* once outside the with block a process leaves the directory alone (so in a single-submitter history what
   C35_finally_region shows at job.cwd_restored is what is found afterwards) *)
Theorem C35_outside_leaves_directory :
  forall pickle unpickle bv p q g a q' g',
    lstep pickle unpickle bv p q g a = Some (q', g') -> holds (pc q) = false ->
    dir g' = dir g /\ jobf g' = jobf g /\ resf g' = resf g /\ errf g' = errf g.
Proof.
  intros pickle unpickle bv p q g a q' g' L Hh.
  destruct (lstep_outside pickle unpickle bv _ _ _ _ _ _ L Hh) as [->|(_ & _ & ->)]; auto.
Qed.
Print Assumptions C35_outside_leaves_directory.

(* pre_run_task and post_run_task: exactly once per entry into the task execution ... *)
Theorem C35_hooks_once :
  forall pickle unpickle bv pre tr s p,
    run pickle unpickle bv (init bv pre) tr = Some s ->
    let q := procs s p in
    dirty q = false -> holds (pc q) = false ->
    pre_calls q = execs q /\ post_calls q = execs q.
Proof. exact hooks_once. Qed.
Print Assumptions C35_hooks_once.

(* ... and never on the path of a cache hit *)
Theorem C35_hit_calls_no_hook :
  forall pickle unpickle bv p q g a q' g',
    lstep pickle unpickle bv p q g a = Some (q', g') ->
    hit_path (pc q) = true \/ (pc q = Locked /\ a = AChecked) ->
    pre_calls q' = pre_calls q /\ post_calls q' = post_calls q /\ execs q' = execs q /\
    (hit_path (pc q') = true \/ pc q' = Locked \/ pc q' = Miss \/ pc q' = Done \/ pc q' = ExcHold \/ pc q' = RelExc).
Proof. exact hit_calls_no_hook. Qed.
Print Assumptions C35_hit_calls_no_hook.

(* the same defect through hooks.post_run_task: the body ran, nothing was saved *)
Theorem C35_refuted_post_hook :
  exists s, run toy_pickle toy_unpickle 7 (init 7 false) post_hook_raises_trace = Some s /\
            pc (procs s 0) = Done /\ cwd (procs s 0) = InDir /\ infos (procs s 0) = 1 /\ resf (gl s) = Absent /\
            runs (gl s) = 1.
Proof. exact post_hook_witness. Qed.
Print Assumptions C35_refuted_post_hook.

(* C35 for concurrent histories ("after any job run", any number of submitters of the checksum).
   Every interleaving of any number of processes and submissions, nobody killed, and no process `dirty`, i.e.
   every exception so far was raised inside the try block or its handler (body, output collection, record_error).
   What the F35 class excludes is exactly `dirty`: an exception between job.lock_acquired and the try (pre_run_task,
   start_audit, _populate_filesystem), by post_run_task, or at a statement of the finally block - such a run leaves
   the with block through ExcHold with a half-populated directory, and the statement is false (C35_refuted_pre_try, C35_refuted_post_hook).
   Then, whenever nobody is inside the critical section (the marker is absent) and some execution has reached
   job.cwd_restored (or a result was there at the start): the job directory exists, holds the complete job record and
   a complete result, every process is outside the with block, back in its original cwd, with no info file left. *)
Theorem C35_directory_consistent_n :
  forall pickle unpickle bv pre tr s,
    run pickle unpickle bv (init bv pre) tr = Some s -> nocrash_trace tr = true ->
    (forall p, dirty (procs s p) = false) ->
    lock (gl s) = None ->
    pre = true \/ went_through tr = true ->
    dir (gl s) = true /\ jobf (gl s) = Complete tt /\ (exists r, resf (gl s) = Complete r) /\
    forall p, holds (pc (procs s p)) = false /\ cwd (procs s p) = Home /\ infos (procs s p) = 0.
Proof. exact directory_consistent_n. Qed.
Print Assumptions C35_directory_consistent_n.

(* Which result: the one the last execution published.  A process leaves the with block through job.cwd_restored
   with resf = Complete (errored = exception pending, outputs) (C35_finally_region, second part), the release changes
   the marker only, and while the marker is absent no step of anybody changes the directory: *)
Theorem C35_unlocked_directory_stable :
  forall pickle unpickle bv pre tr s e s',
    run pickle unpickle bv (init bv pre) tr = Some s -> nocrash_trace tr = true -> lock (gl s) = None ->
    step pickle unpickle bv s e = Some s' -> nocrash (snd e) = true ->
    dir (gl s') = dir (gl s) /\ jobf (gl s') = jobf (gl s) /\ resf (gl s') = resf (gl s) /\ errf (gl s') = errf (gl s).
Proof. exact unlocked_directory_stable. Qed.
Print Assumptions C35_unlocked_directory_stable.

(* the hypotheses are met by a genuinely concurrent history: submitter 0 executes, submitter 1 arrives while 0 holds
   the lock, waits and is served from the cache; both get the value *)
Example C35_directory_consistent_n_example :
  exists s, run toy_pickle toy_unpickle 7 (init 7 false) two_submitters_trace = Some s /\
            nocrash_trace two_submitters_trace = true /\
            (forall p, dirty (procs s p) = false) /\
            lock (gl s) = None /\ went_through two_submitters_trace = true /\
            ret (procs s 0) = Some (Returned (mkRes false (Some 7))) /\ ret (procs s 1) = Some (Returned (mkRes false (Some 7))).
Proof. exact two_submitters_meet_hypotheses. Qed.
