#!/bin/bash
# Write the files under coq/Generated/ that are translated from the live /repo sources and that committed
# .v files import (they are git-ignored and rewritten on every check run).  Must run before coq/build.sh on a
# fresh checkout:  MANIFEST setup_cmd = "/verif/coq/pregen.sh && /verif/coq/build.sh".
cd /verif || exit 2
export VERIF_REPO=${VERIF_REPO:-/repo}
PYTHONPATH=/verif:$VERIF_REPO PYTHONDONTWRITEBYTECODE=1 NO_ET=1 exec /venv/bin/python -m harness.lib.translate_tables
