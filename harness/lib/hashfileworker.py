"""Fresh-interpreter worker for C07's file inputs: python -m harness.lib.hashfileworker in.json out.json
For every file: hash_function(File(path)) twice (first computation or read-back from the persistent hash cache in
$PYDRA_HASH_CACHE, then read-back) and the checksum of Ident(x=File(path)) twice."""
import json
import sys


def main(inp, outp):
    from fileformats.generic import File
    from pydra.utils.hash import hash_function
    from .hashtasks import Ident
    with open(inp) as f:
        job = json.load(f)
    res = []
    for it in job["items"]:
        r = {"key": it["key"]}
        try:
            r["hash"] = [hash_function(File(it["path"])), hash_function(File(it["path"]))]
            r["checksum"] = [Ident(x=File(it["path"]))._checksum, Ident(x=File(it["path"]))._checksum]
            r["in_list"] = hash_function([File(it["path"]), 1])
        except Exception as e:  # noqa
            r["error"] = "%s: %s" % (type(e).__name__, str(e)[:200])
        res.append(r)
    with open(outp, "w") as f:
        json.dump({"results": res}, f)


if __name__ == "__main__":
    main(sys.argv[1], sys.argv[2])
