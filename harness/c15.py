"""C15 — jobs start only after the jobs they consume have succeeded; every job exactly once
(pydra/engine/submitter.py: Submitter.get_runnable_tasks, NodeExecution.get_runnable_tasks, `futured`)."""
from .lib import coqio, fakes
from .lib.runner import Outcome, Failure

PROP = "C15"
PROPS_FILE = "Props/C15.v"
MANIFEST = dict(
    text="PARTIAL w.r.t. warm caches. C15_full_statement (every submission, including a second one with rerun=True "
         "over a cache that already holds results) is refuted on the model by C15_refuted_warm_rerun (finding F15, "
         "known, reproduced on the fake and on the real cf worker: the stale result of a launched-but-not-started "
         "job is taken for its completion); C15_partial covers every cold-cache submission. "
         "Coq theorems over the model of Submitter.expand_workflow_async / expand_workflow and NodeExecution "
         "(Model/Sched.v), for EVERY oracle (completion order, multi-completions, which launched jobs are seen "
         "running at each poll), every max_concurrent, every set of failing jobs, every topologically listed "
         "graph: C15_safety (in the start/finish log every launch is preceded by the successful finish of every "
         "job of every predecessor node), C15_at_most_once (no job is launched twice), C15_all_run (a run without "
         "failures that ends by itself has launched every job exactly once and every job finished successfully), "
         "C15_sync_* (same for the sequential loop), C15_every_job_exactly_once / C15_sync_every_job_exactly_once "
         "(termination included: no failing job, every node >= 1 job, max_concurrent >= 1 => for every oracle the "
         "loop ends by itself within |jobs|+1 iterations with every job launched exactly once and finished "
         "successfully). C15_sync_every_job_exactly_once_any drops the at-least-one-job-per-node hypothesis for the sequential loop (zero-job nodes anywhere, bound 2(|jobs|+|nodes|)+3 passes); for the asynchronous loop the corresponding statement is refuted (C15_async_zero_chain_refuted: eleven consecutive empty nodes end the run Stalled with no failing job; on the real code the stall detector then crashes with a TypeError). C15_async_every_job_exactly_once_bounded_empty: the positive counterpart — fewer than ten empty nodes (empty_nodes g + 2 <= stall limit 11), no failing job, max_concurrent >= 1: for every oracle the asynchronous loop ends Finished within |jobs|+2 iterations with every job launched exactly once. The model is tied to the code on every run by a fake "
         "asynchronous Worker that dictates completion order / failures / lock-file visibility and by comparing, "
         "inside Coq, every poll (returned tasks and all six status sets of every node), every launch list, the "
         "whole start/finish log, the error names and the outputs with run_async/run_sync on the same oracle.",
    note="Trusted: Coq kernel + vm_compute; the hand-written model; the world is frozen during one poll; job "
         "identity = (node, state index) instead of checksum; asyncio and the fake worker. Termination is proved "
         "only for runs without failing jobs (with failures: C14 / C18).",
    technique="Coq proof by loop invariant over an oracle-driven model + differential execution under a controlled fake worker",
    design="§8 Group D / C15",
)
TIE_NAME = "Model.Sched.run_async / run_sync vs Submitter.expand_workflow_async / expand_workflow (fake worker, debug worker)"
TRUSTED = [
    "Model/Sched.v (+Base/SchedBase.v): hand-written model of NodeExecution status sets, update_status, "
    "get_runnable_tasks (node and submitter), expand_workflow, expand_workflow_async",
    "modelled-not-verified: the file system/pool is frozen while one get_runnable_tasks call runs; a job is identified "
    "by (node, state index) (pydra: checksum); dict iteration order = insertion order; asyncio FIRST_COMPLETED "
    "wake-ups are the oracle; graph.sorted_nodes is taken from the implementation (DiGraph.sorting is C37/C18)",
    "Section variables: body (uninterpreted job function), fails (set of failing jobs) — no hypotheses",
    "harness/lib/fakeworker.py: fake Worker, hooks on Submitter.get_runnable_tasks / fetch_finished",
]
ASSUMPTIONS = ["theorems C15_safety ... speak about a run over a cache that holds no result of the workflow's jobs "
               "(C15_partial); a forced re-run over a warm cache is outside (C15_refuted_warm_rerun, finding F15)",
               "graphs are listed in an order where every predecessor comes earlier and node names are distinct "
               "(wf_graph; what DiGraph.sorting produces)",
               "fresh cache directory per run; split nodes are combined so that the job count of a node is static"]
RULE = ("(incl. forced re-runs with rerun=True over a warm cache: start/finish order and value generations of the second "
        "run) an observed run of a generated workflow (2-6 nodes, <=3 predecessors, nodes split 1-3 ways, <=10 jobs) under "
        "a generated oracle / max_concurrent / failing set; distinct = different (workflow, k, failing set, observed "
        "start/finish log, visibility pattern); non-trivial = >=2 nodes, >=1 edge, >=3 jobs")

SPEC = """
Definition spec_ok (c : case_t) : bool :=
  let g := c_graph c in let lg := c_log c in
  is_nil lg    (* runs on the real process pool: the start/finish log is not observable *)
  || (safe_log_b g [] lg && nodup_jobs_b (launches_of lg)
      && (if is_nil (c_fails c) && (c_status c =? 0) then every_job_once_b g lg else true)).
"""


def upstream_of(case):
    byid = {n["id"]: n for n in case["nodes"]}
    jobs = {n["id"]: [j for j in fakes.all_jobs([n])] for n in case["nodes"]}
    return {nid: [j for p in n["preds"] for j in jobs[p]] for nid, n in byid.items()}, jobs


def first_early_launch(case, obs):
    """(job, number of finish events of this run that precede it) of the first job launched before all the jobs it
    consumes have finished in THIS run; None if there is none."""
    up, _ = upstream_of(case)
    finished, nfin = set(), 0
    for e in obs.get("evlog") or []:
        jid = (int(e[1][0][1:]), e[1][1])
        if e[0] == "F":
            nfin += 1
            if e[2]:
                finished.add(jid)
        elif any(q not in finished for q in up[jid[0]]):
            return jid, nfin
    return None


def classify(case, obs):
    """Finding F15 (known): forced re-run over a warm cache under an asynchronous worker, where a poll happens
    (some job of the re-run has completed) while an upstream job that was launched or queued has not started
    its re-execution yet: its stale result is taken for its completion.  An early start in the very first
    scheduling pass (before any completion) is NOT in that class."""
    if case["mode"] == "rerun_cf":
        return "F15"
    if case["mode"] not in ("rerun", "rerun_gen"):
        return None
    early = first_early_launch(case, obs)
    if early is not None:
        return "F15" if early[1] > 0 else None
    _, jobs = upstream_of(case)
    launched = {(int(e[1][0][1:]), e[1][1]) for e in obs.get("evlog") or [] if e[0] == "L"}
    alljobs = {j for js in jobs.values() for j in js}
    nfin = sum(1 for e in obs.get("evlog") or [] if e[0] == "F")
    return "F15" if (launched != alljobs and nfin > 0) else None


def rerun_cases(ctx, n_async, n_sync, n_cf):
    rng = ctx.rng
    out = [dict(nodes=[dict(id=0, preds=[], split=None), dict(id=1, preds=[0], split=None)], k=None, fail=[],
                oracle=[], mode=m) for m in ("rerun", "rerun_gen", "rerun_sync")]   # the plain chain A -> B
    for i in range(n_async + n_sync):
        nodes = fakes.gen_nodes(rng, nmin=2, nmax=5, maxjobs=8)
        nj = sum(fakes.njobs(n) for n in nodes)
        if i < n_async:
            out.append(dict(nodes=nodes, k=fakes.gen_k(rng, nj), fail=[], oracle=fakes.gen_oracle(rng, nj),
                            mode="rerun" if i % 2 == 0 else "rerun_gen"))
        else:
            out.append(dict(nodes=nodes, k=None, fail=[], oracle=[], mode="rerun_sync"))
    for _ in range(n_cf):
        # two slow jobs ahead of A in a one-process pool, B consumes A
        out.append(dict(nodes=[dict(id=0, preds=[], split=None), dict(id=1, preds=[], split=None),
                               dict(id=2, preds=[], split=None), dict(id=3, preds=[2], split=None)],
                        k=None, fail=[], oracle=[], mode="rerun_cf", n_procs=1, dur=[[0, -1, 0.7], [1, -1, 0.7]]))
    return out


def zero_cases(ctx, n):
    """Nodes with ZERO jobs (split over an empty list) that have consumers, under both loops."""
    rng = ctx.rng
    out = []
    for i in range(n):
        if i % 2 == 0:
            pre = rng.randint(0, 2)
            nodes = [dict(id=j, preds=[j - 1] if j else [], split=None) for j in range(pre)]
            z = len(nodes)
            nodes.append(dict(id=z, preds=[z - 1] if z else [], split=0))
            for j in range(rng.randint(1, 3)):
                nodes.append(dict(id=z + 1 + j, preds=[z + j], split=rng.choice([None, None, 2])))
        else:
            while True:
                nodes = fakes.gen_nodes(rng, nmin=3, nmax=6, zero_p=0.35)
                zs = [nd["id"] for nd in nodes if nd["split"] == 0]
                if zs and any(set(nd["preds"]) & set(zs) for nd in nodes):
                    break
        nj = sum(fakes.njobs(nd) for nd in nodes)
        mode = "sync" if i % 4 != 1 else "async"
        out.append(dict(nodes=nodes, k=fakes.gen_k(rng, nj), fail=[], oracle=fakes.gen_oracle(rng, nj) if mode == "async" else [],
                        mode=mode, zero=True))
    return out


def run(ctx):
    extra = rerun_cases(ctx, fakes.bud(ctx, 6, 120), fakes.bud(ctx, 2, 30), fakes.bud(ctx, 0, 2)) + zero_cases(ctx, fakes.bud(ctx, 8, 120))
    out, cases, obs, usable, bad = fakes.drive(
        ctx, "c15", SPEC, fakes.bud(ctx, 18, 300), fakes.bud(ctx, 4, 50), fakes.bud(ctx, 10, 768), RULE,
        "a job started before an upstream job succeeded / started twice / was never run", extra_cases=extra,
        classify=classify)
    # forced re-run over a warm cache: every value in the outputs must come from the second run
    spec_bad = set(bad["spec"])
    stale = {"F15": 0, "new": 0}
    reported = set()
    for i in usable:
        c, o = cases[i], obs[i]
        if not c["mode"].startswith("rerun") or o.get("outcome") != "ok" or o.get("generations") in (None, [2]):
            continue
        f = classify(c, o)
        stale["F15" if f else "new"] += 1
        if i in spec_bad and c["mode"] == "rerun_gen":
            continue                                    # already reported through the start/finish log
        if f in reported:
            continue
        reported.add(f)
        out.failures.append(Failure(
            case=c, observed=fakes.slim(o), expected={"generations_in_outputs": [2]}, kind="spec", finding=f,
            note="forced re-run over a warm cache: a job consumed the stale (first-run) value of an upstream job"))
    out.distribution["rerun_runs_with_stale_values"] = stale
    out.distribution["runs_with_a_zero_job_node"] = sum(
        1 for i in usable if any(n.get("split") == 0 for n in cases[i]["nodes"]))
    return out


def replay(ctx, payload):
    fakes.replay_case(ctx, payload, SPEC)
