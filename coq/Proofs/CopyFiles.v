(* Proofs/CopyFiles.v — C33 / C34: lemmas. *)
From Pydra Require Import Base.Prelude Base.PyPath Model.Mount Model.CopyFiles Spec.CopyFiles.
From Coq Require Import DecimalString DecimalNat Permutation.
Local Open Scope string_scope.
Local Open Scope list_scope.

(* ---------------------------------------------------------------- boolean equalities *)
Lemma path_eqb_spec a b : path_eqb a b = true <-> a = b.
Proof.
  unfold path_eqb. destruct a as [a1 a2], b as [b1 b2]; cbn.
  rewrite andb_true_iff, !String.eqb_eq. split; [intros [-> ->]; reflexivity|intros E; inversion E; auto].
Qed.
Lemma path_eqb_refl a : path_eqb a a = true.
Proof. now apply path_eqb_spec. Qed.
Lemma path_eqb_neq a b : path_eqb a b = false <-> a <> b.
Proof.
  split.
  - intros E ->. rewrite path_eqb_refl in E. discriminate.
  - intros N. destruct (path_eqb a b) eqn:E; [|reflexivity]. apply path_eqb_spec in E. contradiction.
Qed.
Lemma fileset_eqb_spec a b : fileset_eqb a b = true <-> a = b.
Proof.
  unfold fileset_eqb. destruct a as [a1 a2], b as [b1 b2]; cbn.
  rewrite andb_true_iff, String.eqb_eq, path_eqb_spec.
  split; [intros [-> ->]; reflexivity|intros E; inversion E; auto].
Qed.
Lemma fileset_eqb_refl a : fileset_eqb a a = true.
Proof. now apply fileset_eqb_spec. Qed.
Lemma mem_spec p l : mem p l = true <-> In p l.
Proof.
  induction l as [|q l IH]; cbn; [split; [discriminate|tauto]|].
  rewrite orb_true_iff, path_eqb_spec, IH. tauto.
Qed.

(* ---------------------------------------------------------------- association lists, the file system *)
Lemma assoc_cons {A B} (eqb : A -> A -> bool) k k' (v : B) l :
  assoc eqb k ((k', v) :: l) = if eqb k' k then Some v else assoc eqb k l.
Proof. reflexivity. Qed.

Lemma assoc_in {A B} (eqb : A -> A -> bool) (H : forall x y, eqb x y = true <-> x = y) k (v : B) l :
  assoc eqb k l = Some v -> In (k, v) l.
Proof.
  induction l as [|[k' v'] l IH]; cbn; [discriminate|].
  destruct (eqb k' k) eqn:E; [apply H in E; subst; intros X; inversion X; auto|auto].
Qed.
Lemma assoc_none_notin {A B} (eqb : A -> A -> bool) (H : forall x y, eqb x y = true <-> x = y) k (l : list (A * B)) :
  assoc eqb k l = None <-> ~ In k (map fst l).
Proof.
  induction l as [|[k' v'] l IH]; cbn; [tauto|].
  destruct (eqb k' k) eqn:E.
  - apply H in E; subst. split; [discriminate|intros N; exfalso; apply N; auto].
  - rewrite IH. split; [intros N [X|X]; [subst; rewrite (proj2 (H k k) eq_refl) in E; discriminate|auto]|tauto].
Qed.

Lemma ino_add_link fs d i p : ino_of (add_link fs d i) p = if path_eqb d p then Some i else ino_of fs p.
Proof. reflexivity. Qed.
Lemma ino_add_copy fs d c p : ino_of (add_copy fs d c) p = if path_eqb d p then Some (fresh_ino fs) else ino_of fs p.
Proof. reflexivity. Qed.
Lemma data_add_link fs d i j : data_of (add_link fs d i) j = data_of fs j.
Proof. reflexivity. Qed.
Lemma data_add_copy fs d c j :
  data_of (add_copy fs d c) j = if Nat.eqb (fresh_ino fs) j then c else data_of fs j.
Proof. unfold data_of, add_copy. cbn [f_data]. rewrite assoc_cons. destruct (Nat.eqb (fresh_ino fs) j); reflexivity. Qed.

Lemma list_max_ge l x : In x l -> x <= list_max l.
Proof.
  intros H. assert (Forall (fun k => k <= list_max l) l) as F by (apply list_max_le; lia).
  rewrite Forall_forall in F. now apply F.
Qed.
Lemma fresh_ino_fresh fs p : ino_of fs p <> Some (fresh_ino fs).
Proof.
  unfold ino_of, fresh_ino. intros E. apply (assoc_in _ path_eqb_spec) in E.
  assert (In (S (list_max (map snd (f_ino fs)))) (map snd (f_ino fs))) as H
    by (change (S _) with (snd (p, S (list_max (map snd (f_ino fs))))); now apply in_map).
  apply list_max_ge in H. lia.
Qed.

Lemma ino_write fs p c q : ino_of (write fs p c) q = ino_of fs q.
Proof. unfold write. destruct (ino_of fs p); reflexivity. Qed.
Lemma data_write fs p c i j : ino_of fs p = Some i ->
  data_of (write fs p c) j = if Nat.eqb i j then c else data_of fs j.
Proof. intros E. unfold write. rewrite E. unfold data_of. cbn [f_data]. rewrite assoc_cons. destruct (Nat.eqb i j); reflexivity. Qed.

(* ---------------------------------------------------------------- the contract of FileSet.copy *)
Definition copy_fn := fsT -> string -> cmode -> cmode -> list path -> fileset -> res copy_result.

(* what a successful non-"leave" call did *)
Definition created (fs : fsT) (dest : string) (avoid : list path) (f f' : fileset)
           (fs' : fsT) (avoid' : list path) (w : way) : Prop :=
  fst f' = fst f /\ fst (snd f') = dest
  /\ ~ In (snd f') avoid                                   (* not a path it was told to avoid *)
  /\ ino_of fs (snd f') = None                             (* did not exist (no overwrite) *)
  /\ (forall p, In p avoid' <-> p = snd f' \/ In p avoid)  (* the set is updated *)
  /\ (forall p, p <> snd f' -> ino_of fs' p = ino_of fs p) (* nothing else is created or removed *)
  /\ (forall i, (exists p, ino_of fs p = Some i) -> data_of fs' i = data_of fs i)
  /\ exists i, ino_of fs (snd f) = Some i /\
       match w with
       | Copy => exists j, ino_of fs' (snd f') = Some j /\ (forall p, ino_of fs p <> Some j)
                           /\ data_of fs' j = data_of fs i
       | _ => ino_of fs' (snd f') = Some i
       end.

Definition copy_contract (copy_one : copy_fn) : Prop :=
  forall fs dest m sup avoid f f' fs' avoid' w,
    copy_one fs dest m sup avoid f = Ok (f', fs', avoid', w) ->
    allowed w (inter m sup) = true /\
    match w with
    | Leave => f' = f /\ fs' = fs /\ avoid' = avoid
    | _ => created fs dest avoid f f' fs' avoid' w
    end.

(* the model of fileformats' algorithm meets it *)
Lemma search_ok fuel fs avoid dest name k d :
  search fuel fs avoid dest name k = Ok d ->
  fst d = dest /\ ~ In d avoid /\ ino_of fs d = None.
Proof.
  revert k. induction fuel as [|fu IH]; cbn; intros k; [discriminate|].
  unfold dest_check. destruct (ino_of fs (cand dest name k)) eqn:E.
  - destruct (mem (cand dest name k) avoid) eqn:M; [apply IH|discriminate].
  - destruct (mem (cand dest name k) avoid) eqn:M; [apply IH|].
    intros X; inversion X; subst. repeat split; [|exact E].
    intros I. apply mem_spec in I. congruence.
Qed.

Lemma select_allowed m w : select m = Some w -> allowed w m = true.
Proof.
  unfold select. destruct m as [l h s c]; cbn.
  destruct l; [intros X; inversion X; reflexivity|].
  destruct s; [intros X; inversion X; reflexivity|].
  destruct h; [intros X; inversion X; reflexivity|].
  destruct c; [intros X; inversion X; reflexivity|discriminate].
Qed.

Lemma ff_copy_contract : copy_contract ff_copy.
Proof.
  unfold copy_contract, ff_copy. intros fs dest m sup avoid f f' fs' avoid' w.
  destruct (select (inter m sup)) as [w0|] eqn:SEL; [|discriminate].
  apply select_allowed in SEL.
  assert (forall w1, w1 <> Leave -> w0 = w1 ->
    match ino_of fs (snd f) with
    | None => Err EMissing
    | Some i =>
        match search (S (List.length avoid)) fs avoid dest (snd (snd f)) 0 with
        | Err e => Err e
        | Ok d => Ok ((fst f, d), match w1 with Copy => add_copy fs d (data_of fs i) | _ => add_link fs d i end,
                      d :: avoid, w1)
        end
    end = Ok (f', fs', avoid', w) ->
    allowed w (inter m sup) = true /\
    match w with
    | Leave => f' = f /\ fs' = fs /\ avoid' = avoid
    | _ => created fs dest avoid f f' fs' avoid' w
    end) as G.
  { intros w1 NL ->. destruct (ino_of fs (snd f)) as [i|] eqn:I; [|discriminate].
    destruct (search _ fs avoid dest (snd (snd f)) 0) as [d|] eqn:Q; [|discriminate].
    apply search_ok in Q. destruct Q as (Q1 & Q2 & Q3).
    intros X. inversion X; subst; clear X. split; [exact SEL|].
    assert (forall p : path, In p (d :: avoid) <-> p = d \/ In p avoid) as AV
      by (intros p; cbn; split; intros [->|?]; auto).
    destruct w; [congruence| | |]; unfold created; cbn [fst snd]; repeat (split; [assumption || reflexivity|]).
    - split; [intros p N; rewrite ino_add_link; apply not_eq_sym, path_eqb_neq in N; now rewrite N|].
      split; [intros; apply data_add_link|]. exists i. split; [exact I|]. now rewrite ino_add_link, path_eqb_refl.
    - split; [intros p N; rewrite ino_add_link; apply not_eq_sym, path_eqb_neq in N; now rewrite N|].
      split; [intros; apply data_add_link|]. exists i. split; [exact I|]. now rewrite ino_add_link, path_eqb_refl.
    - split; [intros p N; rewrite ino_add_copy; apply not_eq_sym, path_eqb_neq in N; now rewrite N|].
      split.
      + intros i0 [p Hp]. rewrite data_add_copy. destruct (Nat.eqb (fresh_ino fs) i0) eqn:E; [|reflexivity].
        apply Nat.eqb_eq in E. subst. exfalso. eapply fresh_ino_fresh; eauto.
      + exists i. split; [exact I|]. exists (fresh_ino fs).
        rewrite ino_add_copy, path_eqb_refl, data_add_copy, Nat.eqb_refl.
        repeat split. intros p. apply fresh_ino_fresh. }
  destruct w0.
  - intros X; inversion X; subst. split; [exact SEL|]. auto.
  - apply (G Hard); congruence.
  - apply (G Sym); congruence.
  - apply (G Copy); congruence.
Qed.

(* ---------------------------------------------------------------- the traversal = a left-to-right run over the leaves *)
Section ValueInd.
  Variable P : value -> Prop.
  Hypothesis Ha : forall r t, P (VAtom r t).
  Hypothesis Hf : forall f, P (VFile f).
  Hypothesis Hc : forall k l, Forall P l -> P (VCont k l).
  Fixpoint value_ind' (v : value) : P v :=
    match v with
    | VAtom r t => Ha r t
    | VFile f => Hf f
    | VCont k l => Hc k l ((fix go (l : list value) : Forall P l :=
                             match l with [] => Forall_nil P | x :: r => Forall_cons x (value_ind' x) (go r) end) l)
    end.
End ValueInd.

Section Run.
  Variable g : fileset -> st -> res (fileset * st).

  Fixpoint run (l : list fileset) (s : st) : res (list fileset * st) :=
    match l with
    | [] => Ok ([], s)
    | f :: r =>
        match g f s with
        | Err e => Err e
        | Ok (f', s1) => match run r s1 with Err e => Err e | Ok (r', s2) => Ok (f' :: r', s2) end
        end
    end.

  Lemma run_app a b s :
    run (a ++ b) s =
    match run a s with
    | Err e => Err e
    | Ok (a', s1) => match run b s1 with Err e => Err e | Ok (b', s2) => Ok (a' ++ b', s2) end
    end.
  Proof.
    revert s. induction a as [|f a IH]; intros s; cbn.
    - destruct (run b s) as [[b' s2]|]; reflexivity.
    - destruct (g f s) as [[f' s1]|]; [|reflexivity]. rewrite IH.
      destruct (run a s1) as [[a' s2]|]; [|reflexivity].
      destruct (run b s2) as [[b' s3]|]; reflexivity.
  Qed.

  (* the list traversal inside apply_files, named *)
  Fixpoint apply_list (l : list value) (s : st) : res (list value * st) :=
    match l with
    | [] => Ok ([], s)
    | x :: r =>
        match apply_files g x s with
        | Err e => Err e
        | Ok (x', s1) => match apply_list r s1 with Err e => Err e | Ok (r', s2) => Ok (x' :: r', s2) end
        end
    end.
  Lemma apply_files_cont k l s :
    apply_files g (VCont k l) s =
    match apply_list l s with Ok (l', s') => Ok (VCont k l', s') | Err e => Err e end.
  Proof.
    cbn [apply_files].
    match goal with |- match ?F l s with _ => _ end = _ =>
      assert (forall l s, F l s = apply_list l s) as E end.
    { clear l s. induction l as [|x r IH]; intros s; [reflexivity|].
      cbn [apply_list]. destruct (apply_files g x s) as [[x' s1]|]; [|reflexivity].
      rewrite IH. reflexivity. }
    rewrite E. reflexivity.
  Qed.

  Definition trav_ok (v : value) : Prop :=
    forall s, match apply_files g v s with
              | Ok (v', s') => same_shape v v' = true /\ run (leaves v) s = Ok (leaves v', s')
              | Err e => run (leaves v) s = Err e
              end.

  Lemma apply_files_run : forall v, trav_ok v.
  Proof.
    induction v as [r t|f|k l IH] using value_ind'; intros s.
    - cbn. rewrite String.eqb_refl, Bool.eqb_reflx. auto.
    - cbn. destruct (g f s) as [[f' s']|]; cbn; auto.
    - rewrite apply_files_cont.
      assert (match apply_list l s with
              | Ok (l', s') => same_shape (VCont k l) (VCont k l') = true
                               /\ run (flat_map leaves l) s = Ok (flat_map leaves l', s')
              | Err e => run (flat_map leaves l) s = Err e
              end) as G.
      { revert s. induction IH as [|x r Hx Hr IHr]; intros s.
        - cbn. destruct k; auto.
        - cbn [apply_list flat_map]. rewrite run_app. specialize (Hx s).
          destruct (apply_files g x s) as [[x' s1]|]; [|now rewrite Hx].
          destruct Hx as [Sx Rx]. rewrite Rx. specialize (IHr s1).
          destruct (apply_list r s1) as [[r' s2]|]; [|now rewrite IHr].
          destruct IHr as [Sr Rr]. rewrite Rr. split; [|reflexivity].
          cbn in Sr |- *. rewrite Sx. apply andb_true_iff in Sr. destruct Sr as [-> Sr]. cbn. exact Sr. }
      destruct (apply_list l s) as [[l' s']|]; exact G.
  Qed.
End Run.

(* ---------------------------------------------------------------- invariants of a sequence of FileSet.copy calls *)
Lemma nodup_map_inj {A B} (f : A -> B) (l : list A) a b :
  NoDup (map f l) -> In a l -> In b l -> f a = f b -> a = b.
Proof.
  induction l as [|x l IH]; cbn; [tauto|]. intros N Ha Hb E. inversion N as [|? ? N1 N2]; subst.
  destruct Ha as [->|Ha], Hb as [->|Hb]; auto.
  - exfalso. apply N1. rewrite E. now apply in_map.
  - exfalso. apply N1. rewrite <- E. now apply in_map.
Qed.

Lemma created_of_contract copy_one (HC : copy_contract copy_one) fs dest m sup avoid f f' fs' avoid' w :
  copy_one fs dest m sup avoid f = Ok (f', fs', avoid', w) -> w <> Leave ->
  created fs dest avoid f f' fs' avoid' w.
Proof. intros E N. apply HC in E. destruct E as [_ E]. destruct w; [congruence|exact E..]. Qed.

Section Inv.
  Variable copy_one : copy_fn.
  Hypothesis HC : copy_contract copy_one.
  Variable tab : table.
  Variables (dest : string) (fs0 : fsT) (avoid0 : list path).

  Definition nonleave (e : log_entry) : bool := negb (way_eqb (snd e) Leave).
  Definition dpath (e : log_entry) : path := snd (snd (fst e)).
  Definition dsts (h : list log_entry) : list path := map dpath (filter nonleave h).

  (* what is known of a logged call, relative to the initial file system fs0 and the current one *)
  Definition entry_ok (fs : fsT) (e : log_entry) : Prop :=
    let '(s, d, w) := e in
    match w with
    | Leave => d = s
    | _ => fst d = fst s /\ fst (snd d) = dest /\ ino_of fs0 (snd d) = None /\ ~ In (snd d) avoid0 /\
           exists i, ino_of fs0 (snd s) = Some i /\
             match w with
             | Copy => exists j, ino_of fs (snd d) = Some j /\ (forall p, ino_of fs0 p <> Some j)
                                 /\ data_of fs j = data_of fs0 i
             | _ => ino_of fs (snd d) = Some i
             end
    end.

  Record ginv (fs : fsT) (avoid : list path) (h : list log_entry) : Prop := {
    g1 : forall p i, ino_of fs0 p = Some i -> ino_of fs p = Some i;
    g2 : forall i, (exists p, ino_of fs0 p = Some i) -> data_of fs i = data_of fs0 i;
    g3 : forall e, In e h -> entry_ok fs e;
    g4 : NoDup (dsts h);
    g5 : incl (dsts h) avoid;
    g6 : forall p, ino_of fs p <> None -> ino_of fs0 p <> None \/ In p (dsts h);
    g7 : incl avoid0 avoid
  }.

  Lemma ginv_init : ginv fs0 avoid0 [].
  Proof.
    split; auto.
    - intros e [].
    - constructor.
    - intros p [].
    - apply incl_refl.
  Qed.

  Lemma entry_ok_frame fs fs' x e :
    ino_of fs x = None ->
    (forall p, p <> x -> ino_of fs' p = ino_of fs p) ->
    (forall i, (exists p, ino_of fs p = Some i) -> data_of fs' i = data_of fs i) ->
    entry_ok fs e -> entry_ok fs' e.
  Proof.
    intros X F D. destruct e as [[s d] w]. unfold entry_ok.
    destruct w; auto.
    - intros (A & B & C & C' & i & I & J). repeat (split; [assumption|]). exists i. split; [assumption|].
      rewrite F; [assumption|]. intros E. rewrite E in J. congruence.
    - intros (A & B & C & C' & i & I & J). repeat (split; [assumption|]). exists i. split; [assumption|].
      rewrite F; [assumption|]. intros E. rewrite E in J. congruence.
    - intros (A & B & C & C' & i & I & j & J1 & J2 & J3). repeat (split; [assumption|]). exists i. split; [assumption|].
      exists j. split; [|split; [assumption|]].
      + rewrite F; [assumption|]. intros E. rewrite E in J1. congruence.
      + rewrite D; [assumption|]. now exists (snd d).
  Qed.

  Lemma ginv_step fs avoid h m sup f f' fs' avoid' w :
    ginv fs avoid h -> ino_of fs0 (snd f) <> None ->
    copy_one fs dest m sup avoid f = Ok (f', fs', avoid', w) ->
    ginv fs' avoid' ((f, f', w) :: h).
  Proof.
    intros G SRC E.
    destruct (way_eqb w Leave) eqn:WL.
    - destruct w; try discriminate. apply HC in E. destruct E as [_ (-> & -> & ->)].
      destruct G as [G1 G2 G3 G4 G5 G6 G7].
      split; auto. intros e [<-|I]; [reflexivity|auto].
    - assert (w <> Leave) as NL by (intros ->; discriminate).
      pose proof (created_of_contract _ HC _ _ _ _ _ _ _ _ _ _ E NL) as
        (C1 & C2 & C3 & C4 & C5 & C6 & C7 & i & C8 & C9).
      destruct G as [G1 G2 G3 G4 G5 G6 G7].
      assert (dsts ((f, f', w) :: h) = snd f' :: dsts h) as DS
        by (unfold dsts; cbn [filter]; unfold nonleave at 1; cbn [snd]; rewrite WL; reflexivity).
      assert (forall p i, ino_of fs p = Some i -> p <> snd f') as NE
        by (intros p i0 I ->; congruence).
      destruct (ino_of fs0 (snd f)) as [i0|] eqn:I0; [|congruence].
      assert (i = i0) as -> by (apply G1 in I0; congruence).
      split.
      + intros p j I. rewrite C6; [auto|]. eapply NE; eauto.
      + intros j [p I]. rewrite C7; [apply G2; eauto|]. exists p; auto.
      + intros e [<-|I].
        * unfold entry_ok.
          assert (ino_of fs0 (snd f') = None) as N0.
          { destruct (ino_of fs0 (snd f')) eqn:X; [|reflexivity]. apply G1 in X. congruence. }
          assert (~ In (snd f') avoid0) as N1 by (intros X; apply C3; now apply G7).
          destruct w; [congruence|..]; repeat (split; [assumption|]); exists i0; (split; [exact I0|]); auto.
          destruct C9 as (j & J1 & J2 & J3). exists j. split; [assumption|]. split.
          -- intros p X. apply G1 in X. eapply J2; eauto.
          -- rewrite J3. apply G2. eauto.
        * eapply entry_ok_frame; eauto.
      + rewrite DS. constructor; [|assumption]. intros I. apply G5 in I. contradiction.
      + rewrite DS. intros p [<-|I]; apply C5; auto.
      + rewrite DS. intros p I. destruct (path_eqb (snd f') p) eqn:X.
        * apply path_eqb_spec in X. subst. right. now left.
        * apply path_eqb_neq in X. rewrite C6 in I by congruence. apply G6 in I. destruct I; [auto|right; now right].
      + intros p I. apply C5. right. now apply G7.
  Qed.
End Inv.

(* ---------------------------------------------------------------- one copy_nested_files call (one field) *)
Lemma allowed_inter w a b : allowed w (inter a b) = (allowed w a && allowed w b)%bool.
Proof. destruct w; reflexivity. Qed.

Lemma map_fst_combine {A B} (l : list A) (l' : list B) :
  List.length l' = List.length l -> map fst (combine l l') = l.
Proof.
  revert l'. induction l as [|x l IH]; intros [|y l']; cbn; try discriminate; auto.
  intros E. f_equal. apply IH. lia.
Qed.

Section Field.
  Variable copy_one : copy_fn.
  Hypothesis HC : copy_contract copy_one.
  Variable tab : table.
  Variables (dest : string) (fs0 : fsT) (avoid0 : list path) (m sup : cmode).

  Record minv (memo : list (fileset * fileset)) (lg : list log_entry)
         (done : list (fileset * fileset)) : Prop := {
    m1 : forall s d, In (s, d) done -> assoc fileset_eqb s memo = Some d;
    m2 : forall s d, assoc fileset_eqb s memo = Some d -> exists w, In (s, d, w) lg;
    m3 : NoDup (map fst memo);
    m4 : forall f, In f (map fst memo) <-> In f (map fst done);
    m5 : List.length lg = List.length memo;
    m6 : forall s d w, In (s, d, w) lg -> allowed w m = true /\ allowed w (narrow tab dest s sup) = true
  }.

  Lemma minv_init : minv [] [] [].
  Proof. split; cbn; try tauto; try discriminate. constructor. Qed.

  Lemma field_step s f f' s' hprev done :
    ginv dest fs0 avoid0 (s_fs s) (s_avoid s) (s_log s ++ hprev) -> minv (s_memo s) (s_log s) done ->
    ino_of fs0 (snd f) <> None ->
    copy_fileset copy_one tab dest m sup f s = Ok (f', s') ->
    ginv dest fs0 avoid0 (s_fs s') (s_avoid s') (s_log s' ++ hprev)
    /\ minv (s_memo s') (s_log s') (done ++ [(f, f')]).
  Proof.
    intros G M SRC. unfold copy_fileset.
    destruct M as [M1 M2 M3 M4 M5 M6].
    destruct (assoc fileset_eqb f (s_memo s)) as [x|] eqn:A.
    - intros X; inversion X; subst; clear X. split; [assumption|].
      assert (In f (map fst (s_memo s'))) as K
        by (apply (assoc_in _ fileset_eqb_spec) in A; change f with (fst (f, f')); now apply in_map).
      split; auto.
      + intros s0 d I. apply in_app_or in I. destruct I as [I|[I|[]]]; [auto|]. inversion I; subst. assumption.
      + intros f0. rewrite map_app, in_app_iff. cbn. rewrite <- M4. split; [auto|]. intros [I|[<-|[]]]; auto.
    - destruct (copy_one (s_fs s) dest m (narrow tab dest f sup) (s_avoid s) f) as [[[[f1 fs'] av'] w]|] eqn:E;
        [|discriminate].
      intros X; inversion X; subst; clear X. cbn [s_fs s_avoid s_memo s_log].
      split; [change (((f, f', w) :: s_log s) ++ hprev) with ((f, f', w) :: (s_log s ++ hprev));
              eapply ginv_step; eauto|].
      pose proof (proj1 (assoc_none_notin _ fileset_eqb_spec _ _) A) as NK.
      split.
      + intros s0 d I. rewrite assoc_cons. apply in_app_or in I. destruct I as [I|[I|[]]].
        * destruct (fileset_eqb f s0) eqn:Q; [|auto]. apply fileset_eqb_spec in Q. subst. exfalso. apply NK.
          apply M4. change s0 with (fst (s0, d)). now apply in_map.
        * inversion I; subst. now rewrite fileset_eqb_refl.
      + intros s0 d. rewrite assoc_cons. destruct (fileset_eqb f s0) eqn:Q.
        * apply fileset_eqb_spec in Q. subst. intros X; inversion X; subst. exists w. now left.
        * intros I. apply M2 in I. destruct I as [w0 I]. exists w0. now right.
      + cbn. constructor; assumption.
      + intros f0. rewrite map_app, in_app_iff. cbn. rewrite <- M4. tauto.
      + cbn. now rewrite M5.
      + intros s0 d w0 [I|I]; [|eauto]. inversion I; subst. apply HC in E. destruct E as [E _].
        rewrite allowed_inter in E. now apply andb_true_iff in E.
  Qed.

  Lemma field_run l : forall s l' s' hprev done,
    ginv dest fs0 avoid0 (s_fs s) (s_avoid s) (s_log s ++ hprev) -> minv (s_memo s) (s_log s) done ->
    (forall f, In f l -> ino_of fs0 (snd f) <> None) ->
    run (copy_fileset copy_one tab dest m sup) l s = Ok (l', s') ->
    ginv dest fs0 avoid0 (s_fs s') (s_avoid s') (s_log s' ++ hprev)
    /\ minv (s_memo s') (s_log s') (done ++ combine l l')
    /\ List.length l' = List.length l.
  Proof.
    induction l as [|f r IH]; intros s l' s' hprev done G M SRC; cbn [run].
    - intros X; inversion X; subst. cbn. rewrite app_nil_r. auto.
    - destruct (copy_fileset copy_one tab dest m sup f s) as [[f' s1]|] eqn:E; [|discriminate].
      destruct (run _ r s1) as [[r' s2]|] eqn:R; [|discriminate].
      intros X; inversion X; subst; clear X.
      eapply field_step in E; eauto; [|apply SRC; now left]. destruct E as [G1 M1].
      eapply IH in R; eauto; [|intros; apply SRC; now right]. destruct R as (G2 & M2 & L).
      split; [assumption|]. split; [|cbn; now rewrite L].
      cbn [combine]. change ((f, f') :: combine r r') with ([(f, f')] ++ combine r r'). now rewrite app_assoc.
  Qed.

  Definition field_ok (v v' : value) (lg : list log_entry) : Prop :=
    same_shape v v' = true
    /\ List.length (leaves v') = List.length (leaves v)
    /\ (forall s d, In (s, d) (pairs_of v v') -> exists w, In (s, d, w) lg)
    /\ (forall s1 d1 s2 d2, In (s1, d1) (pairs_of v v') -> In (s2, d2) (pairs_of v v') -> s1 = s2 -> d1 = d2)
    /\ distinct_count (leaves v) (List.length lg)
    /\ (forall s d w, In (s, d, w) lg -> allowed w m = true /\ allowed w (narrow tab dest s sup) = true).

  Lemma nested_ok v avoid fs hprev v' fs1 av1 lg :
    ginv dest fs0 avoid0 fs avoid hprev -> (forall f, In f (leaves v) -> ino_of fs0 (snd f) <> None) ->
    copy_nested_files copy_one tab v dest m sup avoid fs = Ok (v', fs1, av1, lg) ->
    ginv dest fs0 avoid0 fs1 av1 (lg ++ hprev) /\ field_ok v v' lg.
  Proof.
    intros G SRC. unfold copy_nested_files.
    pose proof (apply_files_run (copy_fileset copy_one tab dest m sup) v (mkst fs avoid [] [])) as T.
    destruct (apply_files _ v _) as [[v1 s1]|]; [|discriminate].
    destruct T as [SH R]. intros X; inversion X; subst; clear X.
    eapply (field_run _ _ _ _ hprev []) in R; eauto using minv_init.
    destruct R as (G1 & [M1 M2 M3 M4 M5 M6] & L). split; [assumption|].
    unfold field_ok, pairs_of. cbn [app] in *.
    split; [assumption|]. split; [assumption|]. split; [|split; [|split]].
    - intros s d I. apply M1 in I. now apply M2.
    - intros a1 d1 a2 d2 I1 I2 ->. apply M1 in I1, I2. congruence.
    - exists (map fst (s_memo s1)). split; [assumption|]. split.
      + intros f. rewrite M4, map_fst_combine by assumption. tauto.
      + now rewrite map_length.
    - exact M6.
  Qed.
End Field.

(* ---------------------------------------------------------------- from the invariants to the specs *)
Lemma narrow_ok tab dest s sup w :
  allowed w (narrow tab dest s sup) = true -> mount_ok tab dest w s.
Proof.
  unfold narrow, mount_ok.
  destruct (on_cifs tab (full (snd s))) eqn:C, (on_same_mount tab (full (snd s)) dest) eqn:M;
    destruct w; cbn; auto; rewrite ?andb_false_r; try discriminate.
  all: intros H; repeat (apply andb_true_iff in H; destruct H as [H ?]); discriminate.
Qed.

Lemma same_shape_refl : forall v, same_shape v v = true.
Proof.
  induction v as [r t|f|k l IH] using value_ind'; cbn.
  - now rewrite String.eqb_refl, Bool.eqb_reflx.
  - reflexivity.
  - replace (ckind_eqb k k) with true by (destruct k; reflexivity). cbn.
    induction IH as [|x r Hx Hr IHr]; [reflexivity|]. now rewrite Hx, IHr.
Qed.

Lemma forall2_combine_map {A B C} (P : A -> B -> Prop) (h : B -> C) l l' a c :
  Forall2 P l l' -> In (a, c) (combine l (map h l')) -> exists b, c = h b /\ P a b /\ In (a, b) (combine l l').
Proof.
  induction 1 as [|x y l l' Pxy F IH]; cbn; [tauto|].
  intros [E|I].
  - inversion E; subst. exists y. auto.
  - destruct (IH I) as (b & ? & ? & ?). exists b. auto.
Qed.

Lemma forall2_map_r {A B C} (P : A -> C -> Prop) (Q : A -> B -> Prop) (h : B -> C) l l' :
  (forall a b, Q a b -> P a (h b)) -> Forall2 Q l l' -> Forall2 P l (map h l').
Proof. intros I. induction 1; cbn; constructor; auto. Qed.

Section Final.
  Variable copy_one : copy_fn.
  Hypothesis HC : copy_contract copy_one.
  Variable tab : table.
  Variables (dest : string) (fs0 : fsT) (avoid0 : list path).

  (* what a logged call means observably, at the end *)
  Lemma entry_facts fs1 av H s d w :
    ginv dest fs0 avoid0 fs1 av H -> In (s, d, w) H ->
    behaves w dest fs0 fs1 s d /\
    (w <> Leave -> fst d = fst s /\ fst (snd d) = dest /\ read fs0 (snd s) <> None
                   /\ read fs1 (snd d) = read fs0 (snd s) /\ read fs1 (snd s) = read fs0 (snd s)).
  Proof.
    intros [G1 G2 G3 G4 G5 G6 G7] I. specialize (G3 _ I). unfold entry_ok in G3.
    assert (forall i, ino_of fs0 (snd s) = Some i ->
              read fs0 (snd s) = Some (data_of fs0 i) /\ read fs1 (snd s) = Some (data_of fs0 i)) as RS.
    { intros i E. unfold read. rewrite E, (G1 _ _ E). cbn. split; [reflexivity|]. f_equal. apply G2. eauto. }
    destruct w.
    - split; [exact G3|congruence].
    - destruct G3 as (A & B & C & C' & i & I0 & J). destruct (RS _ I0) as [R0 R1].
      assert (read fs1 (snd d) = Some (data_of fs0 i)) as RD
        by (unfold read; rewrite J; cbn; f_equal; apply G2; eauto).
      split.
      + cbn. split; [assumption|]. split; [congruence|]. intros c. unfold read. rewrite ino_write, J. cbn.
        rewrite (data_write _ _ _ i) by auto. now rewrite Nat.eqb_refl.
      + intros _. repeat split; try assumption; congruence.
    - destruct G3 as (A & B & C & C' & i & I0 & J). destruct (RS _ I0) as [R0 R1].
      assert (read fs1 (snd d) = Some (data_of fs0 i)) as RD
        by (unfold read; rewrite J; cbn; f_equal; apply G2; eauto).
      split.
      + cbn. split; [assumption|]. split; [congruence|]. intros c. unfold read. rewrite ino_write, J. cbn.
        rewrite (data_write _ _ _ i) by auto. now rewrite Nat.eqb_refl.
      + intros _. repeat split; try assumption; congruence.
    - destruct G3 as (A & B & C & C' & i & I0 & j & J1 & J2 & J3). destruct (RS _ I0) as [R0 R1].
      assert (read fs1 (snd d) = Some (data_of fs0 i)) as RD
        by (unfold read; rewrite J1; cbn; now rewrite J3).
      split.
      + cbn. split; [assumption|]. split; [congruence|]. intros c. rewrite R0. unfold read. rewrite ino_write, J1. cbn.
        rewrite (data_write _ _ _ i) by auto.
        destruct (Nat.eqb i j) eqn:Q; [apply Nat.eqb_eq in Q; subst; exfalso; eapply J2; eauto|].
        now rewrite J3.
      + intros _. repeat split; try assumption; congruence.
  Qed.

  Lemma entries_inj fs1 av H s1 d1 w1 s2 d2 w2 :
    ginv dest fs0 avoid0 fs1 av H -> In (s1, d1, w1) H -> In (s2, d2, w2) H ->
    w1 <> Leave -> w2 <> Leave -> snd d1 = snd d2 -> s1 = s2.
  Proof.
    intros G I1 I2 N1 N2 E.
    assert (forall s d w, w <> Leave -> In (s, d, w) H -> In (s, d, w) (filter nonleave H)) as F.
    { intros s d w N I. apply filter_In. split; [assumption|]. unfold nonleave; cbn. now destruct w. }
    pose proof (nodup_map_inj dpath _ _ _ (g4 _ _ _ _ _ _ G) (F _ _ _ N1 I1) (F _ _ _ N2 I2) E) as X.
    now inversion X.
  Qed.

  (* ------------------------------------------------------------ C33 *)
  Lemma copyfile_fields_ok fields : forall avoid fs hprev outs fs2 av2,
    ginv dest fs0 avoid0 fs avoid hprev ->
    (forall v f, In v fields -> In f (leaves v) -> ino_of fs0 (snd f) <> None) ->
    copyfile_fields copy_one tab dest fields avoid fs = Ok (outs, fs2, av2) ->
    exists H, ginv dest fs0 avoid0 fs2 av2 (H ++ hprev) /\
      Forall2 (fun v o => field_ok tab dest mode_hardlink_or_copy mode_any v (fst o) (snd o)
                          /\ incl (snd o) (H ++ hprev)) fields outs.
  Proof.
    induction fields as [|v r IH]; intros avoid fs hprev outs fs2 av2 G SRC; cbn [copyfile_fields].
    - intros X; inversion X; subst. exists []. split; [assumption|constructor].
    - destruct (copy_nested_files _ _ v _ _ _ avoid fs) as [[[[v' fs1] av1] lg]|] eqn:E; [|discriminate].
      destruct (copyfile_fields _ _ _ r av1 fs1) as [[[r' fs3] av3]|] eqn:R; [|discriminate].
      intros X; inversion X; subst; clear X.
      eapply nested_ok in E; eauto; [|intros; eapply SRC; eauto; now left]. destruct E as [G1 FO].
      eapply IH in R; eauto; [|intros; eapply SRC; eauto; now right]. destruct R as (H' & G2 & F2).
      exists (H' ++ lg). rewrite <- app_assoc. split; [assumption|]. constructor.
      + split; [assumption|]. cbn. intros e I. apply in_or_app. right. apply in_or_app. now left.
      + exact F2.
  Qed.

  Lemma all_pairs_in {P : value -> value * list log_entry -> Prop} vs outs s d :
    Forall2 P vs outs -> In (s, d) (all_pairs vs (map fst outs)) ->
    exists v o, P v o /\ In (s, d) (pairs_of v (fst o)).
  Proof.
    unfold all_pairs. induction 1 as [|v o vs outs Pvo F IH]; cbn; [tauto|].
    intros I. apply in_app_or in I. destruct I as [I|I]; [exists v, o; auto|auto].
  Qed.

  Theorem copyfile_workflow_collected fields outs fs1 av1 :
    (forall v f, In v fields -> In f (leaves v) -> ino_of fs0 (snd f) <> None) ->
    copyfile_fields copy_one tab dest fields avoid0 fs0 = Ok (outs, fs1, av1) ->
    collected tab dest fs0 fs1 fields (map fst outs).
  Proof.
    intros SRC E.
    eapply (copyfile_fields_ok _ _ _ []) in E; eauto using ginv_init.
    destruct E as (H & G & F). rewrite app_nil_r in *.
    assert (forall s d, In (s, d) (all_pairs fields (map fst outs)) ->
              exists w, In (s, d, w) H /\ (w = Hard \/ w = Copy) /\ mount_ok tab dest w s) as K.
    { intros s d I. destruct (all_pairs_in _ _ _ _ F I) as (v & o & [(_ & _ & A & _ & _ & B) INC] & I2).
      destruct (A _ _ I2) as [w Iw]. exists w. split; [now apply INC|].
      destruct (B _ _ _ Iw) as [B1 B2]. split; [destruct w; cbn in B1; auto; discriminate|now apply narrow_ok in B2]. }
    split.
    - eapply forall2_map_r; [|exact F]. intros a b [(S & _) _]. exact S.
    - intros s d I. destruct (K _ _ I) as (w & Iw & W & MO).
      destruct (entry_facts _ _ _ _ _ _ G Iw) as [BH FA].
      destruct FA as (A1 & A2 & A3 & A4 & A5); [destruct W; subst; discriminate|].
      repeat (split; [assumption|]). exists w. auto.
    - intros s1 d1 s2 d2 I1 I2 E. destruct (K _ _ I1) as (w1 & Iw1 & W1 & _), (K _ _ I2) as (w2 & Iw2 & W2 & _).
      f_equal. eapply entries_inj; eauto; [destruct W1|destruct W2]; subst; discriminate.
  Qed.

  (* a later write by the engine to a reserved path p of the directory (free at the start, in the initial
     clash set) creates a new file and disturbs nothing *)
  Lemma dump_frame fs1 av H (p : path) c :
    ginv dest fs0 avoid0 fs1 av H -> In p avoid0 -> ino_of fs0 p = None ->
    ino_of fs1 p = None /\ forall q, q <> p -> read (dump fs1 p c) q = read fs1 q.
  Proof.
    intros G IN N0.
    assert (ino_of fs1 p = None) as N1.
    { destruct (ino_of fs1 p) eqn:X; [|reflexivity]. exfalso.
      assert (ino_of fs1 p <> None) as X' by congruence.
      apply (g6 _ _ _ _ _ _ G) in X'. destruct X' as [X'|X']; [congruence|].
      unfold dsts in X'. apply in_map_iff in X'. destruct X' as ([[s d] w] & E & I).
      apply filter_In in I. destruct I as [I NL]. pose proof (g3 _ _ _ _ _ _ G _ I) as EO.
      unfold dpath in E. cbn in E. subst p. unfold entry_ok in EO.
      destruct w; [discriminate NL|..]; destruct EO as (_ & _ & _ & C' & _); contradiction. }
    split; [exact N1|]. intros q NE. unfold dump. rewrite N1. unfold read.
    rewrite ino_add_copy. apply not_eq_sym, path_eqb_neq in NE. rewrite NE.
    destruct (ino_of fs1 q) as [i|] eqn:I; [|reflexivity]. cbn. f_equal.
    rewrite data_add_copy. destruct (Nat.eqb (fresh_ino fs1) i) eqn:Q; [|reflexivity].
    apply Nat.eqb_eq in Q. subst. exfalso. eapply fresh_ino_fresh; eauto.
  Qed.

  Lemma entry_dst_not_seeded fs1 av H s d w (p : path) :
    ginv dest fs0 avoid0 fs1 av H -> In (s, d, w) H -> In p avoid0 -> ino_of fs0 p = None ->
    ino_of fs0 (snd s) <> None -> snd d <> p /\ snd s <> p.
  Proof.
    intros G I IN N0 SRC. pose proof (g3 _ _ _ _ _ _ G _ I) as EO. unfold entry_ok in EO.
    assert (snd s <> p) as NS by (intros X; rewrite X in SRC; contradiction).
    split; [|exact NS].
    destruct w; [now subst|..]; destruct EO as (_ & _ & _ & C' & _); intros X; rewrite X in C'; contradiction.
  Qed.

  Theorem copyfile_then_dump fields outs fs1 av1 (p : path) c :
    (forall v f, In v fields -> In f (leaves v) -> ino_of fs0 (snd f) <> None) ->
    copyfile_fields copy_one tab dest fields avoid0 fs0 = Ok (outs, fs1, av1) ->
    In p avoid0 -> ino_of fs0 p = None ->
    forall s d, In (s, d) (all_pairs fields (map fst outs)) ->
      snd d <> p /\ read (dump fs1 p c) (snd d) = read fs0 (snd s)
      /\ read (dump fs1 p c) (snd s) = read fs0 (snd s).
  Proof.
    intros SRC E IN N0 s d I.
    pose proof (copyfile_workflow_collected _ _ _ _ SRC E) as COL.
    eapply (copyfile_fields_ok _ _ _ []) in E; eauto using ginv_init.
    destruct E as (H & G & F). rewrite app_nil_r in *.
    destruct (all_pairs_in _ _ _ _ F I) as (v & o & [(_ & _ & A & _) INC] & I2).
    destruct (A _ _ I2) as [w Iw]. apply INC in Iw.
    destruct (c_leaf _ _ _ _ _ _ COL _ _ I) as (_ & _ & R0 & R1 & R2 & _).
    assert (ino_of fs0 (snd s) <> None) as SE
      by (unfold read in R0; destruct (ino_of fs0 (snd s)); [congruence|cbn in R0; congruence]).
    destruct (entry_dst_not_seeded _ _ _ _ _ _ _ G Iw IN N0 SE) as [ND NS].
    destruct (dump_frame _ _ _ p c G IN N0) as [_ FR].
    split; [exact ND|]. rewrite !FR by assumption. auto.
  Qed.

  (* ------------------------------------------------------------ C34 *)
  Lemma job_fields_ok fields : forall avoid fs hprev outs fs2 av2,
    ginv dest fs0 avoid0 fs avoid hprev ->
    (forall fd f, In fd fields -> is_staged fd = true -> In f (leaves (fd_value fd)) ->
                  ino_of fs0 (snd f) <> None) ->
    job_fields copy_one tab dest fields avoid fs = Ok (outs, fs2, av2) ->
    exists H, ginv dest fs0 avoid0 fs2 av2 (H ++ hprev) /\
      Forall2 (fun fd o => if is_staged fd
                           then field_ok tab dest (fd_mode fd) mode_any (fd_value fd) (fst o) (snd o)
                                /\ incl (snd o) (H ++ hprev)
                           else o = (fd_value fd, [])) fields outs.
  Proof.
    induction fields as [|fd r IH]; intros avoid fs hprev outs fs2 av2 G SRC; cbn [job_fields].
    - intros X; inversion X; subst. exists []. split; [assumption|constructor].
    - fold (is_staged fd). destruct (is_staged fd) eqn:ST.
      + destruct (copy_nested_files _ _ (fd_value fd) _ _ _ avoid fs) as [[[[v' fs1] av1] lg]|] eqn:E; [|discriminate].
        destruct (job_fields _ _ _ r av1 fs1) as [[[r' fs3] av3]|] eqn:R; [|discriminate].
        intros X; inversion X; subst; clear X.
        eapply nested_ok in E; eauto; [|intros; eapply SRC; eauto; now left]. destruct E as [G1 FO].
        eapply IH in R; eauto; [|intros; eapply SRC; eauto; now right]. destruct R as (H' & G2 & F2).
        exists (H' ++ lg). rewrite <- app_assoc. split; [assumption|]. constructor.
        * rewrite ST. split; [assumption|]. cbn. intros e I. apply in_or_app. right. apply in_or_app. now left.
        * exact F2.
      + destruct (job_fields _ _ _ r avoid fs) as [[[r' fs3] av3]|] eqn:R; [|discriminate].
        intros X; inversion X; subst; clear X.
        eapply IH in R; eauto; [|intros; eapply SRC; eauto; now right]. destruct R as (H' & G2 & F2).
        exists H'. split; [assumption|]. constructor; [now rewrite ST|exact F2].
  Qed.

  Definition counts (outs : list (value * list log_entry)) : list (value * nat) :=
    map (fun o => (fst o, List.length (snd o))) outs.

  Theorem job_inputs_staged fields outs fs1 av1 :
    (forall fd f, In fd fields -> is_staged fd = true -> In f (leaves (fd_value fd)) ->
                  ino_of fs0 (snd f) <> None) ->
    job_fields copy_one tab dest fields avoid0 fs0 = Ok (outs, fs1, av1) ->
    staged tab dest fs0 fs1 fields (counts outs).
  Proof.
    intros SRC E.
    eapply (job_fields_ok _ _ _ []) in E; eauto using ginv_init.
    destruct E as (H & G & F). rewrite app_nil_r in *. unfold counts.
    split.
    - eapply forall2_map_r; [|exact F]. intros fd o. cbn. destruct (is_staged fd).
      + intros [(S & _) _]. exact S.
      + intros ->. apply same_shape_refl.
    - intros fd o I ST. destruct (forall2_combine_map _ _ _ _ _ _ F I) as (b & -> & P & _).
      rewrite ST in P. subst. auto.
    - intros fd o I ST s d I2. destruct (forall2_combine_map _ _ _ _ _ _ F I) as (b & -> & P & _).
      rewrite ST in P. destruct P as [(_ & _ & A & _ & _ & B) INC]. cbn in I2.
      destruct (A _ _ I2) as [w Iw]. destruct (B _ _ _ Iw) as [B1 B2].
      destruct (entry_facts _ _ _ _ _ _ G (INC _ Iw)) as [BH FA].
      split.
      + destruct w; [cbn in BH; now subst|apply FA; discriminate..].
      + exists w. split; [assumption|]. split; [now apply narrow_ok in B2|assumption].
    - intros fd o I ST. destruct (forall2_combine_map _ _ _ _ _ _ F I) as (b & -> & P & _).
      rewrite ST in P. destruct P as [(_ & _ & _ & A & B & _) _]. cbn. auto.
    - intros p I. destruct (ino_of fs0 p) as [i|] eqn:E; [|congruence].
      unfold read. rewrite E, (g1 _ _ _ _ _ _ G _ _ E). cbn. f_equal. apply (g2 _ _ _ _ _ _ G). eauto.
  Qed.

  Theorem job_inputs_then_dump fields outs fs1 av1 (p : path) c :
    (forall fd f, In fd fields -> is_staged fd = true -> In f (leaves (fd_value fd)) ->
                  ino_of fs0 (snd f) <> None) ->
    job_fields copy_one tab dest fields avoid0 fs0 = Ok (outs, fs1, av1) ->
    In p avoid0 -> ino_of fs0 p = None ->
    ino_of fs1 p = None
    /\ (forall q, q <> p -> read (dump fs1 p c) q = read fs1 q)
    /\ forall fd o, In (fd, o) (combine fields outs) -> is_staged fd = true ->
         forall s d, In (s, d) (pairs_of (fd_value fd) (fst o)) -> snd d <> p /\ snd s <> p.
  Proof.
    intros SRC E IN N0.
    eapply (job_fields_ok _ _ _ []) in E; eauto using ginv_init.
    destruct E as (H & G & F). rewrite app_nil_r in *.
    destruct (dump_frame _ _ _ p c G IN N0) as [N1 FR].
    split; [exact N1|]. split; [exact FR|].
    intros fd o I ST s d I2.
    assert (exists fd' o', fd' = fd /\ o' = o /\ In fd fields /\
              (if is_staged fd then field_ok tab dest (fd_mode fd) mode_any (fd_value fd) (fst o) (snd o)
                                    /\ incl (snd o) H else o = (fd_value fd, []))) as (_ & _ & _ & _ & IF & P).
    { clear - F I. induction F as [|x y l l' Pxy F IH]; cbn in I; [tauto|].
      destruct I as [X|X]; [inversion X; subst; exists fd, o; cbn; auto|].
      destruct (IH X) as (a & b & ? & ? & ? & ?). exists a, b. cbn. auto. }
    rewrite ST in P. destruct P as [(_ & _ & A & _) INC].
    destruct (A _ _ I2) as [w Iw]. apply INC in Iw.
    eapply entry_dst_not_seeded; eauto. eapply SRC; eauto.
    unfold pairs_of in I2. now apply in_combine_l in I2.
  Qed.
End Final.

(* ---------------------------------------------------------------- no error: the clash counter always finds a free name *)
Lemma str_len_app a b : String.length (a ++ b)%string = String.length a + String.length b.
Proof. induction a as [|c a IH]; cbn; [reflexivity|now rewrite IH]. Qed.
Lemma str_app_inv_head a b c : (a ++ b)%string = (a ++ c)%string -> b = c.
Proof. induction a as [|x a IH]; cbn; [auto|]. intros E. inversion E. auto. Qed.
Lemma la_of_app a b : la_of (a ++ b)%string = la_of a ++ la_of b.
Proof. unfold la_of. induction a as [|c a IH]; cbn; [reflexivity|now rewrite IH]. Qed.
Lemma str_of_app a b : str_of (a ++ b) = (str_of a ++ str_of b)%string.
Proof. induction a as [|c a IH]; cbn; [reflexivity|now rewrite IH]. Qed.
Lemma str_app_inv_tail a b c : (a ++ c)%string = (b ++ c)%string -> a = b.
Proof.
  intros E. apply (f_equal la_of) in E. rewrite !la_of_app in E. apply app_inv_tail in E.
  apply (f_equal str_of) in E. now rewrite !str_of_la_of in E.
Qed.

Lemma split_ext_app name : (fst (split_ext name) ++ snd (split_ext name))%string = name.
Proof.
  unfold split_ext. destruct (last_dot (la_of name) 0 None) as [i|]; cbn.
  - destruct (_ && _)%bool; cbn.
    + now rewrite <- str_of_app, firstn_skipn, str_of_la_of.
    + clear. induction name; cbn; congruence.
  - clear. induction name; cbn; congruence.
Qed.

Lemma dec_inj j k : dec j = dec k -> j = k.
Proof.
  unfold dec. intros E. apply (f_equal NilEmpty.uint_of_string) in E. rewrite !NilEmpty.usu in E.
  inversion E as [E']. apply (f_equal Nat.of_uint) in E'. now rewrite !Unsigned.of_to in E'.
Qed.

Lemma cand_name_inj name j k : cand_name name j = cand_name name k -> j = k.
Proof.
  pose proof (split_ext_app name) as SE. unfold cand_name.
  destruct (split_ext name) as [st ex]. cbn [fst snd] in SE.
  destruct j as [|j], k as [|k]; auto.
  - intros E. apply (f_equal String.length) in E. rewrite <- SE in E at 1.
    rewrite !str_len_app in E. cbn in E. lia.
  - intros E. apply (f_equal String.length) in E. rewrite <- SE in E at 1.
    rewrite !str_len_app in E. cbn in E. lia.
  - intros E. apply str_app_inv_head in E. apply (str_app_inv_head " (") in E.
    apply str_app_inv_tail in E. now apply dec_inj in E.
Qed.

Lemma search_progress fuel : forall fs avoid dest name k,
  (forall p : path, fst p = dest -> ino_of fs p <> None -> In p avoid) ->
  (forall j, j < fuel -> In (cand dest name (k + j)) avoid) \/ exists d, search fuel fs avoid dest name k = Ok d.
Proof.
  induction fuel as [|fu IH]; intros fs avoid dest name k D; [left; intros; lia|].
  cbn [search]. unfold dest_check.
  assert (mem (cand dest name k) avoid = true ->
          (forall j, j < S fu -> In (cand dest name (k + j)) avoid)
          \/ exists d, search fu fs avoid dest name (S k) = Ok d) as REC.
  { intros M. destruct (IH fs avoid dest name (S k) D) as [A|A]; [left|now right].
    intros [|j] L; [rewrite Nat.add_0_r; now apply mem_spec|].
    replace (k + S j) with (S k + j) by lia. apply A. lia. }
  destruct (ino_of fs (cand dest name k)) eqn:I.
  - assert (mem (cand dest name k) avoid = true) as M by (apply mem_spec, D; [reflexivity|congruence]).
    rewrite M. auto.
  - destruct (mem (cand dest name k) avoid) eqn:M; [auto|]. right. eauto.
Qed.

Lemma search_total fs avoid dest name :
  (forall p : path, fst p = dest -> ino_of fs p <> None -> In p avoid) ->
  exists d, search (S (List.length avoid)) fs avoid dest name 0 = Ok d.
Proof.
  intros D. destruct (search_progress (S (List.length avoid)) fs avoid dest name 0 D) as [A|A]; [|exact A].
  exfalso.
  assert (NoDup (map (cand dest name) (seq 0 (S (List.length avoid))))) as ND.
  { apply FinFun.Injective_map_NoDup; [|apply seq_NoDup].
    intros j k E. inversion E. now apply cand_name_inj in H0. }
  assert (incl (map (cand dest name) (seq 0 (S (List.length avoid)))) avoid) as INC.
  { intros p I. apply in_map_iff in I. destruct I as (j & <- & I). apply in_seq in I. apply (A j). lia. }
  pose proof (NoDup_incl_length ND INC) as L. rewrite map_length, seq_length in L. lia.
Qed.

Lemma ff_copy_total fs dest m sup avoid f :
  (forall p : path, fst p = dest -> ino_of fs p <> None -> In p avoid) ->
  ino_of fs (snd f) <> None -> select (inter m sup) <> None ->
  exists r, ff_copy fs dest m sup avoid f = Ok r.
Proof.
  intros D SRC SEL. unfold ff_copy.
  destruct (select (inter m sup)) as [w|]; [|congruence].
  destruct (search_total fs avoid dest (snd (snd f)) D) as [d SE].
  destruct w; [eauto|..]; (destruct (ino_of fs (snd f)) as [i|]; [|congruence]); rewrite SE; eauto.
Qed.

Section Total.
  Variable tab : table.
  Variables (dest : string) (fs0 : fsT) (avoid0 : list path).
  (* the clash set starts with everything the target directory holds *)
  Hypothesis SEED : forall p : path, fst p = dest -> ino_of fs0 p <> None -> In p avoid0.

  Lemma ginv_dest fs avoid h : ginv dest fs0 avoid0 fs avoid h ->
    forall p : path, fst p = dest -> ino_of fs p <> None -> In p avoid.
  Proof.
    intros G p D I. apply (g6 _ _ _ _ _ _ G) in I. destruct I as [I|I].
    - apply (g7 _ _ _ _ _ _ G). now apply SEED.
    - now apply (g5 _ _ _ _ _ _ G).
  Qed.

  Definition satisfiable (m sup : cmode) (f : fileset) : Prop :=
    select (inter m (narrow tab dest f sup)) <> None.

  Lemma run_total m sup l : forall s hprev done,
    ginv dest fs0 avoid0 (s_fs s) (s_avoid s) (s_log s ++ hprev) -> minv tab dest m sup (s_memo s) (s_log s) done ->
    (forall f, In f l -> ino_of fs0 (snd f) <> None) -> (forall f, In f l -> satisfiable m sup f) ->
    exists r, run (copy_fileset ff_copy tab dest m sup) l s = Ok r.
  Proof.
    induction l as [|f r IH]; intros s hprev done G M SRC SAT; cbn [run]; [eauto|].
    assert (exists x, copy_fileset ff_copy tab dest m sup f s = Ok x) as [[f' s1] E].
    { unfold copy_fileset. destruct (assoc fileset_eqb f (s_memo s)); [eauto|].
      destruct (ff_copy_total (s_fs s) dest m (narrow tab dest f sup) (s_avoid s) f) as [[[[a b] c] d] ->]; eauto.
      - eapply ginv_dest; eauto.
      - destruct (ino_of fs0 (snd f)) eqn:I; [|exfalso; eapply SRC; eauto; now left].
        rewrite (g1 _ _ _ _ _ _ G _ _ I). congruence.
      - apply SAT. now left. }
    rewrite E. pose proof E as E'.
    eapply (field_step _ ff_copy_contract) in E'; eauto; [|apply SRC; now left]. destruct E' as [G1 M1].
    destruct (IH s1 hprev _ G1 M1) as [[r' s2] ->]; eauto; intros; [apply SRC|apply SAT]; now right.
  Qed.

  Lemma nested_total m sup v avoid fs hprev :
    ginv dest fs0 avoid0 fs avoid hprev ->
    (forall f, In f (leaves v) -> ino_of fs0 (snd f) <> None) ->
    (forall f, In f (leaves v) -> satisfiable m sup f) ->
    exists r, copy_nested_files ff_copy tab v dest m sup avoid fs = Ok r.
  Proof.
    intros G SRC SAT. unfold copy_nested_files.
    pose proof (apply_files_run (copy_fileset ff_copy tab dest m sup) v (mkst fs avoid [] [])) as T.
    destruct (run_total m sup (leaves v) (mkst fs avoid [] []) hprev [] G (minv_init _ _ _ _)) as [r R]; auto.
    destruct (apply_files _ v _) as [[v1 s1]|]; [eauto|]. rewrite R in T. discriminate.
  Qed.

  Lemma hl_or_copy_satisfiable f : satisfiable mode_hardlink_or_copy mode_any f.
  Proof.
    unfold satisfiable, narrow.
    destruct (on_cifs tab (full (snd f))), (negb (on_same_mount tab (full (snd f)) dest)); cbn; discriminate.
  Qed.

  Theorem copyfile_workflow_total fields : forall avoid fs hprev,
    ginv dest fs0 avoid0 fs avoid hprev ->
    (forall v f, In v fields -> In f (leaves v) -> ino_of fs0 (snd f) <> None) ->
    exists r, copyfile_fields ff_copy tab dest fields avoid fs = Ok r.
  Proof.
    induction fields as [|v r IH]; intros avoid fs hprev G SRC; cbn [copyfile_fields]; [eauto|].
    destruct (nested_total mode_hardlink_or_copy mode_any v avoid fs hprev G) as [[[[v' fs1] av1] lg] E].
    - intros; eapply SRC; eauto; now left.
    - intros; apply hl_or_copy_satisfiable.
    - rewrite E. eapply (nested_ok _ ff_copy_contract) in E; eauto; [|intros; eapply SRC; eauto; now left].
      destruct E as [G1 _]. destruct (IH av1 fs1 _ G1) as [[[r' fs2] av2] ->]; eauto.
      intros; eapply SRC; eauto; now right.
  Qed.

  Theorem job_fields_total fields : forall avoid fs hprev,
    ginv dest fs0 avoid0 fs avoid hprev ->
    (forall fd f, In fd fields -> is_staged fd = true -> In f (leaves (fd_value fd)) ->
                  ino_of fs0 (snd f) <> None /\ satisfiable (fd_mode fd) mode_any f) ->
    exists r, job_fields ff_copy tab dest fields avoid fs = Ok r.
  Proof.
    induction fields as [|fd r IH]; intros avoid fs hprev G SRC; cbn [job_fields]; [eauto|].
    fold (is_staged fd). destruct (is_staged fd) eqn:ST.
    - destruct (nested_total (fd_mode fd) mode_any (fd_value fd) avoid fs hprev G) as [[[[v' fs1] av1] lg] E].
      + intros; eapply SRC; eauto; now left.
      + intros; eapply SRC; eauto; now left.
      + rewrite E. eapply (nested_ok _ ff_copy_contract) in E; eauto; [|intros; eapply SRC; eauto; now left].
        destruct E as [G1 _]. destruct (IH av1 fs1 _ G1) as [[[r' fs2] av2] ->]; eauto.
        intros; eapply SRC; eauto; now right.
    - destruct (IH avoid fs _ G) as [[[r' fs2] av2] ->]; eauto.
      intros; eapply SRC; eauto; now right.
  Qed.
End Total.

(* ---------------------------------------------------------------- the statements used by Props/C33.v and Props/C34.v *)
Lemma select_some m w : allowed w m = true -> select m <> None.
Proof. unfold select. destruct m as [[] [] [] []], w; cbn; intros E; try discriminate; intros F; discriminate. Qed.

Lemma stageable_satisfiable tab dest m s : stageable tab dest m s -> satisfiable tab dest m mode_any s.
Proof.
  intros (w & A & M). unfold satisfiable. apply (select_some _ w). rewrite allowed_inter, A. cbn.
  unfold narrow, mount_ok in *.
  destruct (on_cifs tab (full (snd s))), (on_same_mount tab (full (snd s)) dest), w; cbn; auto; discriminate.
Qed.

Definition sources_exist (fs0 : fsT) (vs : list value) : Prop :=
  forall v f, In v vs -> In f (leaves v) -> ino_of fs0 (snd f) <> None.

Lemma dir_entries_spec fs d (p : path) : fst p = d -> ino_of fs p <> None -> In p (dir_entries fs d).
Proof.
  intros E I. unfold dir_entries. apply filter_In. split; [|now apply String.eqb_eq].
  unfold ino_of in I. destruct (assoc path_eqb p (f_ino fs)) eqn:A; [|congruence].
  apply (assoc_in _ path_eqb_spec) in A. change p with (fst (p, n)). now apply in_map.
Qed.

Lemma seed_spec fs d (p : path) : fst p = d -> ino_of fs p <> None -> In p (seed fs d).
Proof. intros. apply in_or_app. left. now apply dir_entries_spec. Qed.

Lemma c33_collected copy_one (HC : copy_contract copy_one) tab dest fs0 fields outs fs1 av :
  sources_exist fs0 fields ->
  copyfile_workflow copy_one tab dest fields fs0 = Ok (outs, fs1, av) ->
  collected tab dest fs0 fs1 fields (map fst outs).
Proof. unfold copyfile_workflow. intros. eapply copyfile_workflow_collected; eauto. Qed.

Lemma c33_total tab dest fs0 fields :
  sources_exist fs0 fields ->
  exists r, copyfile_workflow ff_copy tab dest fields fs0 = Ok r.
Proof.
  intros S. unfold copyfile_workflow.
  eapply (copyfile_workflow_total tab dest fs0 (seed fs0 dest) (seed_spec fs0 dest) fields _ fs0 []);
    eauto using ginv_init.
Qed.

Definition C33_statement : Prop :=
  forall (tab : table) (dest : string) (fs0 : fsT) (fields : list value),
    sources_exist fs0 fields ->
    exists outs fs1 av, copyfile_workflow ff_copy tab dest fields fs0 = Ok (outs, fs1, av)
                        /\ collected tab dest fs0 fs1 fields (map fst outs).
Lemma c33_full : C33_statement.
Proof.
  intros tab dest fs0 fields S. destruct (c33_total tab dest fs0 fields S) as [[[outs fs1] av] R].
  exists outs, fs1, av. split; [exact R|]. eapply c33_collected; eauto using ff_copy_contract.
Qed.

Definition fields_ready (tab : table) (dest : string) (fs0 : fsT) (fields : list field) : Prop :=
  forall fd f, In fd fields -> is_staged fd = true -> In f (leaves (fd_value fd)) ->
               ino_of fs0 (snd f) <> None /\ stageable tab dest (fd_mode fd) f.

Lemma c34_staged copy_one (HC : copy_contract copy_one) tab dest fs0 fields outs fs1 av :
  (forall fd f, In fd fields -> is_staged fd = true -> In f (leaves (fd_value fd)) -> ino_of fs0 (snd f) <> None) ->
  job_inputs copy_one tab dest fields fs0 = Ok (outs, fs1, av) ->
  staged tab dest fs0 fs1 fields (counts outs).
Proof. unfold job_inputs. intros. eapply job_inputs_staged; eauto. Qed.

Lemma c34_total tab dest fs0 fields :
  fields_ready tab dest fs0 fields ->
  exists r, job_inputs ff_copy tab dest fields fs0 = Ok r.
Proof.
  intros S. unfold job_inputs.
  eapply (job_fields_total tab dest fs0 (seed fs0 dest) (seed_spec fs0 dest) fields _ fs0 []);
    eauto using ginv_init.
  intros fd f I ST L. destruct (S fd f I ST L) as [A B]. split; [exact A|now apply stageable_satisfiable].
Qed.

Lemma reserved_in_seed fs dest n : In n reserved_names -> In (dest, n) (seed fs dest).
Proof. intros I. apply in_or_app. right. apply in_map_iff. now exists n. Qed.

(* what result.save writes into the directory after collection/staging (a reserved name that was free)
   is a new file: no collected or staged file, and no source, is touched *)
Lemma c33_save_safe copy_one (HC : copy_contract copy_one) tab dest fs0 fields outs fs1 av n c :
  sources_exist fs0 fields ->
  copyfile_workflow copy_one tab dest fields fs0 = Ok (outs, fs1, av) ->
  In n reserved_names -> ino_of fs0 (dest, n) = None ->
  forall s d, In (s, d) (all_pairs fields (map fst outs)) ->
    snd d <> (dest, n)
    /\ read (dump fs1 (dest, n) c) (snd d) = read fs0 (snd s)
    /\ read (dump fs1 (dest, n) c) (snd s) = read fs0 (snd s).
Proof.
  unfold copyfile_workflow. intros S E I N. eapply copyfile_then_dump; eauto using reserved_in_seed.
Qed.

Lemma c34_save_safe copy_one (HC : copy_contract copy_one) tab dest fs0 fields outs fs1 av n c :
  (forall fd f, In fd fields -> is_staged fd = true -> In f (leaves (fd_value fd)) -> ino_of fs0 (snd f) <> None) ->
  job_inputs copy_one tab dest fields fs0 = Ok (outs, fs1, av) ->
  In n reserved_names -> ino_of fs0 (dest, n) = None ->
  ino_of fs1 (dest, n) = None
  /\ (forall q, q <> (dest, n) -> read (dump fs1 (dest, n) c) q = read fs1 q)
  /\ forall fd o, In (fd, o) (combine fields outs) -> is_staged fd = true ->
       forall s d, In (s, d) (pairs_of (fd_value fd) (fst o)) -> snd d <> (dest, n) /\ snd s <> (dest, n).
Proof.
  unfold job_inputs. intros S E I N. eapply job_inputs_then_dump; eauto using reserved_in_seed.
Qed.

Definition C34_statement : Prop :=
  forall (tab : table) (dest : string) (fs0 : fsT) (fields : list field),
    fields_ready tab dest fs0 fields ->
    exists outs fs1 av, job_inputs ff_copy tab dest fields fs0 = Ok (outs, fs1, av)
                        /\ staged tab dest fs0 fs1 fields (counts outs).
Lemma c34_full : C34_statement.
Proof.
  intros tab dest fs0 fields S. destruct (c34_total tab dest fs0 fields S) as [[[outs fs1] av] R].
  exists outs, fs1, av. split; [exact R|]. eapply c34_staged; eauto using ff_copy_contract.
  intros fd f I ST L. now destruct (S fd f I ST L).
Qed.

(* ---------------------------------------------------------------- concrete, non-trivial instances *)
Definition ex_fs : fsT :=
  mkfs [(("/d1", "f.txt"), 1); (("/d2", "f.txt"), 2); (("/d2", "g"), 3); (("/d3", "f (1).txt"), 4)]
       [(1, "A"); (2, "B"); (3, "C"); (4, "D")].
Definition ex_a : fileset := ("File", ("/d1", "f.txt")).
Definition ex_b : fileset := ("File", ("/d2", "f.txt")).
Definition ex_g : fileset := ("Directory", ("/d2", "g")).
Definition ex_d : fileset := ("File", ("/d3", "f (1).txt")).
Definition ex_fields : list value :=
  [VCont CList [VFile ex_a; VFile ex_b];
   VCont CDict [VAtom "'k'" true; VCont CTuple [VFile ex_a; VCont CList [VFile ex_g; VFile ex_d; VFile ex_b]]]].

Example ex_ready : sources_exist ex_fs ex_fields.
Proof.
  intros v f [<-|[<-|[]]]; cbn; intros H; repeat (destruct H as [<-|H]; [discriminate|]); destruct H.
Qed.

(* equal names from several directories, the same file in two fields, a name that looks like a counter *)
Example ex_collect :
  option_map (fun r => map fst (fst (fst r))) (match copyfile_workflow ff_copy [] "/wf" ex_fields ex_fs with Ok r => Some r | Err _ => None end)
  = Some [VCont CList [VFile ("File", ("/wf", "f.txt")); VFile ("File", ("/wf", "f (1).txt"))];
          VCont CDict [VAtom "'k'" true;
                       VCont CTuple [VFile ("File", ("/wf", "f (2).txt"));
                                     VCont CList [VFile ("Directory", ("/wf", "g"));
                                                  VFile ("File", ("/wf", "f (1) (1).txt"));
                                                  VFile ("File", ("/wf", "f (3).txt"))]]]].
Proof. vm_compute. reflexivity. Qed.

(* what the per-field clash set of the unrepaired Job.inputs did: the second field's equally named
   file hits the first field's staged copy, which is not in its (fresh) set *)
Definition job_fields_unshared (copy_one : copy_fn) (tab : table) (dest : string) :=
  fix go (fields : list field) (fs : fsT) : res (list value * fsT) :=
    match fields with
    | [] => Ok ([], fs)
    | fd :: r =>
        if is_staged fd then
          match copy_nested_files copy_one tab (fd_value fd) dest (fd_mode fd) mode_any [] fs with
          | Err e => Err e
          | Ok (v', fs1, _, _) => match go r fs1 with Err e => Err e | Ok (r', fs2) => Ok (v' :: r', fs2) end
          end
        else match go r fs with Err e => Err e | Ok (r', fs2) => Ok (fd_value fd :: r', fs2) end
    end.
Definition mode_copy : cmode := mkmode false false false true.
Definition ex_job : list field := [mkfield true mode_copy (VFile ex_a); mkfield true mode_copy (VFile ex_b)].
Example unshared_set_fails : job_fields_unshared ff_copy [] "/job" ex_job ex_fs = Err EExists.
Proof. vm_compute. reflexivity. Qed.
Example shared_set_stages :
  match job_inputs ff_copy [] "/job" ex_job ex_fs with
  | Ok (outs, _, _) => map fst outs = [VFile ("File", ("/job", "f.txt")); VFile ("File", ("/job", "f (1).txt"))]
  | Err _ => False
  end.
Proof. vm_compute. reflexivity. Qed.
Example ex_job_ready : fields_ready [] "/job" ex_fs ex_job.
Proof.
  intros fd f [<-|[<-|[]]] _; cbn; (intros [<-|[]]); (split; [discriminate|]); exists Copy; cbn; auto.
Qed.

(* an output named like something the directory already holds gets the next free name *)
Definition ex_fs_job : fsT :=
  mkfs [(("/wf", "_job.pklz"), 9); (("/d1", "_job.pklz"), 1); (("/d2", "_job.pklz"), 2)] [(9, "ENGINE"); (1, "A"); (2, "B")].
Example ex_seeded :
  match copyfile_workflow ff_copy [] "/wf" [VCont CList [VFile ("File", ("/d1", "_job.pklz")); VFile ("File", ("/d2", "_job.pklz"))]] ex_fs_job with
  | Ok (outs, fs1, _) =>
      map fst outs = [VCont CList [VFile ("File", ("/wf", "_job (1).pklz")); VFile ("File", ("/wf", "_job (2).pklz"))]]
      /\ read fs1 ("/wf", "_job.pklz") = Some "ENGINE"
  | Err _ => False
  end.
Proof. vm_compute. split; reflexivity. Qed.

(* an output named like the result pickle is collected under the next free name, so the pickle written
   afterwards goes to a new file and both the collected file and the source keep their content *)
Definition ex_fs_res : fsT := mkfs [(("/wf", "_job.pklz"), 9); (("/d1", "_result.pklz"), 1)] [(9, "ENGINE"); (1, "USERDATA")].
Example ex_reserved :
  match copyfile_workflow ff_copy [] "/wf" [VFile ("File", ("/d1", "_result.pklz"))] ex_fs_res with
  | Ok (outs, fs1, _) =>
      map fst outs = [VFile ("File", ("/wf", "_result (1).pklz"))]
      /\ read (dump fs1 ("/wf", "_result.pklz") "PICKLE") ("/wf", "_result (1).pklz") = Some "USERDATA"
      /\ read (dump fs1 ("/wf", "_result.pklz") "PICKLE") ("/d1", "_result.pklz") = Some "USERDATA"
  | Err _ => False
  end.
Proof. vm_compute. repeat split; reflexivity. Qed.
