(* C13 — Failures are reported and never cached as success. *)
From Pydra Require Import Base.Prelude Model.CacheSeq Spec.CacheSeq Proofs.CacheSeq Proofs.CacheSeqBind.

Definition C13_full_statement : Prop :=
  (* histories: every submission serves only stored successes and reports the outcome of the
     execution of the submitted task *)
  (forall (w : world) (sub : submission) (s : state), wf_taskb (s_task sub) = true ->
     spec_not_served (fst (observe_submit w sub s)) /\ spec_reported (fst (observe_submit w sub s)) /\
     spec_written (fst (observe_submit w sub s))) /\
  (* programs: a python return value either provides every mandatory output or the job fails *)
  (forall ds r outs, bind_outputs true ds r = Some outs -> outputs_complete ds outs) /\
  (forall ds r, provides ds r = false -> bind_outputs true ds r = None).

Theorem C13_full : C13_full_statement.
Proof.
  split; [|split; [exact bind_complete|exact bind_fails_when_not_provided]].
  intros w sub s Hwf. destruct (submit_meets_spec_core w sub s Hwf) as (_ & _ & _ & Hw & Hn & Hr). auto.
Qed.
Print Assumptions C13_full.

(* a stored failure is never returned by Job.run's early exit: the body is entered again and the
   directory then holds the new outcome *)
Theorem C13_error_not_served :
  forall (w : world) (cfg : config) (t : task) (s : state),
    wf_taskb t = true ->
    load_result (st s) (tid t) (all_caches cfg) = Some Err ->
    forall rr, let '(s', evs, r) := run_job w cfg rr t s in
    last_run (tid t) evs = Some r /\ 1 <= count_runs (tid t) evs /\ st s' (root cfg) (tid t) = Complete r.
Proof. exact error_not_served. Qed.
Print Assumptions C13_error_not_served.

(* the submission reports exactly the outcome of Job.run (Err = the failure is reported) *)
Theorem C13_error_reported :
  forall (w : world) (cfg : config) (rr : bool) (t : task) (s : state),
    wf_taskb t = true -> submit w cfg rr t s = run_job w cfg rr t s.
Proof. exact submit_reports_outcome. Qed.
Print Assumptions C13_error_reported.

(* a failing execution is stored as a failure and the next submission under the same root
   executes the task again, whatever its flags, read-only caches and world *)
Theorem C13_failure_reexecuted :
  forall (w : world) (cfg : config) (t : task) (s : state) (rr : bool),
    wf_taskb t = true ->
    forall s1 evs1, run_job w cfg rr t s = (s1, evs1, Err) ->
    st s1 (root cfg) (tid t) = Complete Err /\
    forall w2 cfg2 s2 rr2, root cfg2 = root cfg -> st s2 (root cfg) (tid t) = Complete Err ->
      let '(s3, evs3, r3) := run_job w2 cfg2 rr2 t s2 in last_run (tid t) evs3 = Some r3.
Proof. exact failure_reexecuted. Qed.
Print Assumptions C13_failure_reexecuted.

(* what the code did before "fix: python task fails when the returned dict lacks a mandatory
   output" (bind_outputs false): declared a, b, returned {"a": 1} => success with b = NOTHING *)
Theorem C13_unrepaired_binding_refuted : ~ outputs_complete_or_error false.
Proof. exact lenient_binding_refuted. Qed.
Print Assumptions C13_unrepaired_binding_refuted.

(* the outcome of a shell body is a function of the command's return code (Native.execute: any
   non-zero code, negative = killed by a signal included) and of the declared output files: for
   every return code other than 0 the stored result is errored, the failure is reported and a
   later submission under the same root executes again; code 0 with every mandatory output file
   present is a success *)
Theorem C13_shell_nonzero_never_cached_as_success :
  forall (w : world) (cfg : config) (c : ident) (s : state) (rr : bool)
         (rc : Z) (files : list (bool * bool)) (v : value),
    body w c (clock s) (execs s c) = shell_outcome rc files v ->
    early_exit cfg rr (st s) c = None ->
    let '(s1, evs, r) := submit w cfg rr (Leaf c) s in
    (rc <> 0%Z ->
       r = Err /\ st s1 (root cfg) c = Complete Err /\ last_run c evs = Some Err /\
       forall w2 cfg2 s2 rr2, root cfg2 = root cfg -> st s2 (root cfg) c = Complete Err ->
         let '(s3, evs3, r3) := run_job w2 cfg2 rr2 (Leaf c) s2 in last_run c evs3 = Some r3) /\
    (rc = 0%Z -> files_present files = true -> r = Ok v /\ st s1 (root cfg) c = Complete (Ok v)).
Proof. exact shell_nonzero_never_cached_as_success. Qed.
Print Assumptions C13_shell_nonzero_never_cached_as_success.
