(* Proofs/StateProj.v — C02: for splitters whose inner products are over plain fields, the jobs of the remaining
   splitter are exactly the distinct remaining assignments in order of first appearance. *)
From Coq Require Import Permutation Sorting.Sorted.
From Pydra Require Import Base.Prelude Model.State Spec.State Proofs.State Proofs.StateSpell Proofs.StateComb.

(* ---------------------------------------------------------------- distinct *)
Lemma key_eqb_refl a : key_eqb a a = true.
Proof. apply key_eqb_eq. reflexivity. Qed.

Lemma has_key_in k l : has_key k l = true <-> In k l.
Proof.
  unfold has_key. rewrite existsb_exists. split.
  - intros (x & Hx & E). apply key_eqb_eq in E. subst. exact Hx.
  - intros H. exists k. split; [exact H| apply key_eqb_refl].
Qed.

Lemma filter_filter {A} (p q : A -> bool) l : filter p (filter q l) = filter (fun x => q x && p x) l.
Proof.
  induction l as [|x l IH]; cbn [filter]; [reflexivity|].
  destruct (q x); cbn [andb filter]; [destruct (p x); rewrite IH; reflexivity| exact IH].
Qed.

Lemma distinct_app l1 : forall l2,
  distinct (l1 ++ l2) = distinct l1 ++ filter (fun y => negb (has_key y l1)) (distinct l2).
Proof.
  induction l1 as [|x l1 IH]; intros l2; cbn [app distinct].
  - cbn [has_key existsb negb]. symmetry. clear. induction (distinct l2) as [|y l IH]; cbn; [reflexivity| now rewrite IH].
  - rewrite IH, filter_app, filter_filter. f_equal. f_equal. apply filter_ext. intros y.
    unfold has_key. cbn [existsb]. rewrite negb_orb.
    (* key_eqb y x  vs  key_eqb x y *)
    assert (S : key_eqb x y = key_eqb y x).
    { apply Bool.eq_true_iff_eq. rewrite !key_eqb_eq. split; congruence. }
    rewrite S. apply andb_comm.
Qed.

Lemma forallb_filter_id {A} (p : A -> bool) l : forallb p l = true -> filter p l = l.
Proof.
  induction l as [|x l IH]; cbn [forallb filter]; [reflexivity|]. intros H. apply andb_true_iff in H as [Hx Hl].
  rewrite Hx, (IH Hl). reflexivity.
Qed.

Lemma distinct_nodup l : NoDup l -> distinct l = l.
Proof.
  induction l as [|x l IH]; intros N; cbn [distinct]; [reflexivity|]. inversion N as [|? ? Hx N']; subst.
  rewrite (IH N'). f_equal. apply forallb_filter_id. apply forallb_forall. intros y Hy.
  destruct (key_eqb x y) eqn:E; [apply key_eqb_eq in E; subst; contradiction| reflexivity].
Qed.

Lemma distinct_subset l x : In x (distinct l) -> In x l.
Proof.
  revert x. induction l as [|y l IH]; intros x H; cbn [distinct] in H; [contradiction|].
  destruct H as [->|H]; [left; reflexivity|]. apply filter_In in H as [H _]. right. apply IH. exact H.
Qed.

Lemma distinct_repeat_nil n : n >= 1 -> distinct (repeat ([] : assignment) n) = [[]].
Proof.
  destruct n as [|n]; [lia|]. intros _. cbn [repeat distinct]. f_equal.
  assert (H : forall l, Forall (fun y : assignment => y = []) l -> filter (fun y => negb (key_eqb [] y)) l = []).
  { induction l as [|y l IH]; intros F; [reflexivity|]. inversion F; subst. cbn. apply IH. assumption. }
  apply H. apply Forall_forall. intros y Hy. apply distinct_subset in Hy. apply repeat_spec in Hy. exact Hy.
Qed.

Lemma distinct_map_app x l : distinct (map (fun y => x ++ y) l) = map (fun y => x ++ y) (distinct l).
Proof.
  induction l as [|y l IH]; cbn [map distinct]; [reflexivity|]. rewrite IH. f_equal. clear IH.
  generalize (distinct l) as d. induction d as [|z d IHd]; cbn [map filter]; [reflexivity|].
  assert (E : key_eqb (x ++ y) (x ++ z) = key_eqb y z).
  { apply Bool.eq_true_iff_eq. rewrite !key_eqb_eq. split; [apply app_inv_head| congruence]. }
  rewrite E. destruct (negb (key_eqb y z)); cbn [map]; rewrite IHd; reflexivity.
Qed.

Lemma cart_cons x a b : cart (x :: a) b = map (fun y => x ++ y) b ++ cart a b.
Proof. reflexivity. Qed.

Lemma filter_cart_not_x (x : assignment) (b b' : list assignment) :
  (forall y, In y b' -> In y b) -> forall a' : list assignment,
  Forall (fun x' => List.length x' = List.length x) a' ->
  filter (fun z => negb (has_key z (map (fun y => x ++ y) b))) (cart a' b') =
  cart (filter (fun x' => negb (key_eqb x x')) a') b'.
Proof.
  intros Sb. induction a' as [|x' a' IHa]; intros Ud; [reflexivity|].
  inversion Ud as [|? ? Lx' Ud']; subst. rewrite cart_cons, filter_app.
  eapply eq_trans; [apply (f_equal (fun t => _ ++ t)); exact (IHa Ud')|]. cbn [filter].
  destruct (key_eqb x x') eqn:E.
  - apply key_eqb_eq in E. subst x'. cbn [negb].
    assert (Hnil : filter (fun z => negb (has_key z (map (fun y => x ++ y) b))) (map (fun y => x ++ y) b') = []).
    { clear - Sb. induction b' as [|y d IHd]; [reflexivity|]. cbn [map filter].
      assert (H : has_key (x ++ y) (map (fun y0 => x ++ y0) b) = true).
      { apply has_key_in. apply in_map. apply Sb. left. reflexivity. }
      rewrite H. cbn [negb]. apply IHd. intros z Hz. apply Sb. right. exact Hz. }
    eapply eq_trans; [apply (f_equal (fun t => t ++ _)); exact Hnil| reflexivity].
  - cbn [negb]. rewrite cart_cons. apply (f_equal (fun t => t ++ _)).
    apply forallb_filter_id. apply forallb_forall. intros z Hz. apply in_map_iff in Hz as (y & <- & Hy).
    destruct (has_key (x' ++ y) (map (fun y0 => x ++ y0) b)) eqn:H; [|reflexivity].
    apply has_key_in in H. apply in_map_iff in H as (y0 & E0 & _).
    apply app_eq_len in E0 as [E1 _]; [|symmetry; exact Lx']. subst. rewrite key_eqb_refl in E. discriminate.
Qed.

Lemma distinct_cart a : forall b, uniform a -> distinct (cart a b) = cart (distinct a) (distinct b).
Proof.
  induction a as [|x a IH]; intros b [n U]; [reflexivity|].
  inversion U as [|? ? Lx U']; subst.
  rewrite cart_cons, distinct_app, distinct_map_app, (IH b) by (exists (List.length x); exact U').
  cbn [distinct]. rewrite cart_cons. f_equal.
  apply filter_cart_not_x.
  - intros y. apply distinct_subset.
  - apply Forall_forall. intros x' Hx'. rewrite Forall_forall in U'. apply U'. apply distinct_subset. exact Hx'.
Qed.

(* ---------------------------------------------------------------- forgetting fields of whole expansions *)
Lemma forget_app gone x y : forget gone (x ++ y) = forget gone x ++ forget gone y.
Proof. unfold forget. apply filter_app. Qed.

Lemma map_lprod {A} (f : list A -> list A) (Hf : forall x y, f (x ++ y) = f x ++ f y) (a b : list (list A)) :
  map f (flat_map (fun x => map (fun y => x ++ y) b) a) =
  flat_map (fun x => map (fun y => x ++ y) (map f b)) (map f a).
Proof.
  induction a as [|x a IH]; cbn [flat_map map]; [reflexivity|].
  rewrite map_app, IH. f_equal. rewrite !map_map. apply map_ext. intros y. apply Hf.
Qed.

Lemma map_forget_cart gone a b : map (forget gone) (cart a b) = cart (map (forget gone) a) (map (forget gone) b).
Proof. exact (map_lprod (forget gone) (forget_app gone) a b). Qed.

Lemma forget_all_gone e gone s js sh : filter (keepf gone) (leaves s) = [] -> expand e s = Some (js, sh) ->
  map (forget gone) js = repeat [] (List.length js).
Proof.
  intros F E. pose proof (expand_good e s js sh E) as G. clear E.
  induction js as [|a js IH]; [reflexivity|]. inversion G as [|? ? [Ha _] G']; subst. cbn [map List.length repeat].
  f_equal; [|apply IH; exact G'].
  assert (H : map fst (forget gone a) = []) by (rewrite forget_fst, Ha; exact F).
  destruct (forget gone a); [reflexivity| discriminate].
Qed.

Lemma forget_none_gone e gone s js sh : (forall f, In f (leaves s) -> memb f gone = false) ->
  expand e s = Some (js, sh) -> map (forget gone) js = js.
Proof.
  intros F E. pose proof (expand_good e s js sh E) as G. rewrite <- (map_id js) at 2. apply map_ext_in. intros a Ha.
  rewrite Forall_forall in G. destruct (G a Ha) as [Fa _]. unfold forget. apply forallb_filter_id. apply forallb_forall.
  intros [k v] Hkv. cbn [fst]. rewrite F; [reflexivity|]. rewrite <- Fa. apply (in_map fst) in Hkv. exact Hkv.
Qed.

Lemma uniform_forget e gone s js sh : expand e s = Some (js, sh) -> uniform (map (forget gone) js).
Proof.
  intros E. pose proof (expand_good e s js sh E) as G. exists (List.length (filter (keepf gone) (leaves s))).
  apply Forall_forall. intros k Hk. apply in_map_iff in Hk as (a & <- & Ha). rewrite Forall_forall in G.
  destruct (G a Ha) as [Fa _]. rewrite <- (map_length fst), forget_fst, Fa. reflexivity.
Qed.

Lemma cart_unit_l (b : list assignment) : cart [[]] b = b.
Proof. unfold cart. cbn [flat_map]. rewrite app_nil_r. cbn [app]. apply map_id. Qed.
Lemma cart_unit_r (a : list assignment) : cart a [[]] = a.
Proof. unfold cart. induction a as [|x a IH]; cbn [flat_map map app]; [reflexivity|]. rewrite app_nil_r. f_equal. exact IH. Qed.

(* ---------------------------------------------------------------- the projection lemma *)
Section Proj.
  Variable e : env.
  Variable gone : list nat.

  Definition projP (s : spl) : Prop :=
    flat_innerb s = true -> closedb gone s = true -> (forall f, In f (leaves s) -> nprod (e f) >= 1) ->
    forall js sh, expand e s = Some (js, sh) ->
    forall s', prune gone s = Some s' -> exists sh', expand e s' = Some (distinct (map (forget gone) js), sh').

  Lemma proj_outer_list : forall l, Forall projP l -> l <> [] ->
    forallb flat_innerb l = true -> forallb (closedb gone) l = true ->
    (forall f, In f (flat_map leaves l) -> nprod (e f) >= 1) ->
    forall js sh, outer_all (map (expand e) l) = Some (js, sh) ->
    match pruned_list gone l with
    | [] => True
    | l' => exists sh', outer_all (map (expand e) l') = Some (distinct (map (forget gone) js), sh')
    end.
  Proof.
    induction l as [|x [|y r] IH]; intros HP Hne Hfl Hcl Hpos js sh E; [congruence| |].
    - cbn [map] in E. cbn [outer_all] in E. rewrite pruned_list_cons. cbn [pruned_list flat_map].
      inversion HP as [|? ? Hx _]; subst. cbn [forallb] in Hfl, Hcl. rewrite andb_true_r in Hfl, Hcl.
      destruct (prune gone x) as [x'|] eqn:Px; [|exact I].
      cbn [map outer_all]. apply (Hx Hfl Hcl) with (sh := sh); auto.
      intros f Hf. apply Hpos. cbn [flat_map]. rewrite app_nil_r. exact Hf.
    - cbn [map] in E. rewrite outer_all_cons2 in E.
      change (expand e y :: map (expand e) r) with (map (expand e) (y :: r)) in E.
      destruct (expand e x) as [[jx sx]|] eqn:Ex; [|discriminate].
      destruct (outer_all (map (expand e) (y :: r))) as [[jr sr]|] eqn:Er; cbn [ostep] in E; [|discriminate].
      inversion E; subst js sh. clear E.
      inversion HP as [|? ? Hx HP']; subst.
      cbn [forallb] in Hfl, Hcl. apply andb_true_iff in Hfl as [Fx Fr], Hcl as [Cx Cr].
      assert (Posx : forall f, In f (leaves x) -> nprod (e f) >= 1).
      { intros f Hf. apply Hpos. cbn [flat_map]. apply in_or_app. left. exact Hf. }
      assert (Posr : forall f, In f (flat_map leaves (y :: r)) -> nprod (e f) >= 1).
      { intros f Hf. apply Hpos. change (flat_map leaves (x :: y :: r)) with (leaves x ++ flat_map leaves (y :: r)).
        apply in_or_app. right. exact Hf. }
      specialize (IH HP' ltac:(discriminate) Fr Cr Posr jr sr eq_refl).
      rewrite map_forget_cart. rewrite distinct_cart by (eapply uniform_forget; exact Ex).
      rewrite pruned_list_cons.
      (* facts about a fully combined part *)
      assert (Er' : expand e (Outer (y :: r)) = Some (jr, sr)) by exact Er.
      assert (NilR : pruned_list gone (y :: r) = [] -> distinct (map (forget gone) jr) = [[]]).
      { intros P. assert (PN : prune gone (Outer (y :: r)) = None) by (rewrite prune_outer, P; reflexivity).
        destruct (prune_props gone (Outer (y :: r))) as [_ HN].
        rewrite (forget_all_gone e gone _ jr sr (HN PN) Er'). apply distinct_repeat_nil.
        assert (jr <> []) by (eapply (expand_nonempty e (Outer (y :: r))); [exact Posr| exact Er']).
        destruct jr; [congruence| cbn; lia]. }
      assert (NilX : prune gone x = None -> distinct (map (forget gone) jx) = [[]]).
      { intros PN. destruct (prune_props gone x) as [_ HN].
        rewrite (forget_all_gone e gone x jx sx (HN PN) Ex). apply distinct_repeat_nil.
        assert (jx <> []) by (eapply (expand_nonempty e x); [exact Posx| exact Ex]).
        destruct jx; [congruence| cbn; lia]. }
      destruct (prune gone x) as [x'|] eqn:Px.
      + destruct (Hx Fx Cx Posx jx sx Ex x' Px) as [sx' Ex'].
        destruct (pruned_list gone (y :: r)) as [|y' r'] eqn:Pr.
        * rewrite (NilR eq_refl), cart_unit_r. cbn [map outer_all]. eauto.
        * destruct IH as [sr' Er2]. change (map (expand e) (x' :: y' :: r')) with (expand e x' :: expand e y' :: map (expand e) r').
          rewrite outer_all_cons2. change (expand e y' :: map (expand e) r') with (map (expand e) (y' :: r')).
          rewrite Ex', Er2. cbn [ostep]. eauto.
      + rewrite (NilX eq_refl), cart_unit_l.
        destruct (pruned_list gone (y :: r)) as [|y' r'] eqn:Pr; [exact I| exact IH].
  Qed.

  Lemma pruned_list_flds_gone l : forallb is_fld l = true ->
    forallb (fun f => memb f gone) (flat_map leaves l) = true -> pruned_list gone l = [].
  Proof.
    induction l as [|x l IH]; intros F G; [reflexivity|]. cbn [forallb] in F. apply andb_true_iff in F as [Fx Fl].
    destruct x as [f| |]; try discriminate. cbn [flat_map leaves app forallb] in G. apply andb_true_iff in G as [Gf Gl].
    rewrite pruned_list_cons. cbn [prune]. rewrite Gf. apply IH; assumption.
  Qed.

  Lemma pruned_list_flds_kept l : forallb is_fld l = true ->
    forallb (fun f => negb (memb f gone)) (flat_map leaves l) = true -> pruned_list gone l = l.
  Proof.
    induction l as [|x l IH]; intros F G; [reflexivity|]. cbn [forallb] in F. apply andb_true_iff in F as [Fx Fl].
    destruct x as [f| |]; try discriminate. cbn [flat_map leaves app forallb] in G. apply andb_true_iff in G as [Gf Gl].
    rewrite pruned_list_cons. cbn [prune]. apply negb_true_iff in Gf. rewrite Gf. f_equal. apply IH; assumption.
  Qed.

  Lemma proj_expand s : projP s.
  Proof.
    induction s as [f|l IH|l IH] using spl_ind'; intros Fl Cl Pos js sh E s' P.
    - cbn [prune] in P. destruct (memb f gone) eqn:M; [discriminate|]. inversion P; subst s'.
      exists sh. rewrite (forget_none_gone e gone (Fld f) js sh); [|intros g [<-|[]]; exact M| exact E].
      rewrite distinct_nodup; [exact E| apply (expand_nodup e (Fld f) js sh E)].
    - rewrite prune_outer in P. cbn [flat_innerb closedb leaves] in *.
      destruct l as [|x r]; [discriminate|].
      pose proof (proj_outer_list (x :: r) IH ltac:(discriminate) Fl Cl Pos js sh E) as H.
      destruct (pruned_list gone (x :: r)) as [|y' r'] eqn:Pl; [discriminate|]. inversion P; subst s'. exact H.
    - rewrite prune_inner in P. cbn [flat_innerb closedb leaves] in *.
      apply orb_true_iff in Cl as [Cl|Cl].
      + rewrite (pruned_list_flds_gone l Fl Cl) in P. discriminate.
      + rewrite (pruned_list_flds_kept l Fl Cl) in P. destruct l as [|x r]; [discriminate|]. inversion P; subst s'.
        exists sh. rewrite (forget_none_gone e gone (Inner (x :: r)) js sh); [| |exact E].
        * rewrite distinct_nodup; [exact E| apply (expand_nodup e (Inner (x :: r)) js sh E)].
        * intros g Hg. rewrite forallb_forall in Cl. apply negb_true_iff. apply Cl. exact Hg.
  Qed.
End Proj.

(* the two formulations of the reference partition coincide on the class *)
Theorem pruned_is_distinct e s comb :
  wfb s = true -> flat_innerb s = true -> closedb (linked s comb) s = true ->
  (forall f, In f (leaves s) -> nprod (e f) >= 1) ->
  spec_groups_pruned e s comb = spec_groups e s comb.
Proof.
  intros W Fl Cl Pos. unfold spec_groups_pruned, spec_groups. cbv zeta. unfold jobs at 1 3.
  destruct (expand e s) as [[js sh]|] eqn:E; [|reflexivity].
  set (gone := linked s comb) in *.
  destruct (prune gone s) as [s'|] eqn:P.
  - destruct (proj_expand e gone s Fl Cl Pos js sh E s' P) as [sh' E']. unfold jobs. rewrite E'.
    assert (A : forallb (fun k => has_key k (distinct (map (forget gone) js))) (map (forget gone) js) = true).
    { apply forallb_forall. intros k Hk. apply has_key_in.
      clear - Hk. induction (map (forget gone) js) as [|x l IH]; [contradiction|]. cbn [distinct].
      destruct (key_eqb x k) eqn:Ex; [apply key_eqb_eq in Ex; subst; left; reflexivity|].
      destruct Hk as [->|Hk]; [rewrite key_eqb_refl in Ex; discriminate|]. right. apply filter_In. split; [apply IH; exact Hk|].
      rewrite Ex. reflexivity. }
    rewrite A. reflexivity.
  - destruct (prune_props gone s) as [_ HN]. rewrite (forget_all_gone e gone s js sh (HN P) E).
    assert (Hn : List.length js >= 1).
    { assert (js <> []) by (eapply (expand_nonempty e s); [exact Pos| exact E]). destruct js; [congruence| cbn; lia]. }
    pose proof (distinct_repeat_nil _ Hn) as D. apply f_equal.
    eapply eq_trans; [|apply f_equal; symmetry; exact D]. cbn [map]. f_equal.
    generalize 0. clear. induction (List.length js) as [|n IH]; intros i; cbn [repeat positions seq]; [reflexivity|].
    cbn. f_equal. apply IH.
Qed.

(* ---------------------------------------------------------------- linked fields form whole axes *)
Lemma axes_inner_flds l : forallb is_fld l = true -> l <> [] -> axes (Inner l) = [flat_map leaves l].
Proof.
  intros F Hne. destruct l as [|x r]; [congruence|]. cbn [axes]. cbn [forallb] in F. apply andb_true_iff in F as [Fx Fr].
  destruct x as [f| |]; try discriminate. cbn [axes flat_map leaves app].
  assert (G : forall acc, fold_left zip_axes (map axes r) [acc] = [acc ++ flat_map leaves r]).
  { clear Hne. induction r as [|y r IH]; intros acc; cbn [map fold_left flat_map]; [rewrite app_nil_r; reflexivity|].
    cbn [forallb] in Fr. apply andb_true_iff in Fr as [Fy Fr']. destruct y as [g| |]; try discriminate.
    cbn [axes zip_axes leaves]. rewrite (IH Fr'). rewrite <- app_assoc. reflexivity. }
  rewrite (G [f]). reflexivity.
Qed.

Lemma concat_axes_flat s : wfb s = true -> flat_innerb s = true -> List.concat (axes s) = leaves s.
Proof.
  induction s as [f|l IH|l IH] using spl_ind'; intros W F.
  - reflexivity.
  - cbn [axes leaves]. cbn [wfb flat_innerb] in W, F. assert (Wl : forallb wfb l = true) by (destruct l; [discriminate| exact W]).
    clear W. induction l as [|x l IHl]; [reflexivity|]. cbn [flat_map forallb] in *.
    apply andb_true_iff in Wl as [Wx Wl], F as [Fx Fl]. inversion IH as [|? ? Hx IH']; subst.
    rewrite concat_app, (Hx Wx Fx), (IHl IH' Fl Wl). reflexivity.
  - cbn [wfb flat_innerb] in W, F. rewrite (axes_inner_flds l F) by (destruct l; [discriminate|discriminate]).
    cbn [List.concat leaves]. apply app_nil_r.
Qed.

Lemma nodup_concat_disjoint {A} (L : list (list A)) : NoDup (List.concat L) ->
  forall a b, In a L -> In b L -> a <> b -> forall f, In f a -> In f b -> False.
Proof.
  induction L as [|x L IH]; intros N a b Ha Hb Hab f Fa Fb; [contradiction|]. cbn [List.concat] in N.
  assert (Nx : NoDup x /\ NoDup (List.concat L) /\ forall f, In f x -> ~ In f (List.concat L)).
  { clear - N. induction x as [|h x IHx]; cbn [app] in N; [split; [constructor| split; [exact N| intros ? []]]|].
    inversion N as [|? ? Hh N']; subst. destruct (IHx N') as (N1 & N2 & D). split; [|split; [exact N2|]].
    - constructor; [intros H; apply Hh; apply in_or_app; left; exact H| exact N1].
    - intros f [<-|Hf]; [intros H; apply Hh; apply in_or_app; right; exact H| apply D; exact Hf]. }
  destruct Nx as (_ & NL & D).
  destruct Ha as [<-|Ha], Hb as [<-|Hb].
  - congruence.
  - apply (D f Fa). apply in_concat. exists b. auto.
  - apply (D f Fb). apply in_concat. exists a. auto.
  - apply (IH NL a b Ha Hb Hab f Fa Fb).
Qed.

Definition whole_axes (gone : list nat) (s : spl) : Prop :=
  forall ax, In ax (axes s) -> (forall f, In f ax -> memb f gone = true) \/ (forall f, In f ax -> memb f gone = false).

Lemma whole_axes_closed gone s : wfb s = true -> flat_innerb s = true -> whole_axes gone s -> closedb gone s = true.
Proof.
  induction s as [f|l IH|l IH] using spl_ind'; intros W F H.
  - reflexivity.
  - cbn [closedb]. cbn [wfb flat_innerb] in W, F. assert (Wl : forallb wfb l = true) by (destruct l; [discriminate| exact W]).
    apply forallb_forall. intros x Hx. rewrite Forall_forall in IH. rewrite forallb_forall in Wl, F.
    apply (IH x Hx (Wl x Hx) (F x Hx)). intros ax Hax. apply H. cbn [axes]. apply in_flat_map. eauto.
  - cbn [closedb]. cbn [wfb flat_innerb] in W, F.
    assert (Hne : l <> []) by (destruct l; [discriminate|discriminate]).
    specialize (H (flat_map leaves l)). rewrite (axes_inner_flds l F Hne) in H. destruct (H (or_introl eq_refl)) as [A|A].
    + apply orb_true_iff. left. apply forallb_forall. exact A.
    + apply orb_true_iff. right. apply forallb_forall. intros f Hf. rewrite (A f Hf). reflexivity.
Qed.

Lemma linked_whole_axes s comb : wfb s = true -> flat_innerb s = true -> NoDup (leaves s) ->
  whole_axes (linked s comb) s.
Proof.
  intros W F N ax Hax.
  destruct (existsb (fun f => memb f comb) ax) eqn:E.
  - left. intros g Hg. apply memb_In. apply existsb_exists in E as (f & Hf & Hc). apply memb_In in Hc.
    exact (linked_axis s comb ax f g Hax Hf Hc Hg).
  - right. intros g Hg. destruct (memb g (linked s comb)) eqn:M; [|reflexivity]. exfalso.
    apply memb_In in M. unfold linked in M. apply in_flat_map in M as (ax' & Hax' & Hg').
    destruct (existsb (fun f => memb f comb) ax') eqn:E'; [|contradiction].
    assert (Hne : ax' <> ax) by (intros ->; congruence).
    rewrite <- (concat_axes_flat s W F) in N.
    exact (nodup_concat_disjoint (axes s) N ax' ax Hax' Hax Hne g Hg' Hg).
Qed.

Lemma linked_closed s comb : wfb s = true -> flat_innerb s = true -> NoDup (leaves s) ->
  closedb (linked s comb) s = true.
Proof. intros W F N. apply whole_axes_closed; [exact W| exact F| apply linked_whole_axes; assumption]. Qed.
