(* Model/CacheProto.v — the lock / check / run / save protocol of one job identity (one checksum in one
   cache root): pydra/engine/job.py Job.run / Job.run_async / _populate_filesystem / PydraFileLock,
   pydra/engine/result.py load_result / save / record_error, the caller's view in
   Submitter.__call__ (final job.result()), Audit.start_audit's chdir, the four TaskHooks calls.

   A small-step transition system.  Every process has a program counter that moves over exactly the
   checkpoint labels of pydra/utils/verif_hooks.py (the hook commit); the shared state is the cache
   directory of the checksum (job / result / error file, each absent | being written | complete), the two
   SoftFileLock markers with their owner, and the ghost counter of body executions.  Environment steps:
   the body raises, an exception is raised at a checkpoint, a hook raises, the open file grows to n
   bytes, the process dies.  Defects of the code are kept (no cleanup outside the try, ...).  No proofs here. *)
From Pydra Require Import Base.Prelude.
Local Open Scope nat_scope.

Definition pid := nat.
Definition val := nat.

(* what _result.pklz holds: Result.errored and Result.outputs *)
Record res := mkRes { errored : bool; outputs : option val }.

Definition val_eqb := Nat.eqb.
Definition res_eqb (a b : res) : bool :=
  Bool.eqb (errored a) (errored b) && option_eqb Nat.eqb (outputs a) (outputs b).

Inductive fstate (A : Type) : Type :=
| Absent
| Writing (a : A) (n : nat)        (* opened "wb"; the first n bytes of the pickle of a are on disk *)
| Complete (a : A).                (* closed after the whole pickle was written *)
Arguments Absent {A}.
Arguments Writing {A} _ _.
Arguments Complete {A} _.

(* Home = the directory the process was in before the call, InDir = the job directory, Elsewhere = any other *)
Inductive loc := Home | InDir | Elsewhere.
Definition loc_eqb (a b : loc) : bool :=
  match a, b with Home, Home | InDir, InDir | Elsewhere, Elsewhere => true | _, _ => false end.

(* position inside result.save: lock taken, before/opened/dumped/after of the result dump and of the job dump, lock released *)
Inductive svpc := SAcq | SRB | SRO | SRD | SRA | SJB | SJO | SJD | SJA | SRel.

(* program counter = "the checkpoint with this label has just been passed" *)
Inductive pcT :=
| Idle        (* no submission in progress *)
| Waiting     (* job.pre_run_done *)
| Locked      (* job.lock_acquired *)
| Hit0        (* job.cache_checked, a usable result was loaded *)
| Hit1        (* job.cache_hit *)
| Miss        (* job.cache_checked, nothing usable *)
| Pop1        (* job.info_written *)
| Pop2        (* job.dir_cleared *)
| Pop3        (* job.dir_created *)
| Sv (fin : bool) (i : svpc)   (* inside save(): fin=false from _populate_filesystem, fin=true from the finally block *)
| Pop4        (* job.job_saved *)
| Pop5        (* job.populated *)
| CwdCh       (* job.cwd_changed (Job.run only) *)
| PreHk       (* job.pre_hook_done *)
| AudSt       (* job.audit_started *)
| BodyIn      (* job.body_enter *)
| BodyOut     (* job.body_left *)
| OutsOk      (* job.outputs_collected *)
| Err0        (* exception caught by "except Exception", result.errored set *)
| Err1 | Err2 | Err3 | Err4   (* error.before / opened / dumped / after *)
| ErrRec      (* job.error_recorded *)
| Fin0        (* finally block entered because the handler itself raised *)
| Fin1        (* job.post_hook_done *)
| Fin2        (* job.audit_finalised *)
| Fin3        (* job.result_saved *)
| Fin4        (* job.info_removed *)
| Fin5        (* job.cwd_restored *)
| ExcHold     (* an exception is propagating out of the with block, lock still held *)
| RelHit      (* lock released after a hit, Job.run has returned *)
| RelOk       (* lock released after an execution *)
| RelExc      (* lock released, exception propagating to the caller *)
| Post1       (* job.lock_released *)
| Post2       (* job.post_run_done *)
| Done.       (* Submitter.__call__ returned / raised *)

Inductive outcome := Returned (r : res) | NoResult | Raised.

Record proc := mkProc {
  pc : pcT;
  rerun : bool;
  is_async : bool;
  cwd : loc;                 (* os.getcwd() of the process: Home = what it was before the call *)
  infos : nat;               (* number of <uid>_info.json files of this process's jobs in the cache root *)
  view : option res;         (* what Job.result() returned at the check *)
  self_err : bool;           (* Job._errored *)
  r_err : bool;              (* result.errored of the Result being built *)
  r_out : option val;        (* result.outputs *)
  raised : bool;             (* the finally block runs because of an exception *)
  ret : option outcome;      (* what the caller of the last submission got *)
  pre_calls : nat;           (* calls of hooks.pre_run_task *)
  post_calls : nat;          (* calls of hooks.post_run_task *)
  execs : nat;               (* times this process entered the try block around the task body *)
  dirty : bool               (* ghost: an exception was raised outside the try/except region *)
}.

Record glob := mkGlob {
  lock : option pid;         (* <checksum>.lock marker and the process named in it *)
  slock : option pid;        (* <checksum>_save.lock *)
  dir : bool;                (* <cache_root>/<checksum>/ exists *)
  jobf : fstate unit;        (* _job.pklz *)
  resf : fstate res;         (* _result.pklz *)
  errf : fstate unit;        (* _error.pklz *)
  runs : nat;                (* ghost: executions of the task body, all processes *)
  dead : pid -> bool
}.

Inductive action :=
| APreRun (rr asy : bool)    (* new Job, hooks.pre_run; job.pre_run_done *)
| AAcquire                   (* job.lock_acquired *)
| AChecked                   (* job.cache_checked *)
| AHit                       (* job.cache_hit *)
| AInfoWritten | ADirCleared | ADirCreated
| ASaveAcq | AResBefore | AResOpened | AResDumped | AResAfter
| AJobBefore | AJobOpened | AJobDumped | AJobAfter | ASaveRel
| AJobSaved | APopulated | ACwdChanged | APreHook | AAuditStarted
| ABodyEnter | ABodyLeft | AOutputs
| AErrBefore | AErrOpened | AErrDumped | AErrAfter | AErrRecorded
| APostHook | AAuditFinal | AResultSaved | AInfoRemoved | ACwdRestored
| ARelease                   (* the with block is left: marker unlinked (no label of its own) *)
| ALockReleased | APostRun
| AReturned                  (* the caller's final job.result() and return *)
| ARaisedOut                 (* the exception reaches the caller *)
(* environment *)
| ABodyRaise                 (* the task body runs and raises *)
| AExc                       (* an exception is raised at the checkpoint just passed *)
| APreHookRaise              (* hooks.pre_run_task raises *)
| APostHookRaise             (* hooks.post_run_task raises *)
| AChdir                     (* the task body / the post_run_task hook calls os.chdir to some other directory *)
| AProgress (n : nat)        (* the file being written now holds n bytes *)
| ACrash.                    (* the process dies (os._exit / SIGKILL) *)

Inductive region := ROut | RPre | RTry | RHandler | RFinally.

(* in which part of Job.run the checkpoint leading into pc c sits *)
Definition region_at (c : pcT) : region :=
  match c with
  | Idle | Waiting | RelHit | RelOk | RelExc | Post1 | Post2 | Done => ROut
  | Locked | Hit0 | Hit1 | Miss | Pop1 | Pop2 | Pop3 | Sv false _ | Pop4 | Pop5 | CwdCh | PreHk | AudSt
  | ExcHold => RPre
  | BodyIn | BodyOut | OutsOk => RTry
  | Err0 | Err1 | Err2 | Err3 | Err4 | ErrRec => RHandler
  | Fin0 | Fin1 | Fin2 | Sv true _ | Fin3 | Fin4 | Fin5 => RFinally
  end.

(* the process is between acquiring and releasing <checksum>.lock *)
Definition holds (c : pcT) : bool :=
  match c with
  | Idle | Waiting | RelHit | RelOk | RelExc | Post1 | Post2 | Done => false
  | _ => true
  end.

(* ... and <checksum>_save.lock *)
Definition holds_s (c : pcT) : bool :=
  match c with
  | Sv _ SRel => false
  | Sv _ _ => true
  | _ => false
  end.

(* ---- record updates *)
Definition set_pc (x : pcT) (q : proc) : proc :=
  mkProc x (rerun q) (is_async q) (cwd q) (infos q) (view q) (self_err q) (r_err q) (r_out q) (raised q) (ret q)
         (pre_calls q) (post_calls q) (execs q) (dirty q).
Definition set_cwd (x : loc) (q : proc) : proc :=
  mkProc (pc q) (rerun q) (is_async q) x (infos q) (view q) (self_err q) (r_err q) (r_out q) (raised q) (ret q)
         (pre_calls q) (post_calls q) (execs q) (dirty q).
Definition set_infos (x : nat) (q : proc) : proc :=
  mkProc (pc q) (rerun q) (is_async q) (cwd q) x (view q) (self_err q) (r_err q) (r_out q) (raised q) (ret q)
         (pre_calls q) (post_calls q) (execs q) (dirty q).
Definition set_view (x : option res) (e : bool) (q : proc) : proc :=
  mkProc (pc q) (rerun q) (is_async q) (cwd q) (infos q) x e (r_err q) (r_out q) (raised q) (ret q)
         (pre_calls q) (post_calls q) (execs q) (dirty q).
Definition set_rerr (x : bool) (q : proc) : proc :=
  mkProc (pc q) (rerun q) (is_async q) (cwd q) (infos q) (view q) (self_err q) x (r_out q) (raised q) (ret q)
         (pre_calls q) (post_calls q) (execs q) (dirty q).
Definition set_rout (x : option val) (q : proc) : proc :=
  mkProc (pc q) (rerun q) (is_async q) (cwd q) (infos q) (view q) (self_err q) (r_err q) x (raised q) (ret q)
         (pre_calls q) (post_calls q) (execs q) (dirty q).
Definition set_raised (x : bool) (q : proc) : proc :=
  mkProc (pc q) (rerun q) (is_async q) (cwd q) (infos q) (view q) (self_err q) (r_err q) (r_out q) x (ret q)
         (pre_calls q) (post_calls q) (execs q) (dirty q).
Definition set_ret (x : option outcome) (q : proc) : proc :=
  mkProc (pc q) (rerun q) (is_async q) (cwd q) (infos q) (view q) (self_err q) (r_err q) (r_out q) (raised q) x
         (pre_calls q) (post_calls q) (execs q) (dirty q).
Definition inc_pre (q : proc) : proc :=
  mkProc (pc q) (rerun q) (is_async q) (cwd q) (infos q) (view q) (self_err q) (r_err q) (r_out q) (raised q) (ret q)
         (S (pre_calls q)) (post_calls q) (execs q) (dirty q).
Definition inc_post (q : proc) : proc :=
  mkProc (pc q) (rerun q) (is_async q) (cwd q) (infos q) (view q) (self_err q) (r_err q) (r_out q) (raised q) (ret q)
         (pre_calls q) (S (post_calls q)) (execs q) (dirty q).
Definition inc_execs (q : proc) : proc :=
  mkProc (pc q) (rerun q) (is_async q) (cwd q) (infos q) (view q) (self_err q) (r_err q) (r_out q) (raised q) (ret q)
         (pre_calls q) (post_calls q) (S (execs q)) (dirty q).
Definition set_dirty (q : proc) : proc :=
  mkProc (pc q) (rerun q) (is_async q) (cwd q) (infos q) (view q) (self_err q) (r_err q) (r_out q) (raised q) (ret q)
         (pre_calls q) (post_calls q) (execs q) true.

Definition set_lock (x : option pid) (g : glob) : glob :=
  mkGlob x (slock g) (dir g) (jobf g) (resf g) (errf g) (runs g) (dead g).
Definition set_slock (x : option pid) (g : glob) : glob :=
  mkGlob (lock g) x (dir g) (jobf g) (resf g) (errf g) (runs g) (dead g).
Definition set_dir (x : bool) (g : glob) : glob :=
  mkGlob (lock g) (slock g) x (jobf g) (resf g) (errf g) (runs g) (dead g).
Definition set_jobf (x : fstate unit) (g : glob) : glob :=
  mkGlob (lock g) (slock g) (dir g) x (resf g) (errf g) (runs g) (dead g).
Definition set_resf (x : fstate res) (g : glob) : glob :=
  mkGlob (lock g) (slock g) (dir g) (jobf g) x (errf g) (runs g) (dead g).
Definition set_errf (x : fstate unit) (g : glob) : glob :=
  mkGlob (lock g) (slock g) (dir g) (jobf g) (resf g) x (runs g) (dead g).
Definition inc_runs (g : glob) : glob :=
  mkGlob (lock g) (slock g) (dir g) (jobf g) (resf g) (errf g) (S (runs g)) (dead g).
Definition rmtree (g : glob) : glob :=
  mkGlob (lock g) (slock g) false Absent Absent Absent (runs g) (dead g).
Definition kill (p : pid) (g : glob) : glob :=
  mkGlob (lock g) (slock g) (dir g) (jobf g) (resf g) (errf g) (runs g)
         (fun q => if Nat.eqb q p then true else dead g q).

Section Proto.
  (* cloudpickle of a Result and its inverse; None = pickle.UnpicklingError / EOFError (the two
     exceptions load_result retries on).  The protocol only looks at them through load_result. *)
  Variable pickle : res -> list nat.
  Variable unpickle : list nat -> option res.
  Variable bv : val.           (* the value the task body computes for these inputs *)

  (* bytes of <dir>/_result.pklz *)
  Definition content (f : fstate res) : option (list nat) :=
    match f with
    | Absent => None
    | Writing r n => Some (firstn n (pickle r))
    | Complete r => Some (pickle r)
    end.

  (* result.py:170-177  for _ in range(retries): try: return cp.load(fp) except (UnpicklingError, EOFError): sleep *)
  Fixpoint retry_load (retries : nat) (b : list nat) : option res :=
    match retries with
    | 0 => None
    | S k => match unpickle b with Some r => Some r | None => retry_load k b end
    end.

  (* result.py:164-179 with readonly_caches = [cache_root]: directory exists, file exists, st_size > 0 *)
  Definition load_result (g : glob) : option res :=
    if dir g then
      match content (resf g) with
      | None => None
      | Some [] => None
      | Some b => retry_load 10 b
      end
    else None.

  (* Job.result(): the placeholder when Job._errored is already set, else load_result *)
  Definition job_result (q : proc) (g : glob) : option res :=
    if self_err q then Some (mkRes true None) else load_result g.

  Definition usable (o : option res) : bool :=
    match o with Some r => negb (errored r) | None => false end.

  (* a SoftFileLock marker can be taken when it is absent or names a dead process (filelock 3.32:
     owner_is_stale => break_lock_file) *)
  Definition free (m : option pid) (g : glob) : bool :=
    match m with None => true | Some q => dead g q end.

  (* release unlinks the marker only while it is still the one this process created *)
  Definition unlock (p : pid) (m : option pid) : option pid :=
    match m with Some q => if Nat.eqb q p then None else Some q | None => None end.

  Definition the_result (q : proc) : res := mkRes (r_err q) (r_out q).

  (* a file opened for writing only grows *)
  Definition grows {A} (f : fstate A) (n : nat) : bool :=
    match f with Writing _ m => Nat.leb m n | _ => false end.

  (* first statements of the handler: result.errored = True; run_async also sets Job._errored *)
  Definition mark_failed (q : proc) : proc :=
    set_rerr true (set_view (view q) (if is_async q then true else self_err q) q).

  (* an exception raised at the checkpoint of pc c: where control goes *)
  Definition exc_target (p : pid) (q : proc) (g : glob) : proc * glob :=
    let g1 := if holds_s (pc q) then set_slock (unlock p (slock g)) g else g in
    (* leaving "with open(...)": the buffered file is flushed and closed *)
    let g2 := match pc q with
              | Sv true SRD => set_resf (Complete (the_result q)) g1
              | Sv _ SJD => set_jobf (Complete tt) g1
              | Err3 => set_errf (Complete tt) g1
              | _ => g1
              end in
    match region_at (pc q) with
    | ROut => (set_pc RelExc q, g2)
    | RPre => (set_dirty (set_pc ExcHold q), g2)
    | RTry => (mark_failed (set_pc Err0 q), g2)
    | RHandler => (set_raised true (set_pc Fin0 q), g2)
    | RFinally => (set_dirty (set_pc ExcHold q), g2)
    end.

  Definition go (c : pcT) (q : proc) (g : glob) : option (proc * glob) := Some (set_pc c q, g).

  (* one step of process p (local state q) on the shared state g *)
  Definition lstep (p : pid) (q : proc) (g : glob) (a : action) : option (proc * glob) :=
    match pc q, a with
    (* ---- Submitter.__call__: a new Job; Job.run: hooks.pre_run *)
    | Idle, APreRun rr asy | Done, APreRun rr asy =>
        Some (mkProc Waiting rr asy (cwd q) (infos q) None false false None false None
                     (pre_calls q) (post_calls q) (execs q) (dirty q), g)
    (* ---- with SoftFileLock(self.lockfile) / async with PydraFileLock *)
    | Waiting, AAcquire => if free (lock g) g then Some (set_pc Locked q, set_lock (Some p) g) else None
    (* ---- if not rerun: result = self.result() *)
    | Locked, AChecked =>
        if rerun q then None else
        let o := job_result q g in
        (* Job.result() sets Job._errored when the stored result is a failure; when the job is (re)executed
           the flag is cleared again (job.py: "self._errored = False" after the early exit) *)
        let e := match o with Some r => errored r | None => self_err q end in
        if usable o then Some (set_pc Hit0 (set_view o e q), g) else Some (set_pc Miss (set_view o false q), g)
    | Hit0, AHit => go Hit1 q g
    | Hit1, ARelease => Some (set_pc RelHit q, set_lock (unlock p (lock g)) g)
    (* ---- _populate_filesystem *)
    | Locked, AInfoWritten => if rerun q then Some (set_infos (S (infos q)) (set_pc Pop1 q), g) else None
    | Miss, AInfoWritten => Some (set_infos (S (infos q)) (set_pc Pop1 q), g)
    | Pop1, ADirCleared => Some (set_pc Pop2 q, if dir g then rmtree g else g)
    | Pop2, ADirCreated => if dir g then None else Some (set_pc Pop3 q, set_dir true g)
    (* ---- save(): task_path.mkdir(exist_ok=True); with SoftFileLock(<dir>_save.lock) *)
    | Pop3, ASaveAcq => if free (slock g) g then Some (set_pc (Sv false SAcq) q, set_dir true (set_slock (Some p) g)) else None
    | Fin2, ASaveAcq => if free (slock g) g then Some (set_pc (Sv true SAcq) q, set_dir true (set_slock (Some p) g)) else None
    | Sv true SAcq, AResBefore => go (Sv true SRB) q g
    | Sv true SRB, AResOpened => Some (set_pc (Sv true SRO) q, set_resf (Writing (the_result q) 0) g)
    | Sv true SRO, AResDumped => go (Sv true SRD) q g
    | Sv true SRD, AResAfter => Some (set_pc (Sv true SRA) q, set_resf (Complete (the_result q)) g)
    | Sv true SRA, AJobBefore => go (Sv true SJB) q g
    | Sv false SAcq, AJobBefore => go (Sv false SJB) q g
    | Sv f SJB, AJobOpened => Some (set_pc (Sv f SJO) q, set_jobf (Writing tt 0) g)
    | Sv f SJO, AJobDumped => go (Sv f SJD) q g
    | Sv f SJD, AJobAfter => Some (set_pc (Sv f SJA) q, set_jobf (Complete tt) g)
    | Sv f SJA, ASaveRel => Some (set_pc (Sv f SRel) q, set_slock (unlock p (slock g)) g)
    | Sv false SRel, AJobSaved => go Pop4 q g
    | Pop4, APopulated => go Pop5 q g
    (* ---- Job.run: os.chdir(self.cache_dir); run_async has no such line *)
    | Pop5, ACwdChanged => if is_async q then None else Some (set_cwd InDir (set_pc CwdCh q), g)
    (* ---- hooks.pre_run_task; audit.start_audit (os.chdir(odir)) *)
    | Pop5, APreHook => if is_async q then Some (inc_pre (set_pc PreHk q), g) else None
    | CwdCh, APreHook => Some (inc_pre (set_pc PreHk q), g)
    | Pop5, APreHookRaise => if is_async q then Some (set_dirty (inc_pre (set_pc ExcHold q)), g) else None
    | CwdCh, APreHookRaise => Some (set_dirty (inc_pre (set_pc ExcHold q)), g)
    | PreHk, AAuditStarted => Some (set_cwd InDir (set_pc AudSt q), g)
    (* ---- try: audit.monitor(); task._run; outputs *)
    | AudSt, ABodyEnter => Some (inc_execs (set_pc BodyIn q), g)
    | BodyIn, ABodyLeft => Some (set_pc BodyOut q, inc_runs g)
    | BodyIn, ABodyRaise => Some (mark_failed (set_pc Err0 q), inc_runs g)
    | BodyOut, AOutputs => Some (set_rout (Some bv) (set_pc OutsOk q), g)
    (* ---- except Exception: result.errored = True (first statement of the handler); record_error(...); raise *)
    | Err0, AErrBefore => go Err1 q g
    | Err1, AErrOpened => Some (set_pc Err2 q, set_errf (Writing tt 0) g)
    | Err2, AErrDumped => go Err3 q g
    | Err3, AErrAfter => Some (set_pc Err4 q, set_errf (Complete tt) g)
    | Err4, AErrRecorded => go ErrRec q g
    (* ---- finally: hooks.post_run_task; finalize_audit; save; unlink info; chdir(cwd) *)
    | OutsOk, APostHook | Fin0, APostHook => Some (inc_post (set_pc Fin1 q), g)
    | ErrRec, APostHook => Some (inc_post (set_raised true (set_pc Fin1 q)), g)
    | OutsOk, APostHookRaise | Fin0, APostHookRaise => Some (set_dirty (inc_post (set_pc ExcHold q)), g)
    | ErrRec, APostHookRaise => Some (set_dirty (inc_post (set_raised true (set_pc ExcHold q))), g)
    | Fin1, AAuditFinal => go Fin2 q g
    | Sv true SRel, AResultSaved => go Fin3 q g
    | Fin3, AInfoRemoved => match infos q with 0 => None | S k => Some (set_infos k (set_pc Fin4 q), g) end
    | Fin4, ACwdRestored => Some (set_cwd Home (set_pc Fin5 q), g)
    (* ---- leaving the with block *)
    | Fin5, ARelease => Some (set_pc (if raised q then RelExc else RelOk) q, set_lock (unlock p (lock g)) g)
    | ExcHold, ARelease => Some (set_pc RelExc q, set_lock (unlock p (lock g)) g)
    | RelOk, ALockReleased => go Post1 q g
    | Post1, APostRun => go Post2 q g
    (* ---- back in Submitter.__call__: result = job.result() *)
    | RelHit, AReturned | Post2, AReturned =>
        Some (set_ret (Some (match job_result q g with Some r => Returned r | None => NoResult end)) (set_pc Done q), g)
    | RelExc, ARaisedOut => Some (set_ret (Some Raised) (set_pc Done q), g)
    (* raise_errors=False (every worker but debug): "if raise_errors or not job.result(): raise", else the stored
       (errored) result is handed back *)
    | RelExc, AReturned =>
        match job_result q g with
        | Some r => Some (set_ret (Some (Returned r)) (set_pc Done q), g)
        | None => None
        end
    (* ---- environment: user code moves the process: inside the body, inside hooks.post_run_task *)
    | BodyIn, AChdir | Fin1, AChdir => Some (set_cwd Elsewhere q, g)
    (* ---- environment: bytes reach the disk while a file is open *)
    | Sv true SRO, AProgress n | Sv true SRD, AProgress n =>
        if grows (resf g) n then Some (q, set_resf (Writing (the_result q) n) g) else None
    | Sv _ SJO, AProgress n | Sv _ SJD, AProgress n =>
        if grows (jobf g) n then Some (q, set_jobf (Writing tt n) g) else None
    | Err2, AProgress n | Err3, AProgress n =>
        if grows (errf g) n then Some (q, set_errf (Writing tt n) g) else None
    (* ---- environment: an exception at the checkpoint just passed *)
    | Idle, AExc | Done, AExc | ExcHold, AExc | RelHit, AExc | RelOk, AExc | RelExc, AExc => None
    | _, AExc => Some (exc_target p q g)
    | _, _ => None
    end.

  (* ---- the system: processes + shared state *)
  Record state := mkState { procs : pid -> proc; gl : glob }.

  Definition upd (f : pid -> proc) (p : pid) (x : proc) : pid -> proc :=
    fun q => if Nat.eqb q p then x else f q.

  Definition proc0 : proc := mkProc Idle false false Home 0 None false false None false None 0 0 0 false.
  (* empty cache root / a complete correct result left by an earlier execution *)
  Definition glob0 (pre : bool) : glob :=
    if pre then mkGlob None None true (Complete tt) (Complete (mkRes false (Some bv))) Absent 1 (fun _ => false)
    else mkGlob None None false Absent Absent Absent 0 (fun _ => false).
  Definition init (pre : bool) : state := mkState (fun _ => proc0) (glob0 pre).

  Definition event := (pid * action)%type.

  Definition step (s : state) (e : event) : option state :=
    let '(p, a) := e in
    if dead (gl s) p then None else
    match a with
    | ACrash => Some (mkState (procs s) (kill p (gl s)))
    | _ => match lstep p (procs s p) (gl s) a with
           | Some (q', g') => Some (mkState (upd (procs s) p q') g')
           | None => None
           end
    end.

  Fixpoint run (s : state) (tr : list event) : option state :=
    match tr with
    | [] => Some s
    | e :: r => match step s e with Some s' => run s' r | None => None end
    end.
End Proto.

(* ---- a concrete codec, to run the model on recorded traces (and as the witness that the hypotheses
   made about pickle/unpickle in Proofs/ are satisfiable) *)
Definition toy_pickle (r : res) : list nat :=
  [128; (if errored r then 1 else 0); match outputs r with None => 0 | Some v => S v end; 46].
Definition toy_unpickle (b : list nat) : option res :=
  match b with
  | [128; e; o; 46] => Some (mkRes (Nat.eqb e 1) (match o with 0 => None | S v => Some v end))
  | _ => None
  end.

Section Accept.
  Variable bv : val.
  Notation step := (step toy_pickle toy_unpickle bv).

  (* The recorded labels never show ARelease (leaving the with block has no checkpoint of its own): it is
     inserted where the code must already have released. *)
  Definition accept_ev (s : state) (e : event) : option state :=
    match step s e with
    | Some s' => Some s'
    | None =>
        let '(p, a) := e in
        match a with
        | AAcquire =>
            match lock (gl s) with
            | Some h => match step s (h, ARelease) with Some s1 => step s1 e | None => None end
            | None => None
            end
        | ALockReleased | AReturned | ARaisedOut =>
            match step s (p, ARelease) with Some s1 => step s1 e | None => None end
        | _ => None
        end
    end.

  Fixpoint accept_run (s : state) (tr : list event) : option state :=
    match tr with
    | [] => Some s
    | e :: r => match accept_ev s e with Some s' => accept_run s' r | None => None end
    end.

  (* index of the first event that the model cannot follow (length of the trace when all are accepted) *)
  Fixpoint first_reject (s : state) (tr : list event) (i : nat) : nat :=
    match tr with
    | [] => i
    | e :: r => match accept_ev s e with Some s' => first_reject s' r (S i) | None => i end
    end.

  (* what can be seen from outside afterwards *)
  Definition fcode {A} (f : fstate A) : nat :=
    match f with Absent => 0 | Writing _ n => if Nat.ltb n 4 then 1 else 2 | Complete _ => 2 end.
  Definition present (m : option pid) : bool := match m with Some _ => true | None => false end.

  (* lock marker, save-lock marker, directory, job / result / error file (0 absent, 1 partial, 2 whole), body
     executions, <uid>_info.json files in the cache root *)
  Definition gobs := (bool * bool * bool * nat * nat * nat * nat * nat)%type.
  Definition observe_g (s : state) (pids : list pid) : gobs :=
    let g := gl s in
    (present (lock g), present (slock g), dir g, fcode (jobf g), fcode (resf g), fcode (errf g), runs g,
     fold_right (fun p n => infos (procs s p) + n) 0 pids).
  (* pid, what the caller got, cwd restored, pre_run_task calls, post_run_task calls *)
  Definition pobs := (pid * option outcome * bool * nat * nat)%type.
  Definition observe_p (s : state) (p : pid) : pobs :=
    let q := procs s p in (p, ret q, loc_eqb (cwd q) Home, pre_calls q, post_calls q).

  Definition outcome_eqb (a b : outcome) : bool :=
    match a, b with
    | Returned x, Returned y => res_eqb x y
    | NoResult, NoResult | Raised, Raised => true
    | _, _ => false
    end.
  Definition gobs_eqb (a b : gobs) : bool :=
    let '(a1, a2, a3, a4, a5, a6, a7, a8) := a in
    let '(b1, b2, b3, b4, b5, b6, b7, b8) := b in
    Bool.eqb a1 b1 && Bool.eqb a2 b2 && Bool.eqb a3 b3 && Nat.eqb a4 b4 && Nat.eqb a5 b5 && Nat.eqb a6 b6
    && Nat.eqb a7 b7 && Nat.eqb a8 b8.
  Definition pobs_eqb (a b : pobs) : bool :=
    let '(a1, a2, a3, a4, a5) := a in
    let '(b1, b2, b3, b4, b5) := b in
    (* a process that died reports neither an outcome nor its cwd *)
    Nat.eqb a1 b1 && option_eqb outcome_eqb a2 b2 && (match b2 with None => true | Some _ => Bool.eqb a3 b3 end)
    && Nat.eqb a4 b4 && Nat.eqb a5 b5.
  Definition pobs_pid (a : pobs) : pid := let '(a1, _, _, _, _) := a in a1.
End Accept.

(* one recorded run: a correct result was there before?, the body's value, the events, what was seen afterwards
   (a process that died reports nothing: its entry carries the model's own values except for the outcome None) *)
Definition trace_case := (bool * val * list event * gobs * list pobs)%type.

Definition accepts (c : trace_case) : bool :=
  let '(pre, bv, tr, _, _) := c in
  match accept_run bv (init bv pre) tr with Some _ => true | None => false end.

Definition final_matches (c : trace_case) : bool :=
  let '(pre, bv, tr, go, pos) := c in
  match accept_run bv (init bv pre) tr with
  | Some s => gobs_eqb (observe_g s (map pobs_pid pos)) go && forallb (fun po => pobs_eqb (observe_p s (pobs_pid po)) po) pos
  | None => false
  end.
