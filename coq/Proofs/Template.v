(* Proofs/Template.v — lemmas for C26. *)
From Pydra Require Import Base.Prelude Base.PyPath Base.PyFormat Model.Template Spec.Template.
Local Open Scope char_scope.
Local Open Scope list_scope.

(* ------------------------------------------------------------------ pathlib: components produced by parse *)
Definition comp_ok (c : list ascii) : Prop := keep_comp c = true /\ ~ In slash c.
Definition wf_path (p : ppath) : Prop := Forall comp_ok (p_comps p).

Lemma eqb_slash c : Ascii.eqb c slash = true <-> c = slash.
Proof. apply Ascii.eqb_eq. Qed.

Lemma split_slash_noslash l : forall cur, ~ In slash cur ->
  Forall (fun c => ~ In slash c) (split_slash l cur).
Proof.
  induction l as [|c l IH]; intros cur Hc; cbn.
  - constructor; [|constructor]. now rewrite <- in_rev.
  - destruct (Ascii.eqb c slash) eqn:E.
    + constructor; [now rewrite <- in_rev| apply IH; intros []].
    + apply IH. intros [->|H]; [|auto]. rewrite Ascii.eqb_refl in E. discriminate.
Qed.

Lemma parse_wf s : wf_path (parse s).
Proof.
  unfold wf_path, parse; cbn. apply Forall_forall. intros c Hc.
  apply filter_In in Hc. destruct Hc as [Hin Hk]. split; [exact Hk|].
  pose proof (split_slash_noslash s [] (fun x => x)) as H. rewrite Forall_forall in H. now apply H.
Qed.

Lemma split_slash_plain l : ~ In slash l -> forall cur, split_slash l cur = [rev cur ++ l].
Proof.
  induction l as [|c l IH]; intros Hn cur; cbn.
  - now rewrite app_nil_r.
  - destruct (Ascii.eqb c slash) eqn:E.
    + apply eqb_slash in E. subst. exfalso. apply Hn. now left.
    + rewrite IH; [|intros H; apply Hn; now right]. cbn. now rewrite <- app_assoc.
Qed.

Lemma split_slash_app c rest : ~ In slash c -> forall cur,
  split_slash (c ++ slash :: rest) cur = (rev cur ++ c) :: split_slash rest [].
Proof.
  induction c as [|x c IH]; intros Hn cur; cbn.
  - now rewrite app_nil_r.
  - destruct (Ascii.eqb x slash) eqn:E.
    + apply eqb_slash in E. subst. exfalso. apply Hn. now left.
    + rewrite IH; [|intros H; apply Hn; now right]. cbn. now rewrite <- app_assoc.
Qed.

Lemma comp_ok_nonempty c : comp_ok c -> c <> [].
Proof. intros [H _] ->. discriminate. Qed.

Lemma leading_slashes_comp c r : comp_ok c -> leading_slashes (c ++ r) = 0.
Proof.
  intros [Hk Hn]. destruct c as [|x c]; [discriminate|]. cbn.
  destruct (Ascii.eqb x slash) eqn:E; [|reflexivity].
  apply eqb_slash in E. subst. exfalso. apply Hn. now left.
Qed.

(* a single good component parses to itself *)
Lemma parse_comp c : comp_ok c -> parse c = {| p_anchor := ARel; p_comps := [c] |}.
Proof.
  intros H. unfold parse. rewrite <- (app_nil_r c) at 1. rewrite (leading_slashes_comp c [] H).
  destruct H as [Hk Hn]. rewrite (split_slash_plain c Hn []). cbn. now rewrite Hk.
Qed.

Lemma parse_nil : parse [] = {| p_anchor := ARel; p_comps := [] |}.
Proof. reflexivity. Qed.

Lemma split_join cs : Forall comp_ok cs -> cs <> [] -> split_slash (join_slash cs) [] = cs.
Proof.
  induction cs as [|c cs IH]; intros Hf Hne; [congruence|].
  inversion Hf as [|? ? Hc Hcs]; subst. destruct cs as [|d cs].
  - cbn. destruct Hc as [_ Hn]. now rewrite (split_slash_plain c Hn []).
  - change (join_slash (c :: d :: cs)) with (c ++ slash :: join_slash (d :: cs)).
    destruct Hc as [_ Hn]. rewrite (split_slash_app c _ Hn []). cbn [rev app].
    rewrite IH; [reflexivity|assumption|discriminate].
Qed.

Lemma filter_keep_ok cs : Forall comp_ok cs -> filter keep_comp cs = cs.
Proof.
  induction 1 as [|c cs [Hk _] _ IH]; cbn; [reflexivity|]. now rewrite Hk, IH.
Qed.

Lemma leading_join cs : Forall comp_ok cs -> leading_slashes (join_slash cs) = 0.
Proof.
  intros Hf. destruct cs as [|c cs]; [reflexivity|]. inversion Hf as [|? ? Hc Hcs]; subst.
  destruct cs as [|d cs].
  - cbn. rewrite <- (app_nil_r c). now apply leading_slashes_comp.
  - change (join_slash (c :: d :: cs)) with (c ++ slash :: join_slash (d :: cs)). now apply leading_slashes_comp.
Qed.

Lemma comps_of_join cs : Forall comp_ok cs -> filter keep_comp (split_slash (join_slash cs) []) = cs.
Proof.
  intros Hf. destruct cs as [|c cs]; [reflexivity|].
  rewrite split_join; [now apply filter_keep_ok|assumption|discriminate].
Qed.

(* str() followed by Path() gives the path back *)
Lemma parse_render p : wf_path p -> parse (render p) = p.
Proof.
  destruct p as [a cs]. unfold wf_path; cbn [p_comps]. intros Hf. unfold render; cbn [p_anchor p_comps].
  destruct a.
  - destruct cs as [|c cs]; [reflexivity|].
    unfold parse. rewrite (leading_join _ Hf), (comps_of_join _ Hf). reflexivity.
  - unfold parse. cbn [leading_slashes]. rewrite Ascii.eqb_refl, (leading_join _ Hf).
    cbn [split_slash]. rewrite Ascii.eqb_refl. cbn [rev filter keep_comp]. now rewrite (comps_of_join _ Hf).
  - unfold parse. cbn [leading_slashes]. rewrite !Ascii.eqb_refl, (leading_join _ Hf).
    cbn [split_slash]. rewrite !Ascii.eqb_refl. cbn [rev filter keep_comp]. now rewrite (comps_of_join _ Hf).
Qed.

Lemma parse_render_parse s : parse (render (parse s)) = parse s.
Proof. apply parse_render, parse_wf. Qed.

(* PurePath.name is "" or one of the components *)
Lemma last_in {A} (l : list A) d : l <> [] -> In (last l d) l.
Proof.
  induction l as [|x l IH]; [congruence|]. intros _. destruct l as [|y l]; [now left|].
  right. apply IH. discriminate.
Qed.

Lemma pname_cases p : wf_path p -> pname p = [] \/ comp_ok (pname p).
Proof.
  intros Hf. unfold pname. destruct (p_comps p) as [|c cs] eqn:E; [now left|].
  right. unfold wf_path in Hf. rewrite E in Hf. rewrite Forall_forall in Hf. apply Hf, last_in. discriminate.
Qed.

Lemma app_last_removelast {A} (l : list A) d : l <> [] -> l = removelast l ++ [last l d].
Proof. apply app_removelast_last. Qed.

(* ------------------------------------------------------------------ cache_dir / value.name *)
Definition in_cache_path (cd s : list ascii) : ppath := pjoin (parse cd) (parse (pname (parse s))).

Lemma in_cache_render cd s : in_cache cd s = render (in_cache_path cd s).
Proof. reflexivity. Qed.

Lemma in_cache_path_wf cd s : wf_path (in_cache_path cd s).
Proof.
  unfold in_cache_path, pjoin. destruct (p_anchor (parse (pname (parse s)))); try apply parse_wf.
  unfold wf_path; cbn. apply Forall_app. split; apply parse_wf.
Qed.

Lemma in_cache_path_name cd s : pname (parse s) <> [] ->
  in_cache_path cd s = {| p_anchor := p_anchor (parse cd); p_comps := p_comps (parse cd) ++ [pname (parse s)] |}.
Proof.
  intros Hne. destruct (pname_cases (parse s) (parse_wf s)) as [H|H]; [congruence|].
  unfold in_cache_path. now rewrite (parse_comp _ H).
Qed.

Lemma in_cache_path_empty cd s : pname (parse s) = [] -> in_cache_path cd s = parse cd.
Proof.
  intros E. unfold in_cache_path. rewrite E, parse_nil. unfold pjoin; cbn [p_anchor p_comps].
  rewrite app_nil_r. now destruct (parse cd).
Qed.

Lemma is_dotdot_spec c : is_dotdot c = true <-> c = dotdot.
Proof. apply la_eqb_spec. Qed.

Lemma bad_name_spec s : bad_name s = false <-> pname (parse s) <> [] /\ pname (parse s) <> dotdot.
Proof.
  unfold bad_name. destruct (pname (parse s)) as [|x n] eqn:E.
  - split; [discriminate|intros [H _]; congruence].
  - split.
    + intros H. split; [discriminate|]. intros H2. apply la_eqb_spec in H2. unfold dotdot in *. congruence.
    + intros [_ H]. destruct (la_eqb (x :: n) ["."; "."]) eqn:E2; [|reflexivity].
      apply la_eqb_spec in E2. contradiction.
Qed.

(* the heart of C26: a proper last component lands strictly inside the job directory *)
Lemma in_cache_inside cd s : bad_name s = false -> inside (parse cd) (in_cache_path cd s).
Proof.
  intros Hb. apply bad_name_spec in Hb. destruct Hb as [Hne Hdd].
  rewrite (in_cache_path_name cd s Hne). split; [reflexivity|].
  exists [pname (parse s)], 0. split; [reflexivity|]. cbn [walk].
  destruct (is_dotdot (pname (parse s))) eqn:E; [|reflexivity].
  apply is_dotdot_spec in E. contradiction.
Qed.

Lemma in_cache_inside_str cd s : bad_name s = false -> inside_str cd (in_cache cd s).
Proof.
  intros Hb. unfold inside_str. rewrite in_cache_render, (parse_render _ (in_cache_path_wf cd s)).
  now apply in_cache_inside.
Qed.

(* and the two degenerate names do not *)
Lemma walk_app_nil d : walk d [] = Some d.
Proof. reflexivity. Qed.

Lemma inside_comps_longer job p : inside job p -> List.length (p_comps job) < List.length (p_comps p).
Proof.
  intros [_ (rest & d & E & W)]. rewrite E, app_length. destruct rest; [discriminate|]. cbn. lia.
Qed.

Lemma in_cache_degenerate_not_inside cd s : bad_name s = true -> ~ inside (parse cd) (in_cache_path cd s).
Proof.
  intros Hb Hin. unfold bad_name in Hb. destruct (pname (parse s)) as [|x n] eqn:E.
  - rewrite (in_cache_path_empty cd s E) in Hin. apply inside_comps_longer in Hin. lia.
  - apply la_eqb_spec in Hb.
    assert (Hne : pname (parse s) <> []) by (rewrite E; discriminate).
    rewrite (in_cache_path_name cd s Hne) in Hin. destruct Hin as [_ (rest & d & Ec & W)].
    cbn [p_comps] in Ec. apply app_inv_head in Ec. subst rest. rewrite E, Hb in W. cbn in W. discriminate.
Qed.

(* ------------------------------------------------------------------ C26_inside *)
Definition formatted_strings (f : formatted) : list (list ascii) :=
  match f with FNone => [] | FOne s => [s] | FMany l => l end.
Definition resolved_paths (r : resolved) : list (list ascii) :=
  match r with ROne s => [s] | RMany l => l | _ => [] end.

Lemma resolve_output_shape o values cd r :
  resolve_output o values cd = Ok r ->
  exists f, template_formatting o values = Ok f /\ r = place cd f.
Proof.
  unfold resolve_output, bind. destruct (template_formatting o values) as [f|e]; [|discriminate].
  intros H. inversion H. now exists f.
Qed.

Lemma place_paths cd f : resolved_paths (place cd f) = map (in_cache cd) (formatted_strings f).
Proof. destruct f; reflexivity. Qed.

(* every resolved path is job_dir / last component of a filled-in template; it is strictly inside the job
   directory exactly when that component is neither missing nor ".." *)
Theorem resolve_output_inside o values cd r :
  resolve_output o values cd = Ok r ->
  exists f, template_formatting o values = Ok f /\
    resolved_paths r = map (in_cache cd) (formatted_strings f) /\
    (forall s, In s (formatted_strings f) ->
       (bad_name s = false ->
          in_cache_path cd s = {| p_anchor := p_anchor (parse cd); p_comps := p_comps (parse cd) ++ [pname (parse s)] |}
          /\ inside_str cd (in_cache cd s)) /\
       (bad_name s = true -> ~ inside_str cd (in_cache cd s))).
Proof.
  intros H. destruct (resolve_output_shape _ _ _ _ H) as (f & Hf & ->).
  exists f. split; [exact Hf|]. split; [apply place_paths|].
  intros s _. split.
  - intros Hb. split; [|now apply in_cache_inside_str].
    apply in_cache_path_name. now apply bad_name_spec in Hb.
  - intros Hb. unfold inside_str. rewrite in_cache_render, (parse_render _ (in_cache_path_wf cd s)).
    now apply in_cache_degenerate_not_inside.
Qed.

Lemma existsb_false_forall {A} (f : A -> bool) l : existsb f l = false -> forall x, In x l -> f x = false.
Proof.
  intros H x Hx. destruct (f x) eqn:E; [|reflexivity].
  assert (existsb f l = true) by (apply existsb_exists; eauto). congruence.
Qed.

Theorem resolve_output_all_inside o values cd r :
  resolve_output o values cd = Ok r -> degenerate_name o values = false -> all_inside cd r.
Proof.
  intros H Hd. destruct (resolve_output_shape _ _ _ _ H) as (f & Hf & ->).
  unfold degenerate_name in Hd. rewrite Hf in Hd. destruct f as [|s|l]; cbn.
  - exact I.
  - now apply in_cache_inside_str.
  - apply Forall_forall. intros x Hx. apply in_map_iff in Hx. destruct Hx as (s & <- & Hs).
    apply in_cache_inside_str. exact (existsb_false_forall _ _ Hd s Hs).
Qed.

Theorem resolve_input_all_inside o values cd r :
  resolve_input o GTrue values cd = Ok r -> degenerate_name o values = false -> all_inside cd r.
Proof. apply resolve_output_all_inside. Qed.

(* ------------------------------------------------------------------ refutation of the unguarded statement *)
Definition full_statement : Prop :=
  forall o values cd r, resolve_output o values cd = Ok r -> all_inside cd r.

Definition dotdot_outarg : outarg := {| o_multi := false; o_keep := true; o_template := TOne (la_of "..") |}.
Definition jobdir_outarg : outarg := {| o_multi := false; o_keep := false; o_template := TOne (la_of "{a}") |}.

Lemma insideb_spec job p : insideb job p = true <-> inside job p.
Proof.
  unfold insideb, inside. rewrite !andb_true_iff. split.
  - intros [[Ha Hp] Hw]. split.
    + destruct (p_anchor p), (p_anchor job); cbn in Ha; congruence.
    + apply (is_prefix_spec la_eqb la_eqb_spec) in Hp. destruct Hp as [rest E].
      rewrite E in Hw. rewrite skipn_app, skipn_all, Nat.sub_diag in Hw. cbn in Hw.
      destruct (walk 0 rest) as [[|d]|] eqn:W; try discriminate. now exists rest, d.
  - intros [Ha (rest & d & E & W)]. split; [split|].
    + rewrite Ha. now destruct (p_anchor job).
    + apply (is_prefix_spec la_eqb la_eqb_spec). now exists rest.
    + rewrite E, skipn_app, skipn_all, Nat.sub_diag. cbn. now rewrite W.
Qed.

(* a template that is literally ".." resolves to the parent of the job directory (the cache root) *)
Lemma refuted_dotdot : ~ full_statement.
Proof.
  intros H. specialize (H dotdot_outarg [] (la_of "/cache/job") (ROne (la_of "/cache/job/..")) eq_refl).
  cbn in H. apply insideb_spec in H. vm_compute in H. discriminate.
Qed.

(* a template that fills in to "" / "." / "/" resolves to the job directory itself *)
Lemma refuted_jobdir :
  exists o values cd r, resolve_output o values cd = Ok r /\ ~ all_inside cd r /\ r = ROne (la_of "/cache/job").
Proof.
  exists jobdir_outarg, [(la_of "a", VAtom (AStr (la_of ".")))], (la_of "/cache/job"), (ROne (la_of "/cache/job")).
  split; [reflexivity|]. split; [|reflexivity].
  intros H. cbn in H. apply insideb_spec in H. vm_compute in H. discriminate.
Qed.

(* ------------------------------------------------------------------ explicit output paths *)
Theorem explicit_as_given o s values cd :
  exists x, resolve_input o (GPath s) values cd = Ok (ROne x) /\ same_path x s.
Proof.
  exists (pstr (parse s)). split; [reflexivity|]. unfold same_path, pstr. apply parse_render_parse.
Qed.

Theorem false_is_absent o values cd : resolve_input o GFalse values cd = Ok RAbsent.
Proof. reflexivity. Qed.
