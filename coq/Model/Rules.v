(* Model/Rules.v — pydra/compose/base/task.py: Task._rule_violations / _check_rules,
   pydra/compose/base/field.py: Requirement.satisfied / RequirementSet.satisfied,
   and the order "validate, then run" of Submitter.__call__ / Job.__init__.
   Defects included: the three checks use three different notions of "the field is set". *)
From Pydra Require Import Base.Prelude.
Local Open Scope string_scope.

(* ---------------------------------------------------------------- data (shared with the spec) *)

(* the value kinds the rule code can tell apart (identity tests `is NOTHING/None/False/True`,
   truthiness, `==` against allowed values) *)
Inductive value :=
| VNothing                 (* attrs.NOTHING *)
| VNone
| VBool (b : bool)
| VStr (s : string)
| VInt (z : Z)
| VObj (nonempty : bool).  (* any other object (function, list, path, ...); only its truthiness matters *)

(* Python `a == b` on these values (True == 1, False == 0; objects compare by identity: never equal
   to an allowed-values literal) *)
Definition py_eq (a b : value) : bool :=
  match a, b with
  | VNothing, VNothing => true
  | VNone, VNone => true
  | VBool x, VBool y => Bool.eqb x y
  | VStr x, VStr y => String.eqb x y
  | VInt x, VInt y => Z.eqb x y
  | VBool x, VInt y | VInt y, VBool x => Z.eqb y (if x then 1 else 0)%Z
  | _, _ => false
  end.

(* what the code asks about a field's declared type *)
Inductive tkind :=
| TBool          (* `field.type is bool` *)
| TOptFileset    (* `is_optional(field.type) and is_fileset_or_union(field.type)` *)
| TOther.

Record req := { rname : string; rallowed : option (list value) }.     (* Requirement *)

Record fdef := {
  fname : string;
  ftype : tkind;
  fmay_unset : bool;               (* `getattr(field, "path_template", False) or field.readonly` *)
  frequires : list (list req)      (* list[RequirementSet]: OR of ANDs *)
}.

Record taskdef := {
  fields : list fdef;                         (* get_fields(task), in order *)
  xors : list (list (option string))          (* task._xor, groups and members in iteration order *)
}.

Definition env := string -> value.            (* `self[name]` *)

Definition env_of (l : list (string * value)) : env :=
  fun n => match find (fun p => String.eqb (fst p) n) l with Some p => snd p | None => VNothing end.

(* ---------------------------------------------------------------- the algorithm *)

(* `if v:` *)
Definition truthy (v : value) : bool :=
  match v with
  | VNothing | VNone => false        (* bool(attrs.NOTHING) is False *)
  | VBool b => b
  | VStr s => negb (String.eqb s "")
  | VInt z => negb (Z.eqb z 0)
  | VObj b => b
  end.

(* `{f.name: f for f in get_fields(inputs)}[name].type`: the last field of that name *)
Definition type_of (d : taskdef) (n : string) : tkind :=
  match find (fun f => String.eqb (fname f) n) (rev (fields d)) with
  | Some f => ftype f
  | None => TOther                   (* the code raises KeyError; define() rejects such definitions *)
  end.

(* The three tests the code applies to decide that "a field is set", by role:
   - set_trigger: the field carrying `requires` — `not (value is None or value is False or
     (is_optional(type) and is_fileset_or_union(type) and value is True))`
   - set_required: a field named by a Requirement — `not (value is None or field.type is bool and
     value is False)`
   - set_exclusive: a member of an xor group — `if v` *)
Definition set_trigger (k : tkind) (v : value) : bool :=
  match v with
  | VNone => false
  | VBool false => false
  | VBool true => match k with TOptFileset => false | _ => true end
  | _ => true
  end.

Definition set_required (k : tkind) (v : value) : bool :=
  match v, k with
  | VNone, _ => false
  | VBool false, TBool => false
  | _, _ => true
  end.

Definition set_exclusive (k : tkind) (v : value) : bool := truthy v.

(* Requirement.satisfied *)
Definition req_satisfied (d : taskdef) (e : env) (r : req) : bool :=
  let v := e (rname r) in
  if set_required (type_of d (rname r)) v then
    match rallowed r with
    | None => true
    | Some l => existsb (py_eq v) l          (* `value in self.allowed_values` *)
    end
  else false.

(* RequirementSet.satisfied *)
Definition reqset_satisfied (d : taskdef) (e : env) (rs : list req) : bool :=
  forallb (req_satisfied d e) rs.

Definition is_nothing (v : value) : bool := match v with VNothing => true | _ => false end.
Definition nonempty {A} (l : list A) : bool := match l with [] => false | _ => true end.

Inductive error :=
| EMandatory (n : string)            (* "Mandatory field 'n' is not set" *)
| ERequires (n : string)             (* "'n' requires ..." *)
| EXorMany (ns : list string)        (* "Mutually exclusive fields (...) are set together" *)
| EXorNone (ns : list string).       (* "At least one of the mutually exclusive fields should be set: ..." *)

Definition field_errors (d : taskdef) (e : env) (f : fdef) : list error :=
  let v := e (fname f) in
  (if is_nothing v && negb (fmay_unset f) then [EMandatory (fname f)] else []) ++
  (if set_trigger (ftype f) v && nonempty (frequires f)
      && negb (existsb (reqset_satisfied d e) (frequires f))
   then [ERequires (fname f)] else []).

(* `for name in xor_set if name` *)
Definition xor_names (x : list (option string)) : list string :=
  flat_map (fun o => match o with
                     | Some n => if String.eqb n "" then [] else [n]
                     | None => [] end) x.

Definition has_none (x : list (option string)) : bool :=
  existsb (fun o => match o with None => true | Some _ => false end) x.

Definition xor_errors (e : env) (x : list (option string)) : list error :=
  let names := xor_names x in
  let are_set := filter (fun n => truthy (e n)) names in
  if Nat.ltb 1 (List.length are_set) then [EXorMany are_set]
  else if Nat.eqb (List.length are_set) 0 && negb (has_none x) then [EXorNone names]
  else [].

Definition rule_violations (d : taskdef) (e : env) : list error :=
  flat_map (field_errors d e) (fields d) ++ flat_map (xor_errors e) (xors d).

(* _check_rules raises iff the list is non-empty *)
Definition rules_ok (d : taskdef) (e : env) : bool :=
  match rule_violations d e with [] => true | _ => false end.

(* ---------------------------------------------------------------- define()-time checks
   Task._check_arg_refs: names used in requirements and xor groups are input fields;
   field names are dict keys, xor groups are frozensets. *)
Fixpoint nodupb (l : list string) : bool :=
  match l with [] => true | x :: r => negb (existsb (String.eqb x) r) && nodupb r end.

Fixpoint nodupb_o (l : list (option string)) : bool :=
  match l with
  | [] => true
  | x :: r => negb (existsb (option_eqb String.eqb x) r) && nodupb_o r
  end.

Definition is_field (d : taskdef) (n : string) : bool :=
  existsb (fun f => String.eqb (fname f) n) (fields d).

Definition wf_def (d : taskdef) : bool :=
  nodupb (map fname (fields d))
  && forallb (fun f => negb (String.eqb (fname f) "")) (fields d)
  && forallb (fun f => forallb (forallb (fun r => is_field d (rname r))) (frequires f)) (fields d)
  && forallb (fun x => nodupb_o x
                       && forallb (fun o => match o with Some n => is_field d n | None => true end) x)
             (xors d).

(* ---------------------------------------------------------------- where the three notions agree
   The assignment gives no field a value on which the test used for its role differs from
   truthiness: the excluded class of C31_partial, mirrored by the driver's finding classifier. *)
Definition uncontested_trigger (d : taskdef) (e : env) : bool :=
  forallb (fun f => match frequires f with
                    | [] => true
                    | _ => Bool.eqb (set_trigger (ftype f) (e (fname f))) (truthy (e (fname f)))
                    end) (fields d).

Definition uncontested_required (d : taskdef) (e : env) : bool :=
  forallb (fun f => forallb (forallb (fun r =>
         Bool.eqb (set_required (type_of d (rname r)) (e (rname r))) (truthy (e (rname r)))))
       (frequires f)) (fields d).

Definition uncontested (d : taskdef) (e : env) : bool :=
  uncontested_trigger d e && uncontested_required d e.

(* ---------------------------------------------------------------- validate, then run
   Submitter.__call__: task._check_rules(); ...; Job(task, ...) whose __init__ calls
   task._check_resolved(); task._check_rules(); only then submit()/worker.run.
   [run] stands for everything after the checks; it reports how many times the task body ran. *)
Inductive outcome :=
| Rejected (errs : list error)       (* ValueError raised by _check_rules, nothing started *)
| Ran (executions : nat).

Definition check_rules (d : taskdef) (e : env) : option (list error) :=
  match rule_violations d e with [] => None | errs => Some errs end.

Definition job_init (d : taskdef) (e : env) : option (list error) := check_rules d e.

Definition submitter_call (run : taskdef -> env -> nat) (d : taskdef) (e : env) : outcome :=
  match check_rules d e with
  | Some errs => Rejected errs
  | None => match job_init d e with
            | Some errs => Rejected errs
            | None => Ran (run d e)
            end
  end.
