"""C20 — accepted field values conform to the declared type (pydra/utils/typing.py TypeParser.coerce,
pydra/compose/base/builder.py make_converter).

Shared with c21.py: the type / value ASTs, their generators, the Python <-> Gallina encoders and the world
of real temp files.
"""
import json
import os
import shutil
import tempfile
import typing as ty
from pathlib import Path, PurePath

from .lib import coqio
from .lib.runner import Outcome, Failure
from .lib import translate_tables

PROP = "C20"
PROPS_FILE = "Props/C20.v"
MANIFEST = dict(
    text="Coq theorems over the model of TypeParser.coerce instantiated with the coercion tables and issubclass "
         "matrix translated from the live source on every run: C20_conforms (every accepted value conforms to the "
         "declared type, element types included — all types of the grammar, all values, both superclass_auto_cast "
         "settings, any file-system), C20_at_assignment / C20_field_history / C20_rejected_assignment_keeps_value "
         "(the task-field converter stores only conforming values over every history of assignments; a rejected "
         "assignment raises there and changes nothing), C20_full (no accepted coercion splits a str/bytes into a "
         "collection or joins a collection into a str/bytes — holds since the repair of finding F20), "
         "C20_idempotent_union_free (re-coercing an accepted value leaves it unchanged for types whose only unions are Optional[...]) with "
         "C20_idempotent_refuted (a union whose earlier arm converts the later arm's result: finding F20c). Partial "
         "for idempotence only.",
    note="Trusted: Coq kernel + vm_compute; hand-written model of expand_and_coerce / check_coercible / "
         "make_converter (tables are translated, the algorithm is not); fileformats' acceptance of a path for "
         "File/TextFile/Directory and Python's constructors (str, bytes, Path, set, dict, ...) are modelled, "
         "floats are integral; correspondence is differential testing on generated (type, value) pairs.",
    technique="Coq proof by induction on the type grammar over translated live tables + model/impl correspondence "
              "(TypeParser call, task-field construction/assignment) via generated cases.v",
    design="§8 Group E / C20, §4.2",
)
TIE_NAME = "Model.Typing.coerce/assign vs TypeParser.__call__ / task field (make_converter)"
TRUSTED = [
    "Model/Typing.v: hand-written model of TypeParser.__call__/coerce/expand_and_coerce, check_coercible, "
    "check_type_coercible, is_instance/is_subclass, make_converter(+ensure_list), attrs on_setattr=convert",
    "Generated/TypingTables.v is translated from the live COERCIBLE_DEFAULT / NOT_COERCIBLE_DEFAULT (the "
    "TypeParser.__init__ defaults) and the live issubclass matrix by harness/lib/translate_tables.py (fail closed)",
    "modelled, not verified: Python constructors str()/repr(), bytes(), Path(), set()/dict() equality+hashing, "
    "fileformats File/TextFile/Directory acceptance of a path (Model.Typing.accepts), floats restricted to "
    "integral values, strings to printable ASCII without quote/backslash where a repr is taken",
    "Section variable W (which paths fileformats accepts for which format): universally quantified in the theorems",
]
ASSUMPTIONS = [
    "values are trees over None/bool/int/float/str/bytes/PosixPath/File/TextFile/Directory/list/tuple/set/"
    "frozenset/dict and instances of the registered (sub)classes of those (str/bytes/int/float/list/tuple/set/"
    "frozenset/dict/PosixPath subclasses, a str-Enum, numpy.str_/int64/float64 — harness/lib/translate_tables.py "
    "registered()); lazy fields, StateArray, attrs.NOTHING, numpy arrays and other user classes are outside the model",
    "types are the grammar of Model.Typing.ty with unions normalised as typing.Union does (flat, distinct, >= 2 arms)",
]
RULE = ("(type, value) pairs: type from the grammar (depth <= 3: scalars, Any, None, File/TextFile/Directory, "
        "list/tuple/tuple[..,...]/dict/set/frozenset/Union/Optional/MultiInputObj nestings), value drawn from the "
        "type, from a sibling type or from an unrelated type, about one value node in eight an instance of a "
        "registered subclass instead of the exact builtin; distinct = distinct (type, value); non-trivial = "
        "the type is not Any and the implementation either rejected the value or stored something different "
        "from the input")

IMPORTS = ["Model.Typing", "Spec.Typing", "Generated.TypingTables"]


def generate_coq(ctx):
    translate_tables.write()


# ------------------------------------------------------------------------------------------- world
class World:
    """Real files so that fileformats' existence / format checks are exercised. Paths are written `$R/...`
    in stored cases and expanded to the per-run temp dir."""

    def __init__(self):
        self.root = tempfile.mkdtemp(prefix="verif_typing_", dir="/tmp")
        self.cwd0 = os.getcwd()
        os.mkdir(os.path.join(self.root, "d"))
        os.mkdir(os.path.join(self.root, "cwd"))
        for n in ("a.txt", "b.dat", "c.txt"):
            with open(os.path.join(self.root, n), "w") as f:
                f.write("x\n")
        os.chdir(os.path.join(self.root, "cwd"))
        self.fs = [(self.root + "/a.txt", "FkTxt"), (self.root + "/c.txt", "FkTxt"), (self.root + "/b.dat", "FkOther"),
                   (self.root + "/d", "FkDir"), (self.root + "/cwd", "FkDir"), (self.root, "FkDir"), ("/", "FkDir")]

    def expand(self, s):
        return s.replace("$R", self.root)

    def collapse(self, s):
        return s.replace(self.root, "$R")

    def coq_fs(self):
        return "Definition fs : list (string * fkind) := %s.\nDefinition W := world_of %s fs.\n" % (coqio.lst(
            [coqio.pair(coqio.string(p), k) for p, k in self.fs]), coqio.string(self.root + "/cwd"))

    def close(self):
        os.chdir(self.cwd0)
        shutil.rmtree(self.root, ignore_errors=True)


# ------------------------------------------------------------------------------------------- types
BASES = ["Any", "None", "bool", "int", "float", "str", "bytes", "Path", "File", "TextFile", "Directory"]
BASE_COQ = {"Any": "KAny", "None": "CNone", "bool": "CBool", "int": "CInt", "float": "CFloat", "str": "CStr",
            "bytes": "CBytes", "Path": "CPath", "File": "(CFile FFile)", "TextFile": "(CFile FText)",
            "Directory": "(CFile FDir)"}


def _classes():
    from fileformats.generic import File, Directory
    from fileformats.text import TextFile
    return {"Any": ty.Any, "None": type(None), "bool": bool, "int": int, "float": float, "str": str, "bytes": bytes,
            "Path": Path, "File": File, "TextFile": TextFile, "Directory": Directory}


def t_py(t):
    """type AST -> typing object"""
    from pydra.utils.typing import MultiInputObj
    k = t[0]
    if k == "base":
        return _classes()[t[1]]
    if k == "list":
        return ty.List[t_py(t[1])]
    if k == "tuple":
        return ty.Tuple[tuple(t_py(a) for a in t[1])]
    if k == "tuplevar":
        return ty.Tuple[t_py(t[1]), ...]
    if k == "dict":
        return ty.Dict[t_py(t[1]), t_py(t[2])]
    if k == "set":
        return (ty.FrozenSet if t[1] else ty.Set)[t_py(t[2])]
    if k == "union":
        return ty.Union[tuple(t_py(a) for a in t[1])]
    if k == "multi":
        return MultiInputObj[t_py(t[1])]
    raise ValueError(t)


def t_of_py(T):
    """typing object -> type AST (the inverse of t_py).  typing caches subscripted generics by *equal* arguments
    and Union equality ignores the order of the arms, so `Set[Union[File, Path]]` may come back as the object first
    built for `Set[Union[Path, File]]`: the arm order the implementation sees is the one of the object, not the
    one that was asked for.  Every case is therefore canonicalised through canon() before it is used."""
    from pydra.utils.typing import MultiInputObj
    for name, c in _classes().items():
        if T is c:
            return ("base", name)
    o, a = ty.get_origin(T), ty.get_args(T)
    if o is list:
        return ("list", t_of_py(a[0]))
    if o is tuple:
        if len(a) == 2 and a[1] is Ellipsis:
            return ("tuplevar", t_of_py(a[0]))
        return ("tuple", tuple(t_of_py(x) for x in a))
    if o is dict:
        return ("dict", t_of_py(a[0]), t_of_py(a[1]))
    if o is set:
        return ("set", False, t_of_py(a[0]))
    if o is frozenset:
        return ("set", True, t_of_py(a[0]))
    if o is ty.Union:
        return ("union", tuple(t_of_py(x) for x in a))
    if o is MultiInputObj:
        return ("multi", t_of_py(a[0]))
    raise ValueError("type outside the grammar: %r" % (T,))


def canon(t):
    return t_of_py(t_py(t))


def t_coq(t):
    k = t[0]
    if k == "base":
        return "(TBase %s)" % BASE_COQ[t[1]]
    if k == "list":
        return "(TList %s)" % t_coq(t[1])
    if k == "tuple":
        return "(TTuple %s)" % coqio.lst([t_coq(a) for a in t[1]])
    if k == "tuplevar":
        return "(TTupleVar %s)" % t_coq(t[1])
    if k == "dict":
        return "(TDict %s %s)" % (t_coq(t[1]), t_coq(t[2]))
    if k == "set":
        return "(TSet %s %s)" % (coqio.boolean(t[1]), t_coq(t[2]))
    if k == "union":
        return "(TUnion %s)" % coqio.lst([t_coq(a) for a in t[1]])
    if k == "multi":
        return "(TMulti %s)" % t_coq(t[1])
    raise ValueError(t)


def t_norm(t):
    """lists -> tuples so that type ASTs are hashable / comparable; JSON round trip safe"""
    if t[0] == "base":
        return ("base", t[1])
    if t[0] in ("tuple", "union"):
        return (t[0], tuple(t_norm(a) for a in t[1]))
    if t[0] == "set":
        return ("set", bool(t[1]), t_norm(t[2]))
    return (t[0],) + tuple(t_norm(a) for a in t[1:])


def t_str(t):
    k = t[0]
    if k == "base":
        return t[1]
    if k == "list":
        return "list[%s]" % t_str(t[1])
    if k == "tuple":
        return "tuple[%s]" % ", ".join(t_str(a) for a in t[1])
    if k == "tuplevar":
        return "tuple[%s, ...]" % t_str(t[1])
    if k == "dict":
        return "dict[%s, %s]" % (t_str(t[1]), t_str(t[2]))
    if k == "set":
        return "%s[%s]" % ("frozenset" if t[1] else "set", t_str(t[2]))
    if k == "union":
        return "Union[%s]" % ", ".join(t_str(a) for a in t[1])
    return "MultiInputObj[%s]" % t_str(t[1])


def t_has(t, kind):
    if t[0] == kind:
        return True
    if t[0] == "base":
        return False
    if t[0] in ("tuple", "union"):
        return any(t_has(a, kind) for a in t[1])
    return any(t_has(a, kind) for a in t[1:] if isinstance(a, tuple))


def gen_type(rng, depth, weights=None):
    """A type of the grammar, normalised the way typing normalises (unions flat, distinct, >= 2 arms)."""
    if depth <= 0 or rng.random() < 0.3:
        return ("base", rng.choice(BASES if rng.random() < 0.8 else ["int", "str", "File", "Path", "bytes"]))
    k = rng.choice(["list", "list", "tuple", "tuplevar", "dict", "set", "set", "union", "union", "optional",
                    "multi", "multi"])
    if k == "list":
        return ("list", gen_type(rng, depth - 1))
    if k == "tuple":
        return ("tuple", tuple(gen_type(rng, depth - 1) for _ in range(rng.choice([1, 2, 2, 3]))))
    if k == "tuplevar":
        return ("tuplevar", gen_type(rng, depth - 1))
    if k == "dict":
        return ("dict", gen_type(rng, min(depth - 1, 1)), gen_type(rng, depth - 1))
    if k == "set":
        return ("set", rng.random() < 0.3, gen_type(rng, min(depth - 1, 1)))
    if k == "multi":
        return ("multi", gen_type(rng, depth - 1))
    arms = []
    n = 2 if k == "optional" else rng.choice([2, 2, 3])
    for _ in range(n):
        a = gen_type(rng, depth - 1)
        for b in (a[1] if a[0] == "union" else [a]):
            if b not in arms:
                arms.append(b)
    if k == "optional" and ("base", "None") not in arms:
        arms.append(("base", "None"))
    # typing.Union compares arms with == (so e.g. List[int] twice collapses): ASTs are structural, same thing
    if len(arms) < 2:
        return arms[0]
    return ("union", tuple(arms))


def sibling(rng, t):
    """A type near t: same shape with one constructor or base class swapped."""
    k = t[0]
    if k == "base":
        near = {"int": ["float", "bool", "str"], "float": ["int", "str"], "bool": ["int", "None"], "str": ["Path", "bytes", "File", "int"],
                "bytes": ["str", "int"], "Path": ["str", "File"], "File": ["TextFile", "Directory", "Path", "str"],
                "TextFile": ["File", "str"], "Directory": ["File", "str"], "None": ["bool", "int"], "Any": ["int", "str"]}
        return ("base", rng.choice(near[t[1]]))
    if rng.random() < 0.5:
        # swap the container
        inner = t[2] if k in ("dict", "set") else (t[1][0] if k in ("tuple", "union") else t[1])
        c = rng.choice(["list", "tuplevar", "set", "tuple", "multi"])
        if c == "set":
            return ("set", rng.random() < 0.3, inner)
        if c == "tuple":
            return ("tuple", (inner,) * rng.choice([1, 2]))
        return (c, inner)
    if k in ("tuple", "union"):
        i = rng.randrange(len(t[1]))
        arms = list(t[1])
        arms[i] = sibling(rng, arms[i])
        if k == "union":
            flat = []
            for a in arms:
                for b in (a[1] if a[0] == "union" else [a]):
                    if b not in flat:
                        flat.append(b)
            return flat[0] if len(flat) < 2 else ("union", tuple(flat))
        return (k, tuple(arms))
    if k == "dict":
        return ("dict", t[1], sibling(rng, t[2])) if rng.random() < 0.6 else ("dict", sibling(rng, t[1]), t[2])
    if k == "set":
        return ("set", t[1], sibling(rng, t[2]))
    return (k, sibling(rng, t[1]))


# ------------------------------------------------------------------------------------------- values
INTS = [0, 1, 2, -3, 7, 97, 98, 255, 256, 300]
FLOATS = [0.0, 1.0, 2.0, -1.0, 97.0]
STRS = ["", "a", "abc", "ab", "a b", "x/y.txt", "a//b/", "$R/a.txt", "$R/b.dat", "$R/d", "$R//c.txt", "$R/missing.txt"]
BYTES = ["", "a", "ab", "abc"]
PATHS = ["a", "x/y.txt", "$R/a.txt", "$R/b.dat", "$R/d", "$R/missing.txt", "."]
FILES = {"File": ["$R/a.txt", "$R/b.dat", "$R/c.txt"], "TextFile": ["$R/a.txt", "$R/c.txt"], "Directory": ["$R/d", "$R"]}


SUB_OF = {"str": ["StrSub", "Colour", "numpy.str_"], "bytes": ["BytesSub"], "int": ["IntSub", "numpy.int64"],
          "float": ["FloatSub", "numpy.float64"], "list": ["ListSub"], "tuple": ["TupleSub"], "set": ["SetSub"],
          "frozenset": ["FrozensetSub"], "dict": ["DictSub"], "path": ["PathSub"]}
P_SUB = 0.12          # share of values that are instances of a registered subclass instead of the exact builtin


def maybe_sub(rng, v):
    """Now and then replace a value of an exact builtin class by an instance of a registered subclass of it."""
    names = SUB_OF.get(v[0])
    if not names or rng.random() >= P_SUB:
        return v
    reg = {n for n, _, _ in translate_tables.registered()}
    name = rng.choice([n for n in names if n in reg])
    if name == "Colour":
        return ("sub", "Colour", ("str", rng.choice(["red", "a-b"])))
    return ("sub", name, v)


def v_hashable(v):
    k = v[0]
    if k == "sub":
        return v_hashable(v[2])
    if k in ("list", "dict", "set"):
        return False
    if k == "tuple":
        return all(v_hashable(x) for x in v[1])
    return True


def gen_scalar(rng, name):
    if name == "None":
        return ("none",)
    if name == "bool":
        return ("bool", rng.random() < 0.5)
    if name == "int":
        return maybe_sub(rng, ("int", rng.choice(INTS))) if rng.random() < 0.85 else ("bool", rng.random() < 0.5)
    if name == "float":
        return maybe_sub(rng, ("float", rng.choice(FLOATS)))
    if name == "str":
        return maybe_sub(rng, ("str", rng.choice(STRS)))
    if name == "bytes":
        return maybe_sub(rng, ("bytes", rng.choice(BYTES)))
    if name == "Path":
        return maybe_sub(rng, ("path", rng.choice(PATHS)))
    if name == "File":
        f = rng.choice(["File", "File", "TextFile"])
        return ("file", f, rng.choice(FILES[f]))
    if name in ("TextFile", "Directory"):
        return ("file", name, rng.choice(FILES[name]))
    # Any
    return gen_value(rng, gen_type(rng, 1), 1) if rng.random() < 0.4 else gen_scalar(
        rng, rng.choice(["int", "str", "float", "bool", "None", "bytes", "Path"]))


def gen_value(rng, t, depth=3):
    """A value of type t (conforming, up to the generator's taste for boundary cases)."""
    k = t[0]
    if k == "base":
        return gen_scalar(rng, t[1])
    if k == "union":
        return gen_value(rng, rng.choice(t[1]), depth)
    return maybe_sub(rng, gen_container(rng, t, depth))


def gen_container(rng, t, depth):
    k = t[0]
    n = rng.choice([0, 1, 1, 2, 2, 3])
    if k in ("list", "multi"):
        return ("list", tuple(gen_value(rng, t[1], depth - 1) for _ in range(n)))
    if k == "tuplevar":
        return ("tuple", tuple(gen_value(rng, t[1], depth - 1) for _ in range(n)))
    if k == "tuple":
        return ("tuple", tuple(gen_value(rng, a, depth - 1) for a in t[1]))
    if k == "set":
        items = []
        for _ in range(n):
            x = gen_value(rng, t[2], depth - 1)
            if v_hashable(x):
                items.append(x)
        return ("frozenset" if t[1] else "set", tuple(items))
    if k == "dict":
        items = []
        for _ in range(n):
            a = gen_value(rng, t[1], depth - 1)
            if v_hashable(a):
                items.append((a, gen_value(rng, t[2], depth - 1)))
        return ("dict", tuple(items))
    raise ValueError(t)


def v_norm(v):
    """JSON round trip: lists -> tuples"""
    k = v[0]
    if k == "sub":
        return ("sub", v[1], v_norm(v[2]))
    if k in ("list", "tuple", "set", "frozenset"):
        return (k, tuple(v_norm(x) for x in v[1]))
    if k == "dict":
        return (k, tuple((v_norm(a), v_norm(b)) for a, b in v[1]))
    return tuple(v)


def v_py(v, world):
    """value AST -> Python object"""
    from fileformats.generic import File, Directory
    from fileformats.text import TextFile
    k = v[0]
    if k == "sub":
        cls = {n: c for n, c, _ in translate_tables.registered()}[v[1]]
        return cls(v_py(v[2], world))
    if k == "none":
        return None
    if k in ("bool", "int", "float"):
        return v[1]
    if k == "str":
        return world.expand(v[1])
    if k == "bytes":
        return v[1].encode("latin-1")
    if k == "path":
        return Path(world.expand(v[1]))
    if k == "file":
        return {"File": File, "TextFile": TextFile, "Directory": Directory}[v[1]](world.expand(v[2]))
    if k == "list":
        return [v_py(x, world) for x in v[1]]
    if k == "tuple":
        return tuple(v_py(x, world) for x in v[1])
    if k == "set":
        return set(v_py(x, world) for x in v[1])
    if k == "frozenset":
        return frozenset(v_py(x, world) for x in v[1])
    if k == "dict":
        return {v_py(a, world): v_py(b, world) for a, b in v[1]}
    raise ValueError(v)


class Unencodable(Exception):
    pass


def _registry():
    return {c: (i, shape) for i, (_, c, shape) in enumerate(translate_tables.registered())}


def enc(x):
    """Python object -> Gallina `val` (sets in their actual iteration order). The exact builtin classes and the
    registered (sub)classes only; a registered class is encoded as the shape it behaves like plus its tag."""
    from fileformats.generic import File, Directory
    from fileformats.text import TextFile
    t = type(x)
    if x is None:
        return "VNone"
    if t is bool:
        return "(VBool %s)" % coqio.boolean(x)
    if t in (File, TextFile, Directory):
        f = {File: "FFile", TextFile: "FText", Directory: "FDir"}[t]
        return "(VFile %s %s)" % (f, coqio.string(str(x.fspath)))
    shapes = {int: "CInt", float: "CFloat", str: "CStr", bytes: "CBytes", list: "CList", tuple: "CTuple", set: "CSet",
              frozenset: "CFrozenset", dict: "CDict"}
    if t in shapes:
        tag, shape = "None", shapes[t]
    elif isinstance(x, PurePath) and t.__name__ == "PosixPath":
        tag, shape = "None", "CPath"
    elif t in _registry():
        i, shape = _registry()[t]
        tag = "(Some %d%%nat)" % i
    else:
        raise Unencodable("%s %r" % (t.__name__, x))
    if shape == "CInt":
        return "(VInt %s %s)" % (tag, coqio.z(int(x)))
    if shape == "CFloat":
        f = float(x)
        if f != f or f in (float("inf"), float("-inf")) or f != int(f) or abs(f) >= 1e15:
            raise Unencodable("float %r" % x)
        return "(VFloat %s %s)" % (tag, coqio.z(int(f)))
    if shape == "CStr":
        return "(VStr %s %s)" % (tag, coqio.string(str.encode(x, "utf-8")))
    if shape == "CBytes":
        return "(VBytes %s %s)" % (tag, coqio.string(bytes(x)))
    if shape == "CPath":
        return "(VPath %s %s)" % (tag, coqio.string(os.fspath(x)))
    if shape == "CList":
        return "(VList %s %s)" % (tag, coqio.lst([enc(i) for i in x]))
    if shape == "CTuple":
        return "(VTuple %s %s)" % (tag, coqio.lst([enc(i) for i in x]))
    if shape == "CSet":
        return "(VSet %s false %s)" % (tag, coqio.lst([enc(i) for i in x]))
    if shape == "CFrozenset":
        return "(VSet %s true %s)" % (tag, coqio.lst([enc(i) for i in x]))
    if shape == "CDict":
        return "(VDict %s %s)" % (tag, coqio.lst([coqio.pair(enc(a), enc(b)) for a, b in dict.items(x)]))
    raise Unencodable("%s %r" % (t.__name__, x))


def _show(x):
    """repr, with instances of registered subclasses made visible (repr(StrSub('a')) is just 'a')."""
    t = type(x)
    if t in (list, tuple, set, frozenset):
        inner = ", ".join(_show(i) for i in x)
        if t is tuple:
            return "(%s%s)" % (inner, "," if len(x) == 1 else "")
        if t is list:
            return "[%s]" % inner
        return ("{%s}" % inner if x else "set()") if t is set else "frozenset({%s})" % inner
    if t is dict:
        return "{%s}" % ", ".join("%s: %s" % (_show(a), _show(b)) for a, b in x.items())
    if t in _registry() and t.__name__ not in repr(x):
        base = {"CStr": str, "CBytes": bytes, "CInt": int, "CFloat": float, "CList": list, "CTuple": tuple, "CSet": set,
                "CFrozenset": frozenset, "CDict": dict}.get(_registry()[t][1])
        return "%s(%s)" % (t.__name__, _show(base(x)) if base else repr(x))
    return repr(x)


def show(x, world):
    return world.collapse(_show(x))


def observe(fn):
    """('ok', value) | ('err', 'T' for TypeError, 'O' for anything else, text)"""
    try:
        return ("ok", fn())
    except TypeError as e:
        return ("err", "T", str(e)[:160])
    except Exception as e:          # noqa: BLE001 — every other exception is the same outcome class
        return ("err", "O", "%s: %s" % (type(e).__name__, str(e)[:160]))


def enc_obs(o):
    if o[0] == "ok":
        return "(Ok %s)" % enc(o[1])
    return "(Err ETypeError)" if o[1] == "T" else "(Err EOther)"


def show_obs(o, world):
    return show(o[1], world) if o[0] == "ok" else "raises %s" % ("TypeError" if o[1] == "T" else o[2].split(":")[0])


_TASKS = {}


def task_class(t):
    """A python task definition with one input `x` typed t (the make_converter path)."""
    key = t_norm(t)
    if key not in _TASKS:
        from pydra.compose import python

        def f(x):
            return x
        f.__annotations__ = {"x": t_py(t), "return": ty.Any}
        _TASKS[key] = python.define(f)
    return _TASKS[key]


# ------------------------------------------------------------------------------------------- cases
def gen_case(rng):
    t = gen_type(rng, rng.choice([0, 1, 1, 2, 2, 3]))
    r = rng.random()
    if r < 0.4:
        v = gen_value(rng, t)
    elif r < 0.8:
        s = sibling(rng, t)
        v = gen_value(rng, s)
    else:
        v = gen_value(rng, gen_type(rng, rng.choice([0, 1, 2])))
    return t, v


SEEDS = [
    # the witnesses of (repaired) finding F20 and the corner cases met while building the model
    (("set", False, ("base", "str")), ("str", "abc")),
    (("base", "str"), ("set", (("str", "a"),))),
    (("list", ("base", "int")), ("bytes", "ab")),
    (("base", "bytes"), ("list", (("int", 1), ("int", 300)))),
    (("multi", ("base", "int")), ("bytes", "ab")),
    (("multi", ("base", "str")), ("dict", ((("str", "k"), ("int", 1)),))),
    (("union", (("set", False, ("base", "int")), ("multi", ("base", "int")))), ("frozenset", (("int", 1),))),
    (("union", (("base", "Path"), ("base", "str"))), ("set", (("str", "a"),))),
    (("union", (("base", "File"), ("base", "str"))), ("str", "abc")),
    (("multi", ("base", "File")), ("tuple", (("str", "$R/a.txt"), ("str", "$R/b.dat")))),
    (("base", "File"), ("list", (("path", "$R/a.txt"),))),
    (("base", "File"), ("list", (("path", "$R/a.txt"), ("path", "$R/missing.txt")))),
    (("base", "TextFile"), ("file", "File", "$R/a.txt")),
    (("base", "TextFile"), ("file", "File", "$R/b.dat")),
    (("dict", ("list", ("base", "int")), ("base", "int")), ("dict", ((("tuple", (("int", 1),)), ("int", 2)),))),
    (("set", False, ("base", "float")), ("list", (("int", 1), ("float", 1.0), ("bool", True)))),
    (("base", "bool"), ("int", 2)),
    (("base", "File"), ("str", "")),
    (("base", "File"), ("bytes", "")),
    # instances of subclasses of the builtins (and numpy scalars): isinstance, not type(x) is
    (("multi", ("base", "str")), ("sub", "StrSub", ("str", "abc"))),
    (("multi", ("base", "str")), ("sub", "Colour", ("str", "red"))),
    (("multi", ("base", "Path")), ("sub", "StrSub", ("str", "a b"))),
    (("union", (("multi", ("base", "str")), ("base", "None"))), ("sub", "StrSub", ("str", "ab"))),
    (("multi", ("base", "bytes")), ("sub", "BytesSub", ("bytes", "ab"))),
    (("multi", ("base", "int")), ("sub", "BytesSub", ("bytes", "ab"))),
    (("set", False, ("base", "str")), ("sub", "StrSub", ("str", "abc"))),
    (("list", ("base", "str")), ("sub", "StrSub", ("str", "abc"))),
    (("list", ("base", "float")), ("sub", "ListSub", ("list", (("int", 1), ("int", 2))))),
    (("tuplevar", ("base", "int")), ("sub", "TupleSub", ("tuple", (("int", 1),)))),
    (("dict", ("base", "str"), ("base", "float")), ("sub", "DictSub", ("dict", ((("str", "a"), ("int", 1)),)))),
    (("set", False, ("base", "int")), ("sub", "SetSub", ("set", (("int", 1),)))),
    (("base", "str"), ("sub", "PathSub", ("path", "a"))),
    (("base", "Path"), ("sub", "PathSub", ("path", "x/y.txt"))),
    (("base", "float"), ("sub", "IntSub", ("int", 3))),
]
if any(n == "numpy.str_" for n, _, _ in translate_tables.registered()):
    SEEDS += [
        (("multi", ("base", "str")), ("sub", "numpy.str_", ("str", "x/y.txt"))),
        (("base", "int"), ("sub", "numpy.int64", ("int", 3))),
        (("base", "float"), ("sub", "numpy.int64", ("int", 3))),
        (("list", ("base", "float")), ("list", (("sub", "numpy.float64", ("float", 1.0)), ("sub", "numpy.int64", ("int", 2))))),
        (("multi", ("base", "int")), ("sub", "numpy.int64", ("int", 5))),
    ]


def run_single(ctx, world, cases):
    """cases: list of (type AST, value AST). Returns (coq case terms, meta, tie failures found in Python)."""
    from pydra.utils.typing import TypeParser
    terms, meta, early = [], [], []
    for t, v in cases:
        T = t_py(t)
        x = v_py(v, world)
        m = {"type": t, "value": v, "type_str": t_str(t), "value_repr": show(x, world)}
        try:
            ev = enc(x)
            o_call = observe(lambda: TypeParser(T)(x))
            o_sac = observe(lambda: TypeParser(T, superclass_auto_cast=True)(x))
            K = task_class(t)
            o_field = observe(lambda: K(x=x).x)
            if o_call[0] == "ok":
                y = o_call[1]
                o_again = observe(lambda: TypeParser(T)(y))
            else:
                o_again = o_call
            m.update(call=show_obs(o_call, world), sac=show_obs(o_sac, world), field=show_obs(o_field, world),
                     again=show_obs(o_again, world), accepted=o_call[0] == "ok",
                     changed=o_call[0] == "ok" and show(o_call[1], world) != m["value_repr"])
            terms.append(coqio.pair(t_coq(t), ev, enc_obs(o_call), enc_obs(o_sac), enc_obs(o_field), enc_obs(o_again)))
            meta.append(m)
        except Unencodable as e:
            early.append(Failure(case={"type": t, "value": v}, observed=str(e), expected="a value of the modelled universe",
                                 note="implementation produced a value outside the model's universe", kind="tie"))
    return terms, meta, early


EXTRA = """
Definition case_t := (ty * val * result val * result val * result val * result val)%type.
Definition on_ok (r : result val) (f : val -> bool) : bool := match r with Ok x => f x | Err _ => true end.
Definition tie_call (c : case_t) : bool := let '(t, v, rc, rs, rf, ra) := c in res_tie (coerce live W false t v) rc.
Definition tie_sac (c : case_t) : bool := let '(t, v, rc, rs, rf, ra) := c in res_tie (coerce live W true t v) rs.
Definition tie_field (c : case_t) : bool := let '(t, v, rc, rs, rf, ra) := c in res_tie (assign live W t v) rf.
Definition tie_again (c : case_t) : bool :=
  let '(t, v, rc, rs, rf, ra) := c in
  match rc with Ok x => res_tie (coerce live W false t x) ra | Err _ => true end.
Definition spec_conf (c : case_t) : bool :=
  let '(t, v, rc, rs, rf, ra) := c in
  on_ok rc (conformsb live t) && on_ok rs (conformsb live t) && on_ok rf (conformsb live t).
Definition spec_idem (c : case_t) : bool := let '(t, v, rc, rs, rf, ra) := c in on_ok rc (fun x => res_equiv ra (Ok x)).
Definition spec_nss_full (c : case_t) : bool :=
  let '(t, v, rc, rs, rf, ra) := c in on_ok rc (nss live no_pairs v) && on_ok rf (nss live no_pairs v).
Definition in_idem_domain (c : case_t) : bool := let '(t, v, rc, rs, rf, ra) := c in union_free t.
Definition modelled (c : case_t) : bool :=
  let '(t, v, rc, rs, rf, ra) := c in
  negb (is_unmodelled (coerce live W false t v) || is_unmodelled (coerce live W true t v) || is_unmodelled (assign live W t v)).
"""


def run(ctx):
    rng = ctx.rng
    world = World()
    try:
        n = ctx.budget(1200, 12000)
        cases = [(t_norm(c["type"]), v_norm(c["value"])) for c in ctx.corpus() if "type" in c]
        cases += SEEDS
        while len(cases) < n:
            cases.append(gen_case(rng))
        cases = [(canon(t), v) for t, v in cases]
        terms, meta, early = run_single(ctx, world, cases)
        extra = world.coq_fs() + EXTRA
        checks = {"tie_call": "tie_call", "tie_sac": "tie_sac", "tie_field": "tie_field", "tie_again": "tie_again",
                  "spec_conf": "spec_conf", "spec_idem": "spec_idem", "spec_nss_full": "spec_nss_full",
                  "idem_domain": "in_idem_domain", "modelled": "modelled"}
        res = coqio.run_cases(ctx.scratch, "c20", IMPORTS, "case_t", terms, checks, extra=extra, shard=400)
        seen, nontrivial = set(), 0
        dist = {"accepted_unchanged": 0, "accepted_converted": 0, "rejected_TypeError": 0, "rejected_other": 0,
                "types_with_union": 0, "types_with_multi": 0, "types_with_file": 0, "depth0_types": 0}
        for m in meta:
            key = (m["type_str"], m["value_repr"])
            t = m["type"]
            dist["types_with_union"] += t_has(t, "union")
            dist["types_with_multi"] += t_has(t, "multi")
            dist["types_with_file"] += any(b in m["type_str"] for b in ("File", "Directory"))
            dist["depth0_types"] += t[0] == "base"
            if not m["accepted"]:
                dist["rejected_TypeError" if m["call"] == "raises TypeError" else "rejected_other"] += 1
            else:
                dist["accepted_converted" if m["changed"] else "accepted_unchanged"] += 1
            if key not in seen:
                seen.add(key)
                if m["type_str"] != "Any" and (not m["accepted"] or m["changed"]):
                    nontrivial += 1
        out = Outcome(evaluations=len(meta) * 4, distinct_nontrivial=nontrivial, rule=RULE,
                      samples=[{k: m[k] for k in ("type_str", "value_repr", "call", "field", "again")} for m in meta[len(SEEDS):len(SEEDS) + 6]],
                      distribution=dist, traces_validated=len(meta))
        out.extra["distinct_pairs"] = len(seen)
        out.extra["cases_where_the_model_does_not_speak"] = len(res["modelled"])
        out.failures += early

        def case_of(m):
            return {"type": m["type"], "value": m["value"], "type_str": m["type_str"], "value_repr": m["value_repr"]}

        def model_says(m, fn):
            try:
                return coqio.eval_terms(ctx.scratch, "x", IMPORTS, ["%s %s %s" % (
                    fn, t_coq(m["type"]), enc(v_py(m["value"], world)))], extra=world.coq_fs())[0]
            except Exception as e:      # noqa: BLE001
                return "?(%s)" % e
        for name, fn, obs in (("tie_call", "coerce live W false", "call"), ("tie_sac", "coerce live W true", "sac"),
                              ("tie_field", "assign live W", "field"), ("tie_again", None, "again")):
            for i in res[name][:8]:
                m = meta[i]
                out.failures.append(Failure(case=case_of(m), observed={obs: m[obs]},
                                            expected=world.collapse(model_says(m, fn)) if fn else "model of the second coercion",
                                            note="model/impl: %s" % name, kind="tie"))
        for i in res["spec_conf"][:8]:
            m = meta[i]
            out.failures.append(Failure(case=case_of(m), observed={k: m[k] for k in ("call", "sac", "field")},
                                        expected="a value conforming to %s" % m["type_str"],
                                        note="stored value does not conform to the declared type", kind="spec"))
        for i in res["spec_nss_full"][:8]:
            m = meta[i]
            out.failures.append(Failure(case=case_of(m), observed={"call": m["call"], "field": m["field"]},
                                        expected="rejected, or stored without splitting a string / joining a collection",
                                        note="string split into a collection or collection joined into a string", kind="spec"))
        idem_dom = set(range(len(meta))) - set(res["idem_domain"])     # indices where union_free t holds
        for i in res["spec_idem"]:
            m = meta[i]
            known = i not in idem_dom
            if known and sum(1 for f in out.failures if f.finding == "F20c") >= 5:
                continue
            out.failures.append(Failure(case=case_of(m), observed={"first": m["call"], "second": m["again"]},
                                        expected="coercing the accepted value again returns it unchanged",
                                        note="coercion is not idempotent", finding="F20c" if known else None, kind="spec"))
        out.extra["idem_failures"] = len(res["spec_idem"])
        out.merge(run_history(ctx, world))
        return out
    finally:
        world.close()


# ------------------------------------------------------------------------------------------- assignment histories
EXTRA_H = """
Definition hcase_t := (ty * val * list val * list bool * val)%type.
(* construction with v0 (accepted), then x = v for each v; observed: which assignments raised, final value *)
Fixpoint run_hist (t : ty) (cur : val) (vs : list val) : list bool * val :=
  match vs with
  | [] => ([], cur)
  | v :: r => let ok := match assign live W t v with Ok _ => true | Err _ => false end in
              let '(oks, fin) := run_hist t (set_field live W t cur v) r in (ok :: oks, fin)
  end.
Definition tie_hist (c : hcase_t) : bool :=
  let '(t, v0, vs, oks, fin) := c in
  existsb (fun v => is_unmodelled (assign live W t v)) (v0 :: vs) ||
  match assign live W t v0 with
  | Ok x0 => let '(oks', fin') := run_hist t x0 vs in list_eqb Bool.eqb oks oks' && val_equiv fin' fin
  | Err _ => false
  end.
Definition spec_hist (c : hcase_t) : bool := let '(t, v0, vs, oks, fin) := c in conformsb live t fin.
"""


def run_history(ctx, world):
    rng = ctx.rng
    n = ctx.budget(150, 1200)
    terms, meta = [], []
    tries = 0
    while len(terms) < n and tries < n * 20:
        tries += 1
        t = canon(gen_type(rng, rng.choice([0, 1, 2, 2])))
        v0 = gen_value(rng, t)
        K = task_class(t)
        x0 = v_py(v0, world)
        o0 = observe(lambda: K(x=x0))
        if o0[0] != "ok":
            continue
        task = o0[1]
        vs, oks = [], []
        try:
            e0 = enc(x0)
            evs = []
            for _ in range(rng.choice([1, 2, 3])):
                v = gen_case_value(rng, t)
                x = v_py(v, world)
                evs.append(enc(x))
                vs.append(v)

                def setx():
                    task.x = x
                oks.append(observe(setx)[0] == "ok")
            fin = task.x
            terms.append(coqio.pair(t_coq(t), e0, coqio.lst(evs), coqio.lst([coqio.boolean(b) for b in oks]), enc(fin)))
            meta.append({"type": t, "type_str": t_str(t), "v0": v0, "values": vs, "raised": [not b for b in oks],
                         "final": show(fin, world)})
        except Unencodable:
            continue
    out = Outcome(evaluations=sum(len(m["values"]) + 1 for m in meta), distinct_nontrivial=0, traces_validated=len(meta),
                  distribution={"histories": len(meta), "history_assignments_rejected": sum(sum(m["raised"]) for m in meta)})
    if not terms:
        return out
    res = coqio.run_cases(ctx.scratch, "c20h", IMPORTS, "hcase_t", terms, {"tie": "tie_hist", "spec": "spec_hist"},
                          extra=world.coq_fs() + EXTRA_H, shard=400)
    for kind in ("spec", "tie"):
        for i in res[kind][:5]:
            m = meta[i]
            out.failures.append(Failure(case={"type": m["type"], "type_str": m["type_str"], "v0": m["v0"], "values": m["values"]},
                                        observed={"raised": m["raised"], "final": m["final"]},
                                        expected="field value conforming to the type after every assignment" if kind == "spec"
                                        else "Model.Typing.set_field folded over the assignments",
                                        note="field holds a non-conforming value after an assignment history" if kind == "spec"
                                        else "model/impl: assignment history", kind=kind))
    return out


def gen_case_value(rng, t):
    r = rng.random()
    if r < 0.4:
        return gen_value(rng, t)
    if r < 0.8:
        return gen_value(rng, sibling(rng, t))
    return gen_value(rng, gen_type(rng, rng.choice([0, 1, 2])))


# ------------------------------------------------------------------------------------------- replay
def replay(ctx, payload):
    from pydra.utils.typing import TypeParser
    generate_coq(ctx)
    if "case" not in payload:          # a no-failing-input-found report: nothing to re-run, show it
        print(json.dumps(payload, indent=1)[:4000])
        return 0
    c = payload["case"]
    world = World()
    try:
        t = canon(t_norm(c["type"]))
        T = t_py(t)
        print("type :", t_str(t))
        if "values" in c:
            K = task_class(t)
            task = K(x=v_py(v_norm(c["v0"]), world))
            for v in c["values"]:
                x = v_py(v_norm(v), world)
                try:
                    task.x = x
                    print("  x = %s -> %s" % (show(x, world), show(task.x, world)))
                except Exception as e:      # noqa: BLE001
                    print("  x = %s raises %s; field = %s" % (show(x, world), type(e).__name__, show(task.x, world)))
            return 0
        x = v_py(v_norm(c["value"]), world)
        print("value:", show(x, world))
        o = observe(lambda: TypeParser(T)(x))
        print("implementation TypeParser(T)(v)      :", show_obs(o, world))
        K = task_class(t)
        print("implementation task field            :", show_obs(observe(lambda: K(x=x).x), world))
        if o[0] == "ok":
            y = o[1]
            print("implementation TypeParser(T)(result) :", show_obs(observe(lambda: TypeParser(T)(y)), world))
        vals = coqio.eval_terms(ctx.scratch, "replay", IMPORTS,
                                ["coerce live W false %s %s" % (t_coq(t), enc(x)),
                                 "assign live W %s %s" % (t_coq(t), enc(x)),
                                 "match coerce live W false %s %s with Ok x => (conformsb live %s x, nss live no_pairs %s x) | Err _ => (true, true) end"
                                 % (t_coq(t), enc(x), t_coq(t), enc(x))],
                                extra=world.coq_fs())
        print("model coerce :", world.collapse(vals[0]))
        print("model assign :", world.collapse(vals[1]))
        print("spec (conforms, no split/join):", vals[2])
    finally:
        world.close()
    return 0
