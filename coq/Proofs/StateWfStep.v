(* Proofs/StateWfStep.v — C03: one node of the workflow preserves the invariant (separate origins). *)
From Pydra Require Import Base.Prelude Model.StateWf Spec.StateWf Proofs.StateWfLists Proofs.StateWfInv.
Local Open Scope nat_scope.

(* ---------- add_new / up_axes / ups ---------- *)
Lemma add_new_nil a : add_new a [] = a.
Proof. reflexivity. Qed.
Lemma add_new_cons a k ks : add_new a (k :: ks) = add_new (if memk k a then a else a ++ [k]) ks.
Proof. reflexivity. Qed.
Lemma add_new_incl_acc ks : forall a, incl a (add_new a ks).
Proof.
  induction ks as [|k ks IH]; intros a; [apply incl_refl|]. rewrite add_new_cons.
  destruct (memk k a); [apply IH|]. eapply incl_tran; [|apply IH]. apply incl_appl, incl_refl.
Qed.
Lemma add_new_incl_new ks : forall a, incl ks (add_new a ks).
Proof.
  induction ks as [|k ks IH]; intros a; [intros x []|]. rewrite add_new_cons. intros x [<-|Hx].
  - destruct (memk k a) eqn:E; apply add_new_incl_acc; [apply memk_In; exact E | apply in_or_app; right; left; reflexivity].
  - apply IH; exact Hx.
Qed.
Lemma add_new_absorb ks : forall a, incl ks a -> add_new a ks = a.
Proof.
  induction ks as [|k ks IH]; intros a H; [reflexivity|]. rewrite add_new_cons.
  assert (E : memk k a = true) by (apply memk_In, H; left; reflexivity). rewrite E. apply IH.
  intros x Hx; apply H; right; exact Hx.
Qed.
Lemma add_new_fresh ks : forall a, NoDup ks -> (forall k, In k ks -> ~ In k a) -> add_new a ks = a ++ ks.
Proof.
  induction ks as [|k ks IH]; intros a Hnd Hd; [rewrite app_nil_r; reflexivity|]. rewrite add_new_cons.
  inversion Hnd; subst.
  assert (E : memk k a = false) by (apply memk_false, Hd; left; reflexivity). rewrite E.
  rewrite IH; [rewrite <- app_assoc; reflexivity | assumption |].
  intros x Hx Hin. apply in_app_or in Hin. destruct Hin as [Hin|[<-|[]]]; [eapply Hd; [right; exact Hx | exact Hin] | contradiction].
Qed.

Lemma NoDup_app_singleton {A} (a : list A) x : NoDup a -> ~ In x a -> NoDup (a ++ [x]).
Proof.
  induction a as [|y a IH]; intros Hnd Hx; cbn; [constructor; [intros []| constructor]|].
  inversion Hnd; subst. constructor.
  - intros H. apply in_app_or in H. destruct H as [H|[<-|[]]]; [contradiction | apply Hx; left; reflexivity].
  - apply IH; [assumption | intros H; apply Hx; right; exact H].
Qed.

Lemma pairwise_spec {A} (ok : A -> A -> bool) l :
  pairwise ok l = true -> forall x y, In x l -> In y l -> x <> y -> ok x y = true.
Proof.
  induction l as [|z l IH]; intros H x y Hx Hy Hne; [contradiction|].
  cbn in H. apply andb_true_iff in H. destruct H as [H1 H2]. rewrite forallb_forall in H1.
  destruct Hx as [<-|Hx], Hy as [<-|Hy].
  - contradiction.
  - specialize (H1 y Hy). apply andb_true_iff in H1. tauto.
  - specialize (H1 x Hx). apply andb_true_iff in H1. tauto.
  - apply IH; assumption.
Qed.

Section Tables.
Variable wf : workflow.

Definition F (stab : list sentry) (x : nat) : list key := s_faxes_of stab x.

(* ups: membership and absence of repetitions *)
Definition ups_step (stab : list sentry) (a : list nat) (b : binding) : list nat :=
  match b with
  | BUp j => if is_nil (s_faxes_of stab j) || memn j a then a else a ++ [j]
  | _ => a
  end.
Lemma ups_unfold stab fields : ups stab fields = fold_left (ups_step stab) fields [].
Proof. reflexivity. Qed.

Lemma ups_fold_spec stab fields : forall a,
  NoDup a ->
  NoDup (fold_left (ups_step stab) fields a) /\
  (forall x, In x (fold_left (ups_step stab) fields a) <-> In x a \/ (In (BUp x) fields /\ F stab x <> [])).
Proof.
  induction fields as [|b fields IH]; intros a Hnd.
  - cbn. split; [assumption|]. intros x. split; [auto | intros [H|[[] _]]; exact H].
  - cbn [fold_left].
    assert (Hnd' : NoDup (ups_step stab a b)).
    { destruct b; cbn; try assumption. destruct (is_nil (s_faxes_of stab j) || memn j a) eqn:E; [assumption|].
      apply orb_false_iff in E. destruct E as [_ E]. apply memn_false in E.
      apply NoDup_app_singleton; assumption. }
    destruct (IH _ Hnd') as [H1 H2]. split; [exact H1|]. intros x. rewrite H2. clear H1 H2 IH.
    destruct b as [z|vs|j]; cbn [ups_step In].
    + split; [intros [H|[H1 H2]]; [left; exact H | right; split; [right; exact H1 | exact H2]] | intros [H|[[H1|H1] H2]]; [left; exact H | discriminate H1 | right; split; assumption]].
    + split; [intros [H|[H1 H2]]; [left; exact H | right; split; [right; exact H1 | exact H2]] | intros [H|[[H1|H1] H2]]; [left; exact H | discriminate H1 | right; split; assumption]].
    + destruct (is_nil (s_faxes_of stab j)) eqn:EN; cbn [orb].
      * apply is_nil_true in EN. split.
        -- intros [H|[H1 H2]]; [left; exact H | right; split; [right; exact H1 | exact H2]].
        -- intros [H|[[H1|H1] H2]]; [left; exact H | inversion H1; subst; unfold F in H2; contradiction | right; split; assumption].
      * apply is_nil_false in EN. destruct (memn j a) eqn:EM.
        -- apply memn_In in EM. split.
           ++ intros [H|[H1 H2]]; [left; exact H | right; split; [right; exact H1 | exact H2]].
           ++ intros [H|[[H1|H1] H2]]; [left; exact H | inversion H1; subst; left; exact EM | right; split; assumption].
        -- split.
           ++ intros [H|[H1 H2]].
              ** apply in_app_or in H. destruct H as [H|[<-|[]]]; [left; exact H | right; split; [left; reflexivity | exact EN]].
              ** right; split; [right; exact H1 | exact H2].
           ++ intros [H|[[H1|H1] H2]].
              ** left. apply in_or_app. left; exact H.
              ** inversion H1; subst. left. apply in_or_app. right; left; reflexivity.
              ** right; split; assumption.
Qed.
Lemma ups_nodup stab fields : NoDup (ups stab fields).
Proof. rewrite ups_unfold. apply ups_fold_spec. constructor. Qed.
Lemma ups_in stab fields x : In x (ups stab fields) <-> In (BUp x) fields /\ F stab x <> [].
Proof. rewrite ups_unfold. destruct (ups_fold_spec stab fields [] (NoDup_nil _)) as [_ H]. rewrite H. cbn. tauto. Qed.

(* ---------- other_states as wired by the model ---------- *)
Lemma add_other_fst o j f : map fst (add_other o j f) = if memn j (map fst o) then map fst o else map fst o ++ [j].
Proof.
  induction o as [|[j' fl] o IH]; [reflexivity|].
  cbn [add_other map fst]. unfold memn in *. cbn [existsb]. rewrite (Nat.eqb_sym j j').
  destruct (Nat.eqb j' j) eqn:E; cbn [orb map fst]; [reflexivity|]. rewrite IH.
  destruct (existsb (Nat.eqb j) (map fst o)); reflexivity.
Qed.
Lemma fields_of_add_other o j f x :
  fields_of (add_other o j f) x = if Nat.eqb x j then fields_of o j ++ [f] else fields_of o x.
Proof.
  unfold fields_of. induction o as [|[j' fl] o IH]; cbn.
  - rewrite (Nat.eqb_sym j x). destruct (Nat.eqb x j); reflexivity.
  - destruct (Nat.eqb j' j) eqn:E; cbn.
    + apply Nat.eqb_eq in E; subst j'. destruct (Nat.eqb j x) eqn:E2.
      * apply Nat.eqb_eq in E2; subst. rewrite Nat.eqb_refl. reflexivity.
      * rewrite (Nat.eqb_sym x j), E2. reflexivity.
    + destruct (Nat.eqb j' x) eqn:E2.
      * apply Nat.eqb_eq in E2; subst j'. rewrite E. reflexivity.
      * exact IH.
Qed.

Section Upstream.
Variables (mtab : list mnode) (stab : list sentry).

Lemma upstream_from_spec : forall fields f0 o,
  (forall x, In (BUp x) fields -> ent_rpnf mtab x = s_faxes_of stab x) ->
  map fst (upstream_from mtab f0 fields o) = fold_left (ups_step stab) fields (map fst o) /\
  (forall x f, In f (fields_of (upstream_from mtab f0 fields o) x) <->
               In f (fields_of o x) \/ (exists i, f = f0 + i /\ nth_error fields i = Some (BUp x) /\ F stab x <> [])).
Proof.
  induction fields as [|b fields IH]; intros f0 o HR.
  - cbn. split; [reflexivity|]. intros x f. split; [auto|]. intros [H|[i [_ [H _]]]]; [exact H | destruct i; discriminate H].
  - assert (HR' : forall x, In (BUp x) fields -> ent_rpnf mtab x = s_faxes_of stab x) by (intros x Hx; apply HR; right; exact Hx).
    assert (shift : forall (o' : list (nat * list nat)) x f,
      (In f (fields_of o' x) \/ (exists i, f = S f0 + i /\ nth_error fields i = Some (BUp x) /\ F stab x <> [])) ->
      fields_of o' x = fields_of o x ->
      In f (fields_of o x) \/ (exists i, f = f0 + i /\ nth_error (b :: fields) i = Some (BUp x) /\ F stab x <> [])).
    { intros o' x f [H|[i [H1 [H2 H3]]]] E; [left; rewrite <- E; exact H|]. right. exists (S i). split; [lia|]. split; assumption. }
    destruct b as [z|vs|j]; cbn [upstream_from fold_left ups_step].
    + destruct (IH (S f0) o HR') as [H1 H2]. split; [exact H1|]. intros x f. rewrite H2. split.
      * intros H. apply (shift o); [exact H | reflexivity].
      * intros [H|[i [E1 [E2 E3]]]]; [left; exact H|]. destruct i as [|i]; [discriminate E2|]. right. exists i. split; [lia | split; assumption].
    + destruct (IH (S f0) o HR') as [H1 H2]. split; [exact H1|]. intros x f. rewrite H2. split.
      * intros H. apply (shift o); [exact H | reflexivity].
      * intros [H|[i [E1 [E2 E3]]]]; [left; exact H|]. destruct i as [|i]; [discriminate E2|]. right. exists i. split; [lia | split; assumption].
    + rewrite (HR j (or_introl eq_refl)).
      destruct (is_nil (s_faxes_of stab j)) eqn:EN; cbn [orb].
      * destruct (IH (S f0) o HR') as [H1 H2]. split; [exact H1|]. intros x f. rewrite H2. split.
        -- intros H. apply (shift o); [exact H | reflexivity].
        -- intros [H|[i [E1 [E2 E3]]]]; [left; exact H|]. destruct i as [|i].
           ++ inversion E2; subst. apply is_nil_true in EN. unfold F in E3. contradiction.
           ++ right. exists i. split; [lia | split; assumption].
      * destruct (IH (S f0) (add_other o j f0) HR') as [H1 H2]. split.
        -- rewrite H1, add_other_fst. destruct (memn j (map fst o)); reflexivity.
        -- intros x f. rewrite H2, fields_of_add_other. destruct (Nat.eqb x j) eqn:EX.
           ++ apply Nat.eqb_eq in EX; subst x. split.
              ** intros [H|[i [E1 [E2 E3]]]].
                 --- apply in_app_or in H. destruct H as [H|[<-|[]]]; [left; exact H|]. right. exists 0. split; [lia|]. split; [reflexivity|]. apply is_nil_false; exact EN.
                 --- right. exists (S i). split; [lia | split; assumption].
              ** intros [H|[i [E1 [E2 E3]]]]; [left; apply in_or_app; left; exact H|]. destruct i as [|i].
                 --- left. apply in_or_app. right. left. lia.
                 --- right. exists i. split; [lia | split; assumption].
           ++ split.
              ** intros [H|[i [E1 [E2 E3]]]]; [left; exact H|]. right. exists (S i). split; [lia | split; assumption].
              ** intros [H|[i [E1 [E2 E3]]]]; [left; exact H|]. destruct i as [|i].
                 --- inversion E2; subst. rewrite Nat.eqb_refl in EX. discriminate EX.
                 --- right. exists i. split; [lia | split; assumption].
Qed.

Lemma upstream_fst fields :
  (forall x, In (BUp x) fields -> ent_rpnf mtab x = s_faxes_of stab x) ->
  map fst (upstream mtab fields) = ups stab fields.
Proof. intros HR. unfold upstream. destruct (upstream_from_spec fields 0 [] HR) as [H _]. exact H. Qed.
Lemma upstream_fields fields x f :
  (forall x, In (BUp x) fields -> ent_rpnf mtab x = s_faxes_of stab x) ->
  In f (fields_of (upstream mtab fields) x) <-> nth_error fields f = Some (BUp x) /\ F stab x <> [].
Proof.
  intros HR. unfold upstream. destruct (upstream_from_spec fields 0 [] HR) as [_ H]. rewrite H. cbn. split.
  - intros [[]|[i [-> [H1 H2]]]]. split; assumption.
  - intros [H1 H2]. right. exists f. split; [reflexivity | split; assumption].
Qed.

(* no field is listed twice *)
Lemma upstream_from_nodup : forall fields f0 o,
  (forall x, NoDup (fields_of o x) /\ forall f, In f (fields_of o x) -> f < f0) ->
  forall x, NoDup (fields_of (upstream_from mtab f0 fields o) x).
Proof.
  induction fields as [|b fields IH]; intros f0 o H x; [apply H|].
  destruct b as [z|vs|j]; cbn [upstream_from].
  - apply IH. intros y. destruct (H y) as [H1 H2]. split; [exact H1 | intros f Hf; specialize (H2 f Hf); lia].
  - apply IH. intros y. destruct (H y) as [H1 H2]. split; [exact H1 | intros f Hf; specialize (H2 f Hf); lia].
  - destruct (is_nil (ent_rpnf mtab j)).
    + apply IH. intros y. destruct (H y) as [H1 H2]. split; [exact H1 | intros f Hf; specialize (H2 f Hf); lia].
    + apply IH. intros y. rewrite fields_of_add_other. destruct (Nat.eqb y j).
      * destruct (H j) as [H1 H2]. split.
        -- apply NoDup_app_singleton; [exact H1|]. intros Hf. specialize (H2 _ Hf). lia.
        -- intros f Hf. apply in_app_or in Hf. destruct Hf as [Hf|[<-|[]]]; [specialize (H2 f Hf); lia | lia].
      * destruct (H y) as [H1 H2]. split; [exact H1 | intros f Hf; specialize (H2 f Hf); lia].
Qed.
Lemma upstream_nodup fields x : NoDup (fields_of (upstream mtab fields) x).
Proof. unfold upstream. apply upstream_from_nodup. intros y. cbn. split; [constructor | intros f []]. Qed.
End Upstream.

(* ---------- tables ---------- *)
Definition fields_lt : Prop :=
  forall j nd, nth_error wf j = Some nd -> forall x, In (BUp x) (n_fields nd) -> x < j.

Definition tab_ok (mtab : list mnode) (stab : list sentry) : Prop :=
  List.length mtab = List.length stab /\
  forall j nd me se, nth_error wf j = Some nd -> nth_error mtab j = Some me -> nth_error stab j = Some se ->
                     entry_ok wf stab j nd me se.

Lemma s_faxes_of_app stab ext x : x < List.length stab -> s_faxes_of (stab ++ ext) x = s_faxes_of stab x.
Proof. intros H. unfold s_faxes_of. rewrite nth_error_app1 by exact H. reflexivity. Qed.
Lemma s_out_of_app stab ext x rho : x < List.length stab -> s_out_of (stab ++ ext) x rho = s_out_of stab x rho.
Proof. intros H. unfold s_out_of. rewrite nth_error_app1 by exact H. reflexivity. Qed.
Lemma fold_left_ext_in {A B} (f g : A -> B -> A) l : forall a,
  (forall a b, In b l -> f a b = g a b) -> fold_left f l a = fold_left g l a.
Proof.
  induction l as [|b l IH]; intros a H; [reflexivity|]. cbn. rewrite (H a b (or_introl eq_refl)).
  apply IH. intros a' b' Hb. apply H. right; exact Hb.
Qed.
Lemma ups_ext stab ext fields :
  (forall x, In (BUp x) fields -> x < List.length stab) -> ups (stab ++ ext) fields = ups stab fields.
Proof.
  intros H. unfold ups. apply fold_left_ext_in. intros a b Hb. destruct b as [z|vs|j]; try reflexivity.
  rewrite s_faxes_of_app by (apply H; exact Hb). reflexivity.
Qed.
Lemma up_axes_ext stab ext fields :
  (forall x, In (BUp x) fields -> x < List.length stab) -> up_axes (stab ++ ext) fields = up_axes stab fields.
Proof.
  intros H. unfold up_axes. apply fold_left_ext_in. intros a b Hb. destruct b as [z|vs|j]; try reflexivity.
  rewrite s_faxes_of_app by (apply H; exact Hb). reflexivity.
Qed.
Lemma entry_ok_ext stab ext j nd me se :
  (forall x, In (BUp x) (n_fields nd) -> x < List.length stab) ->
  entry_ok wf stab j nd me se -> entry_ok wf (stab ++ ext) j nd me se.
Proof.
  intros HL [H1 H2 H2' H3 H4 H5 H6 H7 H8]. constructor; try assumption.
  - rewrite up_axes_ext by exact HL. exact H2'.
  - intros HA. destruct (H8 HA) as [s [E [S1 S2 S3 S4 S5 S6 S7 S8 S9 S10 S11 S12]]]. exists s. split; [exact E|].
    constructor; try assumption; rewrite ups_ext by exact HL; assumption.
Qed.

(* ---------- _add_state_history / both passes leave separate origins alone ---------- *)
Lemma fold_left_fix {A B} (f : A -> B -> A) l a : (forall b, In b l -> f a b = a) -> fold_left f l a = a.
Proof.
  induction l as [|b l IH]; intros H; [reflexivity|]. cbn. rewrite (H b (or_introl eq_refl)). apply IH.
  intros b' Hb. apply H. right; exact Hb.
Qed.
Lemma history_id mtab prev other :
  (forall el, In el prev ->
     filter (fun x => memn x (filter (fun e => is_nil (ent_other mtab e)) prev)) (ent_prev mtab el) = []) ->
  history mtab prev other = Some (prev, other).
Proof.
  intros H. unfold history.
  rewrite (fold_left_fix _ _ (Some (prev, other))).
  - apply fold_left_fix. intros el Hel. apply filter_In in Hel. rewrite (H el (proj1 Hel)). reflexivity.
  - intros el Hel. apply filter_In in Hel. rewrite (H el (proj1 Hel)). reflexivity.
Qed.
Lemma filter_not_mem_self l : filter (fun m => negb (memn m l)) l = [].
Proof.
  assert (G : forall l', incl l' l -> filter (fun m => negb (memn m l)) l' = []).
  { induction l' as [|x l' IH]; intros Hi; [reflexivity|]. cbn.
    assert (E : memn x l = true) by (apply memn_In, Hi; left; reflexivity). rewrite E. cbn. apply IH.
    intros y Hy; apply Hi; right; exact Hy. }
  apply G, incl_refl.
Qed.
Lemma connect_id mtab other :
  (forall el, In el (map fst other) ->
     filter (fun x => memn x (filter (fun e => is_nil (ent_other mtab e)) (map fst other))) (ent_prev mtab el) = []) ->
  connect mtab other = Some (map fst other, other).
Proof.
  intros H. unfold connect. rewrite (history_id _ _ _ H). rewrite filter_not_mem_self.
  destruct (Nat.leb 2 (List.length (map fst other))); [apply history_id; exact H | reflexivity].
Qed.
End Tables.
