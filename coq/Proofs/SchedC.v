(* Proofs/SchedC.v — one poll (Submitter.get_runnable_tasks) preserves the scheduler invariant. *)
From Pydra Require Import Base.Prelude Base.SchedBase Model.Sched Spec.Sched Proofs.SchedA Proofs.SchedSpec Proofs.SchedB.
Local Open Scope nat_scope.

Section Inv.
Variable V : Type.
Variable body : nat -> nat -> list (list (option V)) -> V.
Variable fails : job -> bool.
Variable vr : variant.
Hypothesis F14 : fix14 vr = true.
Variable g : graph.
Hypothesis WF : wf_graph g.
Variable kmax : option nat.

Notation world := (world V).
Notation nstate := (nstate V).
Notation sstate := (sstate V).
Notation NInv := (NInv V fails g).
Notation upstream_ok := (upstream_ok V g).
Notation Fresh := (@Fresh V).
Notation members := (@members V).
Notation UpdSpec := (UpdSpec V fails g).

(* results agree with the fixed set of failing jobs *)
Definition WInv (w : world) : Prop :=
  forall j, (is_ok w j = true -> fails j = false) /\ (is_err w j = true -> fails j = true).

Record GInv (w : world) (ss : sstate) : Prop := {
  gi_raised : raised ss = false;
  gi_node : forall n, NInv w n (nst ss n);
  gi_preds : forall nd, In nd g -> started_flag (nst ss (nid nd)) = true -> unrunnable (nst ss (nid nd)) = false ->
             forall p, In p (npreds nd) ->
             started_flag (nst ss p) = true /\ unrunnable (nst ss p) = false
}.

Lemma set_ns_same (st : nstates V) n s : set_ns st n s n = s.
Proof. unfold set_ns. rewrite Nat.eqb_refl. reflexivity. Qed.
Lemma set_ns_other (st : nstates V) n s m : m <> n -> set_ns st n s m = st m.
Proof. unfold set_ns. intros H. apply Nat.eqb_neq in H. rewrite H. reflexivity. Qed.

Lemma nst_update (w : world) ss p m :
  nst (update vr w ss p) m = if m =? p then fst (update_ns vr w p (nst ss p)) else nst ss m.
Proof. unfold update. destruct (update_ns vr w p (nst ss p)) as [s r]. cbn. unfold set_ns. reflexivity. Qed.
Lemma raised_update (w : world) ss p :
  raised (update vr w ss p) = raised ss || snd (update_ns vr w p (nst ss p)).
Proof. unfold update. destruct (update_ns vr w p (nst ss p)) as [s r]. reflexivity. Qed.
Lemma polls_update (w : world) ss p : polls (update vr w ss p) = polls ss.
Proof. unfold update. destruct (update_ns vr w p (nst ss p)) as [s r]. reflexivity. Qed.

(* two node-state maps that differ only by update_status steps *)
Definition same_shape (st st' : nstates V) : Prop :=
  forall m, started_flag (st' m) = started_flag (st m) /\ unrunnable (st' m) = unrunnable (st m).

Lemma GInv_shape (w : world) ss ss' :
  GInv w ss -> raised ss' = false -> (forall n, NInv w n (nst ss' n)) -> same_shape (nst ss) (nst ss') ->
  GInv w ss'.
Proof.
  intros G R N S. constructor; auto.
  intros nd Hnd Fl U p Hp. destruct (S (nid nd)) as [A B]. destruct (S p) as [C D].
  rewrite A in Fl. rewrite B in U. destruct (gi_preds _ _ G nd Hnd Fl U p Hp). rewrite C, D. auto.
Qed.

Lemma update_spec (w : world) ss p :
  GInv w ss ->
  GInv w (update vr w ss p)
  /\ Fresh w p (nst (update vr w ss p) p)
  /\ (forall m, m <> p -> nst (update vr w ss p) m = nst ss m)
  /\ (forall m, Fresh w m (nst ss m) -> nst (update vr w ss p) m = nst ss m)
  /\ UpdSpec w p (nst ss p) (nst (update vr w ss p) p).
Proof.
  intros G. destruct (update_ns_spec V body fails vr F14 g w p (nst ss p) (gi_node _ _ G p)) as [R U].
  assert (Hm : forall m, m <> p -> nst (update vr w ss p) m = nst ss m).
  { intros m Hm. rewrite nst_update. apply Nat.eqb_neq in Hm. rewrite Hm. reflexivity. }
  assert (Hp : nst (update vr w ss p) p = fst (update_ns vr w p (nst ss p))).
  { rewrite nst_update, Nat.eqb_refl. reflexivity. }
  split; [|split; [|split; [|split]]].
  - apply GInv_shape with (ss := ss); auto.
    + rewrite raised_update, R, (gi_raised _ _ G). reflexivity.
    + intros n. destruct (Nat.eq_dec n p) as [->|Ne].
      * rewrite Hp. apply (us_inv _ _ _ _ _ _ _ U).
      * rewrite (Hm n Ne). apply (gi_node _ _ G).
    + intros m. destruct (Nat.eq_dec m p) as [->|Ne].
      * rewrite Hp. split; [apply (us_flag _ _ _ _ _ _ _ U)|apply (us_unr _ _ _ _ _ _ _ U)].
      * rewrite (Hm m Ne). auto.
  - rewrite Hp. apply (us_fresh _ _ _ _ _ _ _ U).
  - exact Hm.
  - intros m Fm. destruct (Nat.eq_dec m p) as [->|Ne]; [|apply Hm; exact Ne].
    rewrite Hp. apply (update_ns_fresh V vr F14 w p (nst ss p) Fm).
  - rewrite Hp. exact U.
Qed.

Lemma all_done_spec (w : world) ps : forall ss,
  GInv w ss ->
  GInv w (fst (all_done vr w ss ps))
  /\ (forall m, (~ In m ps \/ Fresh w m (nst ss m)) -> nst (fst (all_done vr w ss ps)) m = nst ss m)
  /\ (snd (all_done vr w ss ps) = true -> forall p, In p ps -> done_ns (nst (fst (all_done vr w ss ps)) p) = true).
Proof.
  induction ps as [|p ps IH]; intros ss G; cbn.
  - split; [exact G|split; [reflexivity|intros _ p []]].
  - destruct (update_spec w ss p G) as [G1 [F1 [O1 [K1 _]]]].
    destruct (done_ns (nst (update vr w ss p) p)) eqn:D.
    + destruct (IH _ G1) as [G2 [K2 D2]]. split; [exact G2|split].
      * intros m [Hm|Hm].
        -- rewrite K2; [|left; intros H; apply Hm; right; exact H]. apply O1. intros ->. apply Hm. left; reflexivity.
        -- rewrite K2; [apply K1; exact Hm|]. right. rewrite (K1 m Hm). exact Hm.
      * intros A q [<-|Hq]; [|apply D2; auto].
        rewrite K2; [exact D|]. right. exact F1.
    + cbn. split; [exact G1|split].
      * intros m [Hm|Hm]; [apply O1; intros ->; apply Hm; left; reflexivity|apply K1; exact Hm].
      * discriminate.
Qed.

(* a predecessor that is done, has nothing errored and is not unrunnable has all its jobs successful *)
Lemma done_clean_ok (w : world) p (s : nstate) :
  NInv w p s -> done_ns s = true -> errored s = [] -> unrunnable s = false ->
  started_flag s = true /\ forall i, i < njobs_of g p -> is_ok w (p, i) = true.
Proof.
  intros I D E U. unfold done_ns in D. rewrite !andb_true_iff, !is_nil_true in D.
  destruct D as [[[St Q] B] R].
  pose proof (is_started_flag V fails g w p s I St) as Fl. split; [exact Fl|].
  intros i Hi. pose proof (ni_part _ _ _ _ _ _ I Fl U i Hi) as M.
  unfold SchedA.members in M. rewrite Q, R, E in M. cbn in M. rewrite app_nil_r in M.
  apply (ni_succ _ _ _ _ _ _ I i M).
Qed.

Lemma has_fail_b_false (w : world) p :
  WInv w -> (forall i, i < njobs_of g p -> is_ok w (p, i) = true) -> has_fail_b g fails p = false.
Proof.
  intros W H. unfold has_fail_b. destruct (existsb _ _) eqn:E; [|reflexivity].
  apply existsb_exists in E. destruct E as [i [Hi Fi]]. apply in_seq in Hi.
  destruct (W (p, i)) as [A _]. rewrite A in Fi; [discriminate|]. apply H. lia.
Qed.

Lemma has_fail_b_true (w : world) p i :
  WInv w -> i < njobs_of g p -> is_err w (p, i) = true -> has_fail_b g fails p = true.
Proof.
  intros W Hi E. unfold has_fail_b. apply existsb_exists. exists i. split; [apply in_seq; lia|].
  destruct (W (p, i)) as [_ B]. auto.
Qed.

Lemma ok_err_excl (w : world) j : is_ok w j = true -> is_err w j = true -> False.
Proof. unfold is_ok, is_err. destruct (probe_job w j); discriminate. Qed.


Lemma in_all_jobs nd i : In nd g -> i < njobs nd -> In (nid nd, i) (all_jobs g).
Proof.
  intros H Hi. unfold all_jobs. apply in_flat_map. exists nd. split; [exact H|].
  unfold jobs_of. apply in_map_iff. exists i. split; [reflexivity|apply in_seq; lia].
Qed.

Lemma njobs_of_nd nd : In nd g -> njobs_of g (nid nd) = njobs nd.
Proof. intros H. unfold njobs_of. rewrite (topo_b_find [] g nd WF H). reflexivity. Qed.

(* NodeExecution.get_runnable_tasks *)
Lemma node_runnable_spec (w : world) ss nd :
  GInv w ss -> WInv w -> In nd g ->
  (forall p, In p (npreds nd) -> Fresh w p (nst ss p)) ->
  Fresh w (nid nd) (nst ss (nid nd)) ->
  GInv w (fst (node_runnable vr g w ss nd))
  /\ (forall m, m <> nid nd -> nst (fst (node_runnable vr g w ss nd)) m = nst ss m)
  /\ (is_started (nst ss (nid nd)) = true -> Fresh w (nid nd) (nst (fst (node_runnable vr g w ss nd)) (nid nd)))
  /\ (forall j, In j (snd (node_runnable vr g w ss nd)) ->
        fst j = nid nd /\ In (snd j) (queued (nst (fst (node_runnable vr g w ss nd)) (nid nd))))
  /\ (started_flag (nst ss (nid nd)) = true -> unrunnable (nst ss (nid nd)) = false ->
      nst (fst (node_runnable vr g w ss nd)) (nid nd) = nst ss (nid nd)).
Proof.
  intros G W Hnd Fp Fn. unfold node_runnable.
  set (n := nid nd) in *.
  pose proof (njobs_of_nd nd Hnd) as Hnj. fold n in Hnj.
  pose proof (topo_b_find [] g nd WF Hnd) as Hfind. fold n in Hfind.
  pose proof (gi_node _ _ G n) as In_.
  destruct (existsb _ (npreds nd)) eqn:EX.
  - (* some predecessor errored / unrunnable: the node becomes unrunnable *)
    apply existsb_exists in EX. destruct EX as [p [Hp Ep]].
    (* the node was not (started and runnable) *)
    assert (Hnot : ~ (started_flag (nst ss n) = true /\ unrunnable (nst ss n) = false)).
    { intros [Fl U]. destruct (gi_preds _ _ G nd Hnd Fl U p Hp) as [Flp Up].
      rewrite Up, orb_false_r, negb_true_iff, is_nil_false in Ep.
      destruct (errored (nst ss p)) as [|i l] eqn:Ee; [congruence|].
      pose proof (gi_node _ _ G p) as Ip.
      assert (Hi : In i (errored (nst ss p))) by (rewrite Ee; left; reflexivity).
      pose proof (ni_err _ _ _ _ _ _ Ip i Hi) as Er.
      assert (Hr : i < njobs_of g p).
      { apply (ni_range _ _ _ _ _ _ Ip). unfold SchedA.members. rewrite !in_app_iff. auto. }
      pose proof (ni_upstream _ _ _ _ _ _ In_ Fl U (p, i) (upstream_jobs_in g n nd p i Hfind Hp Hr)) as Ok.
      exact (ok_err_excl w _ Ok Er). }
    assert (Hmem : SchedA.members V (nst ss n) = []).
    { destruct (started_flag (nst ss n)) eqn:Fl.
      - destruct (unrunnable (nst ss n)) eqn:U; [apply (ni_unr _ _ _ _ _ _ In_ U)|exfalso; apply Hnot; auto].
      - apply (ni_noflag _ _ _ _ _ _ In_ Fl). }
    (* the node is downstream of a failure *)
    assert (Ht : tainted_b g fails n = true).
    { unfold n. rewrite (tainted_char g fails WF nd Hnd). apply existsb_exists. exists p. split; [exact Hp|].
      pose proof (gi_node _ _ G p) as Ip.
      apply orb_true_iff in Ep. destruct Ep as [Ep|Ep].
      - apply negb_true_iff, is_nil_false in Ep. destruct (errored (nst ss p)) as [|i l] eqn:Ee; [congruence|].
        assert (Hi : In i (errored (nst ss p))) by (rewrite Ee; left; reflexivity).
        apply orb_true_iff. right. apply (has_fail_b_true w p i W).
        + apply (ni_range _ _ _ _ _ _ Ip). unfold SchedA.members. rewrite !in_app_iff. auto.
        + apply (ni_err _ _ _ _ _ _ Ip i Hi).
      - apply orb_true_iff. left. apply (ni_taint_unr _ _ _ _ _ _ Ip Ep). }
    set (s := nst ss n) in *.
    set (s1 := mkNS true [] (queued s) (running s) (successful s) (errored s) true (ninputs s)).
    set (ss0 := mkSS (set_ns (nst ss) n s1) (raised ss) (polls ss)).
    destruct (members_nil V s Hmem) as [Hq [Hr [Hs He]]].
    assert (E1 : s1 = mkNS true [] [] [] [] [] true (ninputs s)).
    { unfold s1. rewrite Hq, Hr, Hs, He. reflexivity. }
    assert (I1 : NInv w n s1).
    { rewrite E1. constructor; cbn.
      - intros i [].
      - intros i [].
      - reflexivity.
      - discriminate.
      - reflexivity.
      - discriminate.
      - intros i [].
      - discriminate.
      - discriminate.
      - constructor.
      - intros _. exact Ht.
      - discriminate. }
    assert (G0 : GInv w ss0).
    { constructor.
      - apply (gi_raised _ _ G).
      - intros m. unfold ss0; cbn. destruct (Nat.eq_dec m n) as [->|Ne].
        + rewrite set_ns_same. exact I1.
        + rewrite set_ns_other by exact Ne. apply (gi_node _ _ G).
      - intros nd' Hnd' Fl U q Hq'. unfold ss0 in *; cbn in *.
        destruct (Nat.eq_dec (nid nd') n) as [En|Ne].
        + rewrite En, set_ns_same in U. discriminate.
        + rewrite set_ns_other in Fl, U by exact Ne.
          destruct (gi_preds _ _ G nd' Hnd' Fl U q Hq') as [A B].
          destruct (Nat.eq_dec q n) as [->|Nq].
          * exfalso. apply Hnot. auto.
          * rewrite set_ns_other by exact Nq. auto. }
    destruct (update_spec w ss0 n G0) as [G1 [F1 [O1 [_ U1]]]].
    split; [exact G1|split; [|split; [|split]]]; cbn [fst snd].
    + intros m Hm. rewrite (O1 m Hm). unfold ss0; cbn. apply set_ns_other. exact Hm.
    + intros _. exact F1.
    + intros j Hj. apply in_map_iff in Hj. destruct Hj as [i [<- Hi]]. cbn. auto.
    + intros A B. exfalso. apply Hnot. auto.
  - (* no predecessor errored: are they all done? *)
    destruct (all_done_spec w (npreds nd) ss G) as [G1 [K1 D1]].
    assert (Hsame : forall m, nst (fst (all_done vr w ss (npreds nd))) m = nst ss m).
    { intros m. apply K1. destruct (in_dec Nat.eq_dec m (npreds nd)) as [Hin|Hnin]; [right; apply Fp; exact Hin|left; exact Hnin]. }
    destruct (all_done vr w ss (npreds nd)) as [ss1 alld] eqn:AD. cbn [fst snd] in *.
    destruct alld.
    + (* all predecessors done and clean *)
      assert (Hpred : forall p, In p (npreds nd) ->
                started_flag (nst ss p) = true /\ unrunnable (nst ss p) = false
                /\ (forall i, i < njobs_of g p -> is_ok w (p, i) = true)).
      { intros p Hp. pose proof (D1 eq_refl p Hp) as Dp. rewrite Hsame in Dp.
        assert (Ef : negb (is_nil (errored (nst ss p))) || unrunnable (nst ss p) = false).
        { destruct (negb (is_nil (errored (nst ss p))) || unrunnable (nst ss p)) eqn:X; [|reflexivity].
          assert (existsb (fun p => negb (is_nil (errored (nst ss p))) || unrunnable (nst ss p)) (npreds nd) = true).
          { apply existsb_exists. exists p. auto. }
          congruence. }
        apply orb_false_iff in Ef. destruct Ef as [Ee Eu]. apply negb_false_iff, is_nil_true in Ee.
        destruct (done_clean_ok w p (nst ss p) (gi_node _ _ G p) Dp Ee Eu) as [A B]. auto. }
      assert (Hup : upstream_ok w n).
      { intros q Hq. unfold upstream_jobs in Hq. rewrite Hfind in Hq. apply in_flat_map in Hq.
        destruct Hq as [p [Hp Hq]]. unfold node_jobs in Hq. apply in_map_iff in Hq. destruct Hq as [i [<- Hi]].
        apply in_seq in Hi. destruct (Hpred p Hp) as [_ [_ H]]. apply H. lia. }
      rewrite Hsame. fold n. set (s := nst ss n) in *.
      destruct (is_started s) eqn:St.
      * (* already started: nothing new (blocked is empty) *)
        set (s2 := mkNS (started_flag s) [] (queued s ++ blocked s) (running s) (successful s) (errored s) (unrunnable s) (ninputs s)).
        assert (Es : s2 = s).
        { unfold s2. rewrite (ni_blocked _ _ _ _ _ _ In_), app_nil_r. rewrite <- (ni_blocked _ _ _ _ _ _ In_). destruct s; reflexivity. }
        rewrite Es.
        split; [|split; [|split; [|split]]]; cbn [fst snd].
        -- apply GInv_shape with (ss := ss1); auto.
           ++ cbn. apply (gi_raised _ _ G1).
           ++ intros m. cbn. destruct (Nat.eq_dec m n) as [->|Ne]; [rewrite set_ns_same; exact In_|].
              rewrite set_ns_other by exact Ne. rewrite Hsame. apply (gi_node _ _ G).
           ++ intros m. cbn. destruct (Nat.eq_dec m n) as [->|Ne]; [rewrite set_ns_same, Hsame; auto|].
              rewrite set_ns_other by exact Ne. auto.
        -- intros m Hm. cbn. rewrite set_ns_other by exact Hm. apply Hsame.
        -- intros _. cbn. rewrite set_ns_same. exact Fn.
        -- intros j Hj. apply in_map_iff in Hj. destruct Hj as [i [<- Hi]]. cbn. rewrite set_ns_same. auto.
        -- intros _ _. cbn. rewrite set_ns_same. reflexivity.
      * (* first time: start the node, queue every job *)
        assert (Fl : started_flag s = false).
        { unfold is_started in St. rewrite !orb_false_iff in St. tauto. }
        destruct (ni_noflag _ _ _ _ _ _ In_ Fl) as [Hmem Hu].
        destruct (members_nil V s Hmem) as [Hq [Hr [Hs He]]].
        set (s2 := mkNS _ _ _ _ _ _ _ _).
        assert (E2 : s2 = mkNS true [] (seq 0 (njobs nd)) [] [] [] false (inputs_from V g w nd)).
        { unfold s2, start_ns. cbn. rewrite Hq, Hr, Hs, He, Hu. reflexivity. }
        clearbody s2. subst s2.
        assert (I2 : NInv w n (mkNS true [] (seq 0 (njobs nd)) [] [] [] false (inputs_from V g w nd))).
        { constructor; cbn.
          - intros i [].
          - intros i [].
          - reflexivity.
          - discriminate.
          - discriminate.
          - intros _ _ i Hi. unfold SchedA.members; cbn. rewrite app_nil_r. apply in_seq. lia.
          - intros i Hi. unfold SchedA.members in Hi; cbn in Hi. rewrite app_nil_r in Hi. apply in_seq in Hi. lia.
          - intros _ _. exact Hup.
          - intros _ _ nd' Fd. rewrite Hfind in Fd. inversion Fd. reflexivity.
          - unfold SchedA.members; cbn. rewrite app_nil_r. apply seq_NoDup.
          - discriminate.
          - intros _ _. unfold n. rewrite (tainted_char g fails WF nd Hnd).
            destruct (existsb (fun p => tainted_b g fails p || has_fail_b g fails p) (npreds nd)) eqn:X2; [|reflexivity].
            apply existsb_exists in X2. destruct X2 as [p [Hp X2]]. destruct (Hpred p Hp) as [A [B C]].
            rewrite (ni_taint_run _ _ _ _ _ _ (gi_node _ _ G p) A B) in X2.
            rewrite (has_fail_b_false w p W C) in X2. discriminate. }
        split; [|split; [|split; [|split]]]; cbn [fst snd].
        -- constructor.
           ++ cbn. apply (gi_raised _ _ G1).
           ++ intros m. cbn. destruct (Nat.eq_dec m n) as [->|Ne]; [rewrite set_ns_same; exact I2|].
              rewrite set_ns_other by exact Ne. rewrite Hsame. apply (gi_node _ _ G).
           ++ intros nd' Hnd' Fl' U' q Hq'. cbn in *.
              assert (Hqq : started_flag (nst ss q) = true /\ unrunnable (nst ss q) = false).
              { destruct (Nat.eq_dec (nid nd') n) as [En|Ne].
                - assert (nd' = nd).
                  { pose proof (topo_b_find [] g nd' WF Hnd') as F'. rewrite En in F'. rewrite Hfind in F'. inversion F'; reflexivity. }
                  subst nd'. destruct (Hpred q Hq') as [A [B _]]. auto.
                - rewrite set_ns_other in Fl', U' by exact Ne. rewrite Hsame in Fl', U'.
                  apply (gi_preds _ _ G nd' Hnd' Fl' U' q Hq'). }
              destruct (Nat.eq_dec q n) as [->|Nq]; [rewrite set_ns_same; cbn; auto|].
              rewrite set_ns_other by exact Nq. rewrite Hsame. exact Hqq.
        -- intros m Hm. cbn. rewrite set_ns_other by exact Hm. apply Hsame.
        -- congruence.
        -- intros j Hj. apply in_map_iff in Hj. destruct Hj as [i [<- Hi]]. cbn. rewrite set_ns_same. cbn. auto.
        -- congruence.
    + (* not all done *)
      split; [exact G1|split; [|split; [|split]]]; cbn [fst snd].
      * intros m _. apply Hsame.
      * intros _. rewrite Hsame. exact Fn.
      * intros j Hj. apply in_map_iff in Hj. destruct Hj as [i [<- Hi]]. cbn. auto.
      * intros _ _. apply Hsame.
Qed.

End Inv.
