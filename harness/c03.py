"""C03 — workflow state propagation = nested-loop reference evaluation.

Generates small workflows (chains, fan-in, fan-out, relays, diamonds, combiners at random nodes, split lists of
length 0-3) whose nodes are python tasks returning an injective tag of their inputs, runs them through
Submitter(worker="debug") on the implementation in $VERIF_REPO (fresh interpreters), and lets Coq evaluate the
model (Model/StateWf.v) and the nested-loop spec (Spec/StateWf.v) on the same descriptions.
"""
import json
import os
import subprocess
import sys
import tempfile
import time

from .lib import coqio
from .lib.runner import Outcome, Failure

PROP = "C03"
PROPS_FILE = "Props/C03.v"
IMPORTS = ["Model.StateWf", "Spec.StateWf"]
MANIFEST = dict(
    text="Partial. Coq theorems (closed under the global context) about a hand-written model of how a workflow "
         "node's State is assembled from its upstream states and how its jobs index into upstream results "
         "(other_states wiring, _complete_prev_state in both passes, _add_state_history, [prev, current] product, "
         "keys/states_ind, combiner -> states_ind_final, prepare_inputs/inputs_ind, _split_task, "
         "LazyOutField._get_value). C03_partial2: for every workflow of the modelled fragment (any number of nodes, any "
         "list lengths) in the computable class c03_class2 the model's observable outputs (both outputs of every node) "
         "equal the nested-loop (origin coordinate) evaluation, and zipped fields of different length are rejected. "
         "Fragment: python-task or nested-workflow nodes (a nested workflow is an opaque node), two outputs per node, "
         "every input a constant / own split list / either output of an earlier node, own splitter = outer product of "
         "inner (zip) groups of own fields, combiner = any fields of the node's splitter. Inside the class: inputs of "
         "every node carry separate origins or are exactly a state and its relay; zipped fields have equal length; the "
         "combiner names whole zip groups; no node with a combiner keeps a zip group open. Outside the class (compared "
         "with the spec only, failures are known findings F03 shared origin, F03y partly named zip group, F03z inherited "
         "F02): everything else. Explicit inner pairing (\"_A\",\"_B\") of two upstream states with one open axis each is "
         "modelled and specified (aligned by position, unequal lengths rejected) and generated in ~8% of the cases, but "
         "NOT proved: such nodes are outside c03_class3 and are compared with model and spec differentially only "
         "(C03_partial3 merely carries C03_partial2 over to the observable functions model_run3/spec_run3). C03_refuted: "
         "the full statement is false (diamond, F03). Not modelled: other explicit _Node references, pairing of states with "
         "several open axes, re-splitting of lazy outputs, container_ndim. The model is "
         "tied to the code by running generated workflows with injective tagging tasks through the debug worker (a share "
         "under the cf worker) and evaluating model and spec on the same descriptions inside Coq (vm_compute).",
    note="Trusted: Coq kernel + vm_compute; the hand-written model (leaf sequences instead of RPN for all-outer "
         "splitters; State.splits / remove_inp_from_splitter_rpn / rpn2splitter on such splitters modelled by their "
         "result); the tagging task and canonicaliser; correspondence is differential testing.",
    technique="Coq proof (invariant between the model's index tables and origin-coordinate boxes) + refutation witness "
              "+ model/impl/spec correspondence via generated cases.v",
    design="§8 Group A / C03",
)
TIE_NAME = "Model.StateWf.model_run3 vs pydra Submitter(worker='debug') on the generated workflow (all node outputs)"
TRUSTED = [
    "Model/StateWf.v: hand-written model of Node._get_upstream_states/_set_state, Workflow._create_graph -> "
    "State.update_connections, _complete_prev_state, _remove_repeated, _add_state_history, prepare_states_ind, "
    "prepare_states_combined_ind, prepare_inputs, NodeExecution._split_task, LazyOutField._get_value",
    "modelled, not verified: all-outer splitters are kept as leaf sequences (RPN operators dropped); State.splits, "
    "remove_inp_from_splitter_rpn, rpn2splitter, splits_groups on them are represented by their results (ordered "
    "product / leaf deletion); itertools.product nesting + flatten = concatenation of index tuples; dict(zip()) = "
    "association list, last value wins; exceptions collapse to one error outcome; State.inputs merging = one lookup table",
    "the python tagging task T(nid,a,b,c) -> ('T',nid,a,b,c) and the canonicaliser that turns tuples/lists into VTag/VList",
    "modelled, not verified (second pass): a zip group is represented by its first field (leader): the other fields "
    "carry the same index by construction; combiner closure (combiner_all) = replacing names by leaders (normalize); "
    "per-job output-field selection commutes with list building (outsel); a nested-workflow node is an opaque node",
    "differential only (no theorem): Model.build_pair / Spec.spec_entry_pair for a node pairing two upstream states "
    "(\"_A\",\"_B\") that have one open axis each",
    "not modelled: other explicit '_Node' splitter references, pairing of states with several open axes, splitting over a "
    "lazy output, container_ndim, StateArray typing; remove_inp_from_splitter_rpn's defect on open inner pairs (F03z)",
]
ASSUMPTIONS = [
    "nodes are python tasks or nested workflows with <= 3 inputs and two outputs; own splitter is an outer product of zip groups of own fields",
    "node names N0..N9 (State.current_combiner tests `name in comb` by substring)",
]
RULE = ("generated workflow descriptions (2-5 nodes; per field: constant / own split list of length 0-3 / either output "
        "of an earlier node; own splitter = outer product of zip groups in random order, 10% of zipped fields with "
        "unequal length; random combiner over the node's axes naming whole zip groups (80%) or single fields; 10% "
        "nested-workflow nodes; 1/15 of the cases under the cf worker; plus shape families chain, fan-in, relay, "
        "diamond, deep-share), distinct by their JSON; non-trivial = some node with a "
        "state consumes the output of a node with open axes")

FN = "abc"
MAXJOBS = 48
FINDINGS = {
    "F03": "share",
    "F03y": "comb_closed",
    "F03z": "zipcomb",
}


# ------------------------------------------------------------------------------------------- worker (fresh interpreter)
WORKER = r'''
import json, sys, tempfile, shutil, typing as ty
from pydra.compose import python, workflow
from pydra.engine.submitter import Submitter
FN = "abc"

@python.define(outputs=["out0", "out1"])
def T(nid: int, a: ty.Any = None, b: ty.Any = None, c: ty.Any = None) -> tuple[ty.Any, ty.Any]:
    return ("T", nid, 0, a, b, c), ("T", nid, 1, a, b, c)

# a nested workflow used as a node: opaque, its outputs are the same function of its inputs
@workflow.define(outputs=["out0", "out1"])
def NW(nid: int, a: ty.Any = None, b: ty.Any = None, c: ty.Any = None) -> tuple[ty.Any, ty.Any]:
    t = workflow.add(T(nid=nid, a=a, b=b, c=c), name="inner")
    return t.out0, t.out1

def build(case):
    nodes = case["nodes"]
    @workflow.define(outputs=["o%d_%d" % (i, o) for i in range(len(nodes)) for o in (0, 1)])
    def W(specstr: str):
        lz = []
        for i, nd in enumerate(nodes):
            kw, sp = {"nid": i}, {}
            late = nd.get("late") or []          # lazy inputs connected by attribute assignment after workflow.add
            for f, b in enumerate(nd["fields"]):
                kind, v = b[0], b[1]
                if kind == "const": kw[FN[f]] = v
                elif kind == "split": sp[FN[f]] = list(v)
                elif f not in late: kw[FN[f]] = getattr(lz[v], "out%d" % (b[2] if len(b) > 2 else 0))
            t = (NW if nd.get("nested") else T)(**kw)
            if nd["split"]:
                groups = []
                for l in nd["split"]:
                    g = [FN[l]] + [FN[f] for f, l2 in nd.get("zip", []) if l2 == l]
                    groups.append(g[0] if len(g) == 1 else tuple(g))
                if nd.get("pair"):                 # explicit inner pairing of the two upstream states
                    groups = [tuple("_N%d" % x for x in nd["pair"])] + groups
                t = t.split(groups[0] if len(groups) == 1 else groups, **sp)
            elif nd.get("pair"):
                t = t.split(tuple("_N%d" % x for x in nd["pair"]))
            if nd["comb"]:
                t = t.combine([FN[f] if n == i else "N%d.%s" % (n, FN[f]) for n, f in nd["comb"]])
            lzn = workflow.add(t, name="N%d" % i)
            for f in late:                       # node.inputs.x = other.out, in the order given by the case
                b = nd["fields"][f]
                setattr(lzn._node.inputs, FN[f], getattr(lz[b[1]], "out%d" % (b[2] if len(b) > 2 else 0)))
            lz.append(lzn)
        return tuple(getattr(l, "out%d" % o) for l in lz for o in (0, 1))
    return W(specstr=json.dumps(case, sort_keys=True))

def canon(v, case):
    if isinstance(v, tuple) and len(v) == 6 and v[0] == "T":
        nf = len(case["nodes"][v[1]]["fields"])
        return ["T", v[1], v[2]] + [canon(x, case) for x in v[3:3 + nf]]
    if isinstance(v, (list, tuple)):
        return ["L"] + [canon(x, case) for x in v]
    if isinstance(v, bool) or not isinstance(v, int):
        return ["?", repr(v)[:60]]
    return v

def run(case, root):
    try:
        wf = build(case)
        kw = dict(worker="cf", n_procs=2) if case.get("worker") == "cf" else dict(worker="debug")
        with Submitter(cache_root=root, **kw) as sub:
            res = sub(wf, raise_errors=True)
        if getattr(res, "errored", False):
            return {"exc": "RunErrored", "msg": "result.errored"}
        o = res.outputs
        return {"out": [canon(getattr(o, "o%d_%d" % (i, k)), case) for i in range(len(case["nodes"])) for k in (0, 1)]}
    except Exception as e:
        return {"exc": type(e).__name__, "msg": str(e)[:160]}

if __name__ == "__main__":
    cases = json.load(sys.stdin)
    res = []
    for k, case in enumerate(cases):
        d = tempfile.mkdtemp(prefix="verif-c03-")
        try:
            res.append(run(case, d))
        finally:
            shutil.rmtree(d, ignore_errors=True)
    json.dump(res, sys.stdout)
'''


def run_impl(cases, nproc=4):
    """Run the cases on the implementation in fresh interpreters; returns one dict per case."""
    repo = os.environ.get("VERIF_REPO", "/repo")
    env = dict(os.environ, PYTHONPATH=repo, PYTHONHASHSEED="0", NO_ET="1", PYTHONDONTWRITEBYTECODE="1")
    chunks = [cases[i::nproc] for i in range(nproc)]
    procs = []
    for ch in chunks:
        if not ch:
            procs.append(None)
            continue
        errf = tempfile.TemporaryFile(mode="w+")
        p = subprocess.Popen(["/venv/bin/python", "-c", WORKER], stdin=subprocess.PIPE, stdout=subprocess.PIPE,
                             stderr=errf, env=env, text=True, cwd="/tmp")
        p.stdin.write(json.dumps(ch))
        p.stdin.close()
        procs.append((p, errf))
    outs = [None] * len(cases)
    for k, pe in enumerate(procs):
        if pe is None:
            continue
        p, errf = pe
        out = p.stdout.read()
        p.wait()
        errf.seek(0)
        err = errf.read()
        errf.close()
        if p.returncode != 0:
            raise RuntimeError("implementation worker failed:\n" + err[-2000:])
        for j, r in enumerate(json.loads(out)):
            outs[k + j * nproc] = r
    return outs


# ------------------------------------------------------------------------------------------- generator
def est_jobs(case):
    """upper estimate of the number of jobs per node (shared origins multiplied, as the pinned code does)"""
    fin, tot = [], []
    for nd in case["nodes"]:
        ups = []
        for b in nd["fields"]:
            if b[0] == "up" and b[1] not in ups:
                ups.append(b[1])
        n = 1
        for u in ups:
            n *= max(fin[u], 1)
        own = 1
        for l in nd["split"]:
            own *= len(nd["fields"][l][1])
        tot.append(n * own)
        fin.append(n * max(own, 1))
    return max(tot) if tot else 0


def leader(nd, f):
    for g, l in nd.get("zip", []):
        if g == f:
            return l
    return f


def spec_axes(case):
    """axes (zip-group leaders) and open axes per node, as the spec computes them"""
    axes, faxes = [], []
    nodes = case["nodes"]
    for i, nd in enumerate(nodes):
        ax = []
        for b in nd["fields"]:
            if b[0] == "up":
                for k in faxes[b[1]]:
                    if k not in ax:
                        ax.append(k)
        ax += [[i, f] for f in nd["split"]]
        axes.append(ax)
        comb = [[k[0], leader(nodes[k[0]], k[1])] for k in nd["comb"]]
        faxes.append([k for k in ax if k not in comb])
    return axes, faxes


def finish(nodes, rng, p_comb, p_zip=0.35, p_nested=0.1, p_late=0.3):
    """choose zip groups, splitter order, output selectors, nested-workflow nodes and combiners for bare field lists"""
    out = []
    faxes = []
    for i, fields in enumerate(nodes):
        fields = [list(b) for b in fields]
        sfields = [f for f, b in enumerate(fields) if b[0] == "split"]
        rng.shuffle(sfields)
        split, zips = [], []
        for f in sfields:
            if split and rng.random() < p_zip:
                l = rng.choice(split)
                zips.append([f, l])
                if rng.random() < 0.9:          # equal shape; otherwise the run must be rejected
                    n = len(fields[l][1])
                    fields[f][1] = [rng.randrange(100) for _ in range(n)]
            else:
                split.append(f)
        for b in fields:
            if b[0] == "up" and len(b) == 2:
                b.append(rng.choice([0, 0, 1]))
        ax = []
        for b in fields:
            if b[0] == "up":
                for k in faxes[b[1]]:
                    if k not in ax:
                        ax.append(k)
        ax += [[i, f] for f in split]
        comb, ccomb = [], []
        if ax and rng.random() < p_comb:
            ccomb = rng.sample(ax, rng.randint(1, len(ax)))
            for k in ccomb:
                # name the whole zip group (any order); sometimes only one of its fields (known finding F03y)
                fol = [[k[0], g] for g, l in out[k[0]]["zip"] if l == k[1]] if k[0] < i else [[i, g] for g, l in zips if l == k[1]]
                grp = [k] + fol
                if rng.random() < 0.8:
                    rng.shuffle(grp)
                    comb.extend(grp)
                else:
                    comb.append(rng.choice(grp))
        faxes.append([k for k in ax if k not in ccomb])
        late = []
        lazy = [f for f, b in enumerate(fields) if b[0] == "up"]
        # (a combiner over inherited axes cannot be given before the upstream is connected: State.depth() asserts)
        if lazy and all(k[0] == i for k in comb) and rng.random() < p_late:   # every lazy input of this node is assigned after workflow.add
            late = list(lazy)
            rng.shuffle(late)
        out.append(dict(fields=fields, split=split, zip=zips, comb=comb, nested=rng.random() < p_nested, late=late))
    return dict(nodes=out)


def rlist(rng, lens=(0, 1, 2, 2, 3, 3)):
    return ["split", [rng.randrange(100) for _ in range(rng.choice(lens))]]


def gen_random(rng):
    n = rng.choice([2, 3, 3, 4, 4, 5])
    nodes = []
    for i in range(n):
        nf = rng.choice([1, 2, 2, 3])
        fields = []
        for _ in range(nf):
            r = rng.random()
            if i > 0 and r < 0.55:
                fields.append(["up", rng.randrange(i)])
            elif r < 0.85:
                fields.append(rlist(rng))
            else:
                fields.append(["const", rng.randrange(100)])
        nodes.append(fields)
    return finish(nodes, rng, 0.35)


def gen_tree(rng):
    """every node's inputs come from disjoint sub-workflows: always inside the proved class unless a combiner rule bites"""
    n = rng.choice([2, 3, 4, 5])
    free = []            # nodes not consumed yet
    nodes = []
    for i in range(n):
        fields = []
        nf = rng.choice([1, 2, 3])
        for _ in range(nf):
            r = rng.random()
            if free and r < 0.6:
                j = free.pop(rng.randrange(len(free)))
                fields.append(["up", j])
                if rng.random() < 0.25 and len(fields) < 3:
                    fields.append(["up", j])          # the same upstream feeding two fields
            elif r < 0.9:
                fields.append(rlist(rng, (1, 2, 2, 3)))
            else:
                fields.append(["const", rng.randrange(100)])
        nodes.append(fields[:3])
        free.append(i)
    return finish(nodes, rng, 0.3)


def gen_family(rng):
    k = rng.choice(["chain", "fanin", "relay", "diamond", "deep", "own_share", "relay_comb", "relay_plus"])
    S = lambda: rlist(rng, (1, 2, 3))
    if k == "chain":
        n = rng.choice([2, 3, 4, 5])
        nodes = [[S()] + ([S()] if rng.random() < 0.4 else [])]
        for i in range(1, n):
            f = [["up", i - 1]]
            if rng.random() < 0.4:
                f.append(S())
            if rng.random() < 0.2:
                f.append(["const", 7])
            rng.shuffle(f)
            nodes.append(f)
        return finish(nodes, rng, 0.25)
    if k == "fanin":
        m = rng.choice([2, 3])
        nodes = [[S()] + ([S()] if rng.random() < 0.3 else []) for _ in range(m)]
        nodes.append([["up", j] for j in range(m)])
        if rng.random() < 0.5:
            nodes.append([["up", m], S()][:rng.choice([1, 2])])
        return finish(nodes, rng, 0.25)
    if k == "relay":
        nodes = [[S()] + ([S()] if rng.random() < 0.3 else []), [["up", 0]] + ([["const", 3]] if rng.random() < 0.3 else [])]
        d = [["up", 0], ["up", 1]]
        rng.shuffle(d)
        if rng.random() < 0.4:
            d.append(S())
        nodes.append(d)
        if rng.random() < 0.5:
            nodes.append([["up", 2]])
        case = finish(nodes, rng, 0.0)
        if rng.random() < 0.3:
            ax, fax = spec_axes(case)
            last = len(nodes) - 1
            if fax[last]:
                case["nodes"][last]["comb"] = [rng.choice(ax[last])]
        return case
    if k == "diamond":
        nodes = [[S()], [["up", 0]], [["up", 0]], [["up", 1], ["up", 2]]]
        return finish(nodes, rng, 0.0)
    if k == "deep":
        nodes = [[S()], [["up", 0]], [["up", 1]], [["up", 0], ["up", 2]]]
        return finish(nodes, rng, 0.0)
    if k == "own_share":
        nodes = [[S()], [["up", 0], S()], [["up", 0], ["up", 1]]]
        return finish(nodes, rng, 0.0)
    if k == "relay_comb":
        nodes = [[S(), S()], [["up", 0]], [["up", 0], ["up", 1]]]
        case = finish(nodes, rng, 0.0)
        case["nodes"][1]["comb"] = [[0, rng.choice([0, 1])]]
        return case
    nodes = [[S()], [S()], [["up", 0]], [["up", 0], ["up", 2], ["up", 1]]]
    return finish(nodes, rng, 0.0)


def gen_pair(rng):
    """N_a, N_b with one open axis each (possibly after a combiner), a node pairing them ("_Na", "_Nb"), optional consumers"""
    n = rng.choice([1, 2, 2, 3])
    m = n if rng.random() < 0.85 else n + 1          # unequal lengths must be rejected
    def src(k, length):
        fields = [["split", [rng.randrange(100) for _ in range(length)]]]
        nd = dict(fields=fields, split=[0], zip=[], comb=[], nested=False, late=[])
        if rng.random() < 0.3:                        # a second axis, combined away
            fields.append(["split", [rng.randrange(100) for _ in range(rng.choice([1, 2]))]])
            nd["split"] = [0, 1] if rng.random() < 0.5 else [1, 0]
            nd["comb"] = [[k, 1]]
        return nd
    nodes = [src(0, n), src(1, m)]
    fl = [["up", 0, rng.choice([0, 1])], ["up", 1, rng.choice([0, 1])]]
    if rng.random() < 0.5:
        fl.reverse()
    d = dict(fields=fl, split=[], zip=[], comb=[], nested=False, late=[], pair=[fl[0][1], fl[1][1]])
    if rng.random() < 0.4:
        d["fields"].append(["split", [rng.randrange(100) for _ in range(rng.choice([1, 2]))]])
        d["split"] = [2]
    nodes.append(d)
    r = rng.random()
    if r < 0.35:
        nodes.append(dict(fields=[["up", 2, rng.choice([0, 1])]], split=[], zip=[], comb=[], nested=False, late=[]))
    elif r < 0.6:                                     # the consumer combines the paired axis, naming both fields
        comb = [[0, 0], [1, 0]]
        rng.shuffle(comb)
        nodes.append(dict(fields=[["up", 2, 0], ["const", 5]], split=[], zip=[], comb=comb, nested=False, late=[]))
    return dict(nodes=nodes)


def gen_case(rng):
    for _ in range(200):
        r = rng.random()
        case = gen_pair(rng) if r < 0.08 else gen_random(rng) if r < 0.45 else gen_tree(rng) if r < 0.75 else gen_family(rng)
        for i, nd in enumerate(case["nodes"]):      # families set combiners after finish(): keep late wiring legal
            if nd.get("late") and any(k[0] != i for k in nd["comb"]):
                nd["late"] = []
        if est_jobs(case) <= MAXJOBS:
            return case
    return finish([[["split", [1, 2]]], [["up", 0]]], rng, 0.0)


def nontrivial(case):
    _, faxes = spec_axes(case)
    return any(b[0] == "up" and faxes[b[1]] for nd in case["nodes"] for b in nd["fields"])


def shape_of(case):
    axes, faxes = spec_axes(case)
    n = len(case["nodes"])
    fanin = any(len({b[1] for b in nd["fields"] if b[0] == "up" and faxes[b[1]]}) >= 2 for nd in case["nodes"])
    return n, fanin


# ------------------------------------------------------------------------------------------- Gallina literals
def enc_binding(b):
    kind, v = b[0], b[1]
    if kind == "const":
        return "BConst %s" % coqio.z(v)
    if kind == "split":
        return "BSplit %s" % coqio.lst([coqio.z(x) for x in v])
    return "BUp %s" % coqio.nat(v)


def enc_wf(case):
    nodes = []
    for nd in case["nodes"]:
        nodes.append("{| n_fields := %s; n_split := %s; n_zip := %s; n_osel := %s; n_comb := %s |}" % (
            coqio.lst([enc_binding(b) for b in nd["fields"]]),
            coqio.lst([coqio.nat(f) for f in nd["split"]]),
            coqio.lst([coqio.pair(coqio.nat(p[0]), coqio.nat(p[1])) for p in nd.get("zip", [])]),
            coqio.lst([coqio.nat(b[2] if b[0] == "up" and len(b) > 2 else 0) for b in nd["fields"]]),
            coqio.lst([coqio.pair(coqio.nat(k[0]), coqio.nat(k[1])) for k in nd["comb"]])))
    return coqio.lst(nodes)


def enc_wf3(case):
    """list (node * bool): the node descriptions with the explicit-pairing flag beside them"""
    inner = enc_wf(case)
    flags = coqio.lst([coqio.boolean(bool(nd.get("pair"))) for nd in case["nodes"]])
    return "(combine %s %s)" % (inner, flags)


def enc_val(v):
    if isinstance(v, int):
        return "VInt %s" % coqio.z(v)
    if v[0] == "T":
        return "VTag %s %s" % (coqio.nat(v[1]), coqio.lst([enc_val(x) for x in v[2:]]))   # v[2] is the output index
    if v[0] == "L":
        return "VList %s" % coqio.lst([enc_val(x) for x in v[1:]])
    return "VTag 4999%nat []%list"          # a value the tagging task cannot produce: never equal to model or spec


def enc_obs(o):
    if "exc" in o:
        return "None"
    return "(Some %s)" % coqio.lst([enc_val(v) for v in o["out"]])


EXTRA = """
Definition obs_eqb (a b : option (list val)) : bool := option_eqb (list_eqb val_eqb) a b.
Definition case_t := (workflow3 * option (list val))%type.
Definition wf_of (c : case_t) : workflow := map fst (fst c).
Definition spec_ok (c : case_t) : bool := obs_eqb (snd c) (spec_run3 (fst c)).
(* inside the proved class the implementation must behave like the model; outside it (the refuted region) it
   may behave like the model or like the spec, and the model is only claimed for combiner-free workflows and for
   supported explicit pairings (differential only) *)
Definition tie_ok (c : case_t) : bool :=
  let '(w, o) := c in
  if c03_class3 w then obs_eqb o (model_run3 w)
  else if has_pair w then (if pair_supported w then obs_eqb o (model_run3 w) else true)
  else if tie_region (map fst w) then obs_eqb o (model_run3 w) || spec_ok c else true.
Definition out_domain (c : case_t) : bool := negb (c03_class3 (fst c)).
Definition not_wf (c : case_t) : bool := has_pair (fst c) || wf_ok (normalize (wf_of c)).
Definition cls_share (c : case_t) : bool := has_pair (fst c) || share_class (normalize (wf_of c)).
Definition cls_zipcomb (c : case_t) : bool := has_pair (fst c) || zipcomb_class (normalize (wf_of c)).
Definition cls_ziplen (c : case_t) : bool := zip_len_ok (wf_of c).
Definition cls_closed (c : case_t) : bool := comb_closed_class (wf_of c).
Definition no_pair (c : case_t) : bool := negb (has_pair (fst c)).
Definition pair_unsupported (c : case_t) : bool := negb (has_pair (fst c)) || pair_supported (fst c).
Definition model_is_spec (c : case_t) : bool := obs_eqb (model_run3 (fst c)) (spec_run3 (fst c)).
"""
CHECKS = {"tie": "tie_ok", "spec": "spec_ok", "in_domain": "out_domain", "ill_formed": "not_wf",
          "share": "cls_share", "zipcomb": "cls_zipcomb", "ziplen": "cls_ziplen", "comb_closed": "cls_closed", "model_ne_spec": "model_is_spec",
          "with_pair": "no_pair", "pair_unsupported": "pair_unsupported"}


def short(v):
    if isinstance(v, list) and v and v[0] == "T":
        return "n%d.%s(%s)" % (v[1], v[2], ",".join(short(x) for x in v[3:]))
    if isinstance(v, list) and v and v[0] == "L":
        return "[" + ",".join(short(x) for x in v[1:]) + "]"
    return repr(v)


def show_obs(o):
    if "exc" in o:
        return "raised %s: %s" % (o["exc"], o["msg"])
    return [short(v) for v in o["out"]]


def classify(i, res):
    """finding id for a spec failure, by the input class computed in Coq (first violated clause)"""
    for fid, chk in FINDINGS.items():
        if i in res[chk]:
            return fid
    return None


def run(ctx):
    rng = ctx.rng
    n = ctx.budget(90, 600)
    cases, seen = [], set()
    corpus = [c["case"] if "case" in c else c for c in ctx.corpus()]
    for c in corpus:
        cases.append(c)
        seen.add(json.dumps(c, sort_keys=True))
    tries = 0
    while len(cases) < n + len(corpus) and tries < 20 * n:
        tries += 1
        c = gen_case(rng)
        key = json.dumps(c, sort_keys=True)
        if key in seen:
            continue
        seen.add(key)
        cases.append(c)
    for k, c in enumerate(cases):        # a share of the cases runs under the concurrent-futures worker (outputs only)
        if k % 15 == 5:
            c["worker"] = "cf"
    t0 = time.time()
    obs = run_impl(cases, nproc=4 if ctx.tier == "quick" else 6)
    t_impl = time.time() - t0
    terms = [coqio.pair(enc_wf3(c), enc_obs(o)) for c, o in zip(cases, obs)]
    t0 = time.time()
    res = coqio.run_cases(ctx.scratch, "c03", IMPORTS, "case_t", terms, CHECKS, extra=EXTRA, shard=120)
    t_coq = time.time() - t0
    res = {k: set(v) for k, v in res.items()}
    if res["ill_formed"]:
        raise RuntimeError("generator produced ill-formed workflow descriptions: %r" % sorted(res["ill_formed"])[:5])

    dist = {"nodes_%d" % k: 0 for k in range(2, 6)}
    dist.update(fan_in=0, with_combiner=0, with_empty_list=0, impl_raised=0, in_proved_class=len(res["in_domain"]))
    dist["zip_shape_mismatch"] = len(res["ziplen"])
    dist["class_zipcomb_violated"] = len(res["zipcomb"])
    dist["with_explicit_pairing"] = len(res["with_pair"])
    dist["explicit_pairing_unsupported"] = len(res["pair_unsupported"])
    dist["class_comb_closed_violated"] = len(res["comb_closed"])
    dist["class_share_violated"] = len(res["share"])
    dist["model_differs_from_spec"] = len(res["model_ne_spec"])
    nontriv = 0
    for c, o in zip(cases, obs):
        k, fanin = shape_of(c)
        dist["nodes_%d" % min(max(k, 2), 5)] += 1
        dist["fan_in"] += fanin
        dist["with_combiner"] += any(nd["comb"] for nd in c["nodes"])
        dist["with_empty_list"] += any(b[0] == "split" and not b[1] for nd in c["nodes"] for b in nd["fields"])
        dist["with_inner_splitter"] = dist.get("with_inner_splitter", 0) + any(nd.get("zip") for nd in c["nodes"])
        dist["with_nested_workflow_node"] = dist.get("with_nested_workflow_node", 0) + any(nd.get("nested") for nd in c["nodes"])
        dist["with_second_output_consumed"] = dist.get("with_second_output_consumed", 0) + any(b[0] == "up" and len(b) > 2 and b[2] == 1 for nd in c["nodes"] for b in nd["fields"])
        dist["cf_worker"] = dist.get("cf_worker", 0) + (c.get("worker") == "cf")
        dist["with_late_wired_node"] = dist.get("with_late_wired_node", 0) + any(nd.get("late") for nd in c["nodes"])
        dist["late_wired_fan_in"] = dist.get("late_wired_fan_in", 0) + any(
            nd.get("late") and len({b[1] for b in nd["fields"] if b[0] == "up"}) >= 2 for nd in c["nodes"])
        dist["impl_raised"] += "exc" in o
        nontriv += nontrivial(c)
    out = Outcome(evaluations=len(cases), distinct_nontrivial=nontriv, rule=RULE,
                  samples=[{"workflow": c, "observed": show_obs(o)} for c, o in list(zip(cases, obs))[:4]],
                  distribution=dist, traces_validated=len(cases),
                  extra={"impl_wall_s": round(t_impl, 1), "coq_cases_wall_s": round(t_coq, 1),
                         "proved_class_fraction": round(len(res["in_domain"]) / max(len(cases), 1), 3)})

    # model / spec values of the failing cases, printed by one coqc run
    want = [(i, "spec_run3") for i in sorted(res["spec"])[:60]] + [(i, "model_run3") for i in sorted(res["tie"])[:20]]
    vals = {}
    if want:
        try:
            got = coqio.eval_terms(ctx.scratch, "expected", IMPORTS, ["%s %s" % (w, enc_wf3(cases[i])) for i, w in want])
            vals = dict(zip(want, got))
        except Exception as e:       # pragma: no cover
            vals = {k: "coq evaluation failed: %s" % e for k in want}
    for i in sorted(res["spec"]):
        fid = classify(i, res)
        in_dom = i in res["in_domain"]
        note = ("implementation differs from the nested-loop evaluation" +
                (" inside the proved class" if in_dom else " (input class of %s)" % fid if fid else ""))
        out.failures.append(Failure(case=cases[i], observed=show_obs(obs[i]), expected=vals.get((i, "spec_run3"), "(not printed)"),
                                    kind="spec", finding=None if in_dom else fid, note=note))
    for i in sorted(res["tie"])[:20]:
        out.failures.append(Failure(case=cases[i], observed=show_obs(obs[i]), expected=vals.get((i, "model_run3")),
                                    kind="tie", note="model/implementation" +
                                    (" inside the proved class" if i in res["in_domain"] else " outside the proved class")))
    return out


def replay(ctx, payload):
    case = payload["case"]
    o = run_impl([case], nproc=1)[0]
    print("workflow      :", json.dumps(case))
    print("implementation:", show_obs(o))
    vals = coqio.eval_terms(ctx.scratch, "replay", IMPORTS,
                            ["model_run3 %s" % enc_wf3(case), "spec_run3 %s" % enc_wf3(case),
                             "(c03_class2 %s, share_class (normalize %s), zipcomb_class (normalize %s), zip_len_ok %s)" % ((enc_wf(case),) * 4)])
    print("model         :", vals[0])
    print("spec          :", vals[1])
    print("(in proved class, sharing ok, no open zip group under a combiner, zip shapes equal):", vals[2])


if __name__ == "__main__":
    sys.exit(0)
