(* C22 — Shell argument vector follows the documented field semantics. *)
From Pydra Require Import Base.Prelude Base.Shlex Model.Shell Spec.Shell
  Proofs.ShellRefute Proofs.ShellAssign Proofs.ShellOrderThm Proofs.ShellContrib Proofs.ShellArgv Proofs.ShellCorollaries.
Local Open Scope list_scope.

(* the property at full strength: every accepted definition (functional or class form), every value assignment *)
Definition C22_full_statement : Prop := C22_statement.

(* ---- the unchanged code violates it (each witness is replayed against pydra by the driver) *)
Theorem C22_refuted_gap : ~ C22_full_statement.
Proof. exact refuted_gap. Qed.
Print Assumptions C22_refuted_gap.

Theorem C22_refuted_class_form :
  task_argv ClassForm echo (map to_field cls_fields) cls_vals (AppList [])
    = Good (map la_of ["echo"; "-a"; "A"; "-m"; "M"; "-z"; "Z"]%string)
  /\ spec_argv echo cls_fields cls_vals [] = map la_of ["echo"; "-z"; "Z"; "-a"; "A"; "-m"; "M"]%string
  /\ task_argv Functional echo (map to_field cls_fields) cls_vals (AppList []) = Good (spec_argv echo cls_fields cls_vals []).
Proof. exact refuted_class_form. Qed.
Print Assumptions C22_refuted_class_form.

Theorem C22_refuted_wrap :
  has_dup (raw_positions wrap_fields) = false /\
  task_argv Functional echo (map to_field wrap_fields) [sv "o" "O"; sv "m" "M"] (AppList []) = Bad EOverlap.
Proof. exact refuted_wrap. Qed.
Print Assumptions C22_refuted_wrap.

Theorem C22_refuted_falsy :
  task_argv Functional echo (map to_field zero_fields) [(la_of "n", VAtom (AInt 0))] (AppList []) = Good [la_of "echo"]
  /\ spec_argv echo zero_fields [(la_of "n", VAtom (AInt 0))] [] = map la_of ["echo"; "-n"; "0"]%string.
Proof. exact refuted_falsy. Qed.
Print Assumptions C22_refuted_falsy.

Theorem C22_refuted_dots_sep :
  task_argv Functional echo (map to_field dots_fields) dots_vals (AppList []) = Good (map la_of ["echo"; "-r"; "1,"; "-r"; "2"]%string)
  /\ spec_argv echo dots_fields dots_vals [] = map la_of ["echo"; "-r"; "1"; "-r"; "2"]%string.
Proof. exact refuted_dots_sep. Qed.
Print Assumptions C22_refuted_dots_sep.

(* ---- strongest positive statement: for ALL definitions and values inside the computable class c22_in_domain
        (Spec/Shell.v) the faithful model of define + _command_args yields exactly the reference vector *)
Theorem C22_partial : forall e fs vals app,
  c22_in_domain Functional e fs vals = true ->
  task_argv Functional e (map to_field fs) vals (AppList app) = Good (spec_argv e fs vals app).
Proof. exact argv_in_domain. Qed.
Print Assumptions C22_partial.

(* the class is not trivial: sparse-free explicit positions, negatives, flags, lists with '...', templates, a
   multi-input, an unset optional, shell metacharacters and UTF-8 in the values *)
Definition ex_fields : list sfield :=
  [mkS (la_of "out") TPath (SA [[Lit (la_of "-o")]; [Self]] false) (Some (-1)%Z) (la_of " ");
   mkS (la_of "v") TBool (SA [[Lit (la_of "--verbose")]] false) None (la_of " ");
   mkS (la_of "inp") TList (SA [[Lit (la_of "-i")]] true) (Some 1%Z) (la_of " ");
   mkS (la_of "k") TInt (SA [[Lit (la_of "--k="); Self]] false) None (la_of " ");
   mkS (la_of "m") TMulti (SA [[Lit (la_of "-m")]] false) (Some (-2)%Z) (la_of " ");
   mkS (la_of "l") TList (SA [[Lit (la_of "--l")]] false) None (la_of ",");
   mkS (la_of "u") TStr (SA [[Lit (la_of "-u")]] false) None (la_of " ")].
Definition ex_vals : vals_t :=
  [(la_of "out", VAtom (APath (la_of "res/$x*.txt"))); (la_of "v", VBool true);
   (la_of "inp", VList [AStr (la_of "a;b"); AStr (la_of "c|d")]); (la_of "k", VAtom (AInt 7));
   (la_of "m", VList [AStr (la_of "p"); AStr (la_of "q")]); (la_of "l", VList [AInt 1; AInt 2]); (la_of "u", VNone)].
Example C22_partial_nontrivial :
  c22_in_domain Functional echo ex_fields ex_vals = true /\
  spec_argv echo ex_fields ex_vals [la_of "x y"] =
    map la_of ["echo"; "-i"; "a;b"; "-i"; "c|d"; "--verbose"; "--k=7"; "--l"; "1,2"; "-m"; "p"; "-m"; "q"; "-o"; "res/$x*.txt"; "x y"]%string.
Proof. split; vm_compute; reflexivity. Qed.

(* a numeric 0 / 0.0 is dropped only where Python's `if value:` is consulted (argstr without placeholder, F22d);
   inside a template it is an ordinary member of the class *)
Example C22_partial_zero_templated :
  let fs := [mkS (la_of "level") TInt (SA [[Lit (la_of "--level="); Self]] false) None (la_of " ");
             mkS (la_of "sc") TFloat (SA [[Lit (la_of "-s")]; [Self]] false) None (la_of " ")] in
  let vals := [(la_of "level", VAtom (AInt 0)); (la_of "sc", VAtom (AFloat (la_of "0.0") false))] in
  c22_in_domain Functional echo fs vals = true /\
  spec_argv echo fs vals [] = map la_of ["echo"; "--level=0"; "-s"; "0.0"]%string.
Proof. split; vm_compute; reflexivity. Qed.

(* Optional-typed fields are classified after unwrapping (optional_type): a `bool | None` flag switched on is still a
   flag, an `int | None` / `list[str] | None` / `MultiInputObj[str] | None` behaves like its base kind *)
Example C22_partial_optional_kinds :
  let fs := [mkS (la_of "force") (TOpt TBool) (SA [[Lit (la_of "--force")]] false) None (la_of " ");
             mkS (la_of "n") (TOpt TInt) (SA [[Lit (la_of "-n")]] false) None (la_of " ");
             mkS (la_of "m") (TOpt TMulti) (SA [[Lit (la_of "-m")]] false) None (la_of " ");
             mkS (la_of "l") (TOpt TList) (SA [[Lit (la_of "-l")]] true) None (la_of " ");
             mkS (la_of "q") (TOpt TBool) (SA [[Lit (la_of "-q")]] false) None (la_of " ")] in
  let vals := [(la_of "force", VBool true); (la_of "n", VAtom (AInt 3)); (la_of "m", VList []);
               (la_of "l", VList [AStr (la_of "a"); AStr (la_of "b")]); (la_of "q", VNone)] in
  c22_in_domain Functional echo fs vals = true /\
  spec_argv echo fs vals [] = map la_of ["echo"; "--force"; "-n"; "3"; "-l"; "a"; "-l"; "b"]%string.
Proof. split; vm_compute; reflexivity. Qed.

(* ---- the parts *)
(* order: define() gives every unpositioned field a position; sorting by those positions is the stated order
   whenever each explicit non-negative position lies below the first implicit one -- whatever the fields contribute *)
Theorem C22_order_dense : forall (g : sfield -> option (list la)) fs ex,
  (forall f p, g (set_spos f p) = g f) ->
  has_dup (used_slots (map to_field fs)) = false ->
  order_ok fs = true ->
  define Functional (map to_field fs) = Good (map to_field (sassign fs (free_slots (map to_field fs)))) /\
  List.concat (position_sort ((Some 0%Z, ex) :: ents g (sassign fs (free_slots (map to_field fs)))))
  = ex ++ List.concat (map (payload g) (spec_order fs)).
Proof. intros g fs ex Hg Hd Ho. split; [now apply define_functional|now apply order_dense]. Qed.
Print Assumptions C22_order_dense.

(* omission: None and empty multi-inputs are dropped before anything else; a flag contributes itself or nothing *)
Theorem C22_omission : 
  (forall F vals nm, (forall g, In g F -> f_name g = nm -> is_unset g (lookup vals nm) = true) ->
                     is_present (drop_unset F vals) nm = false)
  /\ (forall f, is_unset f VNone = true /\ (optional_type (f_ty f) = TMulti -> is_unset f (VList []) = true))
  /\ (forall f vals argstr b, optional_type (f_ty f) = TBool -> f_argstr f = Some argstr -> has_char lbrace argstr = false ->
        lookup vals (f_name f) = VBool b ->
        command_pos_args f vals = Good (Some (f_pos f, if b then [argstr] else []))).
Proof. exact (conj omission_unset (conj omission_none_and_empty_multi flag_rule)). Qed.
Print Assumptions C22_omission.

(* list values: '...' repeats the argstr per element; otherwise the elements are joined by the separator into one
   argument (a blank separator gives separate arguments); a MultiInputObj yields one occurrence per element *)
Theorem C22_list_expansion : forall f ws dots, field_hyps f ws dots -> forall valsM valsS l,
  lookup valsM (sf_name f) = VList l -> forallb atom_benign l = true ->
  (dots = true -> sf_sep f = [" "%char] -> forallb (fun a => inert ws valsS (render_atom a)) l = true ->
     format_arg (to_field f) (render_words (sf_name f) ws ++ (if dots then ellipsis else [])) valsM
     = Good (List.concat (map (fun a => occurrence ws valsS (render_atom a)) l)))
  /\ (dots = false -> forallb benign_char (sf_sep f) = true -> l <> [] ->
      inert ws valsS (join_sep (sf_sep f) (map render_atom l)) = true ->
     format_arg (to_field f) (render_words (sf_name f) ws ++ (if dots then ellipsis else [])) valsM
     = Good (occurrence ws valsS (join_sep (sf_sep f) (map render_atom l))))
  /\ (dots = false -> sf_sep f = [" "%char] -> has_ph ws = false ->
     format_arg (to_field f) (render_words (sf_name f) ws ++ (if dots then ellipsis else [])) valsM
     = Good (match l with [] => [] | _ => map (inst_word valsS []) ws ++ map render_atom l end)).
Proof.
  intros f ws dots FH valsM valsS l Hl Hok. repeat split.
  - intros Hd Hs Hin. now apply format_dots.
  - intros Hd Hs Hne Hin. now apply format_join_sep.
  - intros Hd Hs Hph. now apply format_join_blank.
Qed.
Print Assumptions C22_list_expansion.
