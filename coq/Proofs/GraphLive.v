(* Proofs/GraphLive.v — completeness of DiGraph.sorting: on a consistent state whose recorded
   connections among the nodes to sort are acyclic, sorting returns (it raises neither the
   "cannot be sorted" exception of repair F18 nor a KeyError / ValueError). *)
From Pydra Require Import Base.Prelude Model.Graph Spec.Graph
  Proofs.GraphBase Proofs.GraphSort Proofs.GraphInv Proofs.GraphEdges.
From Coq Require Import Sorting.Permutation.
Local Open Scope nat_scope.
Local Open Scope list_scope.

Definition lk (d : dict) (k : node) : list node := match dget d k with Some l => l | None => [] end.

Lemma lk_dset d k v b : lk (dset d k v) b = if Nat.eqb b k then v else lk d b.
Proof. unfold lk. rewrite dget_dset. destruct (Nat.eqb b k); reflexivity. Qed.

Definition same_keys (w w' : dict) : Prop := forall b, dget w' b = None <-> dget w b = None.

Lemma same_keys_refl w : same_keys w w.
Proof. intros b. tauto. Qed.
Lemma same_keys_trans w1 w2 w3 : same_keys w1 w2 -> same_keys w2 w3 -> same_keys w1 w3.
Proof. intros H1 H2 b. specialize (H1 b). specialize (H2 b). tauto. Qed.

(* ---- releasing one node whose entries mirror its successors list *)
Lemma release_list_ok a sl : forall w,
  (forall b, cnt a (lk w b) = cnt b sl) ->
  exists w', foldM (fun w nd_in => dremove w nd_in a) sl w = Ok w' /\ same_keys w w' /\
             forall y b, cnt y (lk w' b) = if Nat.eq_dec a y then 0 else cnt y (lk w b).
Proof.
  induction sl as [|b0 sl IH]; intros w Hm.
  - exists w. split; [reflexivity|]. split; [apply same_keys_refl|].
    intros y b. destruct (Nat.eq_dec a y) as [<-|]; [|reflexivity]. rewrite Hm. reflexivity.
  - cbn [foldM].
    assert (H0 : cnt a (lk w b0) > 0).
    { rewrite Hm. unfold cnt. cbn. destruct (Nat.eq_dec b0 b0); [lia|congruence]. }
    apply cnt_pos_In in H0. unfold lk in H0. destruct (dget w b0) as [v|] eqn:Hg; [|contradiction].
    destruct (remove_one_some Nat.eqb Nat.eqb_eq a v H0) as [v' Hr].
    assert (Hd : dremove w b0 a = Ok (dset w b0 v')) by (unfold dremove; rewrite Hg, Hr; reflexivity).
    rewrite Hd. cbn [bind].
    destruct (IH (dset w b0 v')) as [w' [Hf [Hk Hc]]].
    + intros b. rewrite lk_dset. pose proof (Hm b) as Hb. unfold cnt in *. cbn in Hb.
      destruct (Nat.eqb b b0) eqn:E.
      * apply Nat.eqb_eq in E. subst b. unfold lk in Hb. rewrite Hg in Hb.
        pose proof (remove_one_cnt _ _ _ Hr a) as Hc. unfold cnt in Hc.
        destruct (Nat.eq_dec a a); [|congruence]. destruct (Nat.eq_dec b0 b0); [|congruence]. lia.
      * apply Nat.eqb_neq in E. destruct (Nat.eq_dec b0 b); [congruence|]. exact Hb.
    + exists w'. split; [exact Hf|]. split.
      * eapply same_keys_trans; [|exact Hk]. intros b. rewrite dget_dset.
        destruct (Nat.eqb b b0) eqn:E; [|tauto]. apply Nat.eqb_eq in E. subst b. rewrite Hg. split; discriminate.
      * intros y b. rewrite Hc. destruct (Nat.eq_dec a y) as [|Hne]; [reflexivity|].
        rewrite lk_dset. destruct (Nat.eqb b b0) eqn:E; [|reflexivity].
        apply Nat.eqb_eq in E. subst b. unfold lk. rewrite Hg.
        pose proof (remove_one_cnt _ _ _ Hr y) as Hy. destruct (Nat.eq_dec a y); [congruence|]. lia.
Qed.

Lemma release_one_ok sd w a :
  In a (dkeys sd) -> (forall b, cnt a (lk w b) = cnt b (lk sd a)) ->
  exists w', release_one sd w a = Ok w' /\ same_keys w w' /\
             forall y b, cnt y (lk w' b) = if Nat.eq_dec a y then 0 else cnt y (lk w b).
Proof.
  intros Hk Hm. unfold release_one. apply dget_In_keys in Hk. destruct Hk as [sl Hsl].
  unfold lk in Hm. rewrite Hsl in *. cbn [of_opt bind]. apply release_list_ok. exact Hm.
Qed.

Lemma release_ok sd outs : forall w,
  NoDup outs -> (forall a, In a outs -> In a (dkeys sd)) ->
  (forall a b, In a outs -> cnt a (lk w b) = cnt b (lk sd a)) ->
  exists w', release sd outs w = Ok w' /\ same_keys w w' /\
             forall y b, cnt y (lk w' b) = if in_dec Nat.eq_dec y outs then 0 else cnt y (lk w b).
Proof.
  unfold release. induction outs as [|a outs IH]; intros w Hnd Hk Hm.
  - exists w. split; [reflexivity|]. split; [apply same_keys_refl|]. intros y b. reflexivity.
  - inversion Hnd as [|? ? Hna Hnd']; subst. cbn [foldM].
    destruct (release_one_ok sd w a (Hk a (or_introl eq_refl)) (fun b => Hm a b (or_introl eq_refl)))
      as [w1 [H1 [K1 C1]]].
    rewrite H1. cbn [bind].
    destruct (IH w1 Hnd' (fun x Hx => Hk x (or_intror Hx))) as [w' [H2 [K2 C2]]].
    + intros x b Hx. rewrite C1. destruct (Nat.eq_dec a x) as [->|]; [contradiction|].
      apply Hm. now right.
    + exists w'. split; [exact H2|]. split; [eapply same_keys_trans; eauto|].
      intros y b. rewrite C2. destruct (in_dec Nat.eq_dec y outs) as [Hy|Hy].
      * destruct (in_dec Nat.eq_dec y (a :: outs)) as [|Hn]; [reflexivity|]. exfalso. apply Hn. now right.
      * rewrite C1. destruct (Nat.eq_dec a y) as [->|Hne].
        -- destruct (in_dec Nat.eq_dec y (y :: outs)) as [|Hn]; [reflexivity|]. exfalso. apply Hn. now left.
        -- destruct (in_dec Nat.eq_dec y (a :: outs)) as [[|]|]; [congruence|contradiction|reflexivity].
Qed.

(* ---- pigeonhole: in a finite set where every element has a predecessor, some element reaches itself *)
Section Cycle.
  Variable R : node -> node -> Prop.

  Inductive reach : node -> node -> Prop :=
  | reach_one a b : R a b -> reach a b
  | reach_cons a b c : R a b -> reach b c -> reach a c.

  (* c = [x_k; ...; x_0] with R x_{i+1} x_i *)
  Fixpoint chain (c : list node) : Prop :=
    match c with
    | [] => True
    | y :: r => match r with [] => True | x :: _ => R y x /\ chain r end
    end.

  Lemma chain_head_reaches y c z : chain (y :: c) -> In z c -> reach y z.
  Proof.
    revert y. induction c as [|x c IH]; intros y Hc Hz; [contradiction|].
    destruct Hc as [Hyx Hc]. destruct Hz as [->|Hz]; [now apply reach_one|].
    eapply reach_cons; [exact Hyx|]. apply IH; assumption.
  Qed.

  Lemma chain_dup_cycle c : chain c -> ~ NoDup c -> exists a, reach a a.
  Proof.
    induction c as [|y c IH]; intros Hc Hnd; [exfalso; apply Hnd; constructor|].
    destruct (in_dec Nat.eq_dec y c) as [Hy|Hy].
    - exists y. eapply chain_head_reaches; eauto.
    - apply IH.
      + destruct c; [exact I|]. exact (proj2 Hc).
      + intros H. apply Hnd. constructor; assumption.
  Qed.

  Lemma long_chain (L : list node) :
    (forall x, In x L -> exists y, In y L /\ R y x) ->
    forall n x0, In x0 L -> exists c, chain c /\ List.length c = S n /\ (forall z, In z c -> In z L).
  Proof.
    intros Hpred n. induction n as [|n IH]; intros x0 Hx0.
    - exists [x0]. split; [exact I|]. split; [reflexivity|]. intros z [<-|[]]. exact Hx0.
    - destruct (IH x0 Hx0) as [c [Hc [Hl Hin]]].
      destruct c as [|x c]; [discriminate|].
      destruct (Hpred x (Hin x (or_introl eq_refl))) as [y [Hy Ryx]].
      exists (y :: x :: c). split; [split; assumption|]. split; [cbn in *; lia|].
      intros z [<-|Hz]; [exact Hy|auto].
  Qed.

  Lemma no_source_cycle (L : list node) :
    L <> [] -> (forall x, In x L -> exists y, In y L /\ R y x) -> exists a, reach a a.
  Proof.
    intros Hne Hpred. destruct L as [|x0 L0] eqn:E; [congruence|]. rewrite <- E in *.
    destruct (long_chain L Hpred (List.length L) x0) as [c [Hc [Hl Hin]]]; [subst L; now left|].
    apply (chain_dup_cycle c Hc). intros Hnd.
    assert (List.length c <= List.length L) by (apply NoDup_incl_length; assumption). lia.
  Qed.
End Cycle.

(* ---- the passes *)
Lemma sort_pass_ok w ns :
  (forall n, In n ns -> dget w n <> None) -> exists part rem, sort_pass w ns = Ok (part, rem).
Proof.
  induction ns as [|n ns IH]; intros Hk.
  - exists [], []. reflexivity.
  - cbn [sort_pass]. destruct (dget w n) as [p|] eqn:Hg.
    + destruct IH as [pa [re Hr]]; [intros m Hm; apply Hk; right; exact Hm|].
      rewrite Hr. cbn [bind fst snd]. destruct p; eexists; eexists; reflexivity.
    + exfalso. apply (Hk n); [left; reflexivity|exact Hg].
Qed.

Section Complete.
  Variables (pd sd : dict) (wip ns0 : list node).
  Hypothesis K_S : forall x, In x (wip ++ ns0) -> In x (dkeys sd).
  Hypothesis K_P : forall x, In x ns0 -> In x (dkeys pd).
  Hypothesis Mirror : forall a b, cnt a (lk pd b) = cnt b (lk sd a).
  Hypothesis Closed : forall b a, In b ns0 -> In a (lk pd b) -> In a (wip ++ ns0).
  Hypothesis ND : NoDup (wip ++ ns0).

  Definition waits (a b : node) : Prop := In a ns0 /\ In b ns0 /\ In a (lk pd b).
  Hypothesis Acyc : forall a, ~ reach waits a a.

  Lemma loop_complete : forall fuel acc ns w X,
    List.length ns <= fuel ->
    NoDup (X ++ ns) ->
    (forall x, In x (X ++ ns) <-> In x (wip ++ ns0)) ->
    (forall x, In x ns -> In x ns0) ->
    same_keys pd w ->
    (forall y b, In y X -> cnt y (lk w b) = 0) ->
    (forall y b, ~ In y X -> cnt y (lk w b) = cnt y (lk pd b)) ->
    exists l, sort_loop fuel sd acc ns w = Ok l.
  Proof.
    induction fuel as [|fuel IH]; intros acc ns w X Hlen Hnd Hmem Hsub Hkeys Hz Hnz.
    - destruct ns; [exists acc; reflexivity|cbn in Hlen; lia].
    - destruct ns as [|n0 ns1]; [exists acc; reflexivity|].
      rewrite sort_loop_unfold. set (ns := n0 :: ns1) in *.
      destruct (sort_pass_ok w ns) as [part [rem Hpass]].
      { intros n Hn Hnone. apply Hkeys in Hnone. apply dget_None_keys in Hnone. apply Hnone, K_P, Hsub, Hn. }
      rewrite Hpass. cbn [bind fst snd].
      destruct (sort_pass_spec w ns part rem Hpass) as [Hperm [Hpa [Hre Hl]]].
      (* progress *)
      assert (Hprog : part <> []).
      { intros ->. cbn in Hperm.
        destruct (no_source_cycle waits ns) as [a Ha]; [subst ns; discriminate| |exact (Acyc a Ha)].
        intros x Hx.
        assert (Hxr : In x rem) by (eapply Permutation_in; [symmetry; exact Hperm|exact Hx]).
        destruct (Hre x Hxr) as [y [p Hy]].
        assert (Hyw : cnt y (lk w x) > 0).
        { apply cnt_pos_In. unfold lk. rewrite Hy. now left. }
        assert (HyX : ~ In y X) by (intros HX; rewrite (Hz y x HX) in Hyw; lia).
        rewrite (Hnz y x HyX) in Hyw. apply cnt_pos_In in Hyw.
        assert (Hy0 : In y (wip ++ ns0)) by (eapply Closed; [apply Hsub, Hx|exact Hyw]).
        apply Hmem in Hy0. apply in_app_or in Hy0. destruct Hy0 as [Hy0|Hy0]; [contradiction|].
        exists y. split; [exact Hy0|]. split; [apply Hsub, Hy0|]. split; [apply Hsub, Hx|exact Hyw]. }
      destruct part as [|p0 part0] eqn:Epart; [congruence|]. rewrite <- Epart in *. clear Hprog.
      assert (Hnd_ns : NoDup ns) by (eapply nodup_app_r; eauto).
      assert (Hnd_pr : NoDup (part ++ rem)) by (eapply Permutation_NoDup; [symmetry; exact Hperm|exact Hnd_ns]).
      assert (Hpart_ns : forall x, In x part -> In x ns)
        by (intros x Hx; eapply Permutation_in; [exact Hperm|apply in_or_app; auto]).
      assert (Hrem_ns : forall x, In x rem -> In x ns)
        by (intros x Hx; eapply Permutation_in; [exact Hperm|apply in_or_app; auto]).
      assert (HpartX : forall x, In x part -> ~ In x X)
        by (intros x Hx HX; eapply (nodup_app_disj X ns x); eauto).
      destruct (release_ok sd part w) as [w' [Hrel [Hk' Hc']]].
      { clear -Hnd_pr. induction part as [|a part IHp]; [constructor|]. cbn in Hnd_pr. inversion Hnd_pr; subst.
        constructor; [intros H; apply H1, in_or_app; auto|auto]. }
      { intros a Ha. apply K_S. apply in_or_app. right. apply Hsub, Hpart_ns, Ha. }
      { intros a b Ha. rewrite (Hnz a b (HpartX a Ha)). apply Mirror. }
      rewrite Hrel. cbn [bind].
      apply (IH (acc ++ part) rem w' (X ++ part)).
      + subst part. cbn in Hl. subst ns. cbn in Hlen, Hl. lia.
      + rewrite <- app_assoc. eapply Permutation_NoDup; [|exact Hnd].
        apply Permutation_app_head. symmetry. exact Hperm.
      + intros x. rewrite <- Hmem. rewrite <- app_assoc. rewrite !in_app_iff.
        assert (In x ns <-> In x part \/ In x rem).
        { rewrite <- in_app_iff. split; intros H; (eapply Permutation_in; [|exact H]); [symmetry|]; exact Hperm. }
        tauto.
      + intros x Hx. apply Hsub, Hrem_ns, Hx.
      + eapply same_keys_trans; eauto.
      + intros y b Hy. rewrite Hc'. destruct (in_dec Nat.eq_dec y part) as [|Hn]; [reflexivity|].
        apply in_app_or in Hy. destruct Hy as [Hy|Hy]; [auto|contradiction].
      + intros y b Hy. rewrite Hc'. destruct (in_dec Nat.eq_dec y part) as [Hi|Hn].
        * exfalso. apply Hy, in_or_app. auto.
        * apply Hnz. intros HX. apply Hy, in_or_app. auto.
  Qed.

  Lemma sort_complete :
    exists l, (w0 <- release sd wip pd ;; sort_loop (List.length ns0) sd [] ns0 w0) = Ok l.
  Proof.
    destruct (release_ok sd wip pd) as [w0 [Hrel [Hk Hc]]].
    - clear -ND. induction wip as [|a l IH]; [constructor|]. cbn in ND. inversion ND; subst.
      constructor; [intros H; apply H1, in_or_app; auto|auto].
    - intros a Ha. apply K_S, in_or_app. auto.
    - intros a b _. apply Mirror.
    - rewrite Hrel. cbn [bind]. apply (loop_complete _ [] ns0 w0 wip); auto.
      + tauto.
      + intros y b Hy. rewrite Hc. destruct (in_dec Nat.eq_dec y wip); [reflexivity|contradiction].
      + intros y b Hy. rewrite Hc. destruct (in_dec Nat.eq_dec y wip); [contradiction|reflexivity].
  Qed.
End Complete.

(* ---- on the graph record *)
Definition sortable_state (g : graph) (ns : list node) : Prop :=
  NoDup (g_wip g ++ ns) /\
  (forall x, In x (g_wip g ++ ns) -> In x (dkeys (g_succs g))) /\
  (forall x, In x ns -> In x (dkeys (g_preds g))) /\
  (forall a b, cnt a (lk (g_preds g) b) = cnt b (lk (g_succs g) a)) /\
  (forall b a, In b ns -> In a (lk (g_preds g) b) -> In a (g_wip g ++ ns)).

Theorem sorting_complete g pres :
  sortable_state g (if nonempty pres then pres else g_nodes g) ->
  (forall a, ~ reach (waits (g_preds g) (if nonempty pres then pres else g_nodes g)) a a) ->
  exists g', sorting g pres = Ok g'.
Proof.
  intros [ND [KS [KP [M C]]]] Ac. unfold sorting.
  destruct (sort_complete (g_preds g) (g_succs g) (g_wip g) _ KS KP M C ND Ac) as [l Hl].
  apply bind_ok in Hl. destruct Hl as [w0 [H0 H1]]. rewrite H0. cbn [bind]. rewrite H1. cbn [bind]. eauto.
Qed.

(* ---- consistent graph objects: the constructor makes one, add_nodes / add_edges keep it *)
Definition scounts_ok (sd : dict) (es : list edge) : Prop :=
  forall a sl, dget sd a = Some sl -> forall b, cnt b sl = ecnt (a, b) es.

Definition consistent (g : graph) : Prop :=
  NoDup (g_wip g ++ g_nodes g) /\
  (forall x, In x (g_wip g ++ g_nodes g) -> In x (dkeys (g_succs g))) /\
  (forall x, In x (g_nodes g) -> In x (dkeys (g_preds g))) /\
  counts_ok (g_preds g) (g_edges g) /\ scounts_ok (g_succs g) (g_edges g) /\
  (forall a b, In (a, b) (g_edges g) -> In a (dkeys (g_succs g)) /\ In b (dkeys (g_preds g))) /\
  (forall a b, In (a, b) (g_edges g) -> In b (g_nodes g) -> In a (g_wip g ++ g_nodes g)).

Lemma lk_cnt_counts pd es a b : counts_ok pd es ->
  (forall x y, In (x, y) es -> In y (dkeys pd)) -> cnt a (lk pd b) = ecnt (a, b) es.
Proof.
  intros Hc Hk. unfold lk. destruct (dget pd b) as [pl|] eqn:E; [apply Hc, E|].
  cbn. destruct (ecnt (a, b) es) eqn:Ec; [reflexivity|]. exfalso.
  assert (Hin : In (a, b) es) by (apply ecnt_pos_In; lia).
  apply Hk in Hin. apply dget_None_keys in E. contradiction.
Qed.

Lemma lk_cnt_scounts sd es a b : scounts_ok sd es ->
  (forall x y, In (x, y) es -> In x (dkeys sd)) -> cnt b (lk sd a) = ecnt (a, b) es.
Proof.
  intros Hc Hk. unfold lk. destruct (dget sd a) as [sl|] eqn:E; [apply Hc, E|].
  cbn. destruct (ecnt (a, b) es) eqn:Ec; [reflexivity|]. exfalso.
  assert (Hin : In (a, b) es) by (apply ecnt_pos_In; lia).
  apply Hk in Hin. apply dget_None_keys in E. contradiction.
Qed.

Lemma consistent_sortable g ns :
  consistent g -> Permutation ns (g_nodes g) -> sortable_state g ns.
Proof.
  intros [ND [KS [KP [CP [CS [KE CL]]]]]] Hp.
  assert (Hin : forall x, In x ns <-> In x (g_nodes g))
    by (intros x; split; intros H; (eapply Permutation_in; [|exact H]); [|symmetry]; exact Hp).
  split; [eapply Permutation_NoDup; [|exact ND]; apply Permutation_app_head; symmetry; exact Hp|].
  split; [intros x Hx; apply KS; rewrite in_app_iff in *; rewrite <- Hin; exact Hx|].
  split; [intros x Hx; apply KP, Hin, Hx|].
  split.
  - intros a b. rewrite (lk_cnt_counts _ _ a b CP (fun x y H => proj2 (KE x y H))).
    rewrite (lk_cnt_scounts _ _ a b CS (fun x y H => proj1 (KE x y H))). reflexivity.
  - intros b a Hb Ha. assert (Hc : cnt a (lk (g_preds g) b) > 0) by (apply cnt_pos_In, Ha).
    rewrite (lk_cnt_counts _ _ a b CP (fun x y H => proj2 (KE x y H))) in Hc. apply ecnt_pos_In in Hc.
    specialize (CL a b Hc (proj1 (Hin b) Hb)). rewrite in_app_iff in *. rewrite Hin. exact CL.
Qed.

Lemma reach_waits_path g ns a b :
  consistent g -> (forall x, In x ns -> In x (g_nodes g)) ->
  reach (waits (g_preds g) ns) a b -> path (g_nodes g) (g_edges g) a b.
Proof.
  intros [ND [KS [KP [CP [CS [KE CL]]]]]] Hsub.
  assert (Hw : forall x y, waits (g_preds g) ns x y -> In (x, y) (g_edges g) /\ In x (g_nodes g) /\ In y (g_nodes g)).
  { intros x y [Hx [Hy Hl]]. split; [|split; auto].
    apply ecnt_pos_In. rewrite <- (lk_cnt_counts _ _ x y CP (fun u v H => proj2 (KE u v H))). apply cnt_pos_In, Hl. }
  induction 1 as [x y H|x y z H _ IH].
  - destruct (Hw x y H) as [H1 [H2 H3]]. apply path_one; assumption.
  - destruct (Hw x y H) as [H1 [H2 H3]]. eapply path_cons; eauto.
Qed.

(* sorting a consistent graph whose edges among the remaining nodes are acyclic returns an order *)
Theorem consistent_sorting_ok g pres :
  consistent g -> (pres = [] \/ Permutation pres (g_nodes g)) -> acyclic (g_nodes g) (g_edges g) ->
  exists g', sorting g pres = Ok g'.
Proof.
  intros Hc Hp Hac.
  assert (Hp' : Permutation (if nonempty pres then pres else g_nodes g) (g_nodes g)).
  { destruct Hp as [->|Hp]; [reflexivity|]. apply nonempty_perm, Hp. }
  apply sorting_complete.
  - apply consistent_sortable; assumption.
  - intros a Ha. apply (Hac a). eapply reach_waits_path; [exact Hc| |exact Ha].
    intros x Hx. eapply Permutation_in; eauto.
Qed.

(* ---- the constructor and the two growing operations keep [consistent] *)
Lemma connect_all_scounts es : forall pd sd ps,
  connect_all es pd sd = Ok ps ->
  forall a, match dget sd a, dget (snd ps) a with
            | None, None => True
            | Some sl, Some sl' => forall b, cnt b sl' = cnt b sl + ecnt (a, b) es
            | _, _ => False
            end.
Proof.
  unfold connect_all. induction es as [|[x y] es IH]; cbn [foldM]; intros pd sd ps H a.
  - inversion H; subst. cbn. destruct (dget sd a); [intros; cbn; lia|exact I].
  - apply bind_ok in H. destruct H as [[p1 s1] [H1 H]]. cbn [fst snd] in H1.
    specialize (IH p1 s1 ps H a). unfold connect in H1. cbn [fst snd] in H1.
    apply bind_ok in H1. destruct H1 as [p1' [_ H1]]. apply bind_ok in H1. destruct H1 as [s1' [Hs H1]].
    inversion H1; subst p1' s1'. clear H1. apply dappend_ok in Hs. destruct Hs as [v [Hv ->]].
    rewrite dget_dset in IH. destruct (Nat.eqb a x) eqn:E.
    + apply Nat.eqb_eq in E. subst a. rewrite Hv. destruct (dget (snd ps) x) as [sl'|]; [|exact IH].
      intros b. rewrite IH. unfold cnt, ecnt. rewrite count_occ_app. cbn. unfold node in *.
      destruct (Nat.eq_dec y b) as [e1|n1], (edge_dec (x, y) (x, b)) as [e2|n2]; try lia;
        [exfalso; apply n2; congruence|exfalso; apply n1; congruence].
    + apply Nat.eqb_neq in E. destruct (dget sd a), (dget (snd ps) a); try exact IH.
      intros b. rewrite IH. unfold ecnt. cbn. destruct (edge_dec (x, y) (a, b)) as [e2|n2]; [exfalso; apply E; congruence|lia].
Qed.

Lemma connect_all_skeys_in es pd sd ps n :
  connect_all es pd sd = Ok ps -> In n (dkeys sd) -> In n (dkeys (snd ps)).
Proof.
  intros H Hn. pose proof (connect_all_scounts es pd sd ps H n) as K.
  apply dget_In_keys in Hn. destruct Hn as [v Hv]. rewrite Hv in K.
  apply dget_In_keys. destruct (dget (snd ps) n); [eauto|contradiction].
Qed.

Lemma edges_in_nodes_In ns es a b :
  edges_in_nodes ns es = true -> In (a, b) es -> In a ns /\ In b ns.
Proof.
  unfold edges_in_nodes. rewrite forallb_forall. intros H Hin. specialize (H _ Hin). cbn in H.
  apply andb_true_iff in H. destruct H as [H1 H2]. split; apply memb_In; assumption.
Qed.

Lemma check_edges (ns : list node) (es : list edge) :
  nonempty es && negb (edges_in_nodes ns es) = false -> forall a b, In (a, b) es -> In a ns /\ In b ns.
Proof.
  destruct es as [|e es]; [intros _ a b []|]. cbn [nonempty andb]. intros H a b Hin.
  apply negb_false_iff in H. eapply edges_in_nodes_In; eauto.
Qed.

Lemma init_consistent ns es g : init ns es = Ok g -> consistent g.
Proof.
  unfold init. destruct (nonempty ns && has_dup ns) eqn:Hd; [discriminate|].
  destruct (nonempty es && negb (edges_in_nodes ns es)) eqn:He; [discriminate|].
  intros H. apply bind_ok in H. destruct H as [ps [Hc H]]. inversion H; subst g. clear H.
  apply check_dup_nodup in Hd. pose proof (check_edges ns es He) as Hin. unfold consistent. cbn.
  assert (KP : forall x, In x ns -> In x (dkeys (fst ps)))
    by (intros x Hx; eapply connect_all_keys_in; [exact Hc|rewrite dkeys_empty; exact Hx]).
  assert (KS : forall x, In x ns -> In x (dkeys (snd ps)))
    by (intros x Hx; eapply connect_all_skeys_in; [exact Hc|rewrite dkeys_empty; exact Hx]).
  repeat split; auto.
  - intros b pl Hb a. pose proof (connect_all_counts _ _ _ _ Hc b) as K. rewrite Hb, dget_empty in K.
    destruct (memb b ns); [|contradiction]. rewrite K. reflexivity.
  - intros a sl Ha b. pose proof (connect_all_scounts _ _ _ _ Hc a) as K. rewrite Ha, dget_empty in K.
    destruct (memb a ns); [|contradiction]. rewrite K. reflexivity.
  - apply KS. exact (proj1 (Hin a b H)).
  - apply KP. exact (proj2 (Hin a b H)).
  - intros a b H _. exact (proj1 (Hin a b H)).
Qed.

Lemma nodup_app_intro (l r : list node) :
  NoDup l -> NoDup r -> (forall x, In x l -> ~ In x r) -> NoDup (l ++ r).
Proof.
  induction l as [|y l IH]; cbn; intros Hl Hr Hd; [exact Hr|].
  inversion Hl; subst. constructor.
  - intros H. apply in_app_or in H. destruct H as [H|H]; [contradiction|]. apply (Hd y); auto.
  - apply IH; auto.
Qed.

Lemma nodup_app_l (l r : list node) : NoDup (l ++ r) -> NoDup l.
Proof.
  induction l as [|y l IH]; cbn; intros H; [constructor|]. inversion H; subst.
  constructor; [intros Hy; apply H2, in_or_app; auto|auto].
Qed.

Lemma dkeys_fold_dset new d x :
  In x (dkeys (fold_left (fun d n => dset d n []) new d)) <-> In x new \/ In x (dkeys d).
Proof.
  rewrite <- !dget_In_keys. rewrite dget_fold_dset. destruct (memb x new) eqn:E.
  - apply memb_In in E. split; [auto|eauto].
  - apply memb_false in E. split; [auto|intros [H|H]; [contradiction|exact H]].
Qed.

Lemma consistent_set_sorted g o : consistent g -> consistent (set_sorted g o).
Proof. exact (fun H => H). Qed.

Lemma add_nodes_consistent g new g' :
  consistent g -> new_keys_ok g new = true -> add_nodes g new = Ok g' -> consistent g'.
Proof.
  intros [ND [KS [KP [CP [CS [KE CL]]]]]] Hf. unfold add_nodes.
  destruct (nonempty (g_nodes g ++ new) && has_dup (g_nodes g ++ new)) eqn:Hd; [discriminate|].
  apply check_dup_nodup in Hd. set (g1 := mkG _ _ _ _ _ _).
  unfold new_keys_ok in Hf. rewrite forallb_forall in Hf.
  assert (Hnk : forall n, In n new -> ~ In n (dkeys (g_preds g)) /\ ~ In n (dkeys (g_succs g))).
  { intros n Hn. specialize (Hf n Hn). apply andb_true_iff in Hf. destruct Hf as [H1 H2].
    apply negb_true_iff in H1, H2. apply memb_false in H1, H2. auto. }
  assert (C1 : consistent g1).
  { unfold consistent; cbn. repeat split.
    - rewrite app_assoc. apply nodup_app_intro.
      + exact ND.
      + eapply nodup_app_r; eauto.
      + intros x Hx Hn. apply (proj2 (Hnk x Hn)). apply KS, Hx.
    - intros x Hx. apply dkeys_fold_dset. rewrite app_assoc in Hx. apply in_app_or in Hx.
      destruct Hx as [Hx|Hx]; [right; apply KS, Hx|left; exact Hx].
    - intros x Hx. apply dkeys_fold_dset. apply in_app_or in Hx.
      destruct Hx as [Hx|Hx]; [right; apply KP, Hx|left; exact Hx].
    - intros b pl Hb a. rewrite dget_fold_dset in Hb. destruct (memb b new) eqn:E; [|apply CP, Hb].
      inversion Hb; subst pl. cbn. apply memb_In in E.
      destruct (ecnt (a, b) (g_edges g)) eqn:Ec; [reflexivity|]. exfalso.
      assert (Hin : In (a, b) (g_edges g)) by (apply ecnt_pos_In; lia).
      apply (proj1 (Hnk b E)). exact (proj2 (KE a b Hin)).
    - intros a sl Ha b. rewrite dget_fold_dset in Ha. destruct (memb a new) eqn:E; [|apply CS, Ha].
      inversion Ha; subst sl. cbn. apply memb_In in E.
      destruct (ecnt (a, b) (g_edges g)) eqn:Ec; [reflexivity|]. exfalso.
      assert (Hin : In (a, b) (g_edges g)) by (apply ecnt_pos_In; lia).
      apply (proj2 (Hnk a E)). exact (proj1 (KE a b Hin)).
    - apply dkeys_fold_dset. right. exact (proj1 (KE a b H)).
    - apply dkeys_fold_dset. right. exact (proj2 (KE a b H)).
    - intros a b Hin Hb. rewrite app_assoc. apply in_or_app. apply in_app_or in Hb.
      destruct Hb as [Hb|Hb]; [left; apply (CL a b Hin Hb)|].
      exfalso. apply (proj1 (Hnk b Hb)). exact (proj2 (KE a b Hin)). }
  destruct (g_sorted g).
  - intros H. apply sorting_frame in H. destruct H as [l0 ->]. exact C1.
  - intros H. inversion H; subst. exact C1.
Qed.

Lemma add_edges_consistent g new g' : consistent g -> add_edges g new = Ok g' -> consistent g'.
Proof.
  intros [ND [KS [KP [CP [CS [KE CL]]]]]]. unfold add_edges.
  destruct (nonempty (g_edges g ++ new) && negb (edges_in_nodes (g_nodes g) (g_edges g ++ new))) eqn:He; [discriminate|].
  pose proof (check_edges _ _ He) as Hin.
  intros H. apply bind_ok in H. destruct H as [ps [Hca H]].
  set (g1 := mkG _ _ _ _ _ _) in H.
  assert (C1 : consistent g1).
  { unfold consistent; cbn. repeat split.
    - exact ND.
    - intros x Hx. eapply connect_all_skeys_in; eauto.
    - intros x Hx. eapply connect_all_keys_in; eauto.
    - intros b pl' Hb a. pose proof (connect_all_counts _ _ _ _ Hca b) as K. rewrite Hb in K.
      destruct (dget (g_preds g) b) as [pl|] eqn:Hg; [|contradiction].
      rewrite K, (CP b pl Hg). unfold ecnt. rewrite count_occ_app. reflexivity.
    - intros a sl' Ha b. pose proof (connect_all_scounts _ _ _ _ Hca a) as K. rewrite Ha in K.
      destruct (dget (g_succs g) a) as [sl|] eqn:Hg; [|contradiction].
      rewrite K, (CS a sl Hg). unfold ecnt. rewrite count_occ_app. reflexivity.
    - eapply connect_all_skeys_in; [exact Hca|]. apply KS, in_or_app. right. exact (proj1 (Hin a b H0)).
    - eapply connect_all_keys_in; [exact Hca|]. apply KP. exact (proj2 (Hin a b H0)).
    - intros a b Hab _. apply in_or_app. right. exact (proj1 (Hin a b Hab)). }
  destruct (g_sorted g).
  - apply sorting_frame in H. destruct H as [l0 ->]. exact C1.
  - inversion H; subst. exact C1.
Qed.

Lemma step_build_consistent g o g' :
  consistent g -> build_ok g o = true -> step g o = Ok g' -> consistent g'.
Proof.
  intros Hc Hb H. destruct o; cbn in Hb, H; try discriminate.
  - eapply add_nodes_consistent; eauto.
  - eapply add_edges_consistent; eauto.
  - apply sorting_frame in H. destruct H as [l0 ->]. exact Hc.
  - apply bind_ok in H. destruct H as [[g1 s] [H1 H]]. inversion H; subst g'.
    apply sorted_nodes_frame in H1. destruct H1 as [o ->]. exact Hc.
  - inversion H; subst. unfold copy_graph. destruct (g_sorted g) as [[|x s]|]; exact Hc.
Qed.

Lemma run_build_consistent ops : forall g g',
  consistent g -> run_build g ops = true -> run g ops = Ok g' -> consistent g'.
Proof.
  unfold run. induction ops as [|o ops IH]; cbn; intros g g' Hc Hd H.
  - inversion H; subst. exact Hc.
  - apply bind_ok in H. destruct H as [g1 [H1 H]]. apply andb_true_iff in Hd. destruct Hd as [Hd1 Hd2].
    rewrite H1 in Hd2. eapply IH; [|exact Hd2|exact H]. eapply step_build_consistent; eauto.
Qed.

(* A graph built like Workflow._create_graph builds it — constructor, then add_nodes / add_edges
   (and possibly sortings) — whose edges are acyclic is sorted by sorted_nodes / sorting():
   the exception of repair F18 is raised for cyclic graphs only. *)
Theorem built_acyclic_sorts ns es ops g0 g :
  init ns es = Ok g0 -> run_build g0 ops = true -> run g0 ops = Ok g ->
  acyclic (g_nodes g) (g_edges g) ->
  (exists g', sorting g [] = Ok g') /\ (exists g', step g GetSorted = Ok g').
Proof.
  intros Hi Hb Hr Hac.
  assert (Hc : consistent g) by (eapply run_build_consistent; [eapply init_consistent; eauto|exact Hb|exact Hr]).
  destruct (consistent_sorting_ok g [] Hc (or_introl eq_refl) Hac) as [g' Hs].
  split; [eauto|]. cbn. unfold sorted_nodes. destruct (g_sorted g); cbn; [eauto|]. rewrite Hs. cbn. eauto.
Qed.

(* and conversely an order only exists for acyclic edges: what sorting returns shows there is no cycle *)
Lemma topo_valid_acyclic ns es l : topo_valid ns es l -> acyclic ns es.
Proof.
  intros [_ [_ Hpos]] a Hp.
  assert (G : forall x y, path ns es x y -> pos x l < pos y l).
  { induction 1 as [x y H1 H2 H3|x y z H1 H2 H3 _ IH]; [auto|]. specialize (Hpos x y H1 H2 H3). lia. }
  specialize (G a a Hp). lia.
Qed.
