(* Proofs/GraphEdges.v — from the predecessors dictionary to the list of edges: as long as
   add_nodes is only given nodes that are not marked for removal and that no recorded edge points
   to, predecessors[b] lists a exactly as often as (a, b) occurs in edges; hence the order is
   valid for the edges. *)
From Pydra Require Import Base.Prelude Model.Graph Proofs.GraphBase Proofs.GraphSort Proofs.GraphInv.
From Coq Require Import Sorting.Permutation.
Local Open Scope nat_scope.
Local Open Scope list_scope.

Definition edge_dec : forall x y : edge, {x = y} + {x <> y}.
Proof. decide equality; apply Nat.eq_dec. Qed.
Definition cnt (a : node) (l : list node) : nat := count_occ Nat.eq_dec l a.
Definition ecnt (e : edge) (l : list edge) : nat := count_occ edge_dec l e.

Definition counts_ok (pd : dict) (es : list edge) : Prop :=
  forall b pl, dget pd b = Some pl -> forall a, cnt a pl = ecnt (a, b) es.

Definition inv2 (g : graph) : Prop :=
  inv g /\
  (forall n, In n (g_nodes g) -> In n (dkeys (g_preds g))) /\
  (forall x, In x (g_wip g) -> ~ In x (g_nodes g)) /\
  counts_ok (g_preds g) (g_edges g).

(* ---- counting *)
Lemma remove_one_cnt x l l' : remove_one Nat.eqb x l = Some l' ->
  forall y, cnt y l = cnt y l' + (if Nat.eq_dec x y then 1 else 0).
Proof.
  intros H y. apply (remove_one_perm Nat.eqb Nat.eqb_eq) in H. unfold cnt.
  rewrite (Permutation_count_occ Nat.eq_dec) in H. rewrite H. cbn.
  destruct (Nat.eq_dec x y); lia.
Qed.

Lemma remove_one_ecnt x l l' : remove_one edge_eqb x l = Some l' ->
  forall y, ecnt y l = ecnt y l' + (if edge_dec x y then 1 else 0).
Proof.
  intros H y. apply (remove_one_perm edge_eqb edge_eqb_eq) in H. unfold ecnt.
  rewrite (Permutation_count_occ edge_dec) in H. rewrite H. cbn.
  destruct (edge_dec x y); lia.
Qed.

Lemma cnt_pos_In a l : cnt a l > 0 <-> In a l.
Proof. unfold cnt. symmetry. apply count_occ_In. Qed.
Lemma ecnt_pos_In e l : ecnt e l > 0 <-> In e l.
Proof. unfold ecnt. symmetry. apply count_occ_In. Qed.

(* ---- connect_all *)
Lemma connect_all_counts es : forall pd sd ps,
  connect_all es pd sd = Ok ps ->
  forall b, match dget pd b, dget (fst ps) b with
            | None, None => True
            | Some pl, Some pl' => forall a, cnt a pl' = cnt a pl + ecnt (a, b) es
            | _, _ => False
            end.
Proof.
  unfold connect_all. induction es as [|[x y] es IH]; cbn [foldM]; intros pd sd ps H b.
  - inversion H; subst. cbn. destruct (dget pd b); [intros; cbn; lia|exact I].
  - apply bind_ok in H. destruct H as [[p1 s1] [H1 H]]. cbn [fst snd] in H1.
    specialize (IH p1 s1 ps H b). unfold connect in H1. cbn [fst snd] in H1.
    apply bind_ok in H1. destruct H1 as [p1' [Hp H1]]. apply bind_ok in H1. destruct H1 as [s1' [_ H1]].
    inversion H1; subst p1' s1'. clear H1. apply dappend_ok in Hp. destruct Hp as [v [Hv ->]].
    rewrite dget_dset in IH. destruct (Nat.eqb b y) eqn:E.
    + apply Nat.eqb_eq in E. subst b. rewrite Hv. destruct (dget (fst ps) y) as [pl'|]; [|exact IH].
      intros a. rewrite IH. unfold cnt, ecnt. rewrite count_occ_app. cbn. unfold node in *.
      destruct (Nat.eq_dec x a) as [e1|n1], (edge_dec (x, y) (a, y)) as [e2|n2]; try lia; [exfalso; apply n2; congruence|exfalso; apply n1; congruence].
    + apply Nat.eqb_neq in E. destruct (dget pd b), (dget (fst ps) b); try exact IH.
      intros a. rewrite IH. unfold ecnt. cbn. destruct (edge_dec (x, y) (a, b)) as [e2|n2]; [exfalso; apply E; congruence|lia].
Qed.

Lemma connect_all_keys_in es pd sd ps n :
  connect_all es pd sd = Ok ps -> In n (dkeys pd) -> In n (dkeys (fst ps)).
Proof.
  intros H Hn. pose proof (connect_all_counts es pd sd ps H n) as K.
  apply dget_In_keys in Hn. destruct Hn as [v Hv]. rewrite Hv in K.
  apply dget_In_keys. destruct (dget (fst ps) n); [eauto|contradiction].
Qed.

Lemma dget_empty ns b : dget (map (fun n => (n, @nil node)) ns) b = if memb b ns then Some [] else None.
Proof.
  induction ns as [|n ns IH]; cbn; [reflexivity|].
  destruct (Nat.eqb b n); cbn; [reflexivity|exact IH].
Qed.

Lemma init_inv2 ns es g : init ns es = Ok g -> inv2 g.
Proof.
  intros H. split; [eapply init_inv; eauto|]. unfold init in H.
  destruct (nonempty ns && has_dup ns); [discriminate|].
  destruct (nonempty es && negb (edges_in_nodes ns es)); [discriminate|].
  apply bind_ok in H. destruct H as [ps [Hc H]]. inversion H; subst g. clear H. cbn.
  split; [|split; [contradiction|]].
  - intros n Hn. eapply connect_all_keys_in; [exact Hc|]. rewrite dkeys_empty. exact Hn.
  - intros b pl Hb a. pose proof (connect_all_counts _ _ _ _ Hc b) as K. rewrite Hb, dget_empty in K.
    destruct (memb b ns); [|contradiction]. rewrite K. reflexivity.
Qed.

(* ---- add_nodes *)
Lemma dget_fold_dset new : forall d b,
  dget (fold_left (fun d n => dset d n []) new d) b = if memb b new then Some [] else dget d b.
Proof.
  induction new as [|n new IH]; intros d b; cbn; [reflexivity|].
  rewrite IH, dget_dset. destruct (Nat.eqb b n) eqn:E; cbn; [|reflexivity].
  destruct (memb b new); reflexivity.
Qed.

Lemma set_sorted_fields g s :
  g_nodes (set_sorted g s) = g_nodes g /\ g_edges (set_sorted g s) = g_edges g /\
  g_preds (set_sorted g s) = g_preds g /\ g_succs (set_sorted g s) = g_succs g /\
  g_wip (set_sorted g s) = g_wip g.
Proof. repeat split. Qed.

(* sorting only replaces the recorded order *)
Lemma sorting_frame g pres g' : sorting g pres = Ok g' -> exists l, g' = set_sorted g (Some l).
Proof. intros H. destruct (sorting_sound _ _ _ H) as [l [E _]]. eauto. Qed.

Definition rest_ok (g : graph) : Prop :=
  (forall n, In n (g_nodes g) -> In n (dkeys (g_preds g))) /\
  (forall x, In x (g_wip g) -> ~ In x (g_nodes g)) /\
  counts_ok (g_preds g) (g_edges g).

Lemma rest_ok_set_sorted g s : rest_ok g -> rest_ok (set_sorted g s).
Proof. exact (fun H => H). Qed.

Lemma add_nodes_rest g new g' :
  rest_ok g -> fresh_for g new = true -> add_nodes g new = Ok g' -> rest_ok g'.
Proof.
  intros [Hk [Hw Hc]] Hf. unfold add_nodes.
  destruct (nonempty (g_nodes g ++ new) && has_dup (g_nodes g ++ new)); [discriminate|].
  set (g1 := mkG _ _ _ _ _ _).
  assert (R1 : rest_ok g1).
  { unfold fresh_for in Hf. rewrite forallb_forall in Hf. split; [|split]; cbn.
    - intros n Hn. apply dget_In_keys. rewrite dget_fold_dset.
      destruct (memb n new) eqn:E; [eauto|]. apply dget_In_keys, Hk.
      apply in_app_or in Hn. destruct Hn as [Hn|Hn]; [exact Hn|]. apply memb_In in Hn. congruence.
    - intros x Hx Hn. apply in_app_or in Hn. destruct Hn as [Hn|Hn]; [eapply Hw; eauto|].
      specialize (Hf x Hn). apply andb_true_iff in Hf. destruct Hf as [Hf _].
      apply negb_true_iff, memb_false in Hf. contradiction.
    - intros b pl Hb a. rewrite dget_fold_dset in Hb. destruct (memb b new) eqn:E.
      + inversion Hb; subst pl. cbn. apply memb_In in E. specialize (Hf b E).
        apply andb_true_iff in Hf. destruct Hf as [_ Hf]. apply negb_true_iff in Hf.
        destruct (ecnt (a, b) (g_edges g)) eqn:Ec; [reflexivity|]. exfalso.
        assert (Hin : In (a, b) (g_edges g)) by (apply ecnt_pos_In; lia).
        assert (existsb (fun e => Nat.eqb (snd e) b) (g_edges g) = true); [|congruence].
        apply existsb_exists. exists (a, b). split; [exact Hin|apply Nat.eqb_refl].
      + apply Hc, Hb. }
  destruct (g_sorted g).
  - intros H. apply sorting_frame in H. destruct H as [l0 ->]. exact R1.
  - intros H. inversion H; subst. exact R1.
Qed.

Lemma add_edges_rest g new g' : rest_ok g -> add_edges g new = Ok g' -> rest_ok g'.
Proof.
  intros [Hk [Hw Hc]]. unfold add_edges.
  destruct (nonempty (g_edges g ++ new) && negb (edges_in_nodes (g_nodes g) (g_edges g ++ new))); [discriminate|].
  intros H. apply bind_ok in H. destruct H as [ps [Hca H]].
  set (g1 := mkG _ _ _ _ _ _) in H.
  assert (R1 : rest_ok g1).
  { split; [|split]; cbn.
    - intros n Hn. eapply connect_all_keys_in; eauto.
    - exact Hw.
    - intros b pl' Hb a. pose proof (connect_all_counts _ _ _ _ Hca b) as K. rewrite Hb in K.
      destruct (dget (g_preds g) b) as [pl|] eqn:Hg; [|contradiction].
      rewrite K, (Hc b pl Hg). unfold ecnt. rewrite count_occ_app. reflexivity. }
  destruct (g_sorted g).
  - apply sorting_frame in H. destruct H as [l0 ->]. exact R1.
  - inversion H; subst. exact R1.
Qed.

(* ---- remove_nodes *)
Lemma finish_remove_frame g2 l s g' :
  finish_remove g2 l s = Ok g' -> exists o, g' = set_sorted g2 o.
Proof.
  unfold finish_remove. destruct (list_eqb Nat.eqb l (firstn (List.length l) s)).
  - intros H. inversion H; subst. eauto.
  - intros H. apply bind_ok in H. destruct H as [s' [_ H]]. apply sorting_frame in H.
    destruct H as [l0 ->]. exists (Some l0). reflexivity.
Qed.

Lemma sorted_nodes_frame g g' s : sorted_nodes g = Ok (g', s) -> exists o, g' = set_sorted g o.
Proof.
  unfold sorted_nodes. destruct (g_sorted g) eqn:E.
  - intros H. inversion H; subst. exists (Some s). destruct g'; cbn in *; subst; reflexivity.
  - intros H. apply bind_ok in H. destruct H as [g1 [H1 H]]. inversion H; subst.
    apply sorting_frame in H1. destruct H1 as [l0 ->]. eauto.
Qed.

Lemma remove_nodes_rest g l c g' :
  NoDup (g_nodes g) -> rest_ok g -> remove_nodes g l c = Ok g' -> rest_ok g'.
Proof.
  intros Hnd [Hk [Hw Hc]]. unfold remove_nodes. intros H.
  apply bind_ok in H. destruct H as [g1 [Hm H]].
  destruct (mark_removed_all _ _ _ _ Hm) as [Pn [Ep [_ [Ee [_ Ew]]]]].
  assert (Hnd1 : NoDup (l ++ g_nodes g1)) by (eapply Permutation_NoDup; eauto).
  assert (R1 : rest_ok g1).
  { split; [|split].
    - intros n Hn. rewrite Ep. apply Hk. eapply Permutation_in; [symmetry; exact Pn|apply in_or_app; auto].
    - intros x Hx Hn. rewrite Ew in Hx. apply in_app_or in Hx. destruct Hx as [Hx|Hx].
      + apply (Hw x Hx). eapply Permutation_in; [symmetry; exact Pn|apply in_or_app; auto].
      + eapply nodup_app_disj; eauto.
    - rewrite Ep, Ee. exact Hc. }
  destruct (g_sorted g1).
  - apply finish_remove_frame in H. destruct H as [o' ->]. exact R1.
  - inversion H; subst. exact R1.
Qed.

(* ---- remove_nodes_connections *)
Lemma disconnect_succ_counts nd sl : forall st st',
  foldM (disconnect_succ nd) sl st = Ok st' ->
  counts_ok (fst st) (snd st) ->
  counts_ok (fst st') (snd st') /\ (forall n, In n (dkeys (fst st)) -> In n (dkeys (fst st'))).
Proof.
  induction sl as [|x sl IH]; cbn; intros st st' H Hc.
  - inversion H; subst. auto.
  - apply bind_ok in H. destruct H as [st1 [H1 H]]. unfold disconnect_succ in H1.
    apply bind_ok in H1. destruct H1 as [pd [Hd H1]]. apply bind_ok in H1. destruct H1 as [es [He H1]].
    inversion H1; subst st1. clear H1. apply of_opt_ok in He.
    apply dremove_ok in Hd. destruct Hd as [v [v' [Hg [Hr ->]]]].
    destruct (IH _ _ H) as [C2 K2]; cbn [fst snd].
    + intros b pl Hb a. rewrite dget_dset in Hb.
      destruct (Nat.eqb b x) eqn:E.
      * apply Nat.eqb_eq in E. subst b. inversion Hb; subst pl.
        pose proof (Hc x v Hg a) as K. rewrite (remove_one_cnt _ _ _ Hr a) in K.
        rewrite (remove_one_ecnt _ _ _ He (a, x)) in K.
        destruct (Nat.eq_dec nd a) as [e1|n1], (edge_dec (nd, x) (a, x)) as [e2|n2]; try lia;
          [exfalso; apply n2; congruence|exfalso; apply n1; congruence].
      * apply Nat.eqb_neq in E. pose proof (Hc b pl Hb a) as K.
        rewrite (remove_one_ecnt _ _ _ He (a, b)) in K.
        destruct (edge_dec (nd, x) (a, b)) as [e2|n2]; [exfalso; apply E; congruence|lia].
    + split; [exact C2|]. intros n Hn. apply K2. cbn. apply dkeys_dset_In. auto.
Qed.

Lemma pop_node_rest g pd sd es nd g' :
  pop_node g pd sd es nd = Ok g' -> NoDup (dkeys pd) ->
  (forall n, In n (g_nodes g) -> In n (dkeys pd)) ->
  (forall x, In x (g_wip g) -> ~ In x (g_nodes g)) ->
  counts_ok pd es -> rest_ok g'.
Proof.
  unfold pop_node. intros H Hnd Hk Hw Hc. apply bind_ok in H. destruct H as [sd' [_ H]].
  apply bind_ok in H. destruct H as [pd' [Hp H]]. apply bind_ok in H. destruct H as [wip [Hr H]].
  inversion H; subst g'. clear H. apply of_opt_ok in Hp. apply of_opt_ok in Hr.
  destruct (dpop_spec _ _ _ Hp Hnd) as [Hg _].
  split; [|split]; cbn.
  - intros n Hn. apply dget_In_keys. rewrite Hg. destruct (Nat.eqb n nd) eqn:E.
    + apply Nat.eqb_eq in E. subst n. exfalso. apply (Hw nd); [|exact Hn].
      eapply (remove_one_In Nat.eqb Nat.eqb_eq); eauto.
    + apply dget_In_keys, Hk, Hn.
  - intros x Hx. apply Hw. eapply (remove_one_incl Nat.eqb Nat.eqb_eq); eauto.
  - intros b pl Hb a. rewrite Hg in Hb. destruct (Nat.eqb b nd); [discriminate|]. apply Hc, Hb.
Qed.

Lemma remove_connections_one_rest g nd g' :
  NoDup (dkeys (g_preds g)) -> rest_ok g -> remove_connections_one g nd = Ok g' -> rest_ok g'.
Proof.
  intros Hnd [Hk [Hw Hc]] H. unfold remove_connections_one in H.
  apply bind_ok in H. destruct H as [sl [_ H]]. apply bind_ok in H. destruct H as [st [Hf H]].
  destruct (disconnect_succ_counts _ _ _ _ Hf Hc) as [C1 K1]. cbn [fst snd] in K1.
  destruct (disconnect_succ_all _ _ _ _ Hf) as [_ N1]. cbn [fst snd] in N1.
  eapply pop_node_rest; eauto.
Qed.

(* ---- remove_previous_connections *)
Lemma disconnect_pred_edges nd pl : forall st st',
  foldM (disconnect_pred nd) pl st = Ok st' ->
  forall a b, b <> nd -> ecnt (a, b) (snd st') = ecnt (a, b) (snd st).
Proof.
  induction pl as [|x pl IH]; cbn; intros st st' H a b Hb.
  - inversion H; subst. reflexivity.
  - apply bind_ok in H. destruct H as [st1 [H1 H]]. unfold disconnect_pred in H1.
    apply bind_ok in H1. destruct H1 as [sd [_ H1]]. apply bind_ok in H1. destruct H1 as [es [He H1]].
    inversion H1; subst st1. clear H1. apply of_opt_ok in He.
    rewrite (IH _ _ H a b Hb). cbn [snd]. rewrite (remove_one_ecnt _ _ _ He (a, b)).
    destruct (edge_dec (x, nd) (a, b)) as [e2|n2]; [exfalso; apply Hb; congruence|lia].
Qed.

Lemma remove_previous_one_rest g nd g' :
  NoDup (dkeys (g_preds g)) -> rest_ok g -> remove_previous_one g nd = Ok g' -> rest_ok g'.
Proof.
  intros Hnd [Hk [Hw Hc]] H. unfold remove_previous_one in H.
  apply bind_ok in H. destruct H as [pl [_ H]]. apply bind_ok in H. destruct H as [st [Hf H]].
  pose proof (disconnect_pred_edges _ _ _ _ Hf) as He. cbn [snd] in He.
  (* the entry of nd itself is popped, so only the other keys matter *)
  unfold pop_node in H. apply bind_ok in H. destruct H as [sd' [_ H]].
  apply bind_ok in H. destruct H as [pd' [Hp H]]. apply bind_ok in H. destruct H as [wip [Hr H]].
  inversion H; subst g'. clear H. apply of_opt_ok in Hp. apply of_opt_ok in Hr.
  destruct (dpop_spec _ _ _ Hp Hnd) as [Hg _].
  split; [|split]; cbn.
  - intros n Hn. apply dget_In_keys. rewrite Hg. destruct (Nat.eqb n nd) eqn:E.
    + apply Nat.eqb_eq in E. subst n. exfalso. apply (Hw nd); [|exact Hn].
      eapply (remove_one_In Nat.eqb Nat.eqb_eq); eauto.
    + apply dget_In_keys, Hk, Hn.
  - intros x Hx. apply Hw. eapply (remove_one_incl Nat.eqb Nat.eqb_eq); eauto.
  - intros b pl0 Hb a. rewrite Hg in Hb. destruct (Nat.eqb b nd) eqn:E; [discriminate|].
    apply Nat.eqb_neq in E. rewrite (He a b E). apply Hc, Hb.
Qed.

(* ---- everything together *)
Lemma inv2_split g : inv2 g <-> inv g /\ rest_ok g.
Proof. unfold inv2, rest_ok. tauto. Qed.

Lemma foldM_inv2 {A} (f : graph -> A -> result graph) l :
  (forall g x g', inv g -> f g x = Ok g' -> inv g') ->
  (forall g x g', inv g -> rest_ok g -> f g x = Ok g' -> rest_ok g') ->
  forall g g', inv2 g -> foldM f l g = Ok g' -> inv2 g'.
Proof.
  intros Hi Hr. apply (foldM_inv f inv2). intros s x s' _ H2 H.
  apply inv2_split in H2. destruct H2 as [I R]. apply inv2_split. split; eauto.
Qed.

Lemma remove_nodes_connections_inv2 g l g' : inv2 g -> remove_nodes_connections g l = Ok g' -> inv2 g'.
Proof.
  apply foldM_inv2.
  - intros; eapply remove_connections_one_inv; eauto.
  - intros s x s' I R H. eapply remove_connections_one_rest; eauto. exact (proj1 (proj2 I)).
Qed.

Lemma remove_previous_connections_inv2 g l g' : inv2 g -> remove_previous_connections g l = Ok g' -> inv2 g'.
Proof.
  apply foldM_inv2.
  - intros; eapply remove_previous_one_inv; eauto.
  - intros s x s' I R H. eapply remove_previous_one_rest; eauto. exact (proj1 (proj2 I)).
Qed.

Lemma remove_nodes_inv2 g l c g' : inv2 g -> remove_nodes g l c = Ok g' -> inv2 g'.
Proof.
  intros H2 H. apply inv2_split in H2. destruct H2 as [I R]. apply inv2_split. split.
  - eapply remove_nodes_inv; eauto.
  - eapply remove_nodes_rest; eauto. exact (proj1 I).
Qed.

Lemma remove_successors_nodes_inv2 g n g' : inv2 g -> remove_successors_nodes g n = Ok g' -> inv2 g'.
Proof.
  unfold remove_successors_nodes. intros Hi H.
  apply bind_ok in H. destruct H as [all [_ H]]. apply bind_ok in H. destruct H as [g1 [H1 H]].
  apply bind_ok in H. destruct H as [g2 [H2 H]].
  eapply (foldM_inv (fun g nd => remove_previous_connections g [nd]) inv2); [| |exact H].
  - intros s x s' _. apply remove_previous_connections_inv2.
  - eapply (foldM_inv (fun g nd => remove_nodes g [nd] false) inv2); [| |exact H2].
    + intros s x s' _. apply remove_nodes_inv2.
    + eapply remove_nodes_connections_inv2; eauto.
Qed.

Lemma step_inv2 g o g' : inv2 g -> dom_ok g o = true -> step g o = Ok g' -> inv2 g'.
Proof.
  intros H2 Hd H. pose proof H2 as H2'. apply inv2_split in H2'. destruct H2' as [I R].
  destruct o; cbn in H, Hd.
  - apply inv2_split. split; [eapply add_nodes_inv; eauto|eapply add_nodes_rest; eauto].
  - apply inv2_split. split; [eapply add_edges_inv; eauto|eapply add_edges_rest; eauto].
  - eapply remove_nodes_inv2; eauto.
  - eapply remove_nodes_connections_inv2; eauto.
  - eapply remove_previous_connections_inv2; eauto.
  - eapply remove_successors_nodes_inv2; eauto.
  - apply inv2_split. split; [eapply step_inv with (o := Sort); eauto|].
    apply sorting_frame in H. destruct H as [l0 ->]. exact R.
  - apply inv2_split. split; [eapply step_inv with (o := GetSorted); eauto|].
    apply bind_ok in H. destruct H as [[g1 s] [H1 H]]. inversion H; subst g'.
    apply sorted_nodes_frame in H1. destruct H1 as [o ->]. exact R.
  - inversion H; subst. apply inv2_split. split; [apply copy_graph_inv, I|].
    unfold copy_graph. destruct (g_sorted g) as [[|x s]|]; exact R.
Qed.

Lemma run_inv2 ops : forall g g', inv2 g -> run_dom g ops = true -> run g ops = Ok g' -> inv2 g'.
Proof.
  unfold run. induction ops as [|o ops IH]; cbn; intros g g' H2 Hd H.
  - inversion H; subst. exact H2.
  - apply bind_ok in H. destruct H as [g1 [H1 H]]. apply andb_true_iff in Hd. destruct Hd as [Hd1 Hd2].
    rewrite H1 in Hd2. eapply IH; [|exact Hd2|exact H]. eapply step_inv2; eauto.
Qed.
