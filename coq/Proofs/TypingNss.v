(* Proofs/TypingNss.v — C20: which string <-> collection conversions coercion can perform.
   Main result: under a computable condition on the tables (true of the live ones), every accepted coercion
   is related to its input by [nss A]: apart from the tolerated class pairs A (none, for the live tables) no
   string is split into a collection and no collection is joined into a string. *)
From Pydra Require Import Base.Prelude Model.Typing Spec.Typing Proofs.Typing.
Local Open Scope string_scope.

(* ------------------------------------------------------------------ induction on values *)
Section ValInd.
Variable P : val -> Prop.
Hypothesis HNone : P VNone.
Hypothesis HBool : forall b, P (VBool b).
Hypothesis HInt : forall z, P (VInt z).
Hypothesis HFloat : forall z, P (VFloat z).
Hypothesis HStr : forall s, P (VStr s).
Hypothesis HBytes : forall s, P (VBytes s).
Hypothesis HPath : forall s, P (VPath s).
Hypothesis HFile : forall f s, P (VFile f s).
Hypothesis HList : forall l, Forall P l -> P (VList l).
Hypothesis HTuple : forall l, Forall P l -> P (VTuple l).
Hypothesis HSet : forall fr l, Forall P l -> P (VSet fr l).
Hypothesis HDict : forall kv, Forall (fun p => P (fst p) /\ P (snd p)) kv -> P (VDict kv).

Fixpoint val_ind' (v : val) : P v :=
  let go := fix go (l : list val) : Forall P l :=
              match l with [] => Forall_nil P | a :: r => Forall_cons a (val_ind' a) (go r) end in
  match v with
  | VNone => HNone | VBool b => HBool b | VInt z => HInt z | VFloat z => HFloat z
  | VStr s => HStr s | VBytes s => HBytes s | VPath s => HPath s | VFile f s => HFile f s
  | VList l => HList l (go l)
  | VTuple l => HTuple l (go l)
  | VSet fr l => HSet fr l (go l)
  | VDict kv =>
      HDict kv ((fix gd (l : list (val * val)) : Forall (fun p => P (fst p) /\ P (snd p)) l :=
                   match l with
                   | [] => Forall_nil _
                   | (a, b) :: r => Forall_cons (a, b) (conj (val_ind' a) (val_ind' b)) (gd r)
                   end) kv)
  end.
End ValInd.

(* ------------------------------------------------------------------ the relation, rule by rule *)
Section Rules.
Variable A : cls -> cls -> bool.

Lemma nss_allowed v v' : A (class_of v) (class_of v') = true -> nss A v v' = true.
Proof. intros H. destruct v'; cbn [nss]; rewrite H; reflexivity. Qed.

Lemma nss_scalar v v' : is_coll v' = false -> (is_coll v && is_strlike v') = false -> nss A v v' = true.
Proof.
  intros Hc Hs. destruct v'; cbn in Hc; try discriminate; cbn [nss is_coll]; rewrite Hs; cbn; apply orb_true_r.
Qed.

Lemma nss_wrap v x : nss A v x = true -> nss A v (VList [x]) = true.
Proof. intros H. cbn [nss is_coll]. rewrite H. cbn. apply orb_true_r. Qed.

Definition has_source (v : val) (x' : val) : Prop := exists x, In x (children v) /\ nss A x x' = true.

Lemma has_source_b v x' : has_source v x' -> existsb (fun x => nss A x x') (children v) = true.
Proof. intros [x [Hx Hn]]. apply existsb_exists. exists x; split; assumption. Qed.

Lemma nss_items v v' l :
  is_coll v = true -> (v' = VList l \/ v' = VTuple l \/ exists fr, v' = VSet fr l) ->
  Forall (has_source v) l -> nss A v v' = true.
Proof.
  intros Hc Hv HF.
  assert (forallb (fun x' => existsb (fun x => nss A x x') (children v)) l = true) as Hb.
  { apply forallb_forall. rewrite Forall_forall in HF. intros x' Hx'. apply has_source_b, HF, Hx'. }
  destruct Hv as [->|[->|[fr ->]]]; cbn [nss is_coll]; rewrite Hc, Hb; cbn;
    repeat (rewrite ?orb_true_r; cbn); reflexivity.
Qed.

Lemma nss_dict v kv :
  is_coll v = true -> Forall (fun p => has_source v (fst p) /\ has_source v (snd p)) kv ->
  nss A v (VDict kv) = true.
Proof.
  intros Hc HF. cbn [nss is_coll]. rewrite Hc.
  assert (forallb (fun p => let '(k', x') := p in
                     existsb (fun x => nss A x k') (children v) && existsb (fun x => nss A x x') (children v)) kv
          = true) as Hb.
  { apply forallb_forall. rewrite Forall_forall in HF. intros [k' x'] Hp. destruct (HF _ Hp) as [H1 H2].
    cbn in H1, H2. now rewrite (has_source_b _ _ H1), (has_source_b _ _ H2). }
  rewrite Hb. cbn. repeat (rewrite ?orb_true_r; cbn). reflexivity.
Qed.

(* every value is a faithful image of itself *)
Lemma nss_refl : forall v, nss A v v = true.
Proof.
  induction v using val_ind'; try (apply nss_scalar; reflexivity).
  - eapply nss_items; [reflexivity|left; reflexivity|].
    rewrite Forall_forall in *. intros x Hx. exists x; split; [exact Hx|auto].
  - eapply nss_items; [reflexivity|right; left; reflexivity|].
    rewrite Forall_forall in *. intros x Hx. exists x; split; [exact Hx|auto].
  - eapply nss_items; [reflexivity|right; right; eexists; reflexivity|].
    rewrite Forall_forall in *. intros x Hx. exists x; split; [exact Hx|auto].
  - apply nss_dict; [reflexivity|].
    rewrite Forall_forall in *. intros [k x] Hp. destruct (H _ Hp) as [H1 H2]. cbn in *. split.
    + exists k; split; [|exact H1]. apply in_or_app. left. apply in_map_iff. exists (k, x); auto.
    + exists x; split; [|exact H2]. apply in_or_app. right. apply in_map_iff. exists (k, x); auto.
Qed.
End Rules.

(* ------------------------------------------------------------------ what is needed from the tables *)
Definition strlike_classes : list cls := [CStr; CBytes].
Definition coll_classes : list cls := [CList; CTuple; CSet; CFrozenset; CDict].
Definition scalar_bases : list cls :=
  [KAny; CNone; CBool; CInt; CFloat; CStr; CBytes; CPath; CFile FFile; CFile FText; CFile FDir].

Definition ctc_ok (T : tables) (sac : bool) (a b : cls) : bool :=
  match check_type_coercible T sac a b with Ok _ => true | Err _ => false end.

(* Whenever the tables let a str/bytes be coerced to a container class, or a container to str/bytes, the pair
   is one of A; and neither the containers nor str/bytes are FileSets (check_coercible's shortcut). *)
Definition tables_nss (A : cls -> cls -> bool) (T : tables) : bool :=
  forallb (fun sac =>
    forallb (fun s => forallb (fun o =>
       implb (ctc_ok T sac s o) (A s o) && implb (ctc_ok T sac o s) (A o s)) coll_classes) strlike_classes)
    [false; true]
  && forallb (fun c => negb (sub T c KFileSet)) (strlike_classes ++ coll_classes).

(* the base classes of the annotation grammar: scalars only *)
Fixpoint scalar_based (t : ty) : bool :=
  match t with
  | TBase c => existsb (cls_eqb c) scalar_bases
  | TList a | TTupleVar a | TSet _ a | TMulti a => scalar_based a
  | TTuple ts | TUnion ts => forallb scalar_based ts
  | TDict k x => scalar_based k && scalar_based x
  end.

Section Nss.
Variable A : cls -> cls -> bool.
Variable T : tables.
Variable W : world.
Variable sac : bool.
Hypothesis WF : tables_wf T = true.
Hypothesis TN : tables_nss A T = true.

Lemma is_coll_class v : is_coll v = true <-> In (class_of v) coll_classes.
Proof. destruct v as [| | | | | | |f| | |fr|]; try destruct fr; cbn; intuition (try discriminate). Qed.

Lemma is_strlike_class v : is_strlike v = true <-> In (class_of v) strlike_classes.
Proof. destruct v as [| | | | | | |f| | |fr|]; try destruct fr; cbn; intuition (try discriminate). Qed.

Lemma tn_pairs s o :
  In s strlike_classes -> In o coll_classes ->
  (check_type_coercible T sac s o = Ok tt -> A s o = true) /\
  (check_type_coercible T sac o s = Ok tt -> A o s = true).
Proof.
  intros Hs Ho. unfold tables_nss in TN. apply andb_true_iff in TN. destruct TN as [H _].
  rewrite forallb_forall in H. assert (In sac [false; true]) as Hsac by (destruct sac; cbn; auto).
  specialize (H _ Hsac). rewrite forallb_forall in H. specialize (H _ Hs).
  rewrite forallb_forall in H. specialize (H _ Ho). apply andb_true_iff in H. destruct H as [H1 H2].
  unfold ctc_ok in *. split; intros E; rewrite E in *; cbn in *; assumption.
Qed.

Lemma tn_not_fileset c : In c (strlike_classes ++ coll_classes) -> sub T c KFileSet = false.
Proof.
  intros Hc. unfold tables_nss in TN. apply andb_true_iff in TN. destruct TN as [_ H].
  rewrite forallb_forall in H. specialize (H _ Hc). now apply negb_true_iff in H.
Qed.

(* check_coercible reduces to check_type_coercible when the target is not a FileSet *)
Lemma check_coercible_plain v c :
  sub T c KFileSet = false -> check_coercible T sac v c = check_type_coercible T sac (class_of v) c.
Proof. intros H. unfold check_coercible. rewrite H. now rewrite andb_false_r. Qed.

Lemma unit_ok (r : result unit) u : r = Ok u -> r = Ok tt.
Proof. destruct u. auto. Qed.

(* a str / bytes accepted where a container class is wanted: only for the tolerated pairs *)
Lemma enter_strlike o v c :
  In o coll_classes -> is_strlike v = true -> enter T sac o v = Ok c -> A (class_of v) o = true.
Proof.
  intros Ho Hs. unfold enter. destruct (is_instance T v o) eqn:E.
  - intros _. apply (is_instance_container T WF) in E; [|exact Ho].
    apply is_strlike_class in Hs. rewrite E in Hs. exfalso.
    destruct Ho as [<-|[<-|[<-|[<-|[<-|[]]]]]]; cbn in Hs; intuition discriminate.
  - destruct (check_coercible T sac v o) as [u|] eqn:Ec; [|discriminate]. intros _.
    rewrite check_coercible_plain in Ec by (apply tn_not_fileset, in_or_app; right; exact Ho).
    apply unit_ok in Ec. apply is_strlike_class in Hs. now apply (tn_pairs _ _ Hs Ho).
Qed.

Lemma iter_children v items : iter v = Ok items -> is_coll v = true -> incl items (children v).
Proof.
  destruct v; cbn; try discriminate; intros H _; inversion H; subst; try apply incl_refl.
  intros x Hx. apply in_or_app. now left.
Qed.

Lemma iter_kinds v items : iter v = Ok items -> is_strlike v = true \/ is_coll v = true.
Proof. destruct v; cbn; try discriminate; auto. Qed.

Lemma construct_container_coll c items v : construct_container c items = Ok v -> is_coll v = true.
Proof.
  destruct c; cbn; try discriminate; intros H.
  - now inversion H.
  - now inversion H.
  - apply mk_set_class in H. now subst.
  - apply mk_set_class in H. now subst.
Qed.

Lemma construct_container_items c items v :
  construct_container c items = Ok v ->
  exists l, (v = VList l \/ v = VTuple l \/ exists fr, v = VSet fr l) /\ incl l items.
Proof.
  destruct c; cbn; try discriminate; intros H.
  - inversion H; subst. exists items. split; [auto|apply incl_refl].
  - inversion H; subst. exists items. split; [auto|apply incl_refl].
  - apply mk_set_class in H. subst. eexists. split; [right; right; eexists; reflexivity|].
    intros x Hx. apply dedupe_incl in Hx. destruct Hx as [Hx|[]]. exact Hx.
  - apply mk_set_class in H. subst. eexists. split; [right; right; eexists; reflexivity|].
    intros x Hx. apply dedupe_incl in Hx. destruct Hx as [Hx|[]]. exact Hx.
Qed.

Lemma Forall2_sources (f : val -> result val) v items l :
  (forall x y, f x = Ok y -> nss A x y = true) ->
  incl items (children v) -> Forall2 (fun x y => f x = Ok y) items l -> Forall (has_source A v) l.
Proof.
  intros Hf Hin H. induction H as [|x y items l Hxy H IH]; constructor.
  - exists x. split; [apply Hin; left; reflexivity|exact (Hf _ _ Hxy)].
  - apply IH. intros z Hz. apply Hin. right; exact Hz.
Qed.

(* sequences built item by item from an iterable *)
Lemma seq_nss (f : val -> result val) o v items l v' :
  In o coll_classes -> (forall x y, f x = Ok y -> nss A x y = true) ->
  enter T sac o v = Ok o -> iter v = Ok items ->
  Forall2 (fun x y => f x = Ok y) items l -> construct_container o l = Ok v' ->
  nss A v v' = true.
Proof.
  intros Ho Hf He Hi HF Hc.
  pose proof (construct_container_class _ _ _ Hc) as Hcls.
  destruct (iter_kinds _ _ Hi) as [Hs|Hcoll].
  - apply nss_allowed. rewrite Hcls. eapply enter_strlike; eassumption.
  - destruct (construct_container_items _ _ _ Hc) as [l' [Hv Hl']].
    eapply nss_items; [exact Hcoll|exact Hv|].
    pose proof (Forall2_sources f v items l Hf (iter_children _ _ Hi Hcoll) HF) as Hall.
    rewrite Forall_forall in *. intros y Hy. apply Hall, Hl', Hy.
Qed.

Lemma coerce_seq_nss o f v v' :
  In o [CList; CTuple; CSet; CFrozenset] ->
  (forall x y, f x = Ok y -> nss A x y = true) ->
  coerce_seq T sac o f v = Ok v' -> nss A v v' = true.
Proof.
  intros Ho Hf. assert (In o coll_classes) as Ho' by (cbn in *; tauto). unfold coerce_seq.
  destruct (enter T sac o v) as [c|] eqn:E; [|discriminate].
  pose proof (enter_container T WF sac o v c ltac:(cbn in *; tauto) E) as ->.
  destruct (iter v) as [items|] eqn:Ei; [|discriminate]. intros H.
  apply build_items in H. destruct H as [l [Hl Hc]]. apply map_res_ok in Hl.
  eapply seq_nss; eassumption.
Qed.

Lemma zip_res_F2 (g : ty -> val -> result val) (P : val -> val -> Prop) : forall ts items l,
  Forall (fun a => forall x y, g a x = Ok y -> P x y) ts ->
  zip_res (map g ts) items = Ok l -> exists items', incl items' items /\ Forall2 P items' l.
Proof.
  induction ts as [|a ts IH]; intros items l HF H; cbn in H.
  - inversion H; subst. exists []. split; [intros ? []|constructor].
  - destruct items as [|x items]; [inversion H; subst; exists []; split; [intros ? []|constructor]|].
    inversion HF as [|? ? Ha Hts]; subst.
    destruct (g a x) as [y|] eqn:E; [|discriminate].
    destruct (zip_res (map g ts) items) as [ys|] eqn:E2; [|discriminate]. inversion H; subst.
    destruct (IH items ys Hts E2) as [it [Hi HF2]]. exists (x :: it). split.
    + intros z [->|Hz]; [left; reflexivity|right; apply Hi, Hz].
    + constructor; [eapply Ha; exact E|exact HF2].
Qed.

Lemma dict_res_sources fk fx v :
  (forall a a', fk a = Ok a' -> nss A a a' = true) -> (forall b b', fx b = Ok b' -> nss A b b' = true) ->
  forall kv acc d,
    incl (map fst kv) (children v) -> incl (map snd kv) (children v) ->
    Forall (fun p => has_source A v (fst p) /\ has_source A v (snd p)) acc ->
    dict_res fk fx kv acc = Ok d ->
    Forall (fun p => has_source A v (fst p) /\ has_source A v (snd p)) d.
Proof.
  intros Hk Hx. induction kv as [|[a b] kv IH]; cbn; intros acc d I1 I2 Hacc H.
  - now inversion H; subst.
  - destruct (fk a) as [a'|] eqn:Ea; [|discriminate].
    destruct (fx b) as [b'|] eqn:Eb; [|discriminate].
    destruct (hashable a'); [|discriminate].
    eapply IH; [| | |exact H].
    + intros z Hz. apply I1. right; exact Hz.
    + intros z Hz. apply I2. right; exact Hz.
    + apply dict_set_forall; [exact Hacc| |].
      * exists a. split; [apply I1; left; reflexivity|eauto].
      * exists b. split; [apply I2; left; reflexivity|eauto].
Qed.

Lemma coerce_basic_nss c v v' :
  existsb (cls_eqb c) scalar_bases = true -> coerce_basic T W sac c v = Ok v' -> nss A v v' = true.
Proof.
  intros Hc. unfold coerce_basic. destruct (is_instance T v c) eqn:E.
  - inversion 1; subst. apply nss_refl.
  - destruct (check_coercible T sac v c) as [u|] eqn:Ec; [|discriminate]. intros H.
    apply construct_class in H. destruct H as [Hcls _].
    apply existsb_exists in Hc. destruct Hc as [c' [Hin Heq]]. apply cls_eqb_eq in Heq. subst c'.
    destruct (is_coll v && is_strlike v') eqn:Ecs.
    + apply andb_true_iff in Ecs. destruct Ecs as [H1 H2].
      apply is_coll_class in H1. apply is_strlike_class in H2. rewrite Hcls in H2.
      apply nss_allowed. rewrite Hcls.
      rewrite check_coercible_plain in Ec by (apply tn_not_fileset, in_or_app; left; exact H2).
      apply unit_ok in Ec. now apply (tn_pairs _ _ H2 H1).
    + apply nss_scalar; [|exact Ecs].
      destruct v'; try reflexivity; cbn in Hcls; subst c; cbn in Hin;
        try (destruct frozen); repeat destruct Hin as [Hin|Hin]; try discriminate; contradiction.
Qed.

Theorem coerce_nss :
  forall t, scalar_based t = true -> forall v v', coerce T W sac t v = Ok v' -> nss A v v' = true.
Proof.
  induction t as [c|a IHa|ts IHts|a IHa|k x IHk IHx|fr a IHa|ts IHts|a IHa] using ty_ind';
    intros U v v' H; cbn [coerce] in H; cbn [scalar_based] in U.
  - eapply coerce_basic_nss; eassumption.
  - eapply (coerce_seq_nss CList); [cbn; tauto|apply IHa, U|exact H].
  - (* fixed-length tuple *)
    unfold coerce_tuple in H.
    destruct (enter T sac CTuple v) as [c|] eqn:E; [|discriminate].
    pose proof (enter_container T WF sac CTuple v c ltac:(cbn; tauto) E) as ->.
    destruct (iter v) as [items|] eqn:Ei; [|discriminate].
    destruct (Nat.eqb _ _); [|discriminate].
    apply build_items in H. destruct H as [l [Hl Hc]].
    assert (Forall (fun a => forall x y, coerce T W sac a x = Ok y -> nss A x y = true) ts) as HF.
    { rewrite forallb_forall in U. rewrite Forall_forall in *. intros a Ha. apply IHts; auto. }
    destruct (zip_res_F2 (coerce T W sac) (fun x y => nss A x y = true) ts items l HF Hl) as [it [Hit HF2]].
    cbn in Hc. inversion Hc; subst.
    destruct (iter_kinds _ _ Ei) as [Hs|Hcoll].
    + apply nss_allowed. cbn. eapply (enter_strlike CTuple); [cbn; tauto|exact Hs|exact E].
    + eapply nss_items; [exact Hcoll|right; left; reflexivity|].
      pose proof (iter_children _ _ Ei Hcoll) as Hch. clear - HF2 Hit Hch.
      induction HF2 as [|x y it l Hxy HF2 IH]; constructor.
      * exists x. split; [apply Hch, Hit; left; reflexivity|exact Hxy].
      * apply IH. intros z Hz. apply Hit. right; exact Hz.
  - eapply (coerce_seq_nss CTuple); [cbn; tauto|apply IHa, U|exact H].
  - (* dict *)
    apply andb_true_iff in U. destruct U as [Uk Ux].
    unfold coerce_dict in H.
    destruct (enter T sac CDict v) as [c|] eqn:E; [|discriminate].
    destruct v; try discriminate.
    destruct (dict_res _ _ kv []) as [d|] eqn:Ed; [|discriminate]. inversion H; subst.
    apply nss_dict; [reflexivity|].
    eapply (dict_res_sources _ _ (VDict kv) (IHk Uk) (IHx Ux) kv [] d); [| |constructor|exact Ed].
    + intros z Hz. cbn. apply in_or_app. now left.
    + intros z Hz. cbn. apply in_or_app. now right.
  - destruct fr; [eapply (coerce_seq_nss CFrozenset)|eapply (coerce_seq_nss CSet)]; try (apply IHa, U); try exact H; cbn; tauto.
  - (* union *)
    apply first_ok_ok in H. destruct H as [a [Ha Hc]].
    rewrite forallb_forall in U. rewrite Forall_forall in IHts. eapply IHts; eauto.
  - (* MultiInputObj *)
    unfold coerce_multi in H.
    assert (forall r, wrap1 r = Ok v' -> r = coerce T W sac a v -> nss A v v' = true) as Hw.
    { intros r Hr ->. destruct (coerce T W sac a v) as [x|] eqn:E; [|discriminate]. inversion Hr; subst.
      apply nss_wrap. eapply IHa; eassumption. }
    destruct (is_vstr v) eqn:Evs.
    + eapply Hw; [exact H|reflexivity].
    + destruct (match iter v with Ok items => map_res (coerce T W sac a) items | Err e => Err e end) as [l|e] eqn:E.
      * inversion H; subst. destruct (iter v) as [items|] eqn:Ei; [|discriminate]. apply map_res_ok in E.
        destruct (iter_kinds _ _ Ei) as [Hs|Hcoll].
        -- destruct v; discriminate.
        -- eapply nss_items; [exact Hcoll|left; reflexivity|].
           eapply Forall2_sources; [|exact (iter_children _ _ Ei Hcoll)|exact E]. intros; eapply IHa; eassumption.
      * destruct e; try discriminate. eapply Hw; [exact H|reflexivity].
Qed.

End Nss.
