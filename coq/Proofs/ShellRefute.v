(* Proofs/ShellRefute.v — concrete witnesses: the faithful model (= the unchanged code, see the correspondence runs)
   does not satisfy C22 / C23 at full strength.  Each witness is replayed against pydra by the drivers (corpus). *)
From Pydra Require Import Base.Prelude Base.Shlex Model.Shell Spec.Shell.
Local Open Scope list_scope.
Definition L := la_of.
Definition flag (s : string) : sargstr := SA [[Lit (L s)]] false.
Definition str_field (n a : string) (p : option Z) : sfield := mkS (L n) TStr (flag a) p (L " ").
Definition sv (n v : string) : la * value := (L n, VAtom (AStr (L v))).
Definition echo : exe := EStr (L "echo").

(* F22: explicit position 5 with two unpositioned fields: pydra hands 1 and 2 to b and c, so they come first *)
Definition gap_fields := [str_field "a" "-a" (Some 5%Z); str_field "b" "-b" None; str_field "c" "-c" None].
Definition gap_vals := [sv "a" "A"; sv "b" "B"; sv "c" "C"].
Lemma gap_model : task_argv Functional echo (map to_field gap_fields) gap_vals (AppList [])
                  = Good (map L ["echo"; "-b"; "B"; "-c"; "C"; "-a"; "A"]%string).
Proof. vm_compute. reflexivity. Qed.
Lemma gap_spec : spec_argv echo gap_fields gap_vals [] = map L ["echo"; "-a"; "A"; "-b"; "B"; "-c"; "C"]%string.
Proof. vm_compute. reflexivity. Qed.
Theorem refuted_gap : ~ C22_statement.
Proof.
  intros H. specialize (H Functional echo gap_fields gap_vals []).
  rewrite gap_model, gap_spec in H. specialize (H ltac:(discriminate) eq_refl). vm_compute in H. discriminate H.
Qed.

(* F22b: class form: unpositioned fields are numbered in dir() order (sorted by name), not definition order *)
Definition cls_fields := [str_field "zeta" "-z" None; str_field "alpha" "-a" None; str_field "mid" "-m" None].
Definition cls_vals := [sv "zeta" "Z"; sv "alpha" "A"; sv "mid" "M"].
Theorem refuted_class_form :
  task_argv ClassForm echo (map to_field cls_fields) cls_vals (AppList [])
    = Good (map L ["echo"; "-a"; "A"; "-m"; "M"; "-z"; "Z"]%string)
  /\ spec_argv echo cls_fields cls_vals [] = map L ["echo"; "-z"; "Z"; "-a"; "A"; "-m"; "M"]%string
  /\ task_argv Functional echo (map to_field cls_fields) cls_vals (AppList []) = Good (spec_argv echo cls_fields cls_vals []).
Proof. repeat split; vm_compute; reflexivity. Qed.

(* F22c: position 2 and position -1 in a two-field definition are rejected as "overlapping" (-1 is counted as 3 - 1) *)
Definition wrap_fields := [str_field "o" "-o" (Some 2%Z); str_field "m" "-m" (Some (-1)%Z)].
Theorem refuted_wrap :
  has_dup (raw_positions wrap_fields) = false /\
  task_argv Functional echo (map to_field wrap_fields) [sv "o" "O"; sv "m" "M"] (AppList []) = Bad EOverlap.
Proof. split; vm_compute; reflexivity. Qed.

(* F22d: a set field whose value is falsy in Python (0, 0.0, "") contributes nothing *)
Definition zero_fields := [mkS (L "n") TInt (flag "-n") None (L " ")].
Theorem refuted_falsy :
  task_argv Functional echo (map to_field zero_fields) [(L "n", VAtom (AInt 0))] (AppList []) = Good [L "echo"]
  /\ spec_argv echo zero_fields [(L "n", VAtom (AInt 0))] [] = map L ["echo"; "-n"; "0"]%string.
Proof. split; vm_compute; reflexivity. Qed.

(* F22e: '...' with a separator other than a blank glues the separator to each element but the last *)
Definition dots_fields := [mkS (L "r") TList (SA [[Lit (L "-r")]] true) None (L ",")].
Definition dots_vals := [(L "r", VList [AStr (L "1"); AStr (L "2")])].
Theorem refuted_dots_sep :
  task_argv Functional echo (map to_field dots_fields) dots_vals (AppList []) = Good (map L ["echo"; "-r"; "1,"; "-r"; "2"]%string)
  /\ spec_argv echo dots_fields dots_vals [] = map L ["echo"; "-r"; "1"; "-r"; "2"]%string.
Proof. split; vm_compute; reflexivity. Qed.

(* ---- C23 *)
Definition s_field := str_field "s" "-s" None.
Theorem refuted_space : ~ C23_statement.
Proof.
  intros H. specialize (H s_field [sv "s" "a b"] (L "-s") eq_refl I ltac:(discriminate)).
  vm_compute in H. discriminate H.
Qed.
(* what happens instead *)
Example space_splits :
  command_pos_args (to_field s_field) [sv "s" "a b"] = Good (Some (None, map L ["-s"; "a"; "b"]%string)).
Proof. vm_compute. reflexivity. Qed.
Theorem refuted_quote :
  command_pos_args (to_field s_field) [sv "s" "it's"] = Bad ENoClosingQuote
  /\ spec_contrib s_field [sv "s" "it's"] = map L ["-s"; "it's"]%string.
Proof. split; vm_compute; reflexivity. Qed.
(* quotes and backslashes are eaten silently; bracket clean-up rewrites a templated value *)
Example quotes_eaten :
  command_pos_args (to_field s_field) [sv "s" "say ""hi"" \n"] = Good (Some (None, map L ["-s"; "say"; "hi"; "n"]%string)).
Proof. vm_compute. reflexivity. Qed.
Definition t_field := mkS (L "t") TStr (SA [[Lit (L "--t="); Self]] false) None (L " ").
Example bracket_rewritten :
  command_pos_args (to_field t_field) [sv "t" "a[,b"] = Good (Some (None, [L "--t=a[b"])).
Proof. vm_compute. reflexivity. Qed.
