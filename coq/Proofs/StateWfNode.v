(* Proofs/StateWfNode.v — C03: starting one more node keeps model tables and spec tables in step. *)
From Coq Require Import FinFun.
From Pydra Require Import Base.Prelude Model.StateWf Spec.StateWf Proofs.StateWfLists Proofs.StateWfInv
  Proofs.StateWfStep Proofs.StateWfSel.
Local Open Scope nat_scope.

Lemma nth_error_combine_seq {A} (l : list A) f b :
  nth_error l f = Some b -> In (f, b) (combine (seq 0 (List.length l)) l).
Proof.
  assert (G : forall s, nth_error l f = Some b -> In (s + f, b) (combine (seq s (List.length l)) l)).
  { revert f. induction l as [|a l IH]; intros f s H; [destruct f; discriminate H|].
    destruct f as [|f]; cbn in *.
    - inversion H; subst. left. f_equal. lia.
    - right. replace (s + S f) with (S s + f) by lia. apply IH. exact H. }
  apply (G 0).
Qed.
Lemma flat_map_ext_in {A B} (f g : A -> list B) l : (forall x, In x l -> f x = g x) -> flat_map f l = flat_map g l.
Proof.
  induction l as [|a l IH]; intros H; [reflexivity|]. cbn. rewrite (H a (or_introl eq_refl)), IH; [reflexivity|].
  intros x Hx. apply H. right; exact Hx.
Qed.
Lemma filter_nil {A} (p : A -> bool) l : (forall x, In x l -> p x = false) -> filter p l = [].
Proof.
  induction l as [|x l IH]; intros H; [reflexivity|]. cbn. rewrite (H x (or_introl eq_refl)). apply IH.
  intros y Hy. apply H. right; exact Hy.
Qed.
Lemma NoDup_app_intro {A} (a b : list A) :
  NoDup a -> NoDup b -> (forall k, In k a -> ~ In k b) -> NoDup (a ++ b).
Proof.
  induction a as [|x a IH]; intros Ha Hb D; cbn; [exact Hb|]. inversion Ha; subst. constructor.
  - intros Hin. apply in_app_or in Hin. destruct Hin as [Hin|Hin]; [contradiction | exact (D x (or_introl eq_refl) Hin)].
  - apply IH; [assumption | assumption | intros k Hk; apply D; right; exact Hk].
Qed.
Lemma NoDup_flat_map {A B} (f : A -> list B) l :
  NoDup l -> (forall x, In x l -> NoDup (f x)) ->
  (forall x y k, In x l -> In y l -> x <> y -> In k (f x) -> ~ In k (f y)) -> NoDup (flat_map f l).
Proof.
  induction l as [|a l IH]; intros Hnd H1 H2; cbn; [constructor|].
  inversion Hnd; subst. apply NoDup_app_intro.
  - apply H1; left; reflexivity.
  - apply IH; [assumption | intros x Hx; apply H1; right; exact Hx |].
    intros x y k Hx Hy. apply H2; right; assumption.
  - intros k Hk Hin. apply in_flat_map in Hin. destruct Hin as [y [Hy Hky]].
    apply (H2 a y k (or_introl eq_refl) (or_intror Hy)); [intros ->; contradiction | exact Hk | exact Hky].
Qed.

(* with separate origins the inherited axes are the concatenation of the upstream final axes *)
Lemma up_axes_fold stab : forall fields au aa,
  aa = flat_map (F stab) au ->
  (forall x, In (BUp x) fields -> NoDup (F stab x)) ->
  (forall x y, (In x au \/ In (BUp x) fields) -> (In y au \/ In (BUp y) fields) -> x <> y ->
               forall k, In k (F stab x) -> ~ In k (F stab y)) ->
  fold_left (fun a b => match b with BUp j => add_new a (s_faxes_of stab j) | _ => a end) fields aa
  = flat_map (F stab) (fold_left (ups_step stab) fields au).
Proof.
  induction fields as [|b fields IH]; intros au aa E Hnd D; [exact E|].
  cbn [fold_left]. apply IH.
  - destruct b as [z|vs|j]; cbn [ups_step]; try exact E.
    destruct (is_nil (s_faxes_of stab j)) eqn:EN; cbn [orb].
    + apply is_nil_true in EN. rewrite EN. exact E.
    + destruct (memn j au) eqn:EM.
      * apply memn_In in EM. rewrite <- E. apply add_new_absorb. rewrite E. intros k Hk. apply in_flat_map. exists j. split; [exact EM | exact Hk].
      * apply memn_false in EM. rewrite flat_map_app. cbn [flat_map]. rewrite app_nil_r. rewrite <- E.
        apply add_new_fresh; [apply Hnd; left; reflexivity|].
        intros k Hk Hin. rewrite E in Hin. apply in_flat_map in Hin. destruct Hin as [y [Hy Hky]].
        assert (Hne : j <> y) by (intros ->; contradiction).
        exact (D j y (or_intror (or_introl eq_refl)) (or_introl Hy) Hne k Hk Hky).
  - intros x Hx. apply Hnd. right; exact Hx.
  - intros x y Hx Hy. apply D.
    + destruct Hx as [Hx|Hx]; [|right; right; exact Hx].
      destruct b as [z|vs|j]; cbn [ups_step] in Hx; try (left; exact Hx).
      destruct (is_nil (s_faxes_of stab j) || memn j au); [left; exact Hx|].
      apply in_app_or in Hx. destruct Hx as [Hx|[<-|[]]]; [left; exact Hx | right; left; reflexivity].
    + destruct Hy as [Hy|Hy]; [|right; right; exact Hy].
      destruct b as [z|vs|j]; cbn [ups_step] in Hy; try (left; exact Hy).
      destruct (is_nil (s_faxes_of stab j) || memn j au); [left; exact Hy|].
      apply in_app_or in Hy. destruct Hy as [Hy|[<-|[]]]; [left; exact Hy | right; left; reflexivity].
Qed.
Lemma up_axes_flat stab fields :
  (forall x, In (BUp x) fields -> NoDup (F stab x)) ->
  (forall x y, In (BUp x) fields -> In (BUp y) fields -> x <> y -> forall k, In k (F stab x) -> ~ In k (F stab y)) ->
  up_axes stab fields = flat_map (F stab) (ups stab fields).
Proof.
  intros H1 H2. unfold up_axes, ups. apply (up_axes_fold stab fields [] []); [reflexivity | exact H1 |].
  intros x y [[]|Hx] [[]|Hy]. apply H2; assumption.
Qed.
(* whatever the sharing, the open axes of a consumed node are among the inherited axes *)
Lemma up_axes_incl stab fields x : In (BUp x) fields -> incl (s_faxes_of stab x) (up_axes stab fields).
Proof.
  unfold up_axes.
  assert (G : forall fs a, incl a (fold_left (fun a b => match b with BUp j => add_new a (s_faxes_of stab j) | _ => a end) fs a)).
  { induction fs as [|b fs IH]; intros a; [apply incl_refl|]. cbn [fold_left]. eapply incl_tran; [|apply IH].
    destruct b; try apply incl_refl. apply add_new_incl_acc. }
  generalize (@nil key). induction fields as [|b fields IH]; intros a H; [contradiction|].
  cbn [fold_left]. destruct H as [->|H]; [|apply IH; exact H].
  eapply incl_tran; [|apply G]. apply add_new_incl_new.
Qed.

Section Node.
Variable wf : workflow.
Variables (mtab : list mnode) (stab : list sentry) (n : nat) (nd : node).
Hypothesis TO : tab_ok wf mtab stab.
Hypothesis Hn : n = List.length stab.
Hypothesis Hnd : nth_error wf n = Some nd.
Hypothesis FL : fields_lt wf.
Definition se' : sentry := spec_entry wf stab n nd.
Hypothesis NW : node_wf n se' nd = true.
Definition U : list nat := ups stab (n_fields nd).
Hypothesis SH : pairwise (sep_ok wf stab) U = true.
Hypothesis CA : comb_all_prev_ok stab nd = true.

Definition cur : list key := map (fun f => (n, f)) (n_split nd).

(* --- what node_wf says --- *)
Lemma nw_parts :
  (forall j, In (BUp j) (n_fields nd) -> j < n) /\ NoDup cur /\
  (forall f b, nth_error (n_fields nd) f = Some b ->
               match b with BSplit _ => In f (n_split nd) | _ => ~ In f (n_split nd) end) /\
  (forall f, In f (n_split nd) -> f < List.length (n_fields nd)) /\
  NoDup (n_comb nd) /\ incl (n_comb nd) (s_axes se').
Proof.
  pose proof NW as W. unfold node_wf in W.
  apply andb_true_iff in W. destruct W as [W W6]. apply andb_true_iff in W. destruct W as [W W5].
  apply andb_true_iff in W. destruct W as [W W4]. apply andb_true_iff in W. destruct W as [W W3].
  apply andb_true_iff in W. destruct W as [W1 W2].
  repeat split.
  - intros j Hj. rewrite forallb_forall in W1. specialize (W1 _ Hj). apply Nat.ltb_lt in W1. exact W1.
  - apply nodupk_NoDup. exact W2.
  - intros f b Hb. rewrite forallb_forall in W3. specialize (W3 (f, b) (nth_error_combine_seq _ _ _ Hb)). cbn in W3.
    destruct b; [apply memn_false; apply negb_true_iff; exact W3 | apply memn_In; exact W3 | apply memn_false; apply negb_true_iff; exact W3].
  - intros f Hf. rewrite forallb_forall in W4. specialize (W4 f Hf). apply Nat.ltb_lt in W4. exact W4.
  - apply nodupk_NoDup. exact W5.
  - intros k Hk. rewrite forallb_forall in W6. apply memk_In. apply W6. exact Hk.
Qed.

Lemma n_lt_wf : n < List.length wf.
Proof. apply nth_error_Some. rewrite Hnd. discriminate. Qed.
Lemma len_mtab : List.length mtab = n.
Proof. rewrite Hn. exact (proj1 TO). Qed.

Lemma entry_at x : x < n ->
  exists ndx mex sex, nth_error wf x = Some ndx /\ nth_error mtab x = Some mex /\ nth_error stab x = Some sex /\
                      entry_ok wf stab x ndx mex sex.
Proof.
  intros Hx.
  destruct (nth_error wf x) as [ndx|] eqn:E1; [|apply nth_error_None in E1; pose proof n_lt_wf; lia].
  destruct (nth_error mtab x) as [mex|] eqn:E2; [|apply nth_error_None in E2; pose proof len_mtab; lia].
  destruct (nth_error stab x) as [sex|] eqn:E3; [|apply nth_error_None in E3; lia].
  exists ndx, mex, sex. split; [reflexivity|]. split; [reflexivity|]. split; [reflexivity|].
  exact (proj2 TO x ndx mex sex E1 E2 E3).
Qed.

Lemma faxes_nil_of_axes_nil x ndx mex sex :
  entry_ok wf stab x ndx mex sex -> s_axes sex = [] -> s_faxes sex = [].
Proof.
  intros EO E. pose proof (eo_faxes_incl wf _ _ _ _ _ EO) as H. rewrite E in H.
  destruct (s_faxes sex) as [|k r]; [reflexivity|]. exfalso. apply (H k). left; reflexivity.
Qed.

Lemma ent_rpnf_eq x : x < n -> ent_rpnf mtab x = s_faxes_of stab x.
Proof.
  intros Hx. destruct (entry_at x Hx) as [ndx [mex [sex [E1 [E2 [E3 EO]]]]]].
  unfold ent_rpnf, ent, s_faxes_of. rewrite E2, E3.
  destruct (s_axes sex) as [|k0 ax] eqn:EA.
  - rewrite (eo_stateless _ _ _ _ _ _ EO EA). symmetry. eapply faxes_nil_of_axes_nil; eassumption.
  - assert (HA : s_axes sex <> []) by (rewrite EA; discriminate).
    destruct (eo_state _ _ _ _ _ _ EO HA) as [s [-> SO]]. exact (so_rpnf _ _ _ _ _ _ SO).
Qed.

(* a state-carrying input: the entry of an upstream node with open axes *)
Lemma up_state x : In x U ->
  exists ndx sex s, x < n /\ nth_error wf x = Some ndx /\ nth_error mtab x = Some (MState s) /\
    nth_error stab x = Some sex /\ entry_ok wf stab x ndx (MState s) sex /\ state_ok wf stab x ndx sex s /\
    s_faxes sex <> [] /\ s_faxes_of stab x = s_faxes sex.
Proof.
  intros Hx. apply ups_in in Hx. destruct Hx as [Hb HF].
  assert (Hlt : x < n) by (apply (proj1 nw_parts); exact Hb).
  destruct (entry_at x Hlt) as [ndx [mex [sex [E1 [E2 [E3 EO]]]]]].
  assert (EF : s_faxes_of stab x = s_faxes sex) by (unfold s_faxes_of; rewrite E3; reflexivity).
  unfold F in HF. rewrite EF in HF.
  assert (HA : s_axes sex <> []).
  { intros E. apply HF. eapply faxes_nil_of_axes_nil; eassumption. }
  destruct (eo_state _ _ _ _ _ _ EO HA) as [s [-> SO]].
  exists ndx, sex, s. repeat (split; [assumption|]). assumption.
Qed.

Lemma up_ent_indf x : In x U -> ent_indf mtab x = box_idx (lens wf (s_faxes_of stab x)).
Proof.
  intros Hx. destruct (up_state x Hx) as [ndx [sex [s [Hlt [E1 [E2 [E3 [EO [SO [HF EF]]]]]]]]]].
  unfold ent_indf, ent. rewrite E2, EF, (so_indf _ _ _ _ _ _ SO).
  apply is_nil_false in HF. rewrite HF, andb_false_r. reflexivity.
Qed.
Lemma up_ent_keysf x : In x U -> ent_keysf mtab x = s_faxes_of stab x.
Proof.
  intros Hx. destruct (up_state x Hx) as [ndx [sex [s [Hlt [E1 [E2 [E3 [EO [SO [HF EF]]]]]]]]]].
  unfold ent_keysf, ent. rewrite E2, EF. exact (so_keysf _ _ _ _ _ _ SO).
Qed.
Lemma up_ent_nfinal x : In x U -> ent_nfinal mtab x = List.length (ent_indf mtab x).
Proof.
  intros Hx. destruct (up_state x Hx) as [ndx [sex [s [Hlt [E1 [E2 [E3 [EO [SO [HF EF]]]]]]]]]].
  unfold ent_nfinal, ent_indf, ent. rewrite E2, (so_sindf _ _ _ _ _ _ SO), map_length. reflexivity.
Qed.
Lemma up_ent_prev x : In x U -> ent_prev mtab x = ups stab (n_fields (node_at wf x)).
Proof.
  intros Hx. destruct (up_state x Hx) as [ndx [sex [s [Hlt [E1 [E2 [E3 [EO [SO [HF EF]]]]]]]]]].
  unfold ent_prev, ent. rewrite E2, (so_prev _ _ _ _ _ _ SO). unfold node_at.
  rewrite (nth_error_nth _ _ _ E1). reflexivity.
Qed.
Lemma up_faxes_nodup x : In (BUp x) (n_fields nd) -> NoDup (F stab x).
Proof.
  intros Hb. assert (Hlt : x < n) by (apply (proj1 nw_parts); exact Hb).
  destruct (entry_at x Hlt) as [ndx [mex [sex [E1 [E2 [E3 EO]]]]]].
  unfold F, s_faxes_of. rewrite E3. exact (eo_faxes_nodup wf _ _ _ _ _ EO).
Qed.
Lemma up_faxes_bound x k : In (BUp x) (n_fields nd) -> In k (F stab x) -> fst k < n.
Proof.
  intros Hb Hk. assert (Hlt : x < n) by (apply (proj1 nw_parts); exact Hb).
  destruct (entry_at x Hlt) as [ndx [mex [sex [E1 [E2 [E3 EO]]]]]].
  unfold F, s_faxes_of in Hk. rewrite E3 in Hk.
  pose proof (eo_bound _ _ _ _ _ _ EO k (eo_faxes_incl wf _ _ _ _ _ EO k Hk)). lia.
Qed.

Lemma sep_spec x y : In x U -> In y U -> x <> y ->
  (forall k, In k (F stab x) -> ~ In k (F stab y)) /\ ~ In x (ups stab (n_fields (node_at wf y))).
Proof.
  intros Hx Hy Hne. pose proof (pairwise_spec _ _ SH x y Hx Hy Hne) as H. unfold sep_ok, parents in H.
  apply andb_true_iff in H. destruct H as [H1 H2]. split.
  - intros k Hk. unfold disjointk in H1. rewrite forallb_forall in H1. specialize (H1 k Hk).
    apply negb_true_iff in H1. apply memk_false in H1. exact H1.
  - apply negb_true_iff in H2. apply memn_false in H2. exact H2.
Qed.

Lemma up_axes_eq : up_axes stab (n_fields nd) = flat_map (F stab) U.
Proof.
  apply up_axes_flat; [exact up_faxes_nodup|].
  intros x y Hx Hy Hne k Hk Hky.
  assert (HFx : F stab x <> []) by (intros E; rewrite E in Hk; exact Hk).
  assert (HFy : F stab y <> []) by (intros E; rewrite E in Hky; exact Hky).
  exact (proj1 (sep_spec x y (proj2 (ups_in _ _ _) (conj Hx HFx)) (proj2 (ups_in _ _ _) (conj Hy HFy)) Hne) k Hk Hky).
Qed.

Definition other0 := upstream mtab (n_fields nd).
Lemma other0_fst : map fst other0 = U.
Proof. apply upstream_fst. intros x Hx. apply ent_rpnf_eq. apply (proj1 nw_parts). exact Hx. Qed.

Lemma connect_ok : connect mtab other0 = Some (U, other0).
Proof.
  rewrite <- other0_fst. apply connect_id. rewrite other0_fst. intros el Hel.
  apply filter_nil. intros z Hz. rewrite (up_ent_prev el Hel) in Hz.
  destruct (memn z (filter (fun e => is_nil (ent_other mtab e)) U)) eqn:E; [|reflexivity]. exfalso.
  apply memn_In in E. apply filter_In in E. destruct E as [HzU _].
  assert (Hne : z <> el).
  { intros ->. destruct (up_state el Hel) as [ndx [sex [s [Hlt [E1 _]]]]].
    apply ups_in in Hz. destruct Hz as [Hz _]. unfold node_at in Hz. rewrite (nth_error_nth _ _ _ E1) in Hz.
    pose proof (FL el ndx E1 el Hz). lia. }
  exact (proj2 (sep_spec z el HzU Hel Hne) Hz).
Qed.

(* --- the node's axes and index tuples --- *)
Definition K : list key := flat_map (F stab) U ++ cur.
Definition cf : nat -> list nat := fields_of other0.
Definition indf' (x : nat) : list (list nat) := box_idx (lens wf (F stab x)).
Definition curbox : list (list nat) := box_idx (lens wf cur).

Lemma axes_eq : s_axes se' = K.
Proof. unfold se', spec_entry, K, cur. cbn [s_axes]. rewrite up_axes_eq. reflexivity. Qed.

Lemma flatF_bound k : In k (flat_map (F stab) U) -> fst k < n.
Proof.
  intros H. apply in_flat_map in H. destruct H as [x [Hx Hk]]. apply ups_in in Hx. eapply up_faxes_bound; [exact (proj1 Hx) | exact Hk].
Qed.
Lemma cur_fst k : In k cur -> fst k = n.
Proof. unfold cur. intros H. apply in_map_iff in H. destruct H as [f [<- _]]. reflexivity. Qed.
Lemma K_nodup : NoDup K.
Proof.
  unfold K. apply NoDup_app_intro.
  - apply NoDup_flat_map; [apply ups_nodup | intros x Hx; apply up_faxes_nodup; apply ups_in in Hx; tauto |].
    intros x y k Hx Hy Hne. exact (proj1 (sep_spec x y Hx Hy Hne) k).
  - exact (proj1 (proj2 nw_parts)).
  - intros k Hk Hc. apply flatF_bound in Hk. apply cur_fst in Hc. lia.
Qed.

Lemma cf_spec x f : In f (cf x) <-> nth_error (n_fields nd) f = Some (BUp x) /\ F stab x <> [].
Proof. unfold cf, other0. apply upstream_fields. intros y Hy. apply ent_rpnf_eq. apply (proj1 nw_parts). exact Hy. Qed.

Lemma lens_flat_map (l : list nat) : lens wf (flat_map (F stab) l) = List.concat (map (fun x => lens wf (F stab x)) l).
Proof. induction l as [|x l IH]; [reflexivity|]. cbn [flat_map map List.concat]. rewrite lens_app, IH. reflexivity. Qed.

Lemma TST'_eq : prod2 (prods (map indf' U)) curbox = box_idx (lens wf K).
Proof.
  unfold K, curbox. rewrite lens_app, box_idx_app. f_equal.
  unfold indf'. rewrite <- (map_map (fun x => lens wf (F stab x)) box_idx). rewrite prods_box_idx, lens_flat_map. reflexivity.
Qed.
Lemma TST_eq : prod2 (prods (map (ent_indf mtab) U)) curbox = box_idx (lens wf K).
Proof.
  rewrite (map_ext_in _ indf') by (intros x Hx; apply up_ent_indf; exact Hx). exact TST'_eq.
Qed.
Lemma cols_eq x : In x U -> idx_cols mtab other0 x = cols cf indf' x.
Proof.
  intros Hx. unfold idx_cols, cols, cf. rewrite (up_ent_nfinal x Hx), (up_ent_indf x Hx). reflexivity.
Qed.
Lemma indf'_len x t : In t (indf' x) -> List.length t = List.length (F stab x).
Proof. intros H. apply box_idx_elem_length in H. rewrite lens_length in H. exact H. Qed.

Lemma lookup_lt (ks : list key) : forall o k i,
  Forall2 lt o (lens wf ks) -> lookup (combine ks o) k = Some i -> i < key_len wf k.
Proof.
  induction ks as [|k0 ks IH]; intros o k i HF HL; [discriminate HL|].
  inversion HF as [|v l o' ls Hv HF']; subst. cbn in HL.
  destruct (key_eqb k0 k) eqn:E.
  - apply key_eqb_eq in E; subst. inversion HL; subst. exact Hv.
  - eapply IH; eassumption.
Qed.

Section Elem.
Variables a_in a_st o : list nat.
Hypothesis HS : sel cf indf' U a_in a_st.
Hypothesis Ho : In o curbox.
Definition rho : row := combine K (a_st ++ o).
Definition din : row := combine (flat_map (kin n cf) U ++ cur) (a_in ++ o).

Lemma elem_lengths :
  List.length a_in = List.length (flat_map (kin n cf) U) /\ List.length a_st = List.length (flat_map (F stab) U) /\
  List.length o = List.length cur.
Proof.
  destruct (sel_lengths n cf (F stab) indf' indf'_len U a_in a_st HS) as [L1 L2].
  split; [exact L1|]. split; [exact L2|]. unfold curbox in Ho. apply box_idx_elem_length in Ho. rewrite lens_length in Ho. exact Ho.
Qed.

Lemma rho_own f : In f (n_split nd) -> exists i, lookup rho (n, f) = Some i /\ i < key_len wf (n, f).
Proof.
  intros Hf. destruct elem_lengths as [L1 [L2 L3]]. unfold rho, K.
  assert (Hc : In (n, f) cur) by (unfold cur; apply in_map; exact Hf).
  rewrite lookup_combine_app_r; [| symmetry; exact L2 | intros H; apply flatF_bound in H; cbn in H; lia].
  destruct (lookup_combine_some cur o (n, f) Hc (eq_sym L3)) as [i Hi]. exists i. split; [exact Hi|].
  eapply lookup_lt; [|exact Hi]. apply box_idx_elem. exact Ho.
Qed.
Lemma rho_not_own f : ~ In f (n_split nd) -> lookup rho (n, f) = None.
Proof.
  intros Hf. destruct elem_lengths as [L1 [L2 L3]]. apply lookup_none. unfold rho.
  rewrite map_fst_combine by (unfold K; rewrite !app_length; lia).
  unfold K. intros H. apply in_app_or in H. destruct H as [H|H].
  - apply flatF_bound in H. cbn in H. lia.
  - unfold cur in H. apply in_map_iff in H. destruct H as [f' [E Hf']]. inversion E; subst. contradiction.
Qed.
Lemma din_none f : (forall x, ~ In f (cf x)) -> ~ In f (n_split nd) -> lookup din (n, f) = None.
Proof.
  intros Hcf Hf. destruct elem_lengths as [L1 [L2 L3]]. apply lookup_none. unfold din.
  rewrite map_fst_combine by (rewrite !app_length; lia).
  intros H. apply in_app_or in H. destruct H as [H|H].
  - apply in_flat_map in H. destruct H as [x [_ H]]. unfold kin in H. apply in_map_iff in H.
    destruct H as [f' [E Hf']]. inversion E; subst. exact (Hcf x Hf').
  - unfold cur in H. apply in_map_iff in H. destruct H as [f' [E Hf']]. inversion E; subst. contradiction.
Qed.

Lemma key_len_own f vs : nth_error (n_fields nd) f = Some (BSplit vs) -> key_len wf (n, f) = List.length vs.
Proof. intros H. unfold key_len, split_list. cbn [fst snd]. rewrite Hnd, H. reflexivity. Qed.

Definition sem_arg (f : nat) (b : binding) : val :=
  match b with
  | BConst z => VInt z
  | BSplit vs => VInt (nth (match lookup rho (n, f) with Some i => i | None => 0 end) vs 0%Z)
  | BUp j => s_out_of stab j rho
  end.

Lemma field_ok f b : nth_error (n_fields nd) f = Some b ->
  (match lookup (mkdict K (a_st ++ o)) (n, f), b with
   | Some i, BSplit vs => option_map VInt (nth_error vs i)
   | Some i, _ => None
   | None, BUp j => get_value_of mtab j (lookup (mkdict (keys_prev n other0 U ++ cur) (a_in ++ o)) (n, f))
   | None, BConst z => Some (VInt z)
   | None, BSplit _ => None
   end) = Some (sem_arg f b).
Proof.
  intros Hb. rewrite (mkdict_nodup _ _ K_nodup). fold rho.
  pose proof (proj1 (proj2 (proj2 nw_parts)) f b Hb) as Hkind.
  destruct b as [z|vs|x].
  - rewrite (rho_not_own f Hkind). reflexivity.
  - destruct (rho_own f Hkind) as [i [Hi Hlt]]. rewrite Hi. cbn [sem_arg]. rewrite Hi.
    rewrite (key_len_own f vs Hb) in Hlt. rewrite (nth_error_nth' vs 0%Z Hlt). reflexivity.
  - rewrite (rho_not_own f Hkind). cbn [sem_arg].
    assert (Hin : In (BUp x) (n_fields nd)) by (eapply nth_error_In; exact Hb).
    assert (Hlt : x < n) by (apply (proj1 nw_parts); exact Hin).
    destruct (entry_at x Hlt) as [ndx [mex [sex [E1 [E2 [E3 EO]]]]]].
    assert (EF : s_faxes_of stab x = s_faxes sex) by (unfold s_faxes_of; rewrite E3; reflexivity).
    assert (Kin_nodup : NoDup (keys_prev n other0 U ++ cur)).
    { apply NoDup_app_intro.
      - unfold keys_prev. apply NoDup_flat_map; [apply ups_nodup | |].
        + intros y _. apply Injective_map_NoDup; [intros p q E; inversion E; reflexivity | apply upstream_nodup].
        + intros y y' k _ _ Hne Hk Hk'. apply in_map_iff in Hk. destruct Hk as [g [<- Hg]].
          apply in_map_iff in Hk'. destruct Hk' as [g' [E Hg']]. inversion E; subst g'.
          apply (cf_spec y g) in Hg. apply (cf_spec y' g) in Hg'. destruct Hg as [Hg _], Hg' as [Hg' _]. congruence.
      - exact (proj1 (proj2 nw_parts)).
      - intros k Hk Hc. unfold keys_prev in Hk. apply in_flat_map in Hk. destruct Hk as [y [_ Hk]].
        apply in_map_iff in Hk. destruct Hk as [g [<- Hg]]. apply (cf_spec y g) in Hg. destruct Hg as [Hg _].
        unfold cur in Hc. apply in_map_iff in Hc. destruct Hc as [g' [E Hg']]. inversion E; subst g'.
        pose proof (proj1 (proj2 (proj2 nw_parts)) g _ Hg) as Hk. cbn in Hk. contradiction. }
    rewrite (mkdict_nodup _ _ Kin_nodup).
    change (combine (keys_prev n other0 U ++ cur) (a_in ++ o)) with din.
    unfold get_value_of, s_out_of. rewrite E2, E3.
    assert (Hcase : s_faxes sex = [] \/ s_faxes sex <> []) by (destruct (s_faxes sex); [left; reflexivity | right; discriminate]).
    destruct Hcase as [EFX|HFX].
    + (* nothing open upstream: the whole output *)
      rewrite din_none; [apply (get_value_none_closed wf _ _ _ _ _ EO); exact EFX | | exact Hkind].
      intros y Hy. apply cf_spec in Hy. destruct Hy as [Hy1 Hy2]. rewrite Hb in Hy1. inversion Hy1; subst y.
      unfold F in Hy2. rewrite EF, EFX in Hy2. contradiction.
    + assert (HxU : In x U).
      { apply ups_in. split; [exact Hin|]. unfold F. rewrite EF. exact HFX. }
      assert (Hfx : In f (cf x)).
      { apply cf_spec. split; [exact Hb|]. unfold F. rewrite EF. exact HFX. }
      destruct (sel_lookup n cf (F stab) indf' indf'_len U a_in a_st HS (ups_nodup _ _)
                  (fun a b g _ _ Hne Ha Hb' => ltac:(apply cf_spec in Ha; apply cf_spec in Hb'; destruct Ha as [Ha _], Hb' as [Hb' _]; congruence))
                  (fun a b k Ha Hb' Hne => proj1 (sep_spec a b Ha Hb' Hne) k)
                  cur o cur o x HxU) as [i [t [Hi [Ht [L1 L2]]]]].
      unfold din.
      rewrite (L1 f Hfx).
      unfold indf', F in Hi, Ht. rewrite EF in Hi, Ht.
      rewrite (get_value_some wf _ _ _ _ _ EO i HFX Hi). f_equal.
      rewrite (box_nth wf _ _ Hi). rewrite (nth_error_nth _ _ _ Ht).
      apply (eo_out_ext wf _ _ _ _ _ EO). apply agree_iff. intros k Hk.
      unfold rho, K. unfold F in L2. rewrite EF in L2. symmetry. apply L2. exact Hk.
Qed.
End Elem.

Lemma job_args_ok a_in a_st o :
  sel cf indf' U a_in a_st -> In o curbox ->
  forall fields' f0,
  (forall i b, nth_error fields' i = Some b -> nth_error (n_fields nd) (f0 + i) = Some b) ->
  all_some (job_args wf mtab n f0 fields' (mkdict (keys_prev n other0 U ++ cur) (a_in ++ o)) (mkdict K (a_st ++ o)))
  = Some (sem_args stab n f0 fields' (rho a_st o)).
Proof.
  intros HS Ho. induction fields' as [|b fields' IH]; intros f0 H; [reflexivity|].
  cbn [job_args sem_args all_some].
  pose proof (H 0 b eq_refl) as Hb. rewrite Nat.add_0_r in Hb.
  rewrite (field_ok a_in a_st o HS Ho f0 b Hb).
  rewrite IH by (intros i b' Hi; specialize (H (S i) b' Hi); rewrite <- Nat.add_succ_comm in H; exact H).
  destruct b; reflexivity.
Qed.

Lemma job_ok a_in a_st o :
  sel cf indf' U a_in a_st -> In o curbox ->
  job_of wf mtab n nd (mkdict (keys_prev n other0 U ++ cur) (a_in ++ o), mkdict K (a_st ++ o))
  = Some (s_sem se' (combine K (a_st ++ o))).
Proof.
  intros HS Ho. unfold job_of. cbn [fst snd].
  rewrite (job_args_ok a_in a_st o HS Ho (n_fields nd) 0) by (intros i b Hi; exact Hi). reflexivity.
Qed.

Lemma jobs_ok :
  all_some (map (job_of wf mtab n nd)
     (combine (map (mkdict (keys_prev n other0 U ++ cur)) (prod2 (prods (map (idx_cols mtab other0) U)) curbox))
              (map (mkdict K) (prod2 (prods (map (ent_indf mtab) U)) curbox))))
  = Some (map (s_sem se') (box wf K)).
Proof.
  rewrite combine_map.
  rewrite (map_ext_in (idx_cols mtab other0) (cols cf indf')) by (intros x Hx; apply cols_eq; exact Hx).
  rewrite (map_ext_in (ent_indf mtab) indf') by (intros x Hx; apply up_ent_indf; exact Hx).
  rewrite combine_prod2 by reflexivity.
  destruct (combine_prods (cols cf indf') indf' U) as [CP CL].
  { intros x _. unfold cols. rewrite map_length, seq_length. reflexivity. }
  rewrite CP. rewrite map_map.
  rewrite (all_some_map _ (fun p => s_sem se' (combine K (snd p)))).
  - f_equal. rewrite <- (map_map snd (fun t => s_sem se' (combine K t))).
    rewrite <- CP, <- combine_prod2 by reflexivity.
    rewrite map_snd_combine by (rewrite !prod2_length, CL; lia).
    rewrite TST'_eq.
    unfold box. rewrite map_map. reflexivity.
  - intros [tin tst] Hp. apply In_pprod2 in Hp. destruct Hp as [[a_in a_st] [[o o'] [H1 [H2 E]]]].
    cbn [fst snd] in E. inversion E; subst tin tst. apply In_combine_same in H2. destruct H2 as [<- Ho].
    apply In_pprods_sel in H1. cbn [fst snd]. apply job_ok; assumption.
Qed.

(* --- the new spec entry --- *)
Lemma F_incl_K x : In (BUp x) (n_fields nd) -> incl (F stab x) K.
Proof.
  intros Hb k Hk. unfold K. apply in_or_app. left. apply in_flat_map. exists x. split; [|exact Hk].
  apply ups_in. split; [exact Hb|]. intros E. rewrite E in Hk. exact Hk.
Qed.
Lemma sem_args_ext r1 r2 : agree K r1 r2 = true ->
  forall fields' f0, (forall i b, nth_error fields' i = Some b -> nth_error (n_fields nd) (f0 + i) = Some b) ->
  sem_args stab n f0 fields' r1 = sem_args stab n f0 fields' r2.
Proof.
  intros HA. rewrite agree_iff in HA.
  induction fields' as [|b fields' IH]; intros f0 H; [reflexivity|]. cbn [sem_args].
  pose proof (H 0 b eq_refl) as Hb. rewrite Nat.add_0_r in Hb.
  rewrite IH by (intros i b' Hi; specialize (H (S i) b' Hi); rewrite <- Nat.add_succ_comm in H; exact H).
  f_equal. destruct b as [z|vs|x]; [reflexivity| |].
  - pose proof (proj1 (proj2 (proj2 nw_parts)) f0 _ Hb) as Hk. cbn in Hk.
    rewrite (HA (n, f0)); [reflexivity|]. unfold K. apply in_or_app. right. unfold cur. apply in_map. exact Hk.
  - assert (Hin : In (BUp x) (n_fields nd)) by (eapply nth_error_In; exact Hb).
    assert (Hlt : x < n) by (apply (proj1 nw_parts); exact Hin).
    destruct (entry_at x Hlt) as [ndx [mex [sex [E1 [E2 [E3 EO]]]]]].
    unfold s_out_of. rewrite E3. apply (eo_out_ext wf _ _ _ _ _ EO). apply agree_iff. intros k Hk.
    apply HA. apply (F_incl_K x Hin). unfold F, s_faxes_of. rewrite E3. exact Hk.
Qed.

Lemma filter_true {A} (l : list A) : filter (fun _ => true) l = l.
Proof. induction l; cbn; congruence. Qed.

Lemma faxes_eq : s_faxes se' = filter (fun k => negb (memk k (n_comb nd))) K.
Proof. rewrite <- axes_eq. reflexivity. Qed.

Lemma K_nil_iff : K = [] <-> (n_split nd = [] /\ n_comb nd = [] /\ other0 = []).
Proof.
  split.
  - intros E. unfold K in E. apply app_eq_nil in E. destruct E as [E1 E2].
    assert (EU : U = []).
    { destruct U as [|x l] eqn:EU; [reflexivity|]. exfalso.
      assert (Hx : In x U) by (rewrite EU; left; reflexivity). apply ups_in in Hx. destruct Hx as [_ Hx].
      cbn in E1. apply app_eq_nil in E1. destruct E1 as [E1 _]. contradiction. }
    split; [|split].
    + unfold cur in E2. destruct (n_split nd); [reflexivity | discriminate E2].
    + pose proof (proj2 (proj2 (proj2 (proj2 (proj2 nw_parts))))) as Hc. rewrite axes_eq in Hc. unfold K in Hc.
      rewrite E1, E2 in Hc. destruct (n_comb nd) as [|k r]; [reflexivity|]. exfalso. apply (Hc k). left; reflexivity.
    + pose proof other0_fst as H. rewrite EU in H. destruct other0; [reflexivity | discriminate H].
  - intros [E1 [E2 E3]]. unfold K, cur. rewrite E1. pose proof other0_fst as H. rewrite E3 in H. cbn in H.
    rewrite <- H. reflexivity.
Qed.

Lemma new_entry_common me :
  (K = [] -> me = MStateless (s_sem se' [])) ->
  (K <> [] -> exists s, me = MState s /\ state_ok wf (stab ++ [se']) n nd se' s) ->
  entry_ok wf (stab ++ [se']) n nd me se'.
Proof.
  intros H1 H2. constructor.
  - rewrite axes_eq. exact K_nodup.
  - intros k Hk. rewrite axes_eq in Hk. unfold K in Hk. apply in_app_or in Hk. destruct Hk as [Hk|Hk].
    + apply flatF_bound in Hk. lia.
    + apply cur_fst in Hk. lia.
  - reflexivity.
  - exact (proj2 (proj2 (proj2 (proj2 (proj2 nw_parts))))).
  - intros r1 r2 HA. rewrite axes_eq in HA. unfold se', spec_entry. cbn [s_sem]. f_equal.
    apply sem_args_ext; [exact HA | intros i b Hi; exact Hi].
  - intros rho0. reflexivity.
  - intros E. rewrite axes_eq in E. exact (H1 E).
  - intros E. rewrite axes_eq in E. exact (H2 E).
Qed.

Lemma ups_ext1 : ups (stab ++ [se']) (n_fields nd) = U.
Proof. apply ups_ext. intros x Hx. rewrite <- Hn. apply (proj1 nw_parts). exact Hx. Qed.

(* --- the model's step --- *)
Lemma step_ok : exists me, step wf mtab n nd = Some me /\ entry_ok wf (stab ++ [se']) n nd me se'.
Proof.
  unfold step. fold other0.
  destruct (is_nil (n_split nd) && is_nil (n_comb nd) && is_nil other0) eqn:EC.
  - (* no state: the single job *)
    apply andb_true_iff in EC. destruct EC as [EC E3]. apply andb_true_iff in EC. destruct EC as [E1 E2].
    apply is_nil_true in E1, E2, E3.
    assert (EK : K = []) by (apply K_nil_iff; auto).
    assert (EU : U = []) by (rewrite <- other0_fst, E3; reflexivity).
    assert (Ecur : cur = []) by (unfold cur; rewrite E1; reflexivity).
    assert (HS : sel cf indf' U [] []) by (rewrite EU; split; reflexivity).
    assert (Ho : In [] curbox) by (unfold curbox; rewrite Ecur; left; reflexivity).
    exists (MStateless (s_sem se' [])). split.
    + unfold resolve_all.
      assert (G : forall fields' f0, (forall i b, nth_error fields' i = Some b -> nth_error (n_fields nd) (f0 + i) = Some b) ->
        all_some (map (fun b => match b with BConst z => Some (VInt z) | BSplit _ => None | BUp j => get_value_of mtab j None end) fields')
        = Some (sem_args stab n f0 fields' [])).
      { induction fields' as [|b fields' IH]; intros f0 H; [reflexivity|]. cbn [map all_some sem_args].
        pose proof (H 0 b eq_refl) as Hb. rewrite Nat.add_0_r in Hb.
        pose proof (field_ok [] [] [] HS Ho f0 b Hb) as FO. cbn [app] in FO.
        rewrite EK, EU, Ecur in FO. cbn in FO.
        rewrite (IH (S f0)) by (intros i b' Hi; specialize (H (S i) b' Hi); rewrite <- Nat.add_succ_comm in H; exact H).
        unfold sem_arg, rho in FO. rewrite EK in FO. cbn in FO.
        destruct b as [z|vs|x]; [reflexivity | discriminate FO | rewrite FO; reflexivity]. }
      rewrite (G (n_fields nd) 0) by (intros i b Hi; exact Hi). reflexivity.
    + apply new_entry_common; [reflexivity | intros H; contradiction].
  - assert (HK : K <> []).
    { intros E. apply K_nil_iff in E. destruct E as [E1 [E2 E3]]. rewrite E1, E2, E3 in EC. discriminate EC. }
    assert (Hconn : (if is_nil other0 then Some ([], []) else connect mtab other0) = Some (U, other0)).
    { destruct (is_nil other0) eqn:E; [|exact connect_ok]. apply is_nil_true in E.
      pose proof other0_fst as H. rewrite E in H. cbn in H. rewrite <- H, E. reflexivity. }
    rewrite Hconn. unfold build_state.
    (* the max() failure is excluded by the class *)
    assert (EP : flat_map (ent_rpnf mtab) U = flat_map (F stab) U).
    { apply flat_map_ext_in. intros x Hx. apply ent_rpnf_eq. apply ups_in in Hx. apply (proj1 nw_parts). tauto. }
    assert (EKf : flat_map (ent_keysf mtab) U = flat_map (F stab) U).
    { apply flat_map_ext_in. intros x Hx. apply up_ent_keysf. exact Hx. }
    rewrite EP, EKf. fold cur. fold K. change (box_idx (map (key_len wf) cur)) with curbox.
    assert (EG : negb (is_nil U) && negb (is_nil cur) && forallb (fun k => memk k (n_comb nd)) (flat_map (F stab) U) = false).
    { pose proof CA as C. unfold comb_all_prev_ok in C. apply negb_true_iff in C. fold U in C.
      rewrite up_axes_eq in C. unfold cur. destruct (n_split nd); [rewrite andb_false_r; reflexivity | exact C]. }
    match goal with |- context [if ?c then None else _] => assert (EG' : c = false) by exact EG; rewrite EG'; clear EG' end.
    assert (Hin : (if is_nil other0 then map (mkdict K) (prod2 (prods (map (ent_indf mtab) U)) curbox)
                   else map (mkdict (keys_prev n other0 U ++ cur)) (prod2 (prods (map (idx_cols mtab other0) U)) curbox))
                  = map (mkdict (keys_prev n other0 U ++ cur)) (prod2 (prods (map (idx_cols mtab other0) U)) curbox)).
    { destruct (is_nil other0) eqn:E; [|reflexivity]. apply is_nil_true in E.
      assert (EU : U = []) by (rewrite <- other0_fst, E; reflexivity).
      rewrite EU. unfold K. rewrite EU. reflexivity. }
    rewrite Hin, jobs_ok.
    eexists. split; [reflexivity|]. apply new_entry_common; [intros E; contradiction|]. intros _.
    eexists. split; [reflexivity|]. constructor; cbn [m_other m_prev m_cur m_comb m_rpnf m_keys m_sind m_keysf m_indf m_sindf m_jobs].
    + rewrite ups_ext1. exact other0_fst.
    + rewrite ups_ext1. reflexivity.
    + reflexivity.
    + reflexivity.
    + rewrite faxes_eq. reflexivity.
    + rewrite axes_eq. reflexivity.
    + rewrite axes_eq, TST_eq. unfold box. apply map_ext. intros t. apply mkdict_nodup. exact K_nodup.
    + rewrite faxes_eq. destruct (n_comb nd) as [|c0 cs]; [|reflexivity]. cbn. rewrite filter_true. reflexivity.
    + rewrite faxes_eq, TST_eq. destruct (n_comb nd) as [|c0 cs] eqn:ECb; cbn [is_nil negb andb].
      * cbn. rewrite filter_true. reflexivity.
      * destruct (is_nil (filter (fun k => negb (memk k (c0 :: cs))) K)); reflexivity.
    + rewrite faxes_eq, TST_eq. destruct (n_comb nd) as [|c0 cs] eqn:ECb; cbn [is_nil].
      * cbn. rewrite filter_true. reflexivity.
      * reflexivity.
    + rewrite axes_eq. reflexivity.
Qed.
End Node.
