(* Proofs/TypingNss.v — C20: which string <-> collection conversions coercion can perform.
   Main result: under a computable condition on the tables (true of the live ones), every accepted coercion
   is related to its input by [nss A]: apart from the tolerated class pairs A (none, for the live tables) no
   string is split into a collection and no collection is joined into a string. *)
From Pydra Require Import Base.Prelude Model.Typing Spec.Typing Proofs.Typing.
Local Open Scope string_scope.

(* ------------------------------------------------------------------ induction on values *)
Section ValInd.
Variable P : val -> Prop.
Hypothesis HNone : P VNone.
Hypothesis HBool : forall b, P (VBool b).
Hypothesis HInt : forall k z, P (VInt k z).
Hypothesis HFloat : forall k z, P (VFloat k z).
Hypothesis HStr : forall k s, P (VStr k s).
Hypothesis HBytes : forall k s, P (VBytes k s).
Hypothesis HPath : forall k s, P (VPath k s).
Hypothesis HFile : forall f s, P (VFile f s).
Hypothesis HList : forall k l, Forall P l -> P (VList k l).
Hypothesis HTuple : forall k l, Forall P l -> P (VTuple k l).
Hypothesis HSet : forall k fr l, Forall P l -> P (VSet k fr l).
Hypothesis HDict : forall k kv, Forall (fun p => P (fst p) /\ P (snd p)) kv -> P (VDict k kv).

Fixpoint val_ind' (v : val) : P v :=
  let go := fix go (l : list val) : Forall P l :=
              match l with [] => Forall_nil P | a :: r => Forall_cons a (val_ind' a) (go r) end in
  match v with
  | VNone => HNone | VBool b => HBool b | VInt k z => HInt k z | VFloat k z => HFloat k z
  | VStr k s => HStr k s | VBytes k s => HBytes k s | VPath k s => HPath k s | VFile f s => HFile f s
  | VList k l => HList k l (go l)
  | VTuple k l => HTuple k l (go l)
  | VSet k fr l => HSet k fr l (go l)
  | VDict k kv =>
      HDict k kv ((fix gd (l : list (val * val)) : Forall (fun p => P (fst p) /\ P (snd p)) l :=
                   match l with
                   | [] => Forall_nil _
                   | (a, b) :: r => Forall_cons (a, b) (conj (val_ind' a) (val_ind' b)) (gd r)
                   end) kv)
  end.
End ValInd.

(* ------------------------------------------------------------------ the relation, rule by rule *)
Section Rules.
Variable T : tables.
Variable A : cls -> cls -> bool.

Lemma nss_allowed v v' : A (class_of T v) (class_of T v') = true -> nss T A v v' = true.
Proof. intros H. destruct v'; cbn [nss]; rewrite H; reflexivity. Qed.

Lemma nss_scalar v v' : is_coll v' = false -> (is_coll v && is_strlike v') = false -> nss T A v v' = true.
Proof.
  intros Hc Hs. destruct v'; cbn in Hc; try discriminate; cbn [nss is_coll]; rewrite Hs; cbn; apply orb_true_r.
Qed.

Lemma nss_wrap v k x : nss T A v x = true -> nss T A v (VList k [x]) = true.
Proof. intros H. cbn [nss is_coll]. rewrite H. cbn. apply orb_true_r. Qed.

Definition has_source (v : val) (x' : val) : Prop := exists x, In x (children v) /\ nss T A x x' = true.

Lemma has_source_b v x' : has_source v x' -> existsb (fun x => nss T A x x') (children v) = true.
Proof. intros [x [Hx Hn]]. apply existsb_exists. exists x; split; assumption. Qed.

Lemma nss_items v v' l :
  is_coll v = true -> ((exists k, v' = VList k l) \/ (exists k, v' = VTuple k l) \/ exists k fr, v' = VSet k fr l) ->
  Forall (has_source v) l -> nss T A v v' = true.
Proof.
  intros Hc Hv HF.
  assert (forallb (fun x' => existsb (fun x => nss T A x x') (children v)) l = true) as Hb.
  { apply forallb_forall. rewrite Forall_forall in HF. intros x' Hx'. apply has_source_b, HF, Hx'. }
  destruct Hv as [[k ->]|[[k ->]|[k [fr ->]]]]; cbn [nss is_coll]; rewrite Hc, Hb; cbn;
    repeat (rewrite ?orb_true_r; cbn); reflexivity.
Qed.

Lemma nss_dict v k kv :
  is_coll v = true -> Forall (fun p => has_source v (fst p) /\ has_source v (snd p)) kv ->
  nss T A v (VDict k kv) = true.
Proof.
  intros Hc HF. cbn [nss is_coll]. rewrite Hc.
  assert (forallb (fun p => let '(k', x') := p in
                     existsb (fun x => nss T A x k') (children v) && existsb (fun x => nss T A x x') (children v)) kv
          = true) as Hb.
  { apply forallb_forall. rewrite Forall_forall in HF. intros [k' x'] Hp. destruct (HF _ Hp) as [H1 H2].
    cbn in H1, H2. now rewrite (has_source_b _ _ H1), (has_source_b _ _ H2). }
  rewrite Hb. cbn. repeat (rewrite ?orb_true_r; cbn). reflexivity.
Qed.

(* every value is a faithful image of itself *)
Lemma nss_refl : forall v, nss T A v v = true.
Proof.
  induction v using val_ind'; try (apply nss_scalar; reflexivity).
  - eapply nss_items; [reflexivity|left; eexists; reflexivity|].
    rewrite Forall_forall in *. intros x Hx. exists x; split; [exact Hx|auto].
  - eapply nss_items; [reflexivity|right; left; eexists; reflexivity|].
    rewrite Forall_forall in *. intros x Hx. exists x; split; [exact Hx|auto].
  - eapply nss_items; [reflexivity|right; right; eexists; eexists; reflexivity|].
    rewrite Forall_forall in *. intros x Hx. exists x; split; [exact Hx|auto].
  - apply nss_dict; [reflexivity|].
    rewrite Forall_forall in *. intros [k0 x] Hp. destruct (H _ Hp) as [H1 H2]. cbn in *. split.
    + exists k0; split; [|exact H1]. apply in_or_app. left. apply in_map_iff. exists (k0, x); auto.
    + exists x; split; [|exact H2]. apply in_or_app. right. apply in_map_iff. exists (k0, x); auto.
Qed.
End Rules.

(* ------------------------------------------------------------------ what is needed from the tables *)
Definition strlike_shapes : list cls := [CStr; CBytes].
Definition coll_classes : list cls := [CList; CTuple; CSet; CFrozenset; CDict].
Definition scalar_bases : list cls :=
  [KAny; CNone; CBool; CInt; CFloat; CStr; CBytes; CPath; CFile FFile; CFile FText; CFile FDir].

(* the classes values of a given shape can have: the builtin itself and the registered classes of that shape *)
Definition shape_classes (T : tables) (b : cls) : list cls :=
  b :: map KSub (filter (fun n => match nth_error (t_subs T) n with Some b' => cls_eqb b' b | None => false end)
                        (seq 0 (List.length (t_subs T)))).
Definition classes_of_shapes (T : tables) (bs : list cls) : list cls := flat_map (shape_classes T) bs.

Lemma class_of_shape T v : In (class_of T v) (shape_classes T (base_class v)).
Proof.
  unfold shape_classes. destruct (class_of_cases T v) as [->|[n [-> Hn]]]; [now left|right].
  apply in_map, filter_In. split.
  - apply in_seq. split; [lia|]. cbn. apply nth_error_Some. congruence.
  - rewrite Hn. apply cls_eqb_eq. reflexivity.
Qed.

Lemma class_in_shapes T v bs : In (base_class v) bs -> In (class_of T v) (classes_of_shapes T bs).
Proof. intros H. apply in_flat_map. exists (base_class v). split; [exact H|apply class_of_shape]. Qed.

Definition ctc_ok (T : tables) (sac : bool) (a b : cls) : bool :=
  match check_type_coercible T sac a b with Ok _ => true | Err _ => false end.

(* Whenever the tables let a value of str/bytes shape be coerced to a container class, or a value of container shape
   to str/bytes, the pair is one of A; a str/bytes-shaped value is an instance of str or bytes (so MultiInputObj
   wraps it) and never of a container class; neither the containers nor str/bytes are FileSets. *)
Definition tables_nss (A : cls -> cls -> bool) (T : tables) : bool :=
  forallb (fun sac =>
    forallb (fun s => forallb (fun o => implb (ctc_ok T sac s o) (A s o)) coll_classes)
            (classes_of_shapes T strlike_shapes)
    && forallb (fun o => forallb (fun s => implb (ctc_ok T sac o s) (A o s)) strlike_shapes)
               (classes_of_shapes T coll_classes))
    [false; true]
  && forallb (fun s => (is_subclass T s CStr || is_subclass T s CBytes)
                       && forallb (fun o => negb (is_subclass T s o)) coll_classes)
             (classes_of_shapes T strlike_shapes)
  && forallb (fun c => negb (sub T c KFileSet)) (strlike_shapes ++ coll_classes).

(* the base classes of the annotation grammar: scalars only *)
Fixpoint scalar_based (t : ty) : bool :=
  match t with
  | TBase c => existsb (cls_eqb c) scalar_bases
  | TList a | TTupleVar a | TSet _ a | TMulti a => scalar_based a
  | TTuple ts | TUnion ts => forallb scalar_based ts
  | TDict k x => scalar_based k && scalar_based x
  end.

Lemma is_coll_shape v : is_coll v = true <-> In (base_class v) coll_classes.
Proof. destruct v as [| | | | | | |f| | |k fr|]; try destruct fr; cbn; intuition (try discriminate). Qed.

Lemma is_strlike_shape v : is_strlike v = true <-> In (base_class v) strlike_shapes.
Proof. destruct v as [| | | | | | |f| | |k fr|]; try destruct fr; cbn; intuition (try discriminate). Qed.

Section Nss.
Variable A : cls -> cls -> bool.
Variable T : tables.
Variable W : world.
Variable sac : bool.
Hypothesis WF : tables_wf T = true.
Hypothesis TN : tables_nss A T = true.

Lemma tn_parts :
  (forall s o, In s (classes_of_shapes T strlike_shapes) -> In o coll_classes ->
               check_type_coercible T sac s o = Ok tt -> A s o = true) /\
  (forall o s, In o (classes_of_shapes T coll_classes) -> In s strlike_shapes ->
               check_type_coercible T sac o s = Ok tt -> A o s = true) /\
  (forall s, In s (classes_of_shapes T strlike_shapes) ->
             (is_subclass T s CStr || is_subclass T s CBytes) = true /\
             forall o, In o coll_classes -> is_subclass T s o = false) /\
  (forall c, In c (strlike_shapes ++ coll_classes) -> sub T c KFileSet = false).
Proof.
  pose proof TN as H. unfold tables_nss in H. rewrite !andb_true_iff in H. destruct H as [[H1 H2] H3].
  rewrite forallb_forall in H1. assert (In sac [false; true]) as Hsac by (destruct sac; cbn; auto).
  specialize (H1 _ Hsac). apply andb_true_iff in H1. destruct H1 as [Ha Hb].
  rewrite forallb_forall in Ha, Hb, H2, H3. repeat split.
  - intros s o Hs Ho E. specialize (Ha _ Hs). rewrite forallb_forall in Ha. specialize (Ha _ Ho).
    unfold ctc_ok in Ha. now rewrite E in Ha.
  - intros o s Ho Hs E. specialize (Hb _ Ho). rewrite forallb_forall in Hb. specialize (Hb _ Hs).
    unfold ctc_ok in Hb. now rewrite E in Hb.
  - specialize (H2 _ H). now apply andb_true_iff in H2.
  - intros o Ho. specialize (H2 _ H). apply andb_true_iff in H2. destruct H2 as [_ H2].
    rewrite forallb_forall in H2. specialize (H2 _ Ho). now apply negb_true_iff in H2.
  - intros c Hc. specialize (H3 _ Hc). now apply negb_true_iff in H3.
Qed.

Lemma strlike_class v : is_strlike v = true -> In (class_of T v) (classes_of_shapes T strlike_shapes).
Proof. intros H. apply class_in_shapes, is_strlike_shape, H. Qed.
Lemma coll_class v : is_coll v = true -> In (class_of T v) (classes_of_shapes T coll_classes).
Proof. intros H. apply class_in_shapes, is_coll_shape, H. Qed.

Lemma tn_not_fileset c : In c (strlike_shapes ++ coll_classes) -> sub T c KFileSet = false.
Proof. apply tn_parts. Qed.

(* check_coercible reduces to check_type_coercible when the target is not a FileSet *)
Lemma check_coercible_plain v c :
  sub T c KFileSet = false -> check_coercible T sac v c = check_type_coercible T sac (class_of T v) c.
Proof. intros H. unfold check_coercible. rewrite H. now rewrite andb_false_r. Qed.

Lemma unit_ok (r : result unit) u : r = Ok u -> r = Ok tt.
Proof. destruct u. auto. Qed.

(* a str / bytes(-like) value where a container class is wanted: never an instance; accepted as coercible only for
   the tolerated pairs *)
Lemma enter_strlike o v inst :
  In o coll_classes -> is_strlike v = true -> enter T sac o v = Ok inst ->
  inst = false /\ A (class_of T v) o = true.
Proof.
  intros Ho Hs. unfold enter. destruct tn_parts as [Ha [_ [Hi _]]].
  pose proof (strlike_class v Hs) as Hc. destruct (Hi _ Hc) as [_ Hno].
  unfold is_instance. rewrite (Hno o Ho).
  destruct (check_coercible T sac v o) as [u|] eqn:Ec; [|discriminate]. inversion 1; subst. split; [reflexivity|].
  rewrite check_coercible_plain in Ec by (apply tn_not_fileset, in_or_app; right; exact Ho).
  apply unit_ok in Ec. now apply Ha.
Qed.

Lemma iter_children v items : iter v = Ok items -> is_coll v = true -> incl items (children v).
Proof.
  destruct v; cbn; try discriminate; intros H _; inversion H; subst; try apply incl_refl.
  intros x Hx. apply in_or_app. now left.
Qed.

Lemma iter_kinds v items : iter v = Ok items -> is_strlike v = true \/ is_coll v = true.
Proof. destruct v; cbn; try discriminate; auto. Qed.

Lemma shaped_cases o v' l' :
  shaped o v' l' ->
  (exists k, v' = VList k l') \/ (exists k, v' = VTuple k l') \/ exists k fr, v' = VSet k fr l'.
Proof. destruct o; cbn; try contradiction; intros [k ->]; eauto. Qed.

Lemma Forall2_sources (f : val -> result val) v items l :
  (forall x y, f x = Ok y -> nss T A x y = true) ->
  incl items (children v) -> Forall2 (fun x y => f x = Ok y) items l -> Forall (has_source T A v) l.
Proof.
  intros Hf Hin H. induction H as [|x y items l Hxy H IH]; constructor.
  - exists x. split; [apply Hin; left; reflexivity|exact (Hf _ _ Hxy)].
  - apply IH. intros z Hz. apply Hin. right; exact Hz.
Qed.

(* a container built by [build] from the coerced items of an iterable *)
Lemma build_nss (f : val -> result val) o v inst items l v' :
  In o [CList; CTuple; CSet; CFrozenset] -> (forall x y, f x = Ok y -> nss T A x y = true) ->
  enter T sac o v = Ok inst -> iter v = Ok items ->
  Forall2 (fun x y => f x = Ok y) items l -> build o v inst (Ok l) = Ok v' ->
  nss T A v v' = true.
Proof.
  intros Ho Hf He Hi HF Hb. assert (In o coll_classes) as Ho' by (cbn in *; tauto).
  destruct (iter_kinds _ _ Hi) as [Hs|Hcoll].
  - destruct (enter_strlike o v inst Ho' Hs He) as [-> HA]. cbn [build] in Hb.
    apply nss_allowed. now rewrite (construct_container_class T _ _ _ Hb).
  - apply (build_shape T WF) in Hb; [|intros ->; eapply enter_true; exact He].
    destruct Hb as [_ [l0 [El [Hsh _]]]]. inversion El; subst l0.
    eapply nss_items; [exact Hcoll|exact (shaped_cases _ _ _ Hsh)|].
    pose proof (Forall2_sources f v items l Hf (iter_children _ _ Hi Hcoll) HF) as Hall.
    rewrite Forall_forall in *. intros y Hy. apply Hall. now apply (stored_incl o l).
Qed.

Lemma coerce_seq_nss o f v v' :
  In o [CList; CTuple; CSet; CFrozenset] ->
  (forall x y, f x = Ok y -> nss T A x y = true) ->
  coerce_seq T sac o f v = Ok v' -> nss T A v v' = true.
Proof.
  intros Ho Hf. unfold coerce_seq.
  destruct (enter T sac o v) as [inst|] eqn:E; [|discriminate].
  destruct (iter v) as [items|] eqn:Ei; [|discriminate]. intros H.
  destruct (map_res f items) as [l|] eqn:El; [|discriminate]. apply map_res_ok in El.
  eapply build_nss; eassumption.
Qed.

Lemma zip_res_F2 (g : ty -> val -> result val) (P : val -> val -> Prop) : forall ts items l,
  Forall (fun a => forall x y, g a x = Ok y -> P x y) ts ->
  zip_res (map g ts) items = Ok l -> exists items', incl items' items /\ Forall2 P items' l.
Proof.
  induction ts as [|a ts IH]; intros items l HF H; cbn in H.
  - inversion H; subst. exists []. split; [intros ? []|constructor].
  - destruct items as [|x items]; [inversion H; subst; exists []; split; [intros ? []|constructor]|].
    inversion HF as [|? ? Ha Hts]; subst.
    destruct (g a x) as [y|] eqn:E; [|discriminate].
    destruct (zip_res (map g ts) items) as [ys|] eqn:E2; [|discriminate]. inversion H; subst.
    destruct (IH items ys Hts E2) as [it [Hi HF2]]. exists (x :: it). split.
    + intros z [->|Hz]; [left; reflexivity|right; apply Hi, Hz].
    + constructor; [eapply Ha; exact E|exact HF2].
Qed.

Lemma dict_res_sources fk fx v :
  (forall a a', fk a = Ok a' -> nss T A a a' = true) -> (forall b b', fx b = Ok b' -> nss T A b b' = true) ->
  forall kv acc d,
    incl (map fst kv) (children v) -> incl (map snd kv) (children v) ->
    Forall (fun p => has_source T A v (fst p) /\ has_source T A v (snd p)) acc ->
    dict_res fk fx kv acc = Ok d ->
    Forall (fun p => has_source T A v (fst p) /\ has_source T A v (snd p)) d.
Proof.
  intros Hk Hx. induction kv as [|[a b] kv IH]; cbn; intros acc d I1 I2 Hacc H.
  - now inversion H; subst.
  - destruct (fk a) as [a'|] eqn:Ea; [|discriminate].
    destruct (fx b) as [b'|] eqn:Eb; [|discriminate].
    destruct (hashable a'); [|discriminate].
    eapply IH; [| | |exact H].
    + intros z Hz. apply I1. right; exact Hz.
    + intros z Hz. apply I2. right; exact Hz.
    + apply dict_set_forall; [exact Hacc| |].
      * exists a. split; [apply I1; left; reflexivity|eauto].
      * exists b. split; [apply I2; left; reflexivity|eauto].
Qed.

Lemma coerce_basic_nss c v v' :
  existsb (cls_eqb c) scalar_bases = true -> coerce_basic T W sac c v = Ok v' -> nss T A v v' = true.
Proof.
  intros Hc. unfold coerce_basic. destruct (is_instance T v c) eqn:E.
  - inversion 1; subst. apply nss_refl.
  - destruct (check_coercible T sac v c) as [u|] eqn:Ec; [|discriminate]. intros H.
    apply (construct_class T) in H. destruct H as [Hcls Hbase].
    apply existsb_exists in Hc. destruct Hc as [c' [Hin Heq]]. apply cls_eqb_eq in Heq. subst c'.
    assert (base_class v' = c) as Hb.
    { destruct (class_of_cases T v') as [E'|[n [E' _]]]; [congruence|].
      rewrite E' in Hcls. subst c. cbn in Hbase. intuition congruence. }
    destruct (is_coll v && is_strlike v') eqn:Ecs.
    + apply andb_true_iff in Ecs. destruct Ecs as [H1 H2].
      apply is_strlike_shape in H2. rewrite Hb in H2.
      apply nss_allowed. rewrite Hcls.
      rewrite check_coercible_plain in Ec by (apply tn_not_fileset, in_or_app; left; exact H2).
      apply unit_ok in Ec. destruct tn_parts as [_ [Hb' _]]. apply Hb'; [now apply coll_class|exact H2|exact Ec].
    + apply nss_scalar; [|exact Ecs].
      destruct (is_coll v') eqn:Ecv; [|reflexivity]. apply is_coll_shape in Ecv. rewrite Hb in Ecv.
      cbn in Hin, Ecv. intuition congruence.
Qed.

Theorem coerce_nss :
  forall t, scalar_based t = true -> forall v v', coerce T W sac t v = Ok v' -> nss T A v v' = true.
Proof.
  induction t as [c|a IHa|ts IHts|a IHa|k x IHk IHx|fr a IHa|ts IHts|a IHa] using ty_ind';
    intros U v v' H; cbn [coerce] in H; cbn [scalar_based] in U.
  - eapply coerce_basic_nss; eassumption.
  - eapply (coerce_seq_nss CList); [cbn; tauto|apply IHa, U|exact H].
  - (* fixed-length tuple *)
    unfold coerce_tuple in H.
    destruct (enter T sac CTuple v) as [inst|] eqn:E; [|discriminate].
    destruct (iter v) as [items|] eqn:Ei; [|discriminate].
    destruct (Nat.eqb _ _); [|discriminate].
    destruct (zip_res (map (coerce T W sac) ts) items) as [l|] eqn:Hl; [|discriminate].
    assert (Forall (fun a => forall x y, coerce T W sac a x = Ok y -> nss T A x y = true) ts) as HF.
    { rewrite forallb_forall in U. rewrite Forall_forall in *. intros a Ha. apply IHts; auto. }
    destruct (zip_res_F2 (coerce T W sac) (fun x y => nss T A x y = true) ts items l HF Hl) as [it [Hit HF2]].
    destruct (iter_kinds _ _ Ei) as [Hs|Hcoll].
    + destruct (enter_strlike CTuple v inst ltac:(cbn; tauto) Hs E) as [-> HA]. cbn [build] in H.
      apply nss_allowed. now rewrite (construct_container_class T _ _ _ H).
    + apply (build_shape T WF) in H; [|intros ->; eapply enter_true; exact E].
      destruct H as [_ [l0 [El [[k0 ->] _]]]]. inversion El; subst l0. cbn [stored is_setc].
      eapply nss_items; [exact Hcoll|right; left; eexists; reflexivity|].
      pose proof (iter_children _ _ Ei Hcoll) as Hch. clear - HF2 Hit Hch.
      induction HF2 as [|x y it l Hxy HF2 IH]; constructor.
      * exists x. split; [apply Hch, Hit; left; reflexivity|exact Hxy].
      * apply IH. intros z Hz. apply Hit. right; exact Hz.
  - eapply (coerce_seq_nss CTuple); [cbn; tauto|apply IHa, U|exact H].
  - (* dict *)
    apply andb_true_iff in U. destruct U as [Uk Ux].
    destruct (coerce_dict_shape T WF sac _ _ _ _ H) as [_ [g0 [kv [g [d [-> [Hd ->]]]]]]].
    apply nss_dict; [reflexivity|].
    eapply (dict_res_sources _ _ (VDict g0 kv) (IHk Uk) (IHx Ux) kv [] d); [| |constructor|exact Hd].
    + intros z Hz. cbn. apply in_or_app. now left.
    + intros z Hz. cbn. apply in_or_app. now right.
  - destruct fr; [eapply (coerce_seq_nss CFrozenset)|eapply (coerce_seq_nss CSet)]; try (apply IHa, U); try exact H; cbn; tauto.
  - (* union *)
    apply first_ok_ok in H. destruct H as [a [Ha Hc]].
    rewrite forallb_forall in U. rewrite Forall_forall in IHts. eapply IHts; eauto.
  - (* MultiInputObj *)
    unfold coerce_multi in H.
    assert (forall r, wrap1 r = Ok v' -> r = coerce T W sac a v -> nss T A v v' = true) as Hw.
    { intros r Hr ->. destruct (coerce T W sac a v) as [x|] eqn:E; [|discriminate]. inversion Hr; subst.
      apply nss_wrap. eapply IHa; eassumption. }
    destruct (is_vstr T v) eqn:Evs.
    + eapply Hw; [exact H|reflexivity].
    + destruct (match iter v with Ok items => map_res (coerce T W sac a) items | Err e => Err e end) as [l|e] eqn:E.
      * inversion H; subst. destruct (iter v) as [items|] eqn:Ei; [|discriminate]. apply map_res_ok in E.
        destruct (iter_kinds _ _ Ei) as [Hs|Hcoll].
        -- (* a str/bytes(-like) value is an instance of str or bytes: it was wrapped above *)
           exfalso. destruct tn_parts as [_ [_ [Hi _]]]. destruct (Hi _ (strlike_class v Hs)) as [Hin _].
           unfold is_vstr, is_instance in Evs. rewrite Hin in Evs. discriminate.
        -- eapply nss_items; [exact Hcoll|left; eexists; reflexivity|].
           eapply Forall2_sources; [|exact (iter_children _ _ Ei Hcoll)|exact E]. intros; eapply IHa; eassumption.
      * destruct e; try discriminate. eapply Hw; [exact H|reflexivity].
Qed.

End Nss.
