(* Proofs/SchedTermS.v — termination of the sequential loop of Model/Sched.v (expand_workflow,
   debug worker) for EVERY set of failing jobs: the run either stops with the first failing job's
   exception (Raised) or coincides, step by step, with the run in which no job fails — for which
   D2 proved termination (Proofs/SchedL.v, sync_terminates).  Imports only. *)
From Pydra Require Import Base.Prelude Base.SchedBase Model.Sched Spec.Sched Proofs.SchedL.
Local Open Scope nat_scope.

Section TermS.
Variable V : Type.
Variable body : nat -> nat -> list (list (option V)) -> V.
Variable fails : job -> bool.
Variable vr : variant.
Hypothesis F14 : fix14 vr = true.
Variable g : graph.
Hypothesis WF : wf_graph g.
Variable kmax : option nat.
Hypothesis NJ : forall nd, In nd g -> 1 <= njobs nd.
Hypothesis KP : forall k, kmax = Some k -> 1 <= k.

Definition fails0 : job -> bool := fun _ => false.

Lemma run_tasks_sim : forall tasks ss (w : world V) errs tr acc,
  snd (run_tasks body fails tasks ss w errs tr acc) = true \/
  run_tasks body fails tasks ss w errs tr acc = run_tasks body fails0 tasks ss w errs tr acc.
Proof.
  induction tasks as [|j r IH]; intros ss w errs tr acc; cbn [run_tasks]; [right; reflexivity|].
  destruct (is_ok w j); [apply IH|].
  destruct (fails j) eqn:Fj.
  - left. unfold job_result. rewrite Fj. reflexivity.
  - assert (E : job_result body fails ss j = job_result body fails0 ss j)
      by (unfold job_result, fails0; rewrite Fj; reflexivity).
    rewrite E. unfold job_result at 1 3. unfold fails0 at 1 2. apply IH.
Qed.

Lemma sync_step_sim (ls : lstate V) :
  (exists ls', sync_step body fails vr g kmax ls = Stop Raised ls') \/
  sync_step body fails vr g kmax ls = sync_step body fails0 vr g kmax ls.
Proof.
  unfold sync_step. destruct (raised (ls_ss ls)); [right; reflexivity|].
  destruct (negb (negb (is_nil (ls_tasks ls)) || any_not_done vr g (ls_w ls) (ls_ss ls))); [right; reflexivity|].
  destruct (run_tasks_sim (ls_tasks ls) (ls_ss ls) (ls_w ls) (ls_errors ls) (ls_trace ls) []) as [H|H].
  - left. destruct (run_tasks body fails (ls_tasks ls) (ls_ss ls) (ls_w ls) (ls_errors ls) (ls_trace ls) [])
      as [[[[w1 errs1] tr1] launched] failed]. cbn [snd] in H. subst failed. eauto.
  - right. rewrite H. reflexivity.
Qed.

Lemma run_sync_loop_sim : forall fuel (ls : lstate V),
  o_status (run_sync_loop body fails vr g kmax fuel ls) = Raised \/
  run_sync_loop body fails vr g kmax fuel ls = run_sync_loop body fails0 vr g kmax fuel ls.
Proof.
  induction fuel as [|f IH]; intros ls; cbn [run_sync_loop]; [right; reflexivity|].
  destruct (sync_step_sim ls) as [[ls' H]|H].
  - left. rewrite H. reflexivity.
  - rewrite H. destruct (sync_step body fails0 vr g kmax ls) as [ls'|st ls']; [apply IH|right; reflexivity].
Qed.

(* For every wf graph, every set of failing jobs and every max_concurrent >= 1: |jobs| + 1
   iterations of `while tasks or any(not n.done ...)` suffice; the loop ends Finished, or Raised
   (the failing job's exception propagates out of expand_workflow). *)
Theorem sync_terminates_full fuel :
  List.length (all_jobs g) + 1 <= fuel ->
  o_status (run_sync V body fails vr g kmax fuel) = Finished \/
  o_status (run_sync V body fails vr g kmax fuel) = Raised.
Proof.
  intros B. unfold run_sync. destruct (run_sync_loop_sim fuel (ls_init V vr g kmax)) as [H|H]; [right; exact H|].
  left. rewrite H.
  exact (sync_terminates V body fails0 vr F14 g WF kmax (fun _ => eq_refl) NJ KP fuel B).
Qed.

End TermS.
