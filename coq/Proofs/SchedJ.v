(* Proofs/SchedJ.v — progress facts about one poll, needed for termination of the asynchronous loop
   when no job fails: where running jobs come from, queued jobs returned by a poll have no result yet,
   and a poll that returns nothing while no future is pending has found every node done. *)
From Pydra Require Import Base.Prelude Base.SchedBase Model.Sched Spec.Sched Proofs.SchedA Proofs.SchedSpec Proofs.SchedSpec2 Proofs.SchedB Proofs.SchedC Proofs.SchedD Proofs.SchedE Proofs.SchedF.
Local Open Scope nat_scope.

Section Prog.
Variable V : Type.
Variable body : nat -> nat -> list (list (option V)) -> V.
Variable fails : job -> bool.
Variable vr : variant.
Hypothesis F14 : fix14 vr = true.
Variable g : graph.
Hypothesis WF : wf_graph g.
Variable kmax : option nat.

Notation world := (world V).
Notation nstate := (nstate V).
Notation sstate := (sstate V).
Notation GInv := (GInv V fails g).
Notation WInv := (WInv V fails).
Notation NInv := (NInv V fails g).
Notation Fresh := (@Fresh V).
Notation task_ok := (task_ok V fails g).
Notation runs := (@runs V).

(* ---- where running jobs come from *)
Definition run_from (w : world) (st st' : nstates V) : Prop :=
  forall n i, In i (running (st' n)) -> In i (running (st n)) \/ mem_job (n, i) (visible w) = true.

Lemma run_from_refl (w : world) st : run_from w st st.
Proof. intros n i H; left; exact H. Qed.
Lemma run_from_trans (w : world) a b c : run_from w a b -> run_from w b c -> run_from w a c.
Proof. intros H1 H2 n i H. destruct (H2 n i H) as [X|X]; [apply H1; exact X|right; exact X]. Qed.

Lemma update_ns_running (w : world) n (s : nstate) i :
  In i (running (fst (update_ns vr w n s))) -> In i (running s) \/ mem_job (n, i) (visible w) = true.
Proof.
  unfold update_ns. destruct (negb (is_started s)); [cbn; auto|]. rewrite F14. cbn.
  rewrite filter_In, in_app_iff, filter_In. intros [[H|[_ H]] _]; [left; exact H|right].
  apply andb_true_iff in H. tauto.
Qed.

Lemma update_run_from (w : world) ss p : run_from w (nst ss) (nst (update vr w ss p)).
Proof.
  intros n i. rewrite (nst_update V vr). destruct (n =? p) eqn:E; [|auto].
  apply Nat.eqb_eq in E. subst n. apply update_ns_running.
Qed.

Lemma all_done_run_from (w : world) ps : forall ss, run_from w (nst ss) (nst (fst (all_done vr w ss ps))).
Proof.
  induction ps as [|p ps IH]; intros ss; cbn; [apply run_from_refl|].
  destruct (done_ns (nst (update vr w ss p) p)).
  - eapply run_from_trans; [apply update_run_from|apply IH].
  - cbn. apply update_run_from.
Qed.

Lemma node_runnable_run_from (w : world) ss nd :
  run_from w (nst ss) (nst (fst (node_runnable vr g w ss nd))).
Proof.
  unfold node_runnable. destruct (existsb _ (npreds nd)).
  - cbn [fst]. eapply run_from_trans; [|apply update_run_from]. cbn.
    intros n i. unfold set_ns. destruct (n =? nid nd) eqn:E; [|auto].
    apply Nat.eqb_eq in E. subst n. cbn. auto.
  - pose proof (all_done_run_from w (npreds nd) ss) as A.
    destruct (all_done vr w ss (npreds nd)) as [ss1 alld]. cbn [fst] in A. destruct alld; [|exact A].
    cbn [fst]. eapply run_from_trans; [exact A|]. cbn.
    intros n i. unfold set_ns. destruct (n =? nid nd) eqn:E; [|auto].
    apply Nat.eqb_eq in E. subst n. cbn. destruct (is_started (nst ss1 (nid nd))); cbn; auto.
Qed.

Lemma scan_run_from (w : world) : forall rest ss ns acc,
  run_from w (nst ss) (nst (fst (scan vr g w rest ss ns acc))).
Proof.
  induction rest as [|nd rest IH]; intros ss ns acc; cbn [scan]; [apply run_from_refl|].
  pose proof (update_run_from w ss (nid nd)) as U.
  destruct (done_ns (nst (update vr w ss (nid nd)) (nid nd))).
  - eapply run_from_trans; [exact U|apply IH].
  - destruct (existsb _ (npreds nd)); [exact U|].
    pose proof (node_runnable_run_from w (update vr w ss (nid nd)) nd) as N.
    destruct (node_runnable vr g w (update vr w ss (nid nd)) nd) as [ss2 tl]. cbn [fst] in N.
    eapply run_from_trans; [exact U|]. eapply run_from_trans; [exact N|apply IH].
Qed.

Lemma poll_run_from (w : world) ss : run_from w (nst ss) (nst (fst (poll vr g kmax w ss))).
Proof.
  unfold poll. pose proof (scan_run_from w g ss [] []) as S.
  destruct (scan vr g w g ss [] []) as [ss1 tasks]. exact S.
Qed.

(* ---- the accumulated tasks are a prefix of what the scan returns *)
Lemma scan_acc_prefix (w : world) : forall rest ss ns acc,
  exists l, snd (scan vr g w rest ss ns acc) = acc ++ l.
Proof.
  induction rest as [|nd rest IH]; intros ss ns acc; cbn [scan]; [exists []; cbn; rewrite app_nil_r; reflexivity|].
  destruct (done_ns _); [apply IH|].
  destruct (existsb _ (npreds nd)); [exists []; cbn; rewrite app_nil_r; reflexivity|].
  destruct (node_runnable vr g w (update vr w ss (nid nd)) nd) as [ss2 tl].
  destruct (IH ss2 (if is_started (nst (update vr w ss (nid nd)) (nid nd)) then ns else nid nd :: ns) (acc ++ tl)) as [l E].
  exists (tl ++ l). rewrite E, app_assoc. reflexivity.
Qed.

(* ---- the started flag is never reset *)
Definition flag_mono (st st' : nstates V) : Prop :=
  forall n, started_flag (st n) = true -> started_flag (st' n) = true.
Lemma flag_mono_refl st : flag_mono st st. Proof. intros n H; exact H. Qed.
Lemma flag_mono_trans a b c : flag_mono a b -> flag_mono b c -> flag_mono a c.
Proof. intros H1 H2 n H. auto. Qed.

Lemma update_ns_flag (w : world) n (s : nstate) : started_flag (fst (update_ns vr w n s)) = started_flag s.
Proof. unfold update_ns. destruct (negb (is_started s)); [reflexivity|]. destruct (fix14 vr); reflexivity. Qed.

Lemma update_flag_mono (w : world) ss p : flag_mono (nst ss) (nst (update vr w ss p)).
Proof.
  intros n. rewrite (nst_update V vr). destruct (n =? p) eqn:E; [|auto].
  apply Nat.eqb_eq in E. subst n. rewrite update_ns_flag. auto.
Qed.
Lemma all_done_flag_mono (w : world) ps : forall ss, flag_mono (nst ss) (nst (fst (all_done vr w ss ps))).
Proof.
  induction ps as [|p ps IH]; intros ss; cbn; [apply flag_mono_refl|].
  destruct (done_ns (nst (update vr w ss p) p)).
  - eapply flag_mono_trans; [apply update_flag_mono|apply IH].
  - cbn. apply update_flag_mono.
Qed.
Lemma node_runnable_flag_mono (w : world) ss nd : flag_mono (nst ss) (nst (fst (node_runnable vr g w ss nd))).
Proof.
  unfold node_runnable. destruct (existsb _ (npreds nd)).
  - cbn [fst]. eapply flag_mono_trans; [|apply update_flag_mono]. cbn.
    intros n. unfold set_ns. destruct (n =? nid nd); cbn; auto.
  - pose proof (all_done_flag_mono w (npreds nd) ss) as A.
    destruct (all_done vr w ss (npreds nd)) as [ss1 alld]. cbn [fst] in A. destruct alld; [|exact A].
    cbn [fst]. eapply flag_mono_trans; [exact A|]. cbn.
    intros n. unfold set_ns. destruct (n =? nid nd) eqn:E; [|auto].
    apply Nat.eqb_eq in E. subst n. cbn.
    destruct (is_started (nst ss1 (nid nd))) eqn:St; cbn; auto.
Qed.

(* ---- every job returned by a poll is still without a result *)
Lemma scan_none (w : world) : forall rest pre ss ns acc,
  g = pre ++ rest -> GInv w ss -> WInv w ->
  (forall m, In m (map nid pre) -> ~ In m ns -> Fresh w m (nst ss m)) ->
  (forall j, is_none w j = false -> started_flag (nst ss (fst j)) = true) ->
  (forall j, In j acc -> is_none w j = true) ->
  forall j, In j (snd (scan vr g w rest ss ns acc)) -> is_none w j = true.
Proof.
  induction rest as [|nd rest IH]; intros pre ss ns acc E G W Fp Hfin Ha.
  - cbn. exact Ha.
  - cbn [scan].
    assert (Hnd : In nd g). { rewrite E. apply in_or_app. right; left; reflexivity. }
    pose proof WF as WF'. unfold wf_graph in WF'. rewrite E in WF'.
    destruct (topo_b_split _ _ _ _ WF') as [Hpre [_ Hnpre]].
    destruct (update_spec V body fails vr F14 g w ss (nid nd) G) as [G1 [F1 [O1 [K1 U1]]]].
    pose proof (update_flag_mono w ss (nid nd)) as FM1.
    set (ss1 := update vr w ss (nid nd)) in *.
    assert (Fp1 : forall m, In m (map nid pre) -> ~ In m ns -> Fresh w m (nst ss1 m)).
    { intros m Hm Hn. rewrite (K1 m (Fp m Hm Hn)). apply Fp; auto. }
    assert (Hfin1 : forall j, is_none w j = false -> started_flag (nst ss1 (fst j)) = true).
    { intros j Hj. apply FM1. apply Hfin. exact Hj. }
    assert (E' : g = (pre ++ [nd]) ++ rest). { rewrite <- app_assoc. exact E. }
    destruct (done_ns (nst ss1 (nid nd))) eqn:D.
    + apply (IH (pre ++ [nd]) ss1 ns acc E' G1 W); auto.
      intros m Hm Hn. rewrite map_app in Hm. apply in_app_or in Hm. destruct Hm as [Hm|[<-|[]]]; auto.
    + destruct (existsb (fun p => mem_nat p ns) (npreds nd)) eqn:BR; [cbn; exact Ha|].
      assert (Fpred : forall p, In p (npreds nd) -> Fresh w p (nst ss1 p)).
      { intros p Hp. apply Fp1.
        - destruct (Hpre p Hp) as [[]|H]; exact H.
        - intros Hn. assert (existsb (fun p => mem_nat p ns) (npreds nd) = true).
          { apply existsb_exists. exists p. split; [exact Hp|apply mem_nat_In; exact Hn]. }
          congruence. }
      destruct (node_runnable_spec V body fails vr F14 g WF w ss1 nd G1 W Hnd Fpred F1) as [G2 [O2 [Fr2 [T2 S2]]]].
      pose proof (node_runnable_flag_mono w ss1 nd) as FM2.
      destruct (node_runnable vr g w ss1 nd) as [ss2 tl] eqn:NR. cbn [fst snd] in *.
      apply (IH (pre ++ [nd]) ss2 (if is_started (nst ss1 (nid nd)) then ns else nid nd :: ns) (acc ++ tl) E' G2 W).
      * intros m Hm Hn. rewrite map_app in Hm. apply in_app_or in Hm. destruct Hm as [Hm|[<-|[]]].
        -- assert (Ne : m <> nid nd). { intros ->. contradiction. }
           rewrite (O2 m Ne). apply Fp1; [exact Hm|]. intros H. apply Hn.
           destruct (is_started (nst ss1 (nid nd))); [exact H|right; exact H].
        -- destruct (is_started (nst ss1 (nid nd))) eqn:St.
           ++ apply Fr2. reflexivity.
           ++ exfalso. apply Hn. left; reflexivity.
      * intros j Hj. apply FM2. apply Hfin1. exact Hj.
      * intros j Hj. apply in_app_or in Hj. destruct Hj as [Hj|Hj]; [apply Ha; exact Hj|].
        destruct (T2 j Hj) as [Hn Hq]. destruct j as [n i]. cbn in Hn, Hq. subst n.
        destruct (is_started (nst ss1 (nid nd))) eqn:St.
        -- destruct (Fr2 eq_refl) as [Fq _]. apply (Fq i Hq).
        -- destruct (is_none w (nid nd, i)) eqn:Nn; [reflexivity|]. exfalso.
           pose proof (Hfin1 (nid nd, i) Nn) as Fl. cbn in Fl.
           unfold is_started in St. rewrite !orb_false_iff in St. destruct St as [_ St]. congruence.
Qed.

Lemma poll_none (w : world) ss :
  GInv w ss -> WInv w ->
  (forall j, is_none w j = false -> started_flag (nst ss (fst j)) = true) ->
  forall j, In j (snd (poll vr g kmax w ss)) -> is_none w j = true.
Proof.
  intros G W Hfin j Hj. unfold poll in Hj.
  pose proof (scan_none w g [] ss [] [] eq_refl G W (fun m (H : In m []) => match H with end) Hfin
                (fun j (H : In j []) => match H with end)) as S.
  destruct (scan vr g w g ss [] []) as [ss1 tasks]. cbn [snd] in *.
  apply S. unfold truncate in Hj. destruct kmax; [eapply In_firstn; eauto|exact Hj].
Qed.

End Prog.
