(* C24 — The displayed command line is a faithful rendering of the executed argv. *)
From Pydra Require Import Base.Prelude Base.Shlex Model.Shell Spec.Shell Proofs.Shlex Proofs.ShellCmdline.

Definition C24_full_statement : Prop := C24_statement.

(* the unchanged code violates it: ["echo"; "it's"] is displayed as  echo it's  (finding F24) *)
Theorem C24_refuted : ~ C24_full_statement.
Proof. exact cmdline_refuted. Qed.
Print Assumptions C24_refuted.

(* strongest positive statement about the unchanged rendering: for every task whose executed vector starts with a
   bare word and whose other arguments are bare non-empty words or contain a blank but no single quote *)
Theorem C24_partial : forall fm e fields vals app argv cl,
  task_argv fm e fields vals app = Good argv ->
  task_cmdline fm e fields vals app = Good cl ->
  c24_in_domain argv = true ->
  split_la cl = Ok argv.
Proof. exact task_cmdline_resplits. Qed.
Print Assumptions C24_partial.

Example C24_partial_nontrivial :
  c24_in_domain (map la_of ["echo"; "-s"; "a$b*;"; "two words"; "tab	and ""dq"" \ inside a blank arg"]%string) = true.
Proof. vm_compute. reflexivity. Qed.

(* the repair candidate: CPython's shlex.join / shlex.quote round-trips every argument vector *)
Theorem C24_roundtrip_quoted : forall args : list la, split_la (join args) = Ok args.
Proof. exact split_join_roundtrip. Qed.
Print Assumptions C24_roundtrip_quoted.

Theorem C24_roundtrip_quoted_strings : forall l : list string, split (join_s l) = SOk l.
Proof. exact split_join_roundtrip_s. Qed.
Print Assumptions C24_roundtrip_quoted_strings.
