(* Proofs/ShellOrderThm.v — C22, order: sorting the entries by the positions define() assigned gives the stated
   order (non-negative ascending, unpositioned in definition order, negative ascending) whenever every explicit
   non-negative position lies below the first implicit one.  Payload-generic: holds whatever each field contributes. *)
From Pydra Require Import Base.Prelude Base.Shlex Model.Shell Spec.Shell Proofs.ShellOrder Proofs.ShellAssign.
From Coq Require Import Sorting.Sorted Sorting.Permutation.
Local Open Scope list_scope.
Local Open Scope Z_scope.

(* ------------------------------------------------------------------ the spec's insertion sort *)
Lemma insert_pos_perm f l : Permutation (insert_pos f l) (f :: l).
Proof.
  induction l as [|g l IH]; cbn; [reflexivity|].
  destruct (posz f <? posz g); [reflexivity|]. rewrite IH. apply perm_swap.
Qed.
Lemma sort_pos_perm l : Permutation (sort_pos l) l.
Proof. induction l as [|f l IH]; cbn; [reflexivity|]. rewrite insert_pos_perm. now constructor. Qed.

Lemma insert_pos_sorted f l : ksorted posz l -> ~ In (posz f) (map posz l) -> ksorted posz (insert_pos f l).
Proof.
  induction 1 as [|g l S IH F]; intros Hn; cbn.
  - repeat constructor.
  - destruct (posz f <? posz g) eqn:E.
    + apply Z.ltb_lt in E. constructor; [constructor; assumption|].
      constructor; [exact E|]. rewrite Forall_forall in *. intros b Hb. specialize (F b Hb). unfold klt in *. lia.
    + apply Z.ltb_ge in E. cbn in Hn.
      assert (posz g < posz f) by (assert (posz g <> posz f) by tauto; lia).
      constructor; [apply IH; tauto|].
      rewrite Forall_forall in *. intros b Hb.
      eapply Permutation_in in Hb; [|apply insert_pos_perm]. destruct Hb as [<-|Hb]; [exact H|auto].
Qed.
Lemma sort_pos_sorted l : NoDup (map posz l) -> ksorted posz (sort_pos l).
Proof.
  induction l as [|f l IH]; cbn; intros H; [constructor|]. inversion H; subst.
  apply insert_pos_sorted; [auto|]. intros Hin. apply H2.
  eapply Permutation_in; [apply Permutation_map, sort_pos_perm|exact Hin].
Qed.

(* ------------------------------------------------------------------ small list facts *)
Lemma NoDup_map_filter {T} (k : T -> Z) p l : NoDup (map k l) -> NoDup (map k (filter p l)).
Proof.
  induction l as [|x l IH]; cbn; intros H; [constructor|]. inversion H; subst.
  destruct (p x); [|auto]. cbn. constructor; [|auto].
  intros Hin. apply H2. apply in_map_iff in Hin as (y & E & Hy). apply filter_In in Hy as [Hy _].
  rewrite <- E. now apply in_map.
Qed.

Lemma StronglySorted_firstn {T} (R : T -> T -> Prop) n : forall l, StronglySorted R l -> StronglySorted R (firstn n l).
Proof.
  induction n as [|n IH]; intros l H; [constructor|]. destruct l as [|x l]; [constructor|].
  inversion H as [|? ? H1 H2]; subst. cbn. constructor; [apply IH, H1|].
  apply Forall_forall. intros y Hy. apply firstn_In in Hy. rewrite Forall_forall in H2. auto.
Qed.

Lemma NoDup_app_l {T} (l1 l2 : list T) : NoDup (l1 ++ l2) -> NoDup l1.
Proof.
  induction l1 as [|x l1 IH]; cbn; intros H; [constructor|]. inversion H; subst.
  constructor; [|auto]. intros Hin. apply H2, in_or_app. now left.
Qed.

Lemma ksorted_of_keys {T} (k : T -> Z) l : StronglySorted Z.lt (map k l) -> ksorted k l.
Proof.
  induction l as [|x l IH]; cbn; intros H; [constructor|]. inversion H as [|? ? H2 H3]; subst. constructor; [apply IH, H2|].
  apply Forall_forall. intros y Hy. rewrite Forall_forall in H3. apply H3. now apply in_map.
Qed.

Lemma sassign_all_some : forall fs free, (List.length (filter pos_none fs) <= List.length free)%nat ->
  Forall (fun f => sf_pos f <> None) (sassign fs free).
Proof.
  induction fs as [|f fs IH]; intros free Hl; [constructor|].
  cbn [sassign]. cbn [filter] in Hl.
  change (pos_none f) with (match sf_pos f with None => true | Some _ => false end) in Hl.
  destruct (sf_pos f) as [p|] eqn:E.
  - constructor; [congruence|auto].
  - destruct free as [|q free]; [cbn in Hl; lia|]. cbn [List.length] in Hl. constructor; [cbn; congruence|apply IH; lia].
Qed.

Lemma order_ok_inv fs : order_ok fs = true ->
  filter pos_none fs = [] \/
  exists q0 rest, free_slots (map to_field fs) = q0 :: rest /\
    forall f p, In f fs -> sf_pos f = Some p -> 0 <= p -> p < q0.
Proof.
  unfold order_ok. destruct (filter pos_none fs) as [|u us]; [now left|].
  destruct (free_slots (map to_field fs)) as [|q0 rest]; [discriminate|].
  intros H. right. exists q0, rest. split; [reflexivity|].
  intros f p Hf Hp H0. rewrite forallb_forall in H. specialize (H f Hf). rewrite Hp in H. lia.
Qed.

(* ------------------------------------------------------------------ the theorem *)
Section Payload.
Variable g : sfield -> option (list la).           (* what the field contributes; None = no entry at all *)
Hypothesis g_pos : forall f p, g (set_spos f p) = g f.

Definition ents (L : list sfield) : list (option Z * list la) :=
  flat_map (fun f => match g f with Some x => [(sf_pos f, x)] | None => [] end) L.
Definition item (f : sfield) : list (Z * list la) := match g f with Some x => [(posz f, x)] | None => [] end.
Definition payload (f : sfield) : list la := match g f with Some x => x | None => [] end.

Lemma items_ents L : Forall (fun f => sf_pos f <> None) L -> items (ents L) = flat_map item L.
Proof.
  induction 1 as [|f L Hf _ IH]; [reflexivity|]. unfold ents, items in *. cbn [flat_map]. rewrite flat_map_app, IH.
  f_equal. unfold item, posz. destruct (g f); [|reflexivity]. cbn. destruct (sf_pos f); [reflexivity|congruence].
Qed.
Lemma ents_some L : Forall (fun f => sf_pos f <> None) L -> Forall (fun e => fst e <> None) (ents L).
Proof.
  induction 1 as [|f L Hf _ IH]; [constructor|]. unfold ents in *. cbn [flat_map]. apply Forall_app. split; [|exact IH].
  destruct (g f); constructor; [exact Hf|constructor].
Qed.
Lemma item_keys_incl L k : In k (map fst (flat_map item L)) -> In k (map posz L).
Proof.
  induction L as [|f L IH]; cbn; [tauto|]. rewrite map_app, in_app_iff. intros [H|H]; [|right; auto].
  left. unfold item in H. destruct (g f); cbn in H; tauto.
Qed.
Lemma item_keys_NoDup L : NoDup (map posz L) -> NoDup (map fst (flat_map item L)).
Proof.
  induction L as [|f L IH]; cbn; intros H; [constructor|]. inversion H; subst. rewrite map_app.
  unfold item at 1. destruct (g f); cbn; [|auto]. constructor; [|auto]. intros Hin. apply H2, item_keys_incl, Hin.
Qed.
Lemma item_sorted L : ksorted posz L -> ksorted (@fst Z (list la)) (flat_map item L).
Proof.
  induction 1 as [|f L S IH F]; cbn; [constructor|]. unfold item at 1. destruct (g f); cbn; [|exact IH].
  constructor; [exact IH|]. rewrite Forall_forall in *. intros [k x] Hk.
  assert (In k (map posz L)) by (apply item_keys_incl; apply in_map_iff; exists (k, x); auto).
  apply in_map_iff in H as (b & <- & Hb). apply (F b Hb).
Qed.
Lemma concat_item L : List.concat (map snd (flat_map item L)) = List.concat (map payload L).
Proof.
  induction L as [|f L IH]; [reflexivity|]. cbn. rewrite map_app, concat_app, IH. f_equal.
  unfold item, payload. destruct (g f); cbn; [apply app_nil_r|reflexivity].
Qed.
Lemma filter_item (p : Z -> bool) L : filter (fun i => p (fst i)) (flat_map item L) = flat_map item (filter (fun f => p (posz f)) L).
Proof.
  induction L as [|f L IH]; [reflexivity|]. cbn [flat_map filter]. rewrite filter_app, IH.
  destruct (p (posz f)) eqn:E; cbn [flat_map]; unfold item at 1 3; destruct (g f); cbn; rewrite ?E; reflexivity.
Qed.
Lemma payload_implicit : forall fs free, (List.length (filter pos_none fs) <= List.length free)%nat ->
  map payload (implicit fs free) = map payload (filter pos_none fs).
Proof.
  induction fs as [|f fs IH]; intros free Hl; [reflexivity|]. cbn [implicit filter] in *.
  change (pos_none f) with (match sf_pos f with None => true | Some _ => false end) in *.
  destruct (sf_pos f); [auto|]. destruct free as [|q free]; [cbn in Hl; lia|]. cbn [List.length] in Hl.
  cbn [map]. f_equal; [unfold payload; now rewrite g_pos|apply IH; lia].
Qed.

Theorem order_theorem : forall fs ex,
  has_dup (used_slots (map to_field fs)) = false ->
  (List.length (filter pos_none fs) <= List.length (free_slots (map to_field fs)))%nat ->
  order_ok fs = true ->
  List.concat (position_sort ((Some 0, ex) :: ents (sassign fs (free_slots (map to_field fs)))))
  = ex ++ List.concat (map payload (spec_order fs)).
Proof.
  intros fs ex Hd Hl Hok. set (free := free_slots (map to_field fs)) in *. set (L := sassign fs free).
  destruct (free_slots_props (map to_field fs)) as (Fnd & Fnn & Fdis & Fsort). fold free in Fnd, Fnn, Fdis, Fsort.
  assert (Hsome : Forall (fun f => sf_pos f <> None) L) by (apply sassign_all_some; exact Hl).
  assert (ND : NoDup (0 :: map posz L)) by (apply assigned_NoDup; assumption).
  inversion ND as [|? ? N0 NDL]; subst.
  assert (Hposz : forall f, In f L -> pos_nonneg f = (0 <=? posz f) /\ pos_neg f = (posz f <? 0)).
  { intros f Hf. rewrite Forall_forall in Hsome. specialize (Hsome f Hf).
    unfold pos_nonneg, pos_neg, posz. destruct (sf_pos f); [auto|congruence]. }
  assert (Fn : filter (fun f => 0 <=? posz f) L = filter pos_nonneg L)
    by (apply filter_ext_in; intros f Hf; symmetry; apply (Hposz f Hf)).
  assert (Fg : filter (fun f => posz f <? 0) L = filter pos_neg L)
    by (apply filter_ext_in; intros f Hf; symmetry; apply (Hposz f Hf)).
  set (Pn := sort_pos (filter pos_nonneg L)). set (Ng := sort_pos (filter pos_neg L)).
  assert (SPn : ksorted posz Pn) by (apply sort_pos_sorted, NoDup_map_filter, NDL).
  assert (SNg : ksorted posz Ng) by (apply sort_pos_sorted, NoDup_map_filter, NDL).
  rewrite (position_sort_unique _ ((0, ex) :: flat_map item Pn) (flat_map item Ng)).
  - (* shape of the result *)
    cbn [map snd]. rewrite concat_app. cbn [List.concat]. rewrite <- app_assoc. f_equal.
    rewrite !concat_item. unfold spec_order. rewrite !map_app, !concat_app. 
    (* the non-negative half *)
    assert (EPn : Pn = sort_pos (filter pos_nonneg fs) ++ implicit fs free).
    { apply (sorted_perm_unique posz); [exact SPn| |].
      - assert (Pm : Permutation (filter pos_nonneg L) (filter pos_nonneg fs ++ implicit fs free))
          by (apply sassign_filter_nonneg; assumption).
        assert (NDa : NoDup (map posz (filter pos_nonneg fs ++ implicit fs free))).
        { eapply Permutation_NoDup; [apply Permutation_map; exact Pm|]. apply NoDup_map_filter, NDL. }
        rewrite map_app in NDa.
        apply ksorted_app.
        + apply sort_pos_sorted. eapply NoDup_app_l. exact NDa.
        + apply ksorted_of_keys. rewrite implicit_keys by exact Hl. apply StronglySorted_firstn, Fsort.
        + intros a b Ha Hb.
          eapply Permutation_in in Ha; [|apply sort_pos_perm]. apply filter_In in Ha as [Ha Hann].
          assert (Hbk : In (posz b) (firstn (List.length (filter pos_none fs)) free))
            by (rewrite <- implicit_keys by exact Hl; now apply in_map).
          destruct (order_ok_inv fs Hok) as [E|(q0 & rest & Ef & Hlt)].
          * rewrite E in Hbk. cbn in Hbk. contradiction.
          * fold free in Ef. apply firstn_In in Hbk. rewrite Ef in Hbk, Fsort.
            unfold pos_nonneg in Hann. destruct (sf_pos a) as [p|] eqn:Ep; [|discriminate].
            assert (p < q0) by (apply (Hlt a p Ha Ep); lia).
            unfold posz at 1. rewrite Ep. inversion Fsort; subst. destruct Hbk as [<-|Hbk]; [exact H|].
            rewrite Forall_forall in H3. specialize (H3 _ Hbk). lia.
      - unfold Pn, L. rewrite sort_pos_perm. rewrite (sassign_filter_nonneg fs free Fnn Hl).
        apply Permutation_app_tail. symmetry. apply sort_pos_perm. }
    rewrite EPn, map_app, concat_app. rewrite (payload_implicit fs free Hl).
    unfold Ng, L. rewrite (sassign_filter_neg fs free Fnn). rewrite <- !app_assoc. reflexivity.
  - constructor; [discriminate|]. apply ents_some, Hsome.
  - cbn [items flat_map fst snd app map]. fold (items (ents L)). rewrite items_ents by exact Hsome.
    constructor; [|apply item_keys_NoDup, NDL]. intros Hin. apply N0, item_keys_incl, Hin.
  - constructor; [apply item_sorted, SPn|]. rewrite Forall_forall. intros [k x] Hk.
    assert (Hk' : In k (map posz Pn)) by (apply item_keys_incl; apply in_map_iff; exists (k, x); auto).
    apply in_map_iff in Hk' as (b & <- & Hb). unfold Pn in Hb.
    eapply Permutation_in in Hb; [|apply sort_pos_perm]. apply filter_In in Hb as [Hb Hbn].
    destruct (Hposz b Hb) as [E _]. rewrite E in Hbn. unfold klt. cbn.
    assert (posz b <> 0) by (intros E0; apply N0; rewrite <- E0; now apply in_map). lia.
  - apply item_sorted, SNg.
  - cbn [items flat_map fst snd app]. fold (items (ents L)). rewrite items_ents by exact Hsome.
    cbn [filter fst]. change (0 <=? 0) with true. cbn iota. constructor.
    rewrite (filter_item (fun k => 0 <=? k)), Fn. apply Permutation_flat_map. apply sort_pos_perm.
  - cbn [items flat_map fst snd app]. fold (items (ents L)). rewrite items_ents by exact Hsome.
    cbn [filter fst]. change (0 <? 0) with false. cbn iota.
    rewrite (filter_item (fun k => k <? 0)), Fg. apply Permutation_flat_map. apply sort_pos_perm.
Qed.
End Payload.
