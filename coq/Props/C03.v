(* C03 — workflow state propagation = nested-loop reference evaluation. *)
From Pydra Require Import Base.Prelude Model.StateWf Spec.StateWf Proofs.StateWf Proofs.StateWfMain.

(* the property at full strength: on every well-formed workflow of the modelled fragment the model
   (= the code) produces exactly the nested-loop outputs *)
Definition C03_full_statement : Prop :=
  forall wf : workflow, wf_ok wf = true -> model_run wf = Some (spec_run wf).

(* false on the unchanged tree: the diamond multiplies the shared origin (finding F03) *)
Theorem C03_refuted : ~ C03_full_statement.
Proof. exact refuted. Qed.
Print Assumptions C03_refuted.

Theorem C03_diamond_multiplies :
  option_map (map (fun v => match v with VList l => List.length l | _ => 0 end)) (model_run diamond) = Some [3; 3; 3; 9]
  /\ spec_njobs diamond = [3; 3; 3; 3].
Proof. exact diamond_counts. Qed.
Print Assumptions C03_diamond_multiplies.

(* the strongest positive theorem: for every workflow (any number of nodes, any list lengths) whose nodes
   are fed by separate origins (no open axis reaches a node through two of its inputs' states, no input
   state is itself an input of another), that never combine away all inherited axes under an own splitter
   and never combine over an empty box, the model's outputs are the nested-loop outputs.
   The excluded class is computable: c03_domain = false. *)
Theorem C03_partial : forall wf : workflow, c03_domain wf = true -> model_run wf = Some (spec_run wf).
Proof. exact partial. Qed.
Print Assumptions C03_partial.
