(* Spec/CacheProto.v — what C10 / C12 / C35 demand, stated on what can be observed from outside a run
   (outcomes handed to the callers, the body-execution counter, the listing of the cache root, os.getcwd(),
   the hook log).  Nothing here refers to locks, program counters or the order of writes; Model.CacheProto is
   imported only for the observation types (res, outcome, gobs, pobs). *)
From Pydra Require Import Base.Prelude.
From Pydra Require Import Model.CacheProto.
Local Open Scope nat_scope.

(* the only acceptable answer: not errored, carrying the value the body computes *)
Definition good (bv : val) : outcome := Returned (mkRes false (Some bv)).

Definition g_runs (g : gobs) : nat := let '(_, _, _, _, _, _, r, _) := g in r.
Definition g_infos (g : gobs) : nat := let '(_, _, _, _, _, _, _, i) := g in i.
Definition g_dir (g : gobs) : bool := let '(_, _, d, _, _, _, _, _) := g in d.
Definition g_job (g : gobs) : nat := let '(_, _, _, j, _, _, _, _) := g in j.
Definition g_res (g : gobs) : nat := let '(_, _, _, _, r, _, _, _) := g in r.
Definition g_lock (g : gobs) : bool := let '(l, _, _, _, _, _, _, _) := g in l.
Definition p_ret (o : pobs) : option outcome := let '(_, r, _, _, _) := o in r.
Definition p_home (o : pobs) : bool := let '(_, _, h, _, _) := o in h.
Definition p_pre (o : pobs) : nat := let '(_, _, _, a, _) := o in a.
Definition p_post (o : pobs) : nat := let '(_, _, _, _, b) := o in b.

(* ---- C10: several submitters of one task, a body that succeeds, nobody killed.
   The body has run at most once -- exactly once as soon as somebody has an answer (an execution that left the
   result found at the start counts) --, and every answer is the good one. *)
Definition c10_spec (bv : val) (g : gobs) (ps : list pobs) : Prop :=
  g_runs g <= 1 /\
  forall o, In o ps -> forall r, p_ret o = Some r -> r = good bv /\ g_runs g = 1.
Definition c10_specb (bv : val) (g : gobs) (ps : list pobs) : bool :=
  Nat.leb (g_runs g) 1 &&
  forallb (fun o => match p_ret o with
                    | Some r => outcome_eqb r (good bv) && Nat.eqb (g_runs g) 1
                    | None => true
                    end) ps.

(* ---- C12: after any number of kills, one more submission (the others do not move): it comes back, with the
   good answer, having run the body at most once more; it never hangs (no answer = None) *)
Definition c12_spec (bv : val) (runs_before : nat) (g : gobs) (o : pobs) : Prop :=
  p_ret o = Some (good bv) /\ g_runs g <= S runs_before.
Definition c12_specb (bv : val) (runs_before : nat) (g : gobs) (o : pobs) : bool :=
  option_eqb outcome_eqb (p_ret o) (Some (good bv)) && Nat.leb (g_runs g) (S runs_before).

(* ---- C35: a process that is not inside a job run (all its submissions have returned or raised): cwd is what it
   was, none of its info files is left, the job directory holds a whole job record and a whole result, and
   pre_run_task / post_run_task were each called once per execution (execs = entries into the task execution,
   counted by the harness through the hook log and the side file) *)
Definition c35_spec (execs : nat) (g : gobs) (o : pobs) : Prop :=
  p_home o = true /\ g_infos g = 0 /\ g_dir g = true /\ g_job g = 2 /\ g_res g = 2 /\
  p_pre o = execs /\ p_post o = execs.
Definition c35_specb (execs : nat) (g : gobs) (o : pobs) : bool :=
  p_home o && Nat.eqb (g_infos g) 0 && g_dir g && Nat.eqb (g_job g) 2 && Nat.eqb (g_res g) 2 &&
  Nat.eqb (p_pre o) execs && Nat.eqb (p_post o) execs.

(* ---- what is assumed of cloudpickle: round trip; a strict prefix of a pickle is rejected with
   UnpicklingError / EOFError (the exceptions load_result retries on and finally answers None for); a pickle
   is never empty.  Validated on every run by the truncation sweep over real _result.pklz files. *)
Definition codec_ok (pickle : res -> list nat) (unpickle : list nat -> option res) : Prop :=
  (forall r, unpickle (pickle r) = Some r) /\
  (forall r n, n < List.length (pickle r) -> unpickle (firstn n (pickle r)) = None) /\
  (forall r, pickle r <> []).
