(* Proofs/HashOrder.v — the digest does not depend on the iteration order of sets or the insertion order of
   dicts / attribute dicts, at any depth, provided `<` is a strict total order on the elements / keys of every
   such container (dig_reorder).  Instances: str, bytes and int keys are such classes. *)
From Coq Require Import Sorting.Permutation Sorting.Sorted.
From Pydra Require Import Base.Prelude Base.PySort Model.Hash Proofs.HashSort Proofs.HashCtx.
Local Open Scope list_scope.

Record ordered_class (P : pyval -> Prop) : Prop := {
  oc_def : forall x y, P x -> P y -> exists b, vlt x y = Some b;
  oc_trans : forall x y z, P x -> P y -> P z ->
                           vlt x y = Some true -> vlt y z = Some true -> vlt x z = Some true;
  oc_asym : forall x y, P x -> P y -> vlt x y = Some true -> vlt y x = Some true -> False;
  oc_total : forall x y, P x -> P y -> x <> y -> vlt x y = Some true \/ vlt y x = Some true }.

(* pairwise distinct, and all in one class that `<` orders totally *)
Definition keys_ok (ks : list pyval) : Prop := NoDup ks /\ exists P, ordered_class P /\ Forall P ks.

Inductive sortable : pyval -> Prop :=
| so_intro v :
    match v with
    | VSet _ l | VFrozenset _ l => keys_ok l
    | VDict _ kvs => keys_ok (map fst kvs)
    | VObj _ _ ats => keys_ok (map (fun a : string * pyval => VStr (fst a)) ats)
    | _ => True
    end ->
    (forall x, In x (subs v) -> sortable x) -> sortable v.

(* v2 is v1 with the element order of sets and the insertion order of dicts / attribute dicts changed,
   anywhere in the value (object identities may change too) *)
Inductive reorder : pyval -> pyval -> Prop :=
| ro_refl v : reorder v v
| ro_list i j l1 l2 : Forall2 reorder l1 l2 -> reorder (VList i l1) (VList j l2)
| ro_tuple i j l1 l2 : Forall2 reorder l1 l2 -> reorder (VTuple i l1) (VTuple j l2)
| ro_set i j l1 l2 : Permutation l1 l2 -> reorder (VSet i l1) (VSet j l2)
| ro_fset i j l1 l2 : Permutation l1 l2 -> reorder (VFrozenset i l1) (VFrozenset j l2)
| ro_dict i j kv1 kv' kv2 :
    Permutation kv1 kv' ->
    Forall2 (fun a b : pyval * pyval => fst a = fst b /\ reorder (snd a) (snd b)) kv' kv2 ->
    reorder (VDict i kv1) (VDict j kv2)
| ro_obj i j c a1 a' a2 :
    Permutation a1 a' ->
    Forall2 (fun a b : string * pyval => fst a = fst b /\ reorder (snd a) (snd b)) a' a2 ->
    reorder (VObj i c a1) (VObj j c a2).

Lemma NoDup_map_inj {A B} (f : A -> B) l x y :
  NoDup (map f l) -> In x l -> In y l -> f x = f y -> x = y.
Proof.
  induction l as [|a l IH]; cbn; intros Hnd Hx Hy E; [contradiction|].
  inversion Hnd as [|? ? Hnin Hnd']; subst.
  destruct Hx as [->|Hx], Hy as [->|Hy]; auto.
  - exfalso. apply Hnin. rewrite E. now apply in_map.
  - exfalso. apply Hnin. rewrite <- E. now apply in_map.
Qed.

Lemma sorted_set_perm l1 l2 :
  keys_ok l1 -> Permutation l1 l2 -> sorted_res vlt l1 = sorted_res vlt l2.
Proof.
  intros [Hnd (P & HP & HF)] Hp. destruct HP.
  destruct (py_sorted_perm_invariant vlt P oc_def0 oc_trans0 oc_asym0 oc_total0 l1 l2 HF Hnd Hp) as (s & E1 & E2 & _).
  unfold sorted_res. now rewrite E1, E2.
Qed.

Section Order.
  Variable H : string -> string.

  Lemma seq_contents_eq (rec : pyval -> unit -> res (string * unit)) l1 l2 :
    Forall2 (fun a b => rec a tt = rec b tt) l1 l2 -> seq_contents rec l1 tt = seq_contents rec l2 tt.
  Proof.
    induction 1 as [|a b l1 l2 E HF IH]; cbn; [reflexivity|].
    rewrite E. destruct (rec b tt) as [[d []]|]; [|reflexivity]. now rewrite IH.
  Qed.

  Lemma map_contents_eq (rec : pyval -> unit -> res (string * unit)) s1 s2 :
    Forall2 (fun a b : pyval * pyval => fst a = fst b /\ rec (snd a) tt = rec (snd b) tt) s1 s2 ->
    map_contents rec s1 tt = map_contents rec s2 tt.
  Proof.
    induction 1 as [|[k x] [k' x'] l1 l2 [Ek Ex] HF IH]; cbn in *; [reflexivity|]. subst k'.
    destruct (repr_flat rec k tt) as [[ks []]|]; [|reflexivity].
    rewrite Ex. destruct (rec x' tt) as [[d []]|]; [|reflexivity]. now rewrite IH.
  Qed.

  Lemma mapping_eq (rec : pyval -> unit -> res (string * unit)) kv1 kv' kv2 :
    keys_ok (map fst kv1) -> Permutation kv1 kv' ->
    Forall2 (fun a b : pyval * pyval => fst a = fst b /\ rec (snd a) tt = rec (snd b) tt) kv' kv2 ->
    mapping rec kv1 tt = mapping rec kv2 tt.
  Proof.
    intros [Hnd (P & HP & HF)] Hp HQ. destruct HP.
    set (P' := fun kv : pyval * pyval => In kv kv1 /\ P (fst kv)).
    assert (HF' : Forall P' kv1).
    { rewrite Forall_forall. intros kv Hin. split; auto. rewrite Forall_forall in HF. apply HF. now apply in_map. }
    destruct (py_sorted_perm_invariant (@kvlt pyval) P') with (l1 := kv1) (l2 := kv') as (s & E1 & E2 & _); auto.
    - intros x y [_ Hx] [_ Hy]. apply oc_def0; auto.
    - intros x y z [_ Hx] [_ Hy] [_ Hz]. apply oc_trans0; auto.
    - intros x y [_ Hx] [_ Hy]. apply oc_asym0; auto.
    - intros x y [Hix Hx] [Hiy Hy] Hne. apply oc_total0; auto.
      intros E. apply Hne. eapply NoDup_map_inj; eauto.
    - eapply NoDup_map_inv; eauto.
    - pose proof (py_sorted_rel (@kvlt pyval) (@kvlt pyval)
                    (fun a b : pyval * pyval => fst a = fst b /\ rec (snd a) tt = rec (snd b) tt)) as Hrel.
      specialize (Hrel (fun a a' b b' Ha Hb => ltac:(unfold kvlt; destruct Ha as [-> _], Hb as [-> _]; reflexivity))
                       kv' kv2 HQ).
      unfold orel in Hrel. rewrite E2 in Hrel.
      destruct (py_sorted kvlt kv2) as [s2|] eqn:E3; [|contradiction].
      unfold mapping, sorted_res. rewrite E1, E3. now apply map_contents_eq.
  Qed.

  Theorem dig_reorder : forall f v1 v2, reorder v1 v2 -> sortable v1 -> dig H f v1 tt = dig H f v2 tt.
  Proof.
    induction f as [|f IH]; intros v1 v2 Hr Hs; [reflexivity|].
    cbn [dig]. enough (E : repr (dig H f) v1 tt = repr (dig H f) v2 tt) by now rewrite E.
    inversion Hs as [v Hk Hsub]; subst v.
    inversion Hr as [v|i j l1 l2 HF|i j l1 l2 HF|i j l1 l2 Hp|i j l1 l2 Hp|i j kv1 kv' kv2 Hp HF|i j c a1 a' a2 Hp HF];
      subst; [reflexivity| | | | | |].
    - cbn. cbn [subs] in Hsub.
      rewrite (seq_contents_eq (dig H f) l1 l2); [reflexivity|].
      clear Hr Hs Hk. induction HF as [|a b l1 l2 Hab HF IHF]; constructor.
      + apply IH; auto. apply Hsub. now left.
      + apply IHF. intros x Hx. apply Hsub. now right.
    - cbn. cbn [subs] in Hsub.
      rewrite (seq_contents_eq (dig H f) l1 l2); [reflexivity|].
      clear Hr Hs Hk. induction HF as [|a b l1 l2 Hab HF IHF]; constructor.
      + apply IH; auto. apply Hsub. now left.
      + apply IHF. intros x Hx. apply Hsub. now right.
    - cbn. rewrite (sorted_set_perm l1 l2 Hk Hp). reflexivity.
    - cbn. rewrite (sorted_set_perm l1 l2 Hk Hp). reflexivity.
    - cbn [repr]. rewrite (mapping_eq (dig H f) kv1 kv' kv2 Hk Hp); [reflexivity|].
      assert (Hsub' : forall kv, In kv kv' -> sortable (snd kv)).
      { intros kv Hin. apply Hsub. cbn [subs]. apply in_flat_map. exists kv. split.
        - eapply Permutation_in; [symmetry; exact Hp|exact Hin].
        - apply in_or_app. right. now left. }
      clear Hr Hs Hk Hp Hsub. induction HF as [|a b l1 l2 [Ek Hab] HF IHF]; constructor.
      + split; auto. apply IH; auto. apply Hsub'. now left.
      + apply IHF. intros kv Hin. apply Hsub'. now right.
    - cbn [repr].
      set (g := fun a : string * pyval => (VStr (fst a), snd a)).
      rewrite (mapping_eq (dig H f) (map g a1) (map g a') (map g a2)); [reflexivity| | |].
      + rewrite map_map. exact Hk.
      + now apply Permutation_map.
      + assert (Hsub' : forall kv, In kv a' -> sortable (snd kv)).
        { intros kv Hin. apply Hsub. cbn [subs]. apply in_map.
          eapply Permutation_in; [symmetry; exact Hp|exact Hin]. }
        clear Hr Hs Hk Hp Hsub. induction HF as [|a b l1 l2 [Ek Hab] HF IHF]; cbn; constructor.
        * cbn. split; [now rewrite Ek|]. apply IH; auto. apply Hsub'. now left.
        * apply IHF. intros kv Hin. apply Hsub'. now right.
  Qed.
End Order.

(* ------------------------------------------------------------------ classes that `<` orders totally *)
Lemma str_ltb_irrefl : forall a, str_ltb a a = false.
Proof. induction a as [|c a IH]; cbn [str_ltb]; [reflexivity|]. rewrite Nat.ltb_irrefl. exact IH. Qed.

Lemma str_ltb_trans : forall a b c, str_ltb a b = true -> str_ltb b c = true -> str_ltb a c = true.
Proof.
  induction a as [|x a IH]; intros [|y b] [|z c]; cbn [str_ltb]; try discriminate; auto.
  destruct (Nat.ltb (nat_of_ascii x) (nat_of_ascii y)) eqn:E1.
  - intros _. destruct (Nat.ltb (nat_of_ascii y) (nat_of_ascii z)) eqn:E2.
    + intros _. apply Nat.ltb_lt in E1, E2.
      assert (E3 : Nat.ltb (nat_of_ascii x) (nat_of_ascii z) = true) by (apply Nat.ltb_lt; lia). now rewrite E3.
    + destruct (Nat.ltb (nat_of_ascii z) (nat_of_ascii y)) eqn:E3; [discriminate|].
      intros _. apply Nat.ltb_lt in E1. apply Nat.ltb_ge in E2, E3.
      assert (E4 : Nat.ltb (nat_of_ascii x) (nat_of_ascii z) = true) by (apply Nat.ltb_lt; lia). now rewrite E4.
  - destruct (Nat.ltb (nat_of_ascii y) (nat_of_ascii x)) eqn:E2; [discriminate|].
    intros Hab. apply Nat.ltb_ge in E1, E2.
    assert (Exy : nat_of_ascii x = nat_of_ascii y) by lia. rewrite Exy.
    destruct (Nat.ltb (nat_of_ascii y) (nat_of_ascii z)); [reflexivity|].
    destruct (Nat.ltb (nat_of_ascii z) (nat_of_ascii y)); [discriminate|].
    intros Hbc. eapply IH; eauto.
Qed.

Lemma str_ltb_total : forall a b, a <> b -> str_ltb a b = true \/ str_ltb b a = true.
Proof.
  induction a as [|x a IH]; intros [|y b] Hne; cbn [str_ltb]; [congruence|now left|now right|].
  destruct (Nat.ltb (nat_of_ascii x) (nat_of_ascii y)) eqn:E1; [now left|].
  destruct (Nat.ltb (nat_of_ascii y) (nat_of_ascii x)) eqn:E2; [now right|].
  apply Nat.ltb_ge in E1, E2. assert (Exy : nat_of_ascii x = nat_of_ascii y) by lia.
  assert (x = y) by (rewrite <- (ascii_nat_embedding x), <- (ascii_nat_embedding y); now rewrite Exy).
  subst y. apply IH. congruence.
Qed.

Definition is_str (v : pyval) : Prop := exists s, v = VStr s.
Definition is_bytes (v : pyval) : Prop := exists s, v = VBytes s.
Definition is_int (v : pyval) : Prop := exists z, v = VInt z.

Lemma ordered_str : ordered_class is_str.
Proof.
  constructor.
  - intros x y [a ->] [b ->]. eexists. reflexivity.
  - intros x y z [a ->] [b ->] [c ->]. cbv [vlt]. cbn. intros E1 E2. injection E1 as E1. injection E2 as E2.
    f_equal. eapply str_ltb_trans; eauto.
  - intros x y [a ->] [b ->]. cbv [vlt]. cbn. intros E1 E2. injection E1 as E1. injection E2 as E2.
    pose proof (str_ltb_trans _ _ _ E1 E2) as E. rewrite str_ltb_irrefl in E. discriminate.
  - intros x y [a ->] [b ->] Hne. cbv [vlt]. cbn.
    destruct (str_ltb_total a b) as [E|E]; [congruence|rewrite E; now left|rewrite E; now right].
Qed.

Lemma ordered_bytes : ordered_class is_bytes.
Proof.
  constructor.
  - intros x y [a ->] [b ->]. eexists. reflexivity.
  - intros x y z [a ->] [b ->] [c ->]. cbv [vlt]. cbn. intros E1 E2. injection E1 as E1. injection E2 as E2.
    f_equal. eapply str_ltb_trans; eauto.
  - intros x y [a ->] [b ->]. cbv [vlt]. cbn. intros E1 E2. injection E1 as E1. injection E2 as E2.
    pose proof (str_ltb_trans _ _ _ E1 E2) as E. rewrite str_ltb_irrefl in E. discriminate.
  - intros x y [a ->] [b ->] Hne. cbv [vlt]. cbn.
    destruct (str_ltb_total a b) as [E|E]; [congruence|rewrite E; now left|rewrite E; now right].
Qed.

Lemma ordered_int : ordered_class is_int.
Proof.
  constructor.
  - intros x y [a ->] [b ->]. eexists. reflexivity.
  - intros x y z [a ->] [b ->] [c ->]. cbv [vlt]. cbn. intros E1 E2. injection E1 as E1. injection E2 as E2.
    f_equal. apply Z.ltb_lt in E1, E2. apply Z.ltb_lt. lia.
  - intros x y [a ->] [b ->]. cbv [vlt]. cbn. intros E1 E2. injection E1 as E1. injection E2 as E2.
    apply Z.ltb_lt in E1, E2. lia.
  - intros x y [a ->] [b ->] Hne. cbv [vlt]. cbn.
    destruct (Z.lt_total a b) as [E|[E|E]]; [left|congruence|right]; f_equal; apply Z.ltb_lt; lia.
Qed.

(* every attribute dict is sortable: attribute names are distinct strings *)
Lemma keys_ok_attr_names (ats : list (string * pyval)) :
  NoDup (map fst ats) -> keys_ok (map (fun a : string * pyval => VStr (fst a)) ats).
Proof.
  intros Hnd. split.
  - rewrite <- (map_map fst VStr). apply FinFun.Injective_map_NoDup; auto. intros a b E. now inversion E.
  - exists is_str. split; [exact ordered_str|]. rewrite Forall_forall. intros x Hx.
    apply in_map_iff in Hx. destruct Hx as (a & <- & _). now eexists.
Qed.

(* a non-trivial instance of the hypotheses: {"b": {3, 1, 2}, "a": [b"x"]} with the set and the dict reordered *)
Example reorder_example :
  let v1 := VDict 1 [(VStr "b", VSet 2 [VInt 3; VInt 1; VInt 2]); (VStr "a", VList 3 [VBytes "x"])] in
  let v2 := VDict 7 [(VStr "a", VList 8 [VBytes "x"]); (VStr "b", VSet 9 [VInt 2; VInt 3; VInt 1])] in
  reorder v1 v2 /\ sortable v1.
Proof.
  cbv zeta. split.
  - apply ro_dict with (kv' := [(VStr "a", VList 3 [VBytes "x"]); (VStr "b", VSet 2 [VInt 3; VInt 1; VInt 2])]).
    + apply perm_swap.
    + constructor; [split; [reflexivity|]|constructor; [split; [reflexivity|]|constructor]]; cbn [snd].
      * apply ro_list. constructor; [apply ro_refl|constructor].
      * apply ro_set. apply perm_trans with [VInt 3; VInt 2; VInt 1]; [apply perm_skip; apply perm_swap|apply perm_swap].
  - assert (Hatom : forall v, subs v = [] -> match v with VSet _ _ | VFrozenset _ _ | VDict _ _ | VObj _ _ _ => False | _ => True end -> sortable v).
    { intros v Hs Hm. constructor; [destruct v; auto; contradiction|rewrite Hs; intros x []]. }
    constructor.
    + cbn. split; [repeat constructor; cbn; intuition discriminate|].
      exists is_str. split; [exact ordered_str|]. repeat constructor; now eexists.
    + cbn. intros x [<-|[<-|[]]].
      * constructor.
        -- split; [repeat constructor; cbn; intuition discriminate|].
           exists is_int. split; [exact ordered_int|]. repeat constructor; now eexists.
        -- cbn. intros x [<-|[<-|[<-|[]]]]; apply Hatom; cbn; auto.
      * constructor; [exact Logic.I|]. cbn. intros x [<-|[]]. apply Hatom; cbn; auto.
Qed.
