(* Model/CacheSeq.v — sequential cache semantics of pydra (debug worker):
     pydra/engine/result.py   load_result
     pydra/engine/job.py      Job.all_caches, Job._populate_filesystem, Job.run, Job.result,
                              Job._check_for_hash_changes
     pydra/engine/submitter.py Submitter.__call__, Submitter.expand_workflow (rerun and propagate_rerun)
     pydra/compose/python.py  PythonTask._run return-value binding, PythonOutputs._from_job
     pydra/compose/base/task.py Task._hash_changes / _compute_hashes, Outputs._from_job
   No proofs here. *)
From Pydra Require Import Base.Prelude.
Local Open Scope bool_scope.

(* ------------------------------------------------------------------ part 1: the store *)

Definition ident := nat.      (* cache identity of a task = name of its directory (checksum) *)
Definition loc := nat.        (* a cache location (a directory holding one sub-directory per identity) *)
Definition value := nat.      (* an outputs object, interned by the harness *)

Inductive res := Ok (v : value) | Err.                 (* Result.errored = false / true *)
(* what a location holds for one identity:
   Absent   — no directory
   Partial  — the directory exists but holds no loadable _result.pklz
              (empty leftover, only _job.pklz, zero-size or truncated result file)
   Complete — _result.pklz fully written; errored or not *)
Inductive dir := Absent | Partial | Complete (r : res).

Definition store := loc -> ident -> dir.
Definition empty_store : store := fun _ _ => Absent.
Definition set_dir (s : store) (l : loc) (c : ident) (d : dir) : store :=
  fun l' c' => if Nat.eqb l l' && Nat.eqb c c' then d else s l' c'.

(* result.load_result(checksum, all_caches): walk the locations in order; a location whose
   directory holds a complete result decides; locations without the directory, or whose
   directory holds no loadable result, are skipped.
   (Tree after "fix: load_result continues ..."; the earlier code is load_result_first_dir.) *)
Fixpoint load_result (s : store) (c : ident) (locs : list loc) : option res :=
  match locs with
  | [] => None
  | l :: rest =>
      match s l c with
      | Complete r => Some r
      | Absent | Partial => load_result s c rest
      end
  end.

(* the behaviour before the repair: the first location whose directory *exists* decides,
   `return None` when that directory holds no result (kept only so that the driver can say
   precisely what a tree without the repair does; no theorem is about it except the witness). *)
Fixpoint load_result_first_dir (s : store) (c : ident) (locs : list loc) : option res :=
  match locs with
  | [] => None
  | l :: rest =>
      match s l c with
      | Complete r => Some r
      | Partial => None
      | Absent => load_result_first_dir s c rest
      end
  end.

(* ------------------------------------------------------------------ part 2: jobs *)

(* A task is a python/shell leaf or a workflow with its node tasks in execution order.
   Node identities are fixed per workflow identity (lazy inputs resolve deterministically). *)
Inductive task := Leaf (c : ident) | Wf (c : ident) (nodes : list task).
Definition tid (t : task) : ident := match t with Leaf c => c | Wf c _ => c end.

(* the outside world: what the n-th execution of the body of identity c does when it is
   entered at history step k, and what collecting a workflow's outputs from its nodes' outputs
   gives at step k (Outputs._from_job after the nodes: it can raise too — a lazy value that cannot
   be retrieved, an output type that rejects the value) *)
Record world := { body : ident -> nat -> nat -> res; wfout : ident -> nat -> list value -> res }.

(* execs c = how many times a job of identity c has been executed so far (the side-file counter) *)
Record state := { st : store; execs : ident -> nat; clock : nat }.
Definition with_dir (s : state) (l : loc) (c : ident) (d : dir) : state :=
  {| st := set_dir (st s) l c d; execs := execs s; clock := clock s |}.
Definition bump (s : state) (c : ident) : state :=
  {| st := st s; execs := fun c' => if Nat.eqb c c' then S (execs s c') else execs s c'; clock := clock s |}.
Definition tick (s : state) : state := {| st := st s; execs := execs s; clock := S (clock s) |}.
Definition init_state : state := {| st := empty_store; execs := fun _ => 0; clock := 0 |}.

(* Submitter(cache_root=root, readonly_caches=ro, propagate_rerun=prop) *)
Record config := { root : loc; ro : list loc; prop : bool }.
Definition all_caches (cfg : config) : list loc := root cfg :: ro cfg.     (* Job.all_caches *)

(* what can be seen from outside: hooks.pre_run without execution (early exit),
   hooks.post_run_task(job, result) after an execution (rr = the rerun flag Job.run got) *)
Inductive event := EvHit (c : ident) (v : value) | EvRun (c : ident) (rr : bool) (r : res).

Definition out3 := (state * list event * res)%type.

(* Submitter.expand_workflow under the debug worker: nodes in graph order, each through
   worker.run(job, rerun = rerun and propagate_rerun); an exception from a node propagates
   at once (the remaining nodes are not run). *)
Section Nodes.
  Variable run : task -> state -> out3.
  Fixpoint run_nodes (ns : list task) (s : state) (acc : list value)
    : state * list event * option (list value) :=
    match ns with
    | [] => (s, [], Some (rev acc))
    | n :: ns' =>
        let '(s1, e1, r) := run n s in
        match r with
        | Ok v => let '(s2, e2, o) := run_nodes ns' s1 (v :: acc) in (s2, e1 ++ e2, o)
        | Err => (s1, e1, None)
        end
    end.
End Nodes.

Section Run.
  Variable w : world.
  Variable cfg : config.

  (* Job.run's early exit:  if not rerun: result = self.result();
                             if result is not None and not result.errored: return result *)
  Definition early_exit (rerun : bool) (s : store) (c : ident) : option value :=
    if rerun then None
    else match load_result s c (all_caches cfg) with Some (Ok v) => Some v | _ => None end.

  (* Job.run(rerun) *)
  Fixpoint run_job (rerun : bool) (t : task) (s : state) : out3 :=
    let c := tid t in
    match early_exit rerun (st s) c with
    | Some v => (s, [EvHit c v], Ok v)                      (* stored success: nothing is touched *)
    | None =>                                               (* nothing stored, a stored failure, or rerun *)
        let s1 := with_dir s (root cfg) c Partial in        (* _populate_filesystem: rmtree, mkdir, save job *)
        let '(s2, evs, r) :=
          match t with
          | Leaf _ => (s1, [], body w c (clock s1) (execs s1 c))
          | Wf _ ns =>
              let '(s2, evs, o) := run_nodes (run_job (rerun && prop cfg)) ns s1 [] in
              (s2, evs, match o with Some vs => wfout w c (clock s2) vs | None => Err end)
          end in
        (* except: record_error, errored = True — finally: post_run_task hook, save(result) *)
        (bump (with_dir s2 (root cfg) c (Complete r)) c, evs ++ [EvRun c rerun r], r)
    end.

  (* Submitter.__call__(task, rerun): submit, then job.result() = load_result over all caches;
     a missing result is the RuntimeError "has no result" *)
  Definition submit (rerun : bool) (t : task) (s : state) : out3 :=
    let '(s1, evs, _) := run_job rerun t s in
    (s1, evs, match load_result (st s1) (tid t) (all_caches cfg) with Some r => r | None => Err end).
End Run.

(* ------------------------------------------------------------------ part 3: histories *)

Record submission := { s_task : task; s_cfg : config; s_rerun : bool }.
Inductive step :=
  | Submit (sub : submission)
  | Plant (l : loc) (c : ident).   (* a leftover incomplete directory appears where there was none *)

Definition plant (s : state) (l : loc) (c : ident) : state :=
  match st s l c with Absent => with_dir s l c Partial | _ => s end.

Definition obs := (list event * res)%type.

Definition do_step (w : world) (x : step) (s : state) : state * option obs :=
  match x with
  | Submit sub => let '(s1, evs, r) := submit w (s_cfg sub) (s_rerun sub) (s_task sub) s in (tick s1, Some (evs, r))
  | Plant l c => (tick (plant s l c), None)
  end.

Fixpoint run_history (w : world) (h : list step) (s : state) : state * list (option obs) :=
  match h with
  | [] => (s, [])
  | x :: h' => let '(s1, o) := do_step w x s in
               let '(s2, os) := run_history w h' s1 in (s2, o :: os)
  end.

(* the same, keeping the store after every step (what the driver compares with the listings) *)
Fixpoint run_history_states (w : world) (h : list step) (s : state) : list (state * option obs) :=
  match h with
  | [] => []
  | x :: h' => let '(s1, o) := do_step w x s in (s1, o) :: run_history_states w h' s1
  end.

(* ------------------------------------------------------------------ part 4: python return binding *)

(* PythonTask._run + PythonOutputs._from_job + Outputs._from_job.
   Declared outputs: name and whether a default exists (mandatory = no default).
   oval: what ends up in the outputs object for one field. *)
Inductive retval :=
  | RNone                                   (* the function returned None *)
  | RTuple (vs : list value)                (* a tuple *)
  | RDict (kvs : list (string * value))     (* a dict *)
  | ROther (v : value).                     (* any other object *)
Inductive oval := Val (v : value) | PyNone | Default | Nothing.   (* Nothing = attrs.NOTHING *)
Definition decl := (string * bool)%type.    (* (name, mandatory) *)

Fixpoint dict_get (k : string) (kvs : list (string * value)) : option value :=
  match kvs with
  | [] => None
  | (k', v) :: r => match dict_get k r with     (* a later duplicate key wins, as in a dict *)
                    | Some v' => Some v'
                    | None => if String.eqb k k' then Some v else None
                    end
  end.

(* the interned value standing for a tuple / dict object bound as a whole to a single output *)
Definition whole (r : retval) : oval :=
  match r with ROther v => Val v | RTuple vs => Val (1000 + List.length vs) | RDict kvs => Val (2000 + List.length kvs) | RNone => PyNone end.

Definition unset (d : decl) : oval := if snd d then Nothing else Default.   (* Outputs._from_job *)

(* Some bound-fields = success with these outputs; None = the job errors.
   [strict] = the tree checks that a dict return provides every mandatory output
   (after "fix: python task fails when a returned dict lacks a mandatory output"). *)
Definition bind_outputs (strict : bool) (ds : list decl) (r : retval) : option (list (string * oval)) :=
  match r with
  | RNone => Some (map (fun d => (fst d, PyNone)) ds)
  | _ =>
    match ds with
    | [] => None                                                   (* ValueError: no output fields *)
    | [d] => Some [(fst d, whole r)]
    | _ =>
      match r with
      | RTuple vs =>
          if Nat.eqb (List.length vs) (List.length ds)
          then Some (map (fun p => (fst (fst p), Val (snd p))) (combine ds vs))
          else None                                                (* RuntimeError: expected n elements *)
      | RDict kvs =>
          if strict && existsb (fun d => snd d && match dict_get (fst d) kvs with None => true | Some _ => false end) ds
          then None
          else Some (map (fun d => (fst d, match dict_get (fst d) kvs with Some v => Val v | None => unset d end)) ds)
      | _ => None
      end
    end
  end.

(* ------------------------------------------------------------------ part 4b: outcome of a shell body *)

(* How the outcome of a shell task's body is derived from what the command did:
     pydra/environments/native.py  Native.execute:  `if output["return_code"]: raise RuntimeError(...)`
       — Python truthiness of an int: *any* non-zero code fails, a negative one (death by signal, as
       subprocess reports it) included;
     pydra/compose/shell/task.py   ShellOutputs._from_job: a declared output file that does not exist
       raises ValueError unless the field's type is optional.
   rc: the return code; files: for every declared output file (not optional?, exists?); v: the outputs. *)
Definition files_present (files : list (bool * bool)) : bool :=
  forallb (fun f => negb (fst f) || snd f) files.
Definition shell_outcome (rc : Z) (files : list (bool * bool)) (v : value) : res :=
  if Z.eqb rc 0 then (if files_present files then Ok v else Err) else Err.

(* ------------------------------------------------------------------ part 5: in-place mutation of inputs *)

(* Input values as trees; the body may replace any sub-value in place. *)
Inductive pyval :=
  | VInt (n : nat)
  | VStr (s : string)
  | VList (xs : list pyval)          (* list / tuple / set (sorted) / dict items / object attributes, in hashing order *)
  | VArr (shape : list nat) (data : list nat)      (* numpy array *)
  | VFile (path : string) (content : nat).         (* a file input: name and content, what the fileset hash reads *)

Definition inputs := list (string * pyval).

(* what bytes_repr feeds to the hash, abstractly: a tagged, length-prefixed encoding.
   [sh] = bytes_repr_numpy covers the shape (probed on the tree under test at run time). *)
Fixpoint ser (sh : bool) (v : pyval) : list nat :=
  match v with
  | VInt n => [0; n]
  | VStr s => 1 :: String.length s :: map nat_of_ascii (list_ascii_of_string s)
  | VList xs => 2 :: List.length xs :: flat_map (ser sh) xs
  | VArr shape data =>
      3 :: (if sh then List.length shape :: shape else []) ++ List.length data :: data
  | VFile path content => 4 :: String.length path :: map nat_of_ascii (list_ascii_of_string path) ++ [content]
  end.

Section Mutation.
  Variable sh : bool.
  Variable H : list nat -> nat.                    (* blake2b; no hypothesis *)

  Definition digest (v : pyval) : nat := H (ser sh v).                      (* hash_function(value) *)
  (* Task._compute_hashes: per-field digests (Task._hashes) and their combination (the checksum) *)
  Definition field_hashes (i : inputs) : list (string * nat) := map (fun f => (fst f, digest (snd f))) i.
  Definition checksum (i : inputs) : nat := H (map snd (field_hashes i)).

  (* Task._hash_changes: names whose recomputed digest differs from the stored one *)
  Fixpoint hash_changes (old : list (string * nat)) (now : inputs) : list string :=
    match old, now with
    | (k, h) :: old', (_, v) :: now' =>
        if Nat.eqb h (digest v) then hash_changes old' now' else k :: hash_changes old' now'
    | _, _ => []
    end.

  (* Job.run + Submitter.__call__ around the body:
       Job.checksum is computed (and memoised) before the body, with it Task._hashes;
       the body works on the very same objects;
       the result is saved (as a success) under the memoised name;
       Job._check_for_hash_changes then raises RuntimeError if any field digest differs;
       Submitter.__call__ re-raises if raise_errors or if its job.result() finds nothing, otherwise it
       logs and returns the stored result.
     [shared]: the body's changes are visible to the submitting process (debug worker: same objects;
               cf worker: only files on disk — the job is pickled into the worker process).
     [late]:   the submitting process computes its Job's checksum only after the body (cf worker: the
               job is pickled with _checksum = None and Job.run happens elsewhere), so it looks for the
               result under the identity of the inputs as it sees them *then*.
     Returns (directory name, change detected, error reported to the caller). *)
  Definition run_with_check (raise_errors late shared : bool) (i : inputs) (bodyf : inputs -> inputs)
    : nat * bool * bool :=
    let hs := field_hashes i in
    let name := H (map snd hs) in
    let i' := bodyf i in
    let detected := match hash_changes hs i' with [] => false | _ => true end in
    let parent_sees := if shared then i' else i in
    let found := negb late || Nat.eqb (checksum parent_sees) name in
    (name, detected, detected && (raise_errors || negb found)).
End Mutation.

(* copy-mode staging of a file input (Job.inputs -> copy_nested_files with mode = copy):
   the body receives a path inside the job directory; the original is a different file *)
Definition fs := string -> option nat.          (* path -> content *)
Definition fs_set (f : fs) (p : string) (c : option nat) : fs := fun q => if String.eqb p q then c else f q.
Definition stage_copy (f : fs) (jobdir orig : string) : fs * string :=
  let dest := (jobdir ++ "/" ++ orig)%string in (fs_set f dest (f orig), dest).
