(* C09 — File hashes always reflect current file content (pydra/utils/hash.py, persistent hash cache). *)
From Pydra Require Import Base.Prelude Model.FileHash Spec.FileHash Proofs.FileHash.

(* The property at full strength, for the code as it is now (key = inode, mtime, ctime, size of every
   file whose content enters the hash: the file a File resolves to, every regular file at any depth
   below a Directory): for every nesting of directories (parent), for every kernel clock that stamps
   later operations with larger values, every history of writes / utimes / renames / copies / links / unlinks / symlinks / mkdirs interleaved
   with hash requests of any number of processes (each with or without a long-lived PersistentCache
   object, directly or through Task._hash) and cache clean-ups returns, at every hash request, the
   content hash of what the file or directory holds at that moment. *)
Definition C09_full_statement : Prop :=
  forall (parent : name -> option name) (now : nat -> nat), (forall i j, i < j -> now i < now j) ->
    hashes_reflect_content now parent (model_outputs now parent (K_fixed parent)).

Theorem C09_full : C09_full_statement.
Proof. intros parent now H h. exact (fixed_key_outputs now parent H h). Qed.
Print Assumptions C09_full.

(* For ANY file system, ANY key projection K and ANY content hash: if along every history of
   file-system operations a key never comes back with a different content (key_sound), then every
   hash request returns the hash of the current content, and every entry of the shared store and of
   every process' in-memory table equals the content hash of every target carrying its key now. *)
Theorem C09_inv_under_key :
  forall (FS Target Key Digest Fop : Type) (key_eqb : Key -> Key -> bool)
         (texists : Target -> FS -> bool) (K : Target -> FS -> Key) (chash : Target -> FS -> Digest)
         (fstep : FS -> Fop -> FS) (fs0 : FS),
    (forall a b, key_eqb a b = true -> a = b) ->
    key_sound FS Target Key Digest Fop texists K chash fstep fs0 ->
    forall h : list (@gop Target Fop),
      outputs FS Target Key Digest Fop key_eqb texists K chash fstep fs0 h
        = spec_outputs FS Target Digest Fop texists chash fstep fs0 h
      /\ Forall (fun x => entries_current FS Target Key Digest texists K chash (fst x))
                (run_states FS Target Key Digest Fop key_eqb texists K chash fstep (fs0, cempty Key Digest) h).
Proof.
  intros FS Target Key Digest Fop key_eqb texists K chash fstep fs0 He Hs h. split.
  - now apply outputs_correct.
  - now apply store_always_current.
Qed.
Print Assumptions C09_inv_under_key.

(* The key of the current code meets that condition on the Unix model — this is where the
   assumption about st_ctime is used. *)
Theorem C09_ctime_key_sound :
  forall (parent : name -> option name) (now : nat -> nat), (forall i j, i < j -> now i < now j) ->
    key_sound fsys target key digest fop target_exists (K_fixed parent) (content_hash parent)
              (fstep now parent) fs_empty.
Proof. intros parent now H. exact (K_fixed_sound now parent H). Qed.
Print Assumptions C09_ctime_key_sound.

Theorem C09_store_current :
  forall (parent : name -> option name) (now : nat -> nat), (forall i j, i < j -> now i < now j) ->
    forall h : hist,
      Forall (fun x => entries_current fsys target key digest target_exists (K_fixed parent) (content_hash parent) (fst x))
             (model_states now parent (K_fixed parent) h).
Proof. intros parent now H. exact (fixed_key_entries_current now parent H). Qed.
Print Assumptions C09_store_current.

(* The key before commit 39d1fa1f, (type, paths, lstat mtime_ns), does not have the property. *)
Definition C09_mtime_key_statement : Prop :=
  forall (parent : name -> option name) (now : nat -> nat), (forall i j, i < j -> now i < now j) ->
    hashes_reflect_content now parent (model_outputs now parent K_pinned).

Theorem C09_refuted_mtime_key : ~ C09_mtime_key_statement.
Proof. intros H. exact (pinned_stale_utime (H parent0 now0 now0_strict h_utime)). Qed.
Print Assumptions C09_refuted_mtime_key.

Theorem C09_refuted_mtime_key_histories :
  model_outputs now0 parent0 K_pinned h_rename <> spec_out now0 parent0 h_rename /\
  model_outputs now0 parent0 K_pinned h_copy <> spec_out now0 parent0 h_copy /\
  model_outputs now0 parent0 K_pinned h_dir <> spec_out now0 parent0 h_dir /\
  model_outputs now0 parent0 K_pinned h_symlink <> spec_out now0 parent0 h_symlink /\
  model_outputs now0 parent0 K_pinned h_two_procs <> spec_out now0 parent0 h_two_procs.
Proof.
  repeat split.
  - exact pinned_stale_rename.
  - exact pinned_stale_copy.
  - exact pinned_stale_dir.
  - exact pinned_stale_symlink.
  - exact pinned_stale_two_procs.
Qed.
Print Assumptions C09_refuted_mtime_key_histories.

(* A key that stats only a directory's own entries ("a nested directory is covered by its own
   stat") does not have the property either: a file two levels down rewritten in place moves no
   directory stamp. *)
Definition C09_shallow_key_statement : Prop :=
  forall (parent : name -> option name) (now : nat -> nat), (forall i j, i < j -> now i < now j) ->
    hashes_reflect_content now parent (model_outputs now parent (K_shallow parent)).
Theorem C09_refuted_shallow_key : ~ C09_shallow_key_statement.
Proof. intros H. exact (shallow_stale_nested (H parent0 now0 now0_strict h_nested)). Qed.
Print Assumptions C09_refuted_shallow_key.

(* The cache is a cache: a second request with nothing changed in between is answered from the
   store / table and adds nothing (so "never cache" is not what the theorems describe). *)
Theorem C09_cache_effective :
  forall (s : fsys) (cs : cstate key digest) p m t,
    target_exists t s = true ->
    c_store (snd (do_hash fsys target key digest key_eqb target_exists (K_fixed parent0) (content_hash parent0) s
                    (snd (do_hash fsys target key digest key_eqb target_exists (K_fixed parent0) (content_hash parent0) s cs p m t)) p m t))
    = c_store (snd (do_hash fsys target key digest key_eqb target_exists (K_fixed parent0) (content_hash parent0) s cs p m t))
    /\ final_store_size (K_fixed parent0) h_reuse = 2
    /\ List.length (model_outputs now0 parent0 (K_fixed parent0) h_reuse) = 5.
Proof.
  intros s cs p m t E. split; [|split].
  - apply second_hash_is_a_hit; [|exact E]. intros a. apply (proj2 (key_eqb_spec a a)). reflexivity.
  - exact (proj1 (proj2 fixed_reuse_example)).
  - exact (proj1 (proj2 (proj2 fixed_reuse_example))).
Qed.
Print Assumptions C09_cache_effective.

(* Non-vacuity of the hypotheses: a strictly increasing clock exists, and on it the model with the
   current key answers the witness histories of the old key correctly (instances of C09_full,
   re-checked here by evaluation). *)
Example C09_clock_example : forall i j, i < j -> now0 i < now0 j.
Proof. exact now0_strict. Qed.
Example C09_full_on_the_old_witnesses :
  model_outputs now0 parent0 (K_fixed parent0) h_utime = spec_out now0 parent0 h_utime /\
  model_outputs now0 parent0 (K_fixed parent0) h_rename = spec_out now0 parent0 h_rename /\
  model_outputs now0 parent0 (K_fixed parent0) h_copy = spec_out now0 parent0 h_copy /\
  model_outputs now0 parent0 (K_fixed parent0) h_dir = spec_out now0 parent0 h_dir /\
  model_outputs now0 parent0 (K_fixed parent0) h_symlink = spec_out now0 parent0 h_symlink /\
  model_outputs now0 parent0 (K_fixed parent0) h_two_procs = spec_out now0 parent0 h_two_procs /\
  model_outputs now0 parent0 (K_fixed parent0) h_nested = spec_out now0 parent0 h_nested.
Proof. vm_compute. repeat split. Qed.
